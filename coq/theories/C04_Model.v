(* C04: the machine-level models of the four caches, branch for branch.
   - gstep : cache.LRUCache (cache/lru.go) with int64 arithmetic on the running size field and the nil
             dereference of checkCapacity as a first-class outcome;
   - tstep : cache/tiny.LRUCache (cache/tiny/lru.go): entry count instead of sizes, updateInPlace without
             capacity check, SetAndGetRemoved on an existing key returns nil;
   - wide_step : WideLRUCache of both packages (cache/wlru.go, cache/tiny/wlru.go): capacity/shards+1 per
             shard, the shard chosen by the remap index of the key.
   No proofs in this file (it still evaluates when a proof breaks); proofs are in C04_Refine.v / C04_Wide.v. *)
From Coq Require Import ZArith List Lia Bool.
Require Import LRU Shard LRUOps.
Import ListNotations.
Open Scope Z_scope.

(* ---------------- int64 ---------------- *)
Definition P63 : Z := Eval vm_compute in 2 ^ 63.
Definition P64 : Z := Eval vm_compute in 2 ^ 64.
Definition wrap64 (x : Z) : Z := (x + P63) mod P64 - P63.
Definition MaxI64 : Z := Eval vm_compute in 2 ^ 63 - 1.
(* the bound under which no int64 operation of the cache can wrap: capacity <= B and every item size <= B *)
Definition B : Z := Eval vm_compute in 2 ^ 62 - 1.

(* ---------------- checkCapacity / checkCapacityAndGetRemoved ----------------
   for lru.size > lru.capacity { delElem := list.Back(); delValue := delElem.Value (entry)  <- nil dereference when the list is empty
       list.Remove(delElem); delete(table, key); lru.size -= delValue.size; lru.evictions++; removed = append(removed, value) }
   fuel = length + 1: each iteration removes one element, the last test runs on the empty list. *)
Fixpoint gcheck (fuel : nat) (l : list E) (size cap : Z) (removed : list E) : list E * Z * list E * bool :=
  match fuel with
  | O => (l, size, removed, false)
  | S f =>
    if cap <? size then
      match rev l with
      | [] => (l, size, removed, true)
      | last :: _ => gcheck f (removelast l) (wrap64 (size - snd last)) cap (removed ++ [last])
      end
    else (l, size, removed, false)
  end.

(* state after the loop, the evicted entries (least recently used first), panicked? *)
Definition gchk (l : list E) (sz cp ev : Z) : lru * list E * bool :=
  let '(l', s', removed, p) := gcheck (S (length l)) l sz cp [] in
  ({| lst := l'; size := s'; cap := cp; evs := ev + Z.of_nat (length removed) |}, removed, p).

(* outcome of a call: None = the call panicked *)
Definition gout := option res.
Definition fin (x : lru * list E * bool) (r : list E -> res) : lru * gout :=
  let '(c, rem, p) := x in (c, if p then None else Some (r rem)).

Definition front (c : lru) (e : E) (k : Z) : lru :=
  {| lst := e :: remove_key k (lst c); size := size c; cap := cap c; evs := evs c |}.

(* ---------------- cache.LRUCache ---------------- *)
(* updateInPlace[AndGetRemoved] / addNew[AndGetRemoved] *)
Definition gset_like (c : lru) (k v sz : Z) : lru * list E * bool :=
  match lookup k (lst c) with
  | Some e => gchk (touch k v sz (lst c)) (wrap64 (size c + wrap64 (sz - snd e))) (cap c) (evs c)
  | None => gchk (((k, v), sz) :: lst c) (wrap64 (size c + sz)) (cap c) (evs c)
  end.

Definition gstep (c : lru) (o : op) : lru * gout :=
  match o with
  | Get k => match lookup k (lst c) with
             | Some e => (front c e k, Some (RVal (Some (valof e))))
             | None => (c, Some (RVal None)) end
  | Peek k => (c, Some (RVal (option_map valof (lookup k (lst c)))))
  | Exist k => (c, Some (RBool (is_some (lookup k (lst c)))))
  | Set_ k v sz => fin (gset_like c k v sz) (fun _ => RUnit)
  | SetAndGetRemoved k v sz => fin (gset_like c k v sz) (fun rem => RList (map valof rem))
  | SetIfAbsent k v sz =>
      match lookup k (lst c) with
      | Some e => (front c e k, Some RUnit)
      | None => fin (gchk (((k, v), sz) :: lst c) (wrap64 (size c + sz)) (cap c) (evs c)) (fun _ => RUnit) end
  | Delete k => match lookup k (lst c) with
                | Some e => ({| lst := remove_key k (lst c); size := wrap64 (size c - snd e); cap := cap c; evs := evs c |}, Some (RBool true))
                | None => (c, Some (RBool false)) end
  | Clear => ({| lst := []; size := 0; cap := cap c; evs := evs c |}, Some RUnit)
  | SetCapacity cp => fin (gchk (lst c) (size c) cp (evs c)) (fun _ => RUnit)
  end.

(* ---------------- cache/tiny.LRUCache: every entry counts 1; the size argument of the operation is ignored ---------------- *)
Definition tupdate (c : lru) (k v : Z) : lru :=          (* updateInPlace: value replaced, MoveToFront, no capacity check *)
  {| lst := ((k, v), 1) :: remove_key k (lst c); size := size c; cap := cap c; evs := evs c |}.
Definition tadd (c : lru) (k v : Z) : lru * list E * bool :=   (* addNew[AndGetRemoved]: size++ then the loop *)
  gchk (((k, v), 1) :: lst c) (wrap64 (size c + 1)) (cap c) (evs c).

Definition tstep (c : lru) (o : op) : lru * gout :=
  match o with
  | Get k => match lookup k (lst c) with
             | Some e => (front c e k, Some (RVal (Some (valof e))))
             | None => (c, Some (RVal None)) end
  | Peek k => (c, Some (RVal (option_map valof (lookup k (lst c)))))
  | Exist k => (c, Some (RBool (is_some (lookup k (lst c)))))
  | Set_ k v _ => match lookup k (lst c) with
                  | Some _ => (tupdate c k v, Some RUnit)
                  | None => fin (tadd c k v) (fun _ => RUnit) end
  | SetAndGetRemoved k v _ => match lookup k (lst c) with
                  | Some _ => (tupdate c k v, Some (RList []))                      (* "return nil" *)
                  | None => fin (tadd c k v) (fun rem => RList (map valof rem)) end
  | SetIfAbsent k v _ => match lookup k (lst c) with
                  | Some e => (front c e k, Some RUnit)
                  | None => fin (tadd c k v) (fun _ => RUnit) end
  | Delete k => match lookup k (lst c) with
                | Some _ => ({| lst := remove_key k (lst c); size := wrap64 (size c - 1); cap := cap c; evs := evs c |}, Some (RBool true))
                | None => (c, Some (RBool false)) end
  | Clear => ({| lst := []; size := 0; cap := cap c; evs := evs c |}, Some RUnit)
  | SetCapacity cp => fin (gchk (lst c) (size c) cp (evs c)) (fun _ => RUnit)
  end.

(* the operation as the ideal unit-size cache sees it *)
Definition unit_op (o : op) : op :=
  match o with
  | Set_ k v _ => Set_ k v 1 | SetAndGetRemoved k v _ => SetAndGetRemoved k v 1 | SetIfAbsent k v _ => SetIfAbsent k v 1
  | _ => o end.

Inductive variant := VStd | VTiny.
Definition mstep (v : variant) : lru -> op -> lru * gout := match v with VStd => gstep | VTiny => tstep end.
(* what the ideal cache is asked to do for this variant *)
Definition norm (v : variant) (o : op) : op := match v with VStd => o | VTiny => unit_op o end.

(* ---------------- the wide caches ---------------- *)
Inductive wop := WGet (k : Z) | WPeek (k : Z) | WExist (k : Z) | WSet (k v sz : Z) | WDelete (k : Z).
Definition wkey (o : wop) : Z := match o with WGet k | WPeek k | WExist k | WSet k _ _ | WDelete k => k end.
Definition to_op (o : wop) : op :=
  match o with WGet k => Get k | WPeek k => Peek k | WExist k => Exist k | WSet k v sz => Set_ k v sz | WDelete k => Delete k end.

(* var pSize = capacity/int64(numbs) + 1 *)
Definition shard_cap (capacity n : Z) : Z := Z.quot capacity n + 1.
(* SimpleIndex on an int64 key: int(uint64(v) % numbs) *)
Definition route_simple (n : Z) (k : Z) : nat := Z.to_nat ((k mod P64) mod n).
(* any other routing (XHashIndex) as a finite table key -> shard; keys outside the table go to shard 0 *)
Definition route_tab (tab : list (Z * nat)) (k : Z) : nat :=
  match find (fun p => fst p =? k) tab with Some p => snd p | None => O end.

Definition wstate := nat -> lru.
Definition wide_init (capacity n : Z) : wstate := fun _ => new_lru (shard_cap capacity n).
Definition wide_step (v : variant) (route : Z -> nat) (sh : wstate) (o : wop) : wstate * gout :=
  sh_step Z lru wop gout wkey (fun s o => mstep v s (to_op o)) route sh o.

(* ---------------- what the accessors return ---------------- *)
Definition keys_of (c : lru) : list Z := map keyof (lst c).                       (* Keys() *)
Definition items_of (c : lru) : list (Z * Z) := map fst (lst c).                  (* Items() *)
Definition stats_of (c : lru) : Z * Z * Z * Z := (Z.of_nat (length (lst c)), size c, cap c, evs c).   (* Stats() *)
(* the same for the ideal cache: entries most recently used first, Length, summed size, capacity, evictions *)
Definition ilist (s : istate) : list E := fst (fst s).
Definition ikeys (s : istate) : list Z := map keyof (ilist s).
Definition iitems (s : istate) : list (Z * Z) := map fst (ilist s).
Definition istats (s : istate) : Z * Z * Z * Z :=
  (Z.of_nat (length (ilist s)), total (ilist s), snd (fst s), snd s).

(* ---------------- the ideal wide cache: one ideal LRU of capacity capacity/shards+1 per shard ---------------- *)
Definition new_istate (cp : Z) : istate := ([], cp, 0).
Definition iwstate := nat -> istate.
Definition iwide_init (capacity n : Z) : iwstate := fun _ => new_istate (shard_cap capacity n).
Definition iwide_step (v : variant) (route : Z -> nat) (ish : iwstate) (o : wop) : iwstate * res :=
  sh_step Z istate wop res wkey (fun s o => istep s (norm v (to_op o))) route ish o.
