(* C05: the property as a monitor over observed histories, and the proof that the model satisfies it on every history.

   The monitor is an ideal (unbounded) TTL map that knows nothing of the cache's list: per key the value of the latest
   successful Set and the deadline(s) that Set / update-ttl / keep-ttl can have left, plus the order in which keys were
   last touched.  It reads one observed step (clock, operation, reported result) at a time and rejects when
     - a Get succeeds although the key was never set / was removed / cleared / consumed / its ttl has elapsed,
       or returns another value than the latest Set's;
     - a set-if-absent reports already-exists for a key that is absent or whose ttl has elapsed;
     - a Get misses, or a set-if-absent succeeds, on a key that is set, whose ttl has not elapsed and which was touched
       more recently than `size` other distinct keys (eviction is the only excuse, and only for a key that cold);
     - Remove / Clear / Set report anything but success.
   A keep-ttl Set on a key that may have been evicted unobserved leaves two candidate deadlines (the kept one, the fresh
   one); later observations prune them. *)
From Coq Require Import ZArith List Lia Bool.
Require Import TTL TTLView C05_Hist.
Import ListNotations.
Open Scope Z_scope.

(* ---------- the monitor ---------- *)
Record ient := { ik : Z; iv : Z; ids : list Z }.
Record mon := { ents : list ient; rcy : list Z }.      (* rcy: every key ever touched, most recently touched first *)

Definition ideadline (ttl now : Z) : Z := if ttl <=? 0 then MAXI else now + ttl.     (* ttl <= 0: never *)

Definition ifind (k : Z) (es : list ient) : option ient := find (fun e => ik e =? k) es.
Definition ierase (k : Z) (es : list ient) : list ient := filter (fun e => negb (ik e =? k)) es.
Definition iput (e : ient) (es : list ient) : list ient := e :: ierase (ik e) es.
Fixpoint index (k : Z) (r : list Z) : nat := match r with [] => O | x :: r' => if x =? k then O else S (index k r') end.
Definition touch (k : Z) (r : list Z) : list Z := k :: filter (nek k) r.

(* k may have been evicted: at least `size` other distinct keys were touched after k's last touch *)
Definition cold (sz k : Z) (r : list Z) : bool := sz <=? Z.of_nat (index k r).
Definition some_live (now : Z) (ds : list Z) : bool := existsb (fun d => now <=? d) ds.
Definition some_dead (now : Z) (ds : list Z) : bool := existsb (fun d => d <? now) ds.
Definition prune (now : Z) (ds : list Z) : list Z := filter (fun d => now <=? d) ds.

Definition may_be_absent (sz : Z) (m : mon) (k now : Z) : bool :=
  match ifind k (ents m) with None => true | Some e => some_dead now (ids e) || cold sz k (rcy m) end.

Definition mstep (sz dt : Z) (m : mon) (now : Z) (o : op) (r : res) : option mon :=
  match o with
  | OSet k v so =>
      let d := ideadline (match s_ttl so with Some t => t | None => dt end) now in
      match r with
      | Done =>
          let ds := if mne so then (if may_be_absent sz m k now then Some [d] else None)
                    else if keep so then
                      match ifind k (ents m) with
                      | None => Some [d]
                      | Some e => Some (prune now (ids e) ++ (if may_be_absent sz m k now then [d] else []))
                      end
                    else Some [d] in
          match ds with
          | Some ds => Some {| ents := iput {| ik := k; iv := v; ids := ds |} (ents m); rcy := touch k (rcy m) |}
          | None => None
          end
      | Exists =>
          if mne so then
            match ifind k (ents m) with
            | Some e => if some_live now (ids e)
                        then Some {| ents := iput {| ik := k; iv := iv e; ids := prune now (ids e) |} (ents m); rcy := rcy m |}
                        else None
            | None => None
            end
          else None
      | _ => None
      end
  | OGet k go =>
      match r with
      | Ok v' =>
          match ifind k (ents m) with
          | Some e =>
              if (iv e =? v') && some_live now (ids e) then
                Some (if rag go then {| ents := ierase k (ents m); rcy := rcy m |}
                      else {| ents := iput {| ik := k; iv := iv e;
                                              ids := match upd go with
                                                     | Some t => [ideadline (if t =? 0 then dt else t) now]
                                                     | None => prune now (ids e) end |} (ents m);
                              rcy := touch k (rcy m) |})
              else None
          | None => None
          end
      | NotFound => if may_be_absent sz m k now then Some {| ents := ierase k (ents m); rcy := rcy m |} else None
      | _ => None
      end
  | ORemove k => match r with Done => Some {| ents := ierase k (ents m); rcy := rcy m |} | _ => None end
  | OClear => match r with Done => Some {| ents := []; rcy := rcy m |} | _ => None end
  end.

Definition mon0 : mon := {| ents := []; rcy := [] |}.

(* the monitor's state after a whole observed history; None = some step was rejected *)
Fixpoint mfinal (sz dt : Z) (m : mon) (t : list (Z * op * res)) : option mon :=
  match t with
  | [] => Some m
  | (now, o, r) :: t' => match mstep sz dt m now o r with Some m' => mfinal sz dt m' t' | None => None end
  end.
Definition mrun (sz dt : Z) (m : mon) (t : list (Z * op * res)) : bool :=
  match mfinal sz dt m t with Some _ => true | None => false end.

(* the int64 domain: clock readings are int64 values and now + ttl does not overflow *)
Definition fitsb (ttl now : Z) : bool := (- 2 ^ 63 <=? now) && (now <=? MAXI) && ((ttl <=? 0) || (now + ttl <=? MAXI)).
Definition op_dom (dt now : Z) (o : op) : bool :=
  match o with
  | OSet _ _ so => fitsb (match s_ttl so with Some t => t | None => dt end) now
  | OGet _ go => match upd go with Some t => fitsb (if t =? 0 then dt else t) now | None => fitsb 0 now end
  | _ => fitsb 0 now
  end.

Lemma fitsb_fits ttl now : fitsb ttl now = true -> fits ttl now.
Proof.
  unfold fitsb, fits. intros H. apply andb_prop in H as [H H3]. apply andb_prop in H as [H1 H2].
  apply Z.leb_le in H1, H2. split; [lia|]. intros Hp. apply orb_prop in H3 as [H3|H3]; apply Z.leb_le in H3; lia.
Qed.
Lemma ideadline_deadline ttl now : fitsb ttl now = true -> deadline ttl now = ideadline ttl now.
Proof. intros H. apply fitsb_fits in H. now rewrite deadline_fits. Qed.

(* ---------- order-preserving sublists ---------- *)
Inductive subl {A} : list A -> list A -> Prop :=
| subl_nil b : subl [] b
| subl_cons x a b : subl a b -> subl (x :: a) (x :: b)
| subl_skip x a b : subl a b -> subl a (x :: b).

Lemma subl_in {A} (a b : list A) x : subl a b -> In x a -> In x b.
Proof. induction 1 as [b|y a b H IH|y a b H IH]; cbn [In]; [tauto|intros [E|Hin]; [now left|right; now apply IH]|intros Hin; right; now apply IH]. Qed.

Lemma subl_filter {A} (f : A -> bool) a b : subl a b -> subl (filter f a) (filter f b).
Proof.
  induction 1 as [b|y a b H IH|y a b H IH]; cbn [filter]; [constructor| |].
  - destruct (f y); [now constructor|exact IH].
  - destruct (f y); [now constructor|exact IH].
Qed.

Lemma subl_filter_l {A} (f : A -> bool) a b : subl a b -> subl (filter f a) b.
Proof.
  induction 1 as [b|y a b H IH|y a b H IH]; cbn [filter]; [constructor| |now constructor].
  destruct (f y); now constructor.
Qed.

Lemma subl_removelast {A} (a b : list A) : subl a b -> subl (removelast a) b.
Proof.
  induction 1 as [b|y a b H IH|y a b H IH]; [constructor| |now constructor].
  destruct a as [|z a']; [constructor|]. change (removelast (y :: z :: a')) with (y :: removelast (z :: a')). now constructor.
Qed.

Lemma index_subl (a b : list Z) k : subl a b -> NoDup b -> In k a -> (index k a <= index k b)%nat.
Proof.
  induction 1 as [b|y a b H IH|y a b H IH]; intros Hnd Hin; cbn [index].
  - destruct Hin.
  - inversion Hnd; subst. destruct (y =? k) eqn:E; [lia|]. destruct Hin as [E'|Hin]; [subst; rewrite Z.eqb_refl in E; discriminate|].
    specialize (IH H3 Hin). lia.
  - inversion Hnd; subst. destruct (y =? k) eqn:E.
    + apply Z.eqb_eq in E. subst. exfalso. apply H2. now apply (subl_in a b).
    + specialize (IH H3 Hin). lia.
Qed.

Lemma filter_nek_absent k r : ~ In k r -> filter (nek k) r = r.
Proof.
  induction r as [|x r IH]; [reflexivity|]. cbn [In filter]. intros H. unfold nek at 1.
  destruct (x =? k) eqn:E; [apply Z.eqb_eq in E; tauto|]. cbn [negb]. f_equal. apply IH. tauto.
Qed.

(* touching another key never moves k towards the front *)
Lemma index_touch_other k k' r : NoDup r -> k <> k' -> (index k r <= index k (touch k' r))%nat.
Proof.
  intros Hnd Hne. unfold touch. cbn [index]. replace (k' =? k) with false by (symmetry; apply Z.eqb_neq; lia).
  induction r as [|x r IH]; [cbn; lia|]. inversion Hnd; subst. cbn [index filter]. destruct (x =? k) eqn:E; [lia|].
  unfold nek at 1. destruct (x =? k') eqn:E'.
  - cbn [negb]. apply Z.eqb_eq in E'. subst. rewrite filter_nek_absent by exact H1. lia.
  - cbn [negb index]. rewrite E. specialize (IH H2). lia.
Qed.

Lemma NoDup_touch k r : NoDup r -> NoDup (touch k r).
Proof.
  intros H. unfold touch. constructor; [|now apply NoDup_filter].
  intros Hin. apply filter_In in Hin as [_ Hin]. unfold nek in Hin. rewrite Z.eqb_refl in Hin. discriminate.
Qed.

Lemma In_removelast_or (a : list Z) x : NoDup a -> In x a -> In x (removelast a) \/ index x a = pred (length a).
Proof.
  induction a as [|y a IH]; [intros _ []|]. intros Hnd Hin. inversion Hnd; subst.
  destruct a as [|z a'].
  - right. destruct Hin as [->|[]]. cbn. now rewrite Z.eqb_refl.
  - change (removelast (y :: z :: a')) with (y :: removelast (z :: a')).
    destruct Hin as [->|Hin]; [left; now left|].
    destruct (IH H2 Hin) as [H|H]; [left; now right|]. right.
    change (index x (y :: z :: a')) with (if y =? x then O else S (index x (z :: a'))).
    destruct (y =? x) eqn:E; [apply Z.eqb_eq in E; subst; tauto|]. rewrite H. reflexivity.
Qed.

(* ---------- the ideal map's index ---------- *)
Lemma ifind_key k es e : ifind k es = Some e -> ik e = k.
Proof. unfold ifind. intros H. apply find_some in H as [_ H]. now apply Z.eqb_eq. Qed.
Lemma ifind_ierase_same k es : ifind k (ierase k es) = None.
Proof. unfold ifind, ierase. induction es as [|e r IH]; [reflexivity|]. cbn [filter]. destruct (ik e =? k) eqn:E; cbn [negb find]; [exact IH|now rewrite E]. Qed.
Lemma ifind_ierase_other k k' es : k' <> k -> ifind k' (ierase k es) = ifind k' es.
Proof.
  intros Hne. unfold ifind, ierase. induction es as [|e r IH]; [reflexivity|]. cbn [filter find].
  destruct (ik e =? k) eqn:E; cbn [negb find].
  - apply Z.eqb_eq in E. replace (ik e =? k') with false by (symmetry; apply Z.eqb_neq; lia). exact IH.
  - destruct (ik e =? k'); [reflexivity|exact IH].
Qed.
Lemma ifind_iput_same e es : ifind (ik e) (iput e es) = Some e.
Proof. unfold ifind, iput. cbn [find]. now rewrite Z.eqb_refl. Qed.
Lemma ifind_iput_other e es k : k <> ik e -> ifind k (iput e es) = ifind k es.
Proof.
  intros Hne. unfold iput. change (ifind k (e :: ierase (ik e) es)) with (if ik e =? k then Some e else ifind k (ierase (ik e) es)).
  replace (ik e =? k) with false by (symmetry; apply Z.eqb_neq; lia). now apply ifind_ierase_other.
Qed.

Lemma some_live_in now ds d : In d ds -> now <= d -> some_live now ds = true.
Proof. intros Hin Hd. unfold some_live. apply existsb_exists. exists d. split; [exact Hin|now apply Z.leb_le]. Qed.
Lemma some_dead_in now ds d : In d ds -> d < now -> some_dead now ds = true.
Proof. intros Hin Hd. unfold some_dead. apply existsb_exists. exists d. split; [exact Hin|now apply Z.ltb_lt]. Qed.
Lemma prune_in now ds d : In d ds -> now <= d -> In d (prune now ds).
Proof. intros Hin Hd. unfold prune. apply filter_In. split; [exact Hin|now apply Z.leb_le]. Qed.

(* ---------- the simulation ---------- *)
Definition sim (c : cache) (m : mon) : Prop :=
  wf c /\
  (forall n, In n (l c) -> exists e, ifind (key n) (ents m) = Some e /\ iv e = val n /\ In (dl n) (ids e)) /\
  subl (keys (l c)) (rcy m) /\
  NoDup (rcy m) /\
  (forall k e, ifind k (ents m) = Some e -> In k (keys (l c)) \/ size c <= Z.of_nat (index k (rcy m))).

Lemma sim0 sz dt : sim (empty sz dt) mon0.
Proof.
  split; [apply wf_empty|]. split; [intros n []|]. split; [constructor|]. split; [constructor|]. intros k e H. discriminate.
Qed.

Lemma find_k_unique l0 n : NoDup (keys l0) -> In n l0 -> find_k (key n) l0 = Some n.
Proof.
  unfold keys, find_k. induction l0 as [|m r IH]; [intros _ []|]. cbn [map find In]. intros Hnd Hin. inversion Hnd; subst.
  destruct Hin as [->|Hin]; [now rewrite Z.eqb_refl|].
  destruct (key m =? key n) eqn:E; [|now apply IH].
  apply Z.eqb_eq in E. exfalso. apply H1. rewrite E. now apply in_map.
Qed.

Lemma sim_erase c m k : sim c m -> sim (without c k) {| ents := ierase k (ents m); rcy := rcy m |}.
Proof.
  intros (Hwf & H2 & H3 & H4 & H5). split; [now apply wf_erase|]. cbn [without l size ents rcy].
  split; [|split; [|split]].
  - intros n Hn. apply In_erase in Hn as [Hn Hk]. destruct (H2 n Hn) as (e & He & Hv & Hd). exists e.
    rewrite ifind_ierase_other by exact Hk. now repeat split.
  - rewrite keys_erase. now apply subl_filter_l.
  - exact H4.
  - intros k' e He. destruct (Z.eq_dec k' k) as [->|Hne]; [rewrite ifind_ierase_same in He; discriminate|].
    rewrite ifind_ierase_other in He by exact Hne. destruct (H5 k' e He) as [Hin|Hc]; [left|now right].
    apply In_keys_erase. now split.
Qed.

Lemma sim_erase_absent c m k : sim c m -> find_k k (l c) = None -> sim c {| ents := ierase k (ents m); rcy := rcy m |}.
Proof.
  intros Hs Hf. pose proof (sim_erase c m k Hs) as H. unfold without in H.
  rewrite (erase_absent k (l c)) in H by now apply find_k_none. destruct c; exact H.
Qed.

Lemma sim_clear c m : sim c m -> sim (clear c) {| ents := []; rcy := rcy m |}.
Proof.
  intros (Hwf & H2 & H3 & H4 & H5). split; [|split; [|split; [|split]]]; cbn [clear l size ents rcy].
  - split; cbn [clear l size keys map length]; [constructor|lia].
  - intros n [].
  - constructor.
  - exact H4.
  - intros k e He. discriminate.
Qed.

Lemma sim_same c m k n e : sim c m -> find_k k (l c) = Some n -> ik e = k -> iv e = val n -> In (dl n) (ids e) ->
  sim c {| ents := iput e (ents m); rcy := rcy m |}.
Proof.
  intros (Hwf & H2 & H3 & H4 & H5) Hf Hk Hv Hd. split; [exact Hwf|]. cbn [ents rcy]. split; [|split; [|split]]; auto.
  - intros n' Hn'. destruct (Z.eq_dec (key n') k) as [E|Hne].
    + assert (n' = n). { destruct Hwf as [Hnd _]. pose proof (find_k_unique (l c) n' Hnd Hn') as Hu. rewrite E in Hu. congruence. }
      subst n'. exists e. rewrite E, <- Hk. rewrite ifind_iput_same. now repeat split.
    + rewrite ifind_iput_other by congruence. now apply H2.
  - intros k' e' He'. destruct (Z.eq_dec k' k) as [->|Hne].
    + left. apply In_keys_find. now exists n.
    + rewrite ifind_iput_other in He' by congruence. now apply (H5 k' e').
Qed.

Lemma sim_put c m k x e : sim c m -> key x = k -> ik e = k -> iv e = val x -> In (dl x) (ids e) ->
  sim {| size := size c; dttl := dttl c; l := trim (size c) (x :: erase k (l c)) |}
      {| ents := iput e (ents m); rcy := touch k (rcy m) |}.
Proof.
  intros (Hwf & H2 & H3 & H4 & H5) Hkx Hke Hv Hd. pose proof Hwf as [Hnd Hb].
  assert (Hnd1 : NoDup (keys (x :: erase k (l c)))).
  { cbn [keys map]. rewrite Hkx. constructor; [apply not_in_keys_erase|now apply NoDup_keys_erase]. }
  assert (Hs1 : subl (keys (x :: erase k (l c))) (touch k (rcy m))).
  { cbn [keys map]. rewrite Hkx. unfold touch. constructor. fold (keys (erase k (l c))). rewrite keys_erase. now apply subl_filter. }
  assert (Hin1 : forall n, In n (trim (size c) (x :: erase k (l c))) -> In n (x :: erase k (l c))).
  { intros n. unfold trim. destruct (size c <? _); [apply In_removelast|auto]. }
  split; [now apply wf_trim|]. cbn [l size ents rcy]. split; [|split; [|split]].
  - intros n Hn. apply Hin1 in Hn. destruct Hn as [<-|Hn].
    + exists e. rewrite Hkx, <- Hke. rewrite ifind_iput_same. now repeat split.
    + apply In_erase in Hn as [Hn Hk]. rewrite ifind_iput_other by congruence. now apply H2.
  - unfold trim. destruct (size c <? _); [|exact Hs1]. rewrite keys_removelast. now apply subl_removelast.
  - now apply NoDup_touch.
  - (* every key of the untrimmed list is still present, or it was the last and is cold *)
    assert (Hkey : forall k', In k' (keys (x :: erase k (l c))) ->
              In k' (keys (trim (size c) (x :: erase k (l c)))) \/ size c <= Z.of_nat (index k' (touch k (rcy m)))).
    { intros k' Hk'. unfold trim. destruct (size c <? Z.of_nat (length (x :: erase k (l c)))) eqn:E; [|now left].
      apply Z.ltb_lt in E. rewrite keys_removelast.
      destruct (In_removelast_or _ k' Hnd1 Hk') as [Hl|Hl]; [now left|right].
      pose proof (index_subl _ _ k' Hs1 (NoDup_touch k _ H4) Hk') as Hi. rewrite Hl in Hi.
      unfold keys in Hi. rewrite map_length in Hi. cbn [length] in *. lia. }
    intros k' e' He'. destruct (Z.eq_dec k' k) as [->|Hne].
    + apply Hkey. cbn [keys map]. left. exact Hkx.
    + rewrite ifind_iput_other in He' by congruence. destruct (H5 k' e' He') as [Hin|Hc].
      * apply Hkey. cbn [keys map]. right. fold (keys (erase k (l c))). apply In_keys_erase. now split.
      * right. pose proof (index_touch_other k' k (rcy m) H4 Hne). lia.
Qed.

(* a key the model does not hold live is one the monitor allows to be absent *)
Lemma may_be_absent_true c m k now : sim c m ->
  (find_k k (l c) = None \/ exists n, find_k k (l c) = Some n /\ dl n < now) -> may_be_absent (size c) m k now = true.
Proof.
  intros (Hwf & H2 & H3 & H4 & H5) H. unfold may_be_absent. destruct (ifind k (ents m)) as [e|] eqn:He; [|reflexivity].
  destruct H as [Hf|(n & Hf & Hd)].
  - destruct (H5 k e He) as [Hin|Hc].
    + exfalso. now apply (find_k_none k (l c) Hf).
    + unfold cold. apply orb_true_iff. right. now apply Z.leb_le.
  - apply find_k_key in Hf as [Hk Hin]. destruct (H2 n Hin) as (e' & He' & _ & Hd'). rewrite Hk in He'.
    assert (e' = e) by congruence. subst e'. apply orb_true_iff. left. now apply (some_dead_in now (ids e) (dl n)).
Qed.

Lemma sim_entry c m k n : sim c m -> find_k k (l c) = Some n ->
  exists e, ifind k (ents m) = Some e /\ iv e = val n /\ In (dl n) (ids e).
Proof.
  intros (Hwf & H2 & _) Hf. apply find_k_key in Hf as [Hk Hin]. destruct (H2 n Hin) as (e & He & Hv & Hd). rewrite Hk in He. now exists e.
Qed.

(* one step: the monitor accepts what the model reports, and the simulation is kept *)
Theorem step_sim c m now o : sim c m -> op_dom (dttl c) now o = true ->
  exists m', mstep (size c) (dttl c) m now o (snd (step c now o)) = Some m' /\ sim (fst (step c now o)) m'.
Proof.
  intros Hs Hdom. pose proof Hs as (Hwf & _).
  destruct o as [k v so|k go|k|]; cbn [step mstep op_dom] in *.
  - (* Set *)
    fold (set_ttl c so) in *. rewrite <- (ideadline_deadline _ _ Hdom).
    destruct (set_cases c k v so now Hwf) as [(n & Hf & Hl & Hm & ->)|[(n & Hf & Hl & Hm & ->)|(Hf & ->)]]; cbn [fst snd].
    + (* already exists *)
      rewrite Hm. destruct (sim_entry c m k n Hs Hf) as (e & He & Hv & Hd). rewrite He.
      rewrite (some_live_in now (ids e) (dl n) Hd Hl). eexists. split; [reflexivity|].
      apply (sim_same c m k n); auto. cbn [ids]. now apply prune_in.
    + (* overwrite of a live entry *)
      rewrite Hm. destruct (sim_entry c m k n Hs Hf) as (e & He & Hv & Hd). rewrite He.
      destruct (keep so) eqn:Ek; (eexists; split; [reflexivity|]); apply (sim_put c m k); auto; cbn [ids dl].
      * apply in_or_app. left. now apply prune_in.
      * now left.
    + (* absent or expired: a fresh entry *)
      rewrite (may_be_absent_true c m k now Hs Hf).
      destruct (mne so); [eexists; split; [reflexivity|]; apply (sim_put c m k); auto; cbn [ids dl]; now left|].
      destruct (keep so); [|eexists; split; [reflexivity|]; apply (sim_put c m k); auto; cbn [ids dl]; now left].
      destruct (ifind k (ents m)) as [e|]; (eexists; split; [reflexivity|]); apply (sim_put c m k); auto; cbn [ids dl].
      * apply in_or_app. right. now left.
      * now left.
  - (* Get *)
    destruct (get_cases c k go now Hwf) as [(Hf & ->)|[(n & Hf & Hd & ->)|[(n & Hf & Hl & Hr & ->)|(n & Hf & Hl & Hr & ->)]]]; cbn [fst snd].
    + rewrite (may_be_absent_true c m k now Hs (or_introl Hf)). eexists. split; [reflexivity|]. now apply sim_erase_absent.
    + rewrite (may_be_absent_true c m k now Hs); [|right; now exists n]. eexists. split; [reflexivity|]. now apply sim_erase.
    + destruct (sim_entry c m k n Hs Hf) as (e & He & Hv & Hd). rewrite He, Hv, Z.eqb_refl, (some_live_in now (ids e) (dl n) Hd Hl), Hr.
      eexists. split; [reflexivity|]. now apply sim_erase.
    + destruct (sim_entry c m k n Hs Hf) as (e & He & Hv & Hd). rewrite He, Hv, Z.eqb_refl, (some_live_in now (ids e) (dl n) Hd Hl), Hr.
      eexists. split; [reflexivity|]. apply (sim_put c m k); auto; cbn [ids dl iv].
      destruct (upd go) as [t|]; [|now apply prune_in].
      unfold upd_ttl. rewrite (ideadline_deadline _ _ Hdom). now left.
  - eexists. split; [reflexivity|]. now apply sim_erase.
  - eexists. split; [reflexivity|]. now apply sim_clear.
Qed.

(* ---------- whole histories ---------- *)
Definition dom_all (dt : Z) (t : list (Z * op * res)) : bool := forallb (fun s => op_dom dt (fst (fst s)) (snd (fst s))) t.
Definition hist_of (t : list (Z * op * res)) : list (Z * op) := map fst t.
Definition obs_of (t : list (Z * op * res)) : list res := map snd t.

Lemma run_sim_final t : forall c m, sim c m -> dom_all (dttl c) t = true -> snd (run c (hist_of t)) = obs_of t ->
  exists m', mfinal (size c) (dttl c) m t = Some m' /\ sim (fst (run c (hist_of t))) m'.
Proof.
  induction t as [|[[now o] r] t IH]; intros c m Hs Hd Ho; cbn [mfinal hist_of obs_of map run fst snd] in *.
  - now exists m.
  - apply andb_prop in Hd as [Hd1 Hd2]. cbn [fst snd] in Hd1.
    destruct (step_sim c m now o Hs Hd1) as (m' & Hm & Hs'). pose proof (step_cfg c now o) as [Hsz Hdt].
    destruct (step c now o) as [c1 r1]. cbn [fst snd] in *.
    fold (hist_of t) in *. fold (obs_of t) in *. destruct (run c1 (hist_of t)) as [c2 rs] eqn:Er. cbn [snd fst] in *.
    injection Ho as Hr Hrs. subst r1. rewrite Hm.
    specialize (IH c1 m' Hs'). rewrite Er in IH. cbn [fst snd] in IH. rewrite Hsz, Hdt in IH. now apply IH.
Qed.

Lemma run_sim t c m : sim c m -> dom_all (dttl c) t = true -> snd (run c (hist_of t)) = obs_of t ->
  mrun (size c) (dttl c) m t = true /\ exists m', sim (fst (run c (hist_of t))) m'.
Proof.
  intros Hs Hd Ho. destruct (run_sim_final t c m Hs Hd Ho) as (m' & Hm & Hs'). unfold mrun. rewrite Hm. split; [reflexivity|now exists m'].
Qed.

(* the model's own trace of any in-domain history satisfies the monitor *)
Definition trace_of (c : cache) (h : list (Z * op)) : list (Z * op * res) := combine h (snd (run c h)).

Lemma run_length h : forall c, length (snd (run c h)) = length h.
Proof.
  induction h as [|[now o] h IH]; intros c; cbn [run]; [reflexivity|].
  destruct (step c now o) as [c1 r]. specialize (IH c1). destruct (run c1 h) as [c2 rs]. cbn [snd length] in *. now rewrite IH.
Qed.
Lemma hist_of_trace c h : hist_of (trace_of c h) = h.
Proof.
  unfold hist_of, trace_of. pose proof (run_length h c) as Hl. revert Hl. generalize (snd (run c h)) as rs.
  induction h as [|x h IH]; intros rs Hl; [reflexivity|]. destruct rs as [|r rs]; [discriminate|]. cbn [combine map fst]. f_equal. apply IH. now injection Hl.
Qed.
Lemma obs_of_trace c h : obs_of (trace_of c h) = snd (run c h).
Proof.
  unfold obs_of, trace_of. pose proof (run_length h c) as Hl. revert Hl. generalize (snd (run c h)) as rs.
  induction h as [|x h IH]; intros rs Hl; [destruct rs; [reflexivity|discriminate]|]. destruct rs as [|r rs]; [discriminate|]. cbn [combine map snd]. f_equal. apply IH. now injection Hl.
Qed.

Theorem model_satisfies_monitor sz dt h : dom_all dt (trace_of (empty sz dt) h) = true ->
  mrun sz dt mon0 (trace_of (empty sz dt) h) = true.
Proof.
  intros Hd. apply (run_sim (trace_of (empty sz dt) h) (empty sz dt) mon0 (sim0 sz dt) Hd).
  now rewrite hist_of_trace, obs_of_trace.
Qed.

(* the LRU guarantee over histories: a key the ideal map still holds (set, not removed / cleared / consumed since, no
   observed miss) and that was touched more recently than `size` other distinct keys is still in the cache, with the
   value of its latest Set and one of the deadlines the specification allows *)
Theorem lru_guarantee sz dt h m k e : dom_all dt (trace_of (empty sz dt) h) = true ->
  mfinal sz dt mon0 (trace_of (empty sz dt) h) = Some m ->
  ifind k (ents m) = Some e -> Z.of_nat (index k (rcy m)) < sz ->
  exists n, find_k k (l (fst (run (empty sz dt) h))) = Some n /\ val n = iv e /\ In (dl n) (ids e).
Proof.
  intros Hd Hm He Hi.
  destruct (run_sim_final (trace_of (empty sz dt) h) (empty sz dt) mon0 (sim0 sz dt) Hd) as (m' & Hm' & Hs).
  { now rewrite hist_of_trace, obs_of_trace. }
  cbn [empty size dttl] in Hm'. rewrite Hm in Hm'. injection Hm' as <-. rewrite hist_of_trace in Hs.
  pose proof (run_wf h (empty sz dt) (wf_empty sz dt)) as (_ & Hsz & _). cbn [empty size] in Hsz.
  destruct Hs as (Hwf & H2 & _ & _ & H5). destruct (H5 k e He) as [Hin|Hc]; [|lia].
  apply In_keys_find in Hin as [n Hn]. exists n. split; [exact Hn|].
  apply find_k_key in Hn as [Hk Hin]. destruct (H2 n Hin) as (e' & He' & Hv & Hdl). rewrite Hk in He'.
  assert (e' = e) by congruence. subst e'. now split.
Qed.
