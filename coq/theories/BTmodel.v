From Coq Require Import ZArith List Lia Bool.
Import ListNotations.
Open Scope Z_scope.

Inductive node := Node (items : list Z) (children : list node).
Definition items_of n := match n with Node i _ => i end.
Definition children_of n := match n with Node _ c => c end.
Definition dnode := Node [] [].

Inductive op := Ins (k : Z) | Del (k : Z) | DelMin | DelMax.
Inductive rm := RmItem (k : Z) | RmMin | RmMax.

Fixpoint find_ix (l : list Z) (k : Z) (i : nat) : (nat * bool)%type :=
  match l with
  | [] => (i, false)
  | x :: r => if k <? x then (i, false) else if k =? x then (i, true) else find_ix r k (S i)
  end.
Definition find l k := find_ix l k 0.

Definition insert_at {A} (l : list A) (i : nat) (x : A) := firstn i l ++ x :: skipn i l.
Definition set_at {A} (l : list A) (i : nat) (x : A) := firstn i l ++ x :: skipn (S i) l.
Definition remove_at {A} (l : list A) (i : nat) := firstn i l ++ skipn (S i) l.
Definition nth_node (l : list node) i := nth i l dnode.
Definition is_nil {A} (l : list A) := match l with [] => true | _ => false end.

Definition split (n : node) (i : nat) : (Z * node * node)%type :=
  let its := items_of n in let ch := children_of n in
  (nth i its 0,
   Node (firstn i its) (if is_nil ch then [] else firstn (S i) ch),
   Node (skipn (S i) its) (if is_nil ch then [] else skipn (S i) ch)).

Fixpoint insert (fuel : nat) (maxI : nat) (n : node) (k : Z) : option (node * bool)%type :=
  match fuel with O => None | S f =>
  let its := items_of n in let ch := children_of n in
  let '(i, found) := find its k in
  if found then Some (Node (set_at its i k) ch, true) else
  if is_nil ch then Some (Node (insert_at its i k) [], false) else
    let c := nth_node ch i in
    if Nat.ltb (length (items_of c)) maxI then
      match insert f maxI c k with Some (c', r) => Some (Node its (set_at ch i c'), r) | None => None end
    else
      let '(mid, c1, c2) := split c (Nat.div maxI 2) in
      let its' := insert_at its i mid in
      let ch' := insert_at (set_at ch i c1) (S i) c2 in
      if k <? mid then
        match insert f maxI c1 k with Some (c', r) => Some (Node its' (set_at ch' i c'), r) | None => None end
      else if mid <? k then
        match insert f maxI c2 k with Some (c', r) => Some (Node its' (set_at ch' (S i) c'), r) | None => None end
      else Some (Node (set_at its' i k) ch', true)
  end.

Definition FUEL := 64%nat.

Definition tree_insert (deg : nat) (root : option node) (k : Z) : option node :=
  let maxI := (2 * deg - 1)%nat in
  match root with
  | None => Some (Node [k] [])
  | Some r =>
    let r' := if Nat.leb maxI (length (items_of r))
              then let '(mid, a, b) := split r (Nat.div maxI 2) in Node [mid] [a; b] else r in
    option_map fst (insert FUEL maxI r' k)
  end.

(* growChildAndRemove's restructuring of node n around child i *)
Definition grow (minI : nat) (n : node) (i : nat) : node :=
  let its := items_of n in let ch := children_of n in
  let child := nth_node ch i in
  if (Nat.ltb 0 i) && (Nat.ltb minI (length (items_of (nth_node ch (i - 1))))) then
    let left := nth_node ch (i - 1) in
    let stolen := last (items_of left) 0 in
    let left' := Node (removelast (items_of left)) (removelast (children_of left)) in
    let child' := Node (nth (i - 1) its 0 :: items_of child)
                       (if is_nil (children_of left) then children_of child
                        else last (children_of left) dnode :: children_of child) in
    Node (set_at its (i - 1) stolen) (set_at (set_at ch (i - 1) left') i child')
  else if (Nat.ltb i (length its)) && (Nat.ltb minI (length (items_of (nth_node ch (S i))))) then
    let right := nth_node ch (S i) in
    let stolen := hd 0 (items_of right) in
    let right' := Node (tl (items_of right)) (tl (children_of right)) in
    let child' := Node (items_of child ++ [nth i its 0])
                       (if is_nil (children_of right) then children_of child
                        else children_of child ++ [hd dnode (children_of right)]) in
    Node (set_at its i stolen) (set_at (set_at ch i child') (S i) right')
  else
    let i' := if Nat.leb (length its) i then (i - 1)%nat else i in
    let c := nth_node ch i' in
    let m := nth_node ch (S i') in
    let c' := Node (items_of c ++ nth i' its 0 :: items_of m) (children_of c ++ children_of m) in
    Node (remove_at its i') (remove_at (set_at ch i' c') (S i')).

Fixpoint remove (fuel : nat) (minI : nat) (n : node) (t : rm) : option (node * option Z)%type :=
  match fuel with O => None | S f =>
  let its := items_of n in let ch := children_of n in
  let leaf := is_nil ch in
  let '(i, found, leafres) :=
    match t with
    | RmMax => (length its, false, Some (Node (removelast its) [], Some (last its 0)))
    | RmMin => (O, false, Some (Node (tl its) [], Some (hd 0 its)))
    | RmItem k => let '(i, found) := find its k in
                  (i, found, if found then Some (Node (remove_at its i) [], Some (nth i its 0)) else Some (n, None))
    end in
  if leaf then leafres else
  let c := nth_node ch i in
  if Nat.leb (length (items_of c)) minI then remove f minI (grow minI n i) t else
  if found then
    match remove f minI c RmMax with
    | Some (c', Some m) => Some (Node (set_at its i m) (set_at ch i c'), Some (nth i its 0))
    | _ => None
    end
  else
    match remove f minI c t with
    | Some (c', out) => Some (Node its (set_at ch i c'), out)
    | None => None
    end
  end.

Definition tree_delete (deg : nat) (root : option node) (t : rm) : option node :=
  match root with
  | None => None
  | Some r =>
    if is_nil (items_of r) then root else
    match remove FUEL (deg - 1) r t with
    | Some (r', _) => if is_nil (items_of r') && negb (is_nil (children_of r')) then Some (hd dnode (children_of r')) else Some r'
    | None => Some (Node [-999] [])
    end
  end.

Definition apply (deg : nat) (root : option node) (o : op) : option node :=
  match o with
  | Ins k => tree_insert deg root k
  | Del k => tree_delete deg root (RmItem k)
  | DelMin => tree_delete deg root RmMin
  | DelMax => tree_delete deg root RmMax
  end.

Fixpoint list_eqb {A} (e : A -> A -> bool) (x y : list A) : bool :=
  match x, y with [], [] => true | a :: x', b :: y' => e a b && list_eqb e x' y' | _, _ => false end.

Fixpoint node_eqb (a b : node) : bool :=
  match a, b with Node ia ca, Node ib cb =>
    list_eqb Z.eqb ia ib &&
    (fix go (x y : list node) : bool :=
       match x, y with [], [] => true | p :: x', q :: y' => node_eqb p q && go x' y' | _, _ => false end) ca cb
  end.
Definition onode_eqb (a b : option node) := match a, b with None, None => true | Some x, Some y => node_eqb x y | _, _ => false end.

Fixpoint check (deg : nat) (root : option node) (l : list (op * option node)) (i : nat) : option nat :=
  match l with
  | [] => None
  | (o, want) :: l' => let r := apply deg root o in if onode_eqb r want then check deg r l' (S i) else Some i
  end.
