(* C15: the worker group as a scheduled machine.

   One label per externally forced action:
     GCall j   a caller goroutine runs WorkerGrp.DoXxx for job j up to the point where it either has its answer
               (fast-path hit of DoGet, refusal by a closed / full queue, index panic) or has queued the request;
               a queued request is started at once when its worker is idle;
     GStep w   worker w makes the next instrumented call of the handler it is running (one cache call or one store
               callback); if that was the handler's last call, the answer is delivered (SetR) and the worker takes
               the next request from its queue;
     GStop     WorkerGrp.Stop: every queue is closed (workers keep draining what was accepted);
     GAbandon w the caller of the job worker w is running gives up: its context is done and AsyncC.R returns the
               context's error to it; nothing else changes, the handler runs to its end (and its result goes nowhere);
     GCaller i the goroutine of caller i itself makes an instrumented call other than the cache read of DoGet's
               fast path: never enabled - the label exists so that an observer can write down an implementation
               that does such a thing (it is then rejected by the replay, and the monitor still judges coherence).
   Every schedule of callers and workers is a list of such labels; [grun] replays one and returns what each label
   lets an observer see. *)
From Coq Require Import ZArith List Bool Lia.
Require Import C15_Model.
Import ListNotations.
Open Scope Z_scope.

Record job := mkJob { j_id : Z; j_op : op; j_faults : list fault }.

(* a running handler: the job, what is left of its program, the faults left; ghosts used by the proofs only: the
   store's value for the job's key when the handler began, whether a store callback / any call has been made *)
Record running := mkRun { r_job : job; r_prog : prog; r_fs : list fault; r_sv0 : val; r_touched : bool; r_started : bool }.

Record wrk := mkWrk {
  k_st : wst;                         (* cache and store part *)
  k_queue : list job;                 (* accepted, not yet started: Q.reqList *)
  k_cur : option running;
  k_closed : bool;                    (* Q.closed *)
  k_committed : fmap;                 (* ghost: the store's value for each key after the last completed operation *)
  k_gone : bool                       (* the caller of the running job has given up: its context is done, AsyncC.R has
                                         returned the context's error; the handler runs on - it never looks at ctx *)
}.

Inductive answer :=
  | AFast (v : val)                                 (* DoGet answered by the caller-side cache read *)
  | ARefused (e : err)                              (* q.closed / q.full *)
  | APanic                                          (* negative worker index *)
  | AQueued                                         (* the caller is now waiting for its result *)
  | AStep (id : Z) (e : event) (fin : option res)   (* a call made for job id; fin: the job completed with this result *)
  | AStopped.

Definition start (s : wst) (j : job) : running :=
  mkRun j (handler (j_op j)) (j_faults j) (smap (wsr s) (key_of (j_op j))) false false.

(* after a completed handler: next request, if any *)
Definition next_job (s : wst) (q : list job) : option running * list job :=
  match q with [] => (None, []) | j :: q' => (Some (start s j), q') end.

Definition full (deep : nat) (q : list job) : bool :=
  match deep with O => false | _ => Nat.leb deep (length q) end.

Definition enqueue (deep : nat) (s : wrk) (j : job) : wrk * answer :=
  if k_closed s then (s, ARefused EClosed)
  else if full deep (k_queue s) then (s, ARefused EFull)
  else match k_cur s with
       | None => (mkWrk (k_st s) (k_queue s) (Some (start (k_st s) j)) (k_closed s) (k_committed s) false, AQueued)
       | Some _ => (mkWrk (k_st s) (k_queue s ++ [j]) (k_cur s) (k_closed s) (k_committed s) (k_gone s), AQueued)
       end.

Definition wcall (deep : nat) (s : wrk) (j : job) : wrk * answer :=
  match j_op j with
  | OGet k =>
      let '(c', r) := c_get (wc (k_st s)) k in
      match r with
      | Some v => (mkWrk (mkW c' (wsr (k_st s))) (k_queue s) (k_cur s) (k_closed s) (k_committed s) (k_gone s), AFast v)
      | None => enqueue deep s j
      end
  | _ => enqueue deep s j
  end.

Definition done_res (p : prog) : option res := match p with Done x => Some x | _ => None end.

Definition wstep (s : wrk) : option (wrk * answer) :=
  match k_cur s with
  | None => None
  | Some r =>
      match mstep (r_prog r) (k_st s) (r_fs r) with
      | None => None
      | Some (p', st', fs', e) =>
          let id := j_id (r_job r) in
          match done_res p' with
          | Some x =>
              let k := key_of (j_op (r_job r)) in
              let '(cur', q') := next_job st' (k_queue s) in
              Some (mkWrk st' q' cur' (k_closed s) (upd (k_committed s) k (smap (wsr st') k)) false,
                    AStep id e (Some (if k_gone s then RErr ECtx else x)))   (* the result goes to a caller that is still there *)
          | None => Some (mkWrk st' (k_queue s) (Some (mkRun (r_job r) p' fs' (r_sv0 r) (if is_store_ev e then true else r_touched r) true))
                        (k_closed s) (k_committed s) (k_gone s), AStep id e None)
          end
      end
  end.

Definition wstop (s : wrk) : wrk := mkWrk (k_st s) (k_queue s) (k_cur s) true (k_committed s) (k_gone s).

(* the caller of the running job leaves (its context is done while the request is being handled) *)
Definition wabandon (s : wrk) : option wrk :=
  match k_cur s with
  | Some _ => if k_gone s then None else Some (mkWrk (k_st s) (k_queue s) (k_cur s) (k_closed s) (k_committed s) true)
  | None => None
  end.

(* ------------------------------------------------------------------ the group *)
Inductive glabel := GCall (j : job) | GStep (w : Z) | GStop | GCaller (id : Z) | GAbandon (w : Z).

Definition mach := Z -> wrk.
Definition updm (g : mach) (w : Z) (s : wrk) : mach := fun x => if x =? w then s else g x.

Definition minit (c : gcfg) : mach :=
  fun _ => mkWrk (mkW (c_empty (g_cap c)) (init_store (g_init c))) [] None false (fun k => lookup k (g_init c)) false.

Definition gstep (c : gcfg) (deep : nat) (g : mach) (l : glabel) : option (mach * answer) :=
  match l with
  | GCall j =>
      let w := loc_of c (key_of (j_op j)) in
      if w <? 0 then Some (g, APanic)
      else let '(s', a) := wcall deep (g w) j in Some (updm g w s', a)
  | GStep w =>
      if (w <? 0) || (g_n c <=? w) then None
      else match wstep (g w) with Some (s', a) => Some (updm g w s', a) | None => None end
  | GStop => Some (fun w => wstop (g w), AStopped)
  | GAbandon w =>
      if (w <? 0) || (g_n c <=? w) then None
      else match wabandon (g w) with Some s' => Some (updm g w s', ARefused ECtx) | None => None end
  | GCaller _ => None        (* in this machine a caller's goroutine never makes a cache write or a store callback *)
  end.

(* a run: the labels together with what each of them let the observer see *)
Fixpoint grun (c : gcfg) (deep : nat) (g : mach) (ls : list glabel) : option (mach * list (glabel * answer)) :=
  match ls with
  | [] => Some (g, [])
  | l :: rest =>
      match gstep c deep g l with
      | None => None
      | Some (g', a) => match grun c deep g' rest with Some (g'', tr) => Some (g'', (l, a) :: tr) | None => None end
      end
  end.

Definition mcache_at (c : gcfg) (g : mach) (k : Z) : option val := c_peek (wc (k_st (g (loc_of c k)))) k.
Definition mstore_at (c : gcfg) (g : mach) (k : Z) : val := smap (wsr (k_st (g (loc_of c k)))) k.
Definition mcommitted_at (c : gcfg) (g : mach) (k : Z) : val := k_committed (g (loc_of c k)) k.
