(* C03: node.remove never runs out of fuel (item-level version of BTTot.v) *)
From Coq Require Import ZArith List Lia Bool Sorting.Sorted.
Require Import C03_Model C03_Spec C03_D C03_Ins C03_Sel C03_Inv.
Import ListNotations.
Open Scope Z_scope.
Local Coercion key : item >-> Z.

Section RT.
Variable minI : nat.
Hypothesis minI_pos : (1 <= minI)%nat.
Notation occ := (occ minI).
Notation ok_rm := (ok_rm minI).
Notation good := (good minI).
Notation big_sel := (big_sel minI).

Definition pre_t (h : nat) (n : inode) (t : irm) : Prop := match t with IRmItem _ => True | _ => iflat (S h) n <> [] end.

Theorem remove_total : forall h,
  (forall fuel n t, (2 * h + 2 <= fuel)%nat -> good h n -> ok_rm n -> StronglySorted klt (iflat (S h) n) -> pre_t h n t ->
     exists r, iremove fuel minI n t = Some r) /\
  (forall fuel n t, (2 * h + 1 <= fuel)%nat -> good h n -> ok_rm n -> StronglySorted klt (iflat (S h) n) -> pre_t h n t ->
     (h = O \/ big_sel n t) -> exists r, iremove fuel minI n t = Some r).
Proof.
  induction h as [|h IHh].
  - (* leaves never need more than one unit *)
    assert (L : forall fuel n t, (1 <= fuel)%nat -> good 0 n -> exists r, iremove fuel minI n t = Some r).
    { intros fuel [its ch] t Hf [Hsh _]. cbn in Hsh. subst ch. destruct fuel as [|f]; [lia|].
      cbn [iremove iitems ichildren is_nil]. destruct t as [k| |]; cbn; [destruct (ifind its k) as [i []]|..]; eauto. }
    split; intros; apply L; auto; lia.
  - destruct IHh as [IHa IHb].
    (* second clause first: the selected child is large, so one unit goes to this level *)
    assert (B : forall fuel n t, (2 * S h + 1 <= fuel)%nat -> good (S h) n -> ok_rm n ->
               StronglySorted klt (iflat (S (S h)) n) -> pre_t (S h) n t -> big_sel n t ->
               exists r, iremove fuel minI n t = Some r).
    { intros fuel [its ch] t Hfuel [[Hl Hf] Hoc] Hok Hs Hp Hbig. destruct fuel as [|f]; [lia|].
      cbn [iitems ichildren] in Hl, Hf. pose proof Hoc as Hoc0. cbn [C03_D.occ ichildren] in Hoc.
      assert (Hnil : is_nil ch = false) by (destruct ch; [cbn in Hl; lia | reflexivity]).
      rewrite flat_S in Hs. cbn [iitems ichildren] in Hs.
      unfold C03_Inv.big_sel in Hbig. cbn [iitems ichildren] in Hbig.
      cbn [iremove iitems ichildren]. rewrite Hnil.
      assert (K : forall i found, sel its t = (i, found) -> (i <= length its)%nat ->
        exists r, (let c := nth_inode ch i in
          if Nat.leb (length (iitems c)) minI then iremove f minI (igrow minI (INode its ch) i) t else
          if found then match iremove f minI c IRmMax with
                        | Some (c', Some m) => Some (INode (set_at its i m) (set_at ch i c'), Some (nth i its ditem))
                        | _ => None end
          else match iremove f minI c t with Some (c', o) => Some (INode its (set_at ch i c'), o) | None => None end) = Some r).
      { intros i found Hsel Hi. rewrite Hsel in Hbig. cbn [fst] in Hbig. cbv zeta. unfold nth_inode.
        replace (Nat.leb (length (iitems (nth i ch dinode))) minI) with false by (symmetry; apply Nat.leb_gt; exact Hbig).
        assert (Hcin : In (nth i ch dinode) ch) by (apply nth_In; lia).
        assert (Hcg : good h (nth i ch dinode)).
        { split; [rewrite Forall_forall in Hf; auto | rewrite Forall_forall in Hoc; apply Hoc; auto]. }
        assert (Hcok : ok_rm (nth i ch dinode)) by (left; lia).
        assert (Hcs : StronglySorted klt (iflat (S h) (nth i ch dinode))) by (apply sorted_child with (its := its); auto).
        assert (Hcne : iflat (S h) (nth i ch dinode) <> []) by (apply flat_nonempty; destruct (iitems (nth i ch dinode)); [cbn in Hbig; lia|discriminate]).
        destruct found.
        - destruct (IHa f (nth i ch dinode) IRmMax ltac:(lia) Hcg Hcok Hcs Hcne) as [[c' o] Hr]. rewrite Hr.
          destruct Hcg as [Hcsh Hcoc].
          destruct (remove_flat minI minI_pos f h _ IRmMax c' o Hcsh Hcoc Hcok Hcs Hcne Hr) as [_ Ho]. cbn in Ho. subst o. eauto.
        - assert (Hpc : pre_t h (nth i ch dinode) t) by (destruct t; cbn; auto).
          destruct (IHa f (nth i ch dinode) t ltac:(lia) Hcg Hcok Hcs Hpc) as [[c' o] Hr]. rewrite Hr. eauto. }
      destruct t as [k| |]; cbn [sel] in K.
      - destruct (ifind its k) as [i found] eqn:Ef.
        pose proof (sorted_items _ _ _ Hs) as Hsi. destruct (find_spec its k i found Hsi Ef) as (a & b & Ha & Hb & _).
        apply (K i found eq_refl). subst. rewrite app_length. lia.
      - apply (K O false eq_refl). lia.
      - apply (K (length its) false eq_refl). lia. }
    split; [|intros fuel n t Hfuel Hg Hok Hs Hp [E|Hb]; [discriminate | eapply B; eauto]].
    (* first clause: a small selected child costs one more unit for the restructuring *)
    intros fuel [its ch] t Hfuel Hg Hok Hs Hp.
    destruct Hg as [[Hl Hf] Hoc]. cbn [iitems ichildren] in Hl, Hf.
    remember (sel its t) as p eqn:Esel. destruct p as [i found]. symmetry in Esel.
    assert (Hi : (i <= length its)%nat).
    { destruct t as [k| |]; cbn in Esel; try (inversion Esel; subst; lia).
      rewrite flat_S in Hs. pose proof (sorted_items _ _ _ Hs) as Hsi.
      destruct (find_spec its k i found Hsi Esel) as (a & b & -> & -> & _). rewrite app_length. lia. }
    destruct (Nat.leb (length (iitems (nth i ch dinode))) minI) eqn:Esmall.
    + apply Nat.leb_le in Esmall.
      assert (Hcin : In (nth i ch dinode) ch) by (apply nth_In; lia).
      assert (H1 : (1 <= length its)%nat).
      { destruct Hok as [Hok|Hok]; [exact Hok|]. cbn [ichildren] in Hok. rewrite Forall_forall in Hok. specialize (Hok _ Hcin). lia. }
      pose proof (grow_cases minI its ch i Hl Hi H1 Esmall) as Hc.
      destruct (grow_good minI minI_pos h its ch i _ (conj Hl Hf) Hoc Hc) as (Gs & Go & Gk).
      assert (Hal : Forall aligned ch) by (eapply Forall_impl; [|exact Hf]; intros; eapply shaped_aligned; eauto).
      assert (Hsk : forall x y, In x ch -> In y ch -> same_kind x y).
      { rewrite Forall_forall in Hf. intros x y Hx Hy. eapply shaped_same_kind; eauto. }
      pose proof (grow_flat h minI its ch i Hl Hi H1 Hal Hsk) as Gf.
      assert (Gsort : StronglySorted klt (iflat (S (S h)) (igrow minI (INode its ch) i))) by (rewrite Gf; exact Hs).
      assert (Gp : pre_t (S h) (igrow minI (INode its ch) i) t) by (destruct t; cbn in *; auto; rewrite Gf; exact Hp).
      rewrite flat_S in Hs. cbn [iitems ichildren] in Hs.
      pose proof (reselect minI minI_pos h its ch t i found Hl Hf (occ_children minI _ _ _ Hoc) Hs Esel H1 Esmall) as Hre.
      cbv zeta in Hre. destruct (sel (iitems (igrow minI (INode its ch) i)) t) as [j fj] eqn:Esj.
      assert (Hbig : big_sel (igrow minI (INode its ch) i) t) by (unfold C03_Inv.big_sel; rewrite Esj; exact Hre).
      destruct fuel as [|f]; [lia|].
      destruct (B f _ t ltac:(lia) (conj Gs Go) Gk Gsort Gp Hbig) as [r Hr].
      exists r. cbn [iremove iitems ichildren].
      assert (Hnil : is_nil ch = false) by (destruct ch; [cbn in Hl; lia | reflexivity]). rewrite Hnil.
      destruct t as [k| |]; cbn [sel] in Esel.
      * rewrite Esel. unfold nth_inode. replace (Nat.leb (length (iitems (nth i ch dinode))) minI) with true by (symmetry; apply Nat.leb_le; exact Esmall). exact Hr.
      * inversion Esel; subst. unfold nth_inode. replace (Nat.leb (length (iitems (nth 0 ch dinode))) minI) with true by (symmetry; apply Nat.leb_le; exact Esmall). exact Hr.
      * inversion Esel; subst. unfold nth_inode. replace (Nat.leb (length (iitems (nth (length its) ch dinode))) minI) with true by (symmetry; apply Nat.leb_le; exact Esmall). exact Hr.
    + apply Nat.leb_gt in Esmall. apply (B fuel (INode its ch) t); auto; try lia.
      * split; [split|]; auto.
      * unfold C03_Inv.big_sel. cbn [iitems ichildren]. rewrite Esel. exact Esmall.
Qed.
End RT.
