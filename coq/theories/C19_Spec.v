(* C19 vcode: the property's clauses as a monitor over an observed history.
   Nothing here mentions the cache or an entry: every expectation is computed from the earlier
   items of the history (which send went out last to this pair, how many attempts were made since,
   how many sends went out in the running window). *)
From Coq Require Import ZArith List Bool Lia String Ascii.
Require Import C19_Model.
Import ListNotations.
Open Scope Z_scope.

Section Mon.
Variable c : cfg.

(* the code a send that went out carries: the mock rule, or what the SMS sender was handed *)
Definition code_of (p : string) (calls : list call) : string :=
  if mock c then match mock_code p (codeLen c) with Some s => s | None => EmptyString end
  else calls_code calls.

(* (time, code, hash) when the item is a send to k that went out *)
Definition sent_info (k : string) (it : item) : option (Z * string * Z) :=
  match it with
  | (Send a p now _, RSend h e calls) =>
    if String.eqb (key a p) k && accepted e then Some (now, code_of p calls, h) else None
  | _ => None
  end.
Definition is_verify_on (k : string) (it : item) : bool :=
  match it with (Verify a p _ _ _, _) => String.eqb (key a p) k | _ => false end.

(* `past` lists the earlier items, the most recent first *)
Fixpoint last_send (k : string) (past : list item) : option (Z * string * Z) :=
  match past with
  | [] => None
  | it :: r => match sent_info k it with Some x => Some x | None => last_send k r end
  end.
(* verification attempts made against the code sent last *)
Fixpoint attempts (k : string) (past : list item) : nat :=
  match past with
  | [] => O
  | it :: r => match sent_info k it with
               | Some _ => O
               | None => ((if is_verify_on k it then 1 else 0) + attempts k r)%nat
               end
  end.
(* the running send window of k: (start, sends that went out in it) *)
Fixpoint win (k : string) (past : list item) : option (Z * Z) :=
  match past with
  | [] => None
  | it :: r =>
    match sent_info k it with
    | Some (t, _, _) =>
      let '(a, n) := match win k r with Some x => x | None => (t, 0) end in
      Some (if counterDuration c <? tsub t a then (t, 1) else (a, n + 1))
    | None => win k r
    end
  end.

(* what a verification must answer *)
Definition exp_verify (k cd : string) (hs now : Z) (past : list item) : option err :=
  match last_send k past with
  | None => Some NotExist
  | Some (t, cd0, h0) =>
    if maxVerify c <? Z.of_nat (attempts k past) + 1 then Some RetryLimit
    else if negb (String.eqb cd0 cd) then Some NotMatch
    else if negb (h0 =? hs) then Some HashNotMatch
    else if ttl c <? tsub now t then Some Timeout
    else None
  end.

(* whether a send must be refused (None: it goes out) *)
Definition exp_send (k : string) (now : Z) (past : list item) : option err :=
  let t0 := match last_send k past with Some (t, _, _) => t | None => NEVER end in
  if tsub now t0 <? minInterval c then Some TooFreq
  else
    let '(a, n) := match win k past with Some x => x | None => (now, 0) end in
    if counterDuration c <? tsub now a then None
    else if maxCount c <? n then Some CountLimit else None.

(* a send that went out: mock mode hands nothing to the sender and cannot fail; otherwise the sender
   got exactly this pair and a code of the configured length over the digits, and its answer is the result *)
Definition sent_ok (a p : string) (smsok : bool) (ob : obs) : bool :=
  match ob with
  | RSend h e calls =>
    if mock c then oerr_eqb e None && calls_eqb calls []
    else match calls with
         | [(a', p', cd)] => String.eqb a' a && String.eqb p' p && valid_code (codeLen c) cd
                             && oerr_eqb e (if smsok then None else Some SmsFail)
         | _ => false
         end
  | _ => false
  end.
(* the only panic the property's configurations leave room for: a negative code length in mock mode *)
Definition gen_panics (p : string) : bool :=
  mock c && match mock_code p (codeLen c) with None => true | Some _ => false end.

(* strict = the history touches no more pairs than the cache holds, so nothing is ever evicted *)
Definition item_ok (strict : bool) (past : list item) (it : item) : bool :=
  match it with
  | (Verify a p cd hs now, RVerify r) =>
    oerr_eqb r (exp_verify (key a p) cd hs now past)
    || (negb strict && oerr_eqb r (Some NotExist))
  | (Send a p now smsok, ob) =>
    negb strict ||
    match exp_send (key a p) now past with
    | Some e => obs_eqb ob (RSend 0 (Some e) [])
    | None => if gen_panics p then obs_eqb ob RPanic else sent_ok a p smsok ob
    end
  | _ => false
  end.

Fixpoint holds_from (strict : bool) (past : list item) (items : list item) : bool :=
  match items with
  | [] => true
  | it :: r => item_ok strict past it && holds_from strict (it :: past) r
  end.

(* the pairs some send went out to *)
Definition sent_key (it : item) : option string :=
  match it with
  | (Send a p _ _, RSend _ e _) => if accepted e then Some (key a p) else None
  | _ => None
  end.
Fixpoint sent_keys (items : list item) : list string :=
  match items with
  | [] => []
  | it :: r => match sent_key it with Some k => k :: sent_keys r | None => sent_keys r end
  end.
(* the distinct ones among them (accumulator version: one pass, cheap under vm_compute) *)
Fixpoint dedup (l acc : list string) : list string :=
  match l with
  | [] => acc
  | x :: r => if existsb (String.eqb x) acc then dedup r acc else dedup r (x :: acc)
  end.
Definition nkeys (items : list item) : nat := List.length (dedup (sent_keys items) []).

Definition holds (items : list item) : bool :=
  holds_from (Z.of_nat (nkeys items) <=? cacheSize c) [] items.
End Mon.

Lemma dedup_incl : forall l acc x, In x l \/ In x acc -> In x (dedup l acc).
Proof.
  induction l as [|y l IH]; intros acc x H; cbn [dedup].
  - destruct H as [[]|H]. exact H.
  - destruct (existsb (String.eqb y) acc) eqn:E.
    + apply IH. destruct H as [[H|H]|H]; auto. subst y. right.
      apply existsb_exists in E as (z & Hz & Ez). apply String.eqb_eq in Ez. now subst.
    + apply IH. destruct H as [[H|H]|H]; [right; left; exact H|left; exact H|right; right; exact H].
Qed.
Lemma dedup_NoDup : forall l acc, NoDup acc -> NoDup (dedup l acc).
Proof.
  induction l as [|y l IH]; intros acc H; cbn [dedup]; [exact H|].
  destruct (existsb (String.eqb y) acc) eqn:E; [apply IH, H|]. apply IH. constructor; [|exact H].
  intros Hin. assert (existsb (String.eqb y) acc = true); [|congruence].
  apply existsb_exists. exists y. split; [exact Hin|apply String.eqb_refl].
Qed.
Lemma dedup_sound : forall l acc x, In x (dedup l acc) -> In x l \/ In x acc.
Proof.
  induction l as [|y l IH]; intros acc x H; cbn [dedup] in H; [right; exact H|].
  destruct (existsb (String.eqb y) acc).
  - apply IH in H as [H|H]; [left; right; exact H|right; exact H].
  - apply IH in H as [H|[H|H]]; [left; right; exact H|left; left; exact H|right; exact H].
Qed.

(* ------------------------------------------------------------------ the nonce clauses *)
Fixpoint all_in_range (len : Z) (targets : list Z) : bool :=
  match targets with [] => true | t :: r => (0 <=? t) && (t <? len) && all_in_range len r end.
Definition ostr_eqb (a b : option string) : bool :=
  match a, b with Some x, Some y => String.eqb x y | None, None => true | _, _ => false end.

(* with a draw function willing to answer any in-range index, the nonce is exactly the alphabet
   characters at the target indices: the requested length, and every character can occur *)
Definition nonce_holds (base : string) (n : Z) (targets : list Z) (out : option string) : bool :=
  negb (Z.of_nat (List.length targets) =? Z.max 0 n) || negb (all_in_range (zlen base) targets)
  || (ostr_eqb out (gen_nonce base targets)
      && match out with Some s => (zlen s =? Z.max 0 n) && str_all (fun ch => str_mem ch base) s | None => false end).

(* a sample of codes drawn by the real generator: all over the digits, of the configured length, and - once the
   sample has 600 characters - every digit occurs *)
Fixpoint str_concat (l : list string) : string :=
  match l with [] => EmptyString | s :: r => (s ++ str_concat r)%string end.
Definition sample_holds (n : Z) (codes : list string) : bool :=
  forallb (valid_code n) codes
  && ((zlen (str_concat codes) <? 600) || str_all (fun ch => str_mem ch (str_concat codes)) numChars).
