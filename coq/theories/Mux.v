(* C15 core: the seven handlers of the mux worker keep the cache coherent with the store under every fault pattern *)
From Coq Require Import ZArith List Bool Lia.
Import ListNotations.
Open Scope Z_scope.

Definition fmap := Z -> option Z.
Definition upd (m : fmap) (k : Z) (v : option Z) : fmap := fun x => if x =? k then v else m x.

Section Mux.
(* the cache facade: map (exact) or LRU (may also drop other entries when it stores one) *)
Variable cset : fmap -> Z -> Z -> fmap.
Variable cdel : fmap -> Z -> fmap.
Hypothesis cset_law : forall c k v k' v', cset c k v k' = Some v' -> (k' = k /\ v' = v) \/ (k' <> k /\ c k' = Some v').
Hypothesis cdel_law : forall c k k' v', cdel c k k' = Some v' -> k' <> k /\ c k' = Some v'.
Variable mix : Z -> Z -> Z.          (* what an update callback stores, given the input and the previous value *)

Record st := { cache : fmap; store : fmap; faults : list bool }.
Inductive res := Ok (v : Z) | OkNil | Err | Dup.

(* one store callback consumes one oracle bit; a failing callback leaves the store unchanged *)
Definition fails (s : st) : bool * st :=
  match faults s with [] => (false, s) | b :: r => (b, {| cache := cache s; store := store s; faults := r |}) end.
Definition with_store (s : st) (m : fmap) := {| cache := cache s; store := m; faults := faults s |}.
Definition with_cache (s : st) (c : fmap) := {| cache := c; store := store s; faults := faults s |}.

Definition cb_load (s : st) (k : Z) : st * option Z * bool (* not-found? *) :=
  let '(f, s) := fails s in if f then (s, None, false) else match store s k with Some v => (s, Some v, false) | None => (s, None, true) end.
Definition cb_add (s : st) (k d : Z) : st * option Z :=
  let '(f, s) := fails s in if f then (s, None) else match store s k with Some _ => (s, None) | None => (with_store s (upd (store s) k (Some d)), Some d) end.
Definition cb_upd (s : st) (k d : Z) (pre : Z) : st * option Z :=
  let '(f, s) := fails s in if f then (s, None) else match store s k with None => (s, None) | Some _ => let v := mix d pre in (with_store s (upd (store s) k (Some v)), Some v) end.
Definition cb_upsert (s : st) (k d : Z) : st * option Z :=
  let '(f, s) := fails s in if f then (s, None) else (with_store s (upd (store s) k (Some d)), Some d).
Definition cb_del (s : st) (k : Z) : st * bool :=
  let '(f, s) := fails s in if f then (s, false) else (with_store s (upd (store s) k None), true).

Inductive op := Load (k : Z) | Add (k d : Z) | Update (k d : Z) | Delete (k : Z)
              | UpdOrAdd (k d : Z) | UpsertThenLoad (k d : Z) | UpsertThenRenew (k d : Z).

Definition finish (s : st) (k : Z) (r : option Z) : st * res :=
  match r with Some v => (with_cache s (cset (cache s) k v), Ok v) | None => (s, Err) end.

Definition handle (s : st) (o : op) : st * res :=
  match o with
  | Load k =>
      match cache s k with Some v => (s, Ok v) | None => let '(s, r, _) := cb_load s k in finish s k r end
  | Add k d =>
      match cache s k with Some _ => (s, Dup) | None => let '(s, r) := cb_add s k d in finish s k r end
  | Update k d =>
      match cache s k with
      | Some pre => let '(s, r) := cb_upd s k d pre in finish s k r
      | None => let '(s, r, _) := cb_load s k in
                match r with None => (s, Err) | Some v => let '(s, r) := cb_upd s k d v in finish s k r end
      end
  | Delete k => let '(s, ok) := cb_del s k in if ok then (with_cache s (cdel (cache s) k), OkNil) else (s, Err)
  | UpdOrAdd k d =>
      match cache s k with
      | Some pre => let '(s, r) := cb_upd s k d pre in finish s k r
      | None => let '(s, r, nf) := cb_load s k in
                match r with
                | Some v => let '(s, r) := cb_upd s k d v in finish s k r
                | None => if nf then let '(s, r) := cb_add s k d in finish s k r else (s, Err)
                end
      end
  | UpsertThenLoad k d =>
      match cache s k with
      | Some _ => let '(s, r) := cb_upsert s k d in finish s k r
      | None => let '(s, r) := cb_upsert s k d in
                match r with None => (s, Err) | Some _ => let '(s, r, _) := cb_load s k in finish s k r end
      end
  | UpsertThenRenew k d =>
      match cache s k with
      | Some _ => let '(s, r) := cb_upsert s k d in finish s k r
      | None => let '(s, r) := cb_upsert s k d in (s, match r with Some v => Ok v | None => Err end)
      end
  end.

Definition coh (s : st) : Prop := forall k v, cache s k = Some v -> store s k = Some v.

(* what each callback guarantees: the cache is untouched, other keys of the store are untouched,
   and a returned value is what the store now holds for the key *)
Definition cb_ok (s s' : st) (k : Z) (r : option Z) : Prop :=
  cache s' = cache s /\ (forall x, x <> k -> store s' x = store s x) /\
  (match r with Some v => store s' k = Some v | None => store s' k = store s k end).

Ltac cb_tac := unfold fails, with_store; intros;
  repeat match goal with
  | |- context [faults ?s] => destruct (faults s) as [|[] ?]
  | |- context [store ?s ?k] => let E := fresh "E" in destruct (store s k) eqn:E
  end; cbn; unfold cb_ok, upd; cbn; repeat split; auto; intros;
  try (rewrite Z.eqb_refl; reflexivity);
  try (match goal with H : ?x <> ?k |- context [?x =? ?k] => replace (x =? k) with false by (symmetry; apply Z.eqb_neq; exact H) end; reflexivity).

Lemma cb_load_ok s k : let '(s', r, _) := cb_load s k in cb_ok s s' k r.
Proof. unfold cb_load. cb_tac. Qed.
Lemma cb_add_ok s k d : let '(s', r) := cb_add s k d in cb_ok s s' k r.
Proof. unfold cb_add. cb_tac. Qed.
Lemma cb_upd_ok s k d pre : let '(s', r) := cb_upd s k d pre in cb_ok s s' k r.
Proof. unfold cb_upd. cb_tac. Qed.
Lemma cb_upsert_ok s k d : let '(s', r) := cb_upsert s k d in cb_ok s s' k r.
Proof. unfold cb_upsert. cb_tac. Qed.

Definition coh_off (s : st) (k : Z) : Prop := forall x v, x <> k -> cache s x = Some v -> store s x = Some v.

Lemma coh_coh_off s k : coh s -> coh_off s k.
Proof. intros H x v _. apply H. Qed.

Lemma cb_keeps s s' k r : coh_off s k -> cb_ok s s' k r -> coh_off s' k /\ cache s' k = cache s k.
Proof.
  intros Hc (Hca & Hst & _). split; [|now rewrite Hca].
  intros x v Hx Hv. rewrite Hca in Hv. rewrite Hst by exact Hx. apply Hc; auto.
Qed.

Lemma finish_coh s k r : coh_off s k ->
  (match r with Some v => store s k = Some v | None => forall w, cache s k = Some w -> store s k = Some w end) ->
  coh (fst (finish s k r)).
Proof.
  intros Hoff Hk. unfold finish. destruct r as [v|]; cbn [fst].
  - intros x w Hx. cbn [cache store with_cache] in *. apply cset_law in Hx as [[-> ->]|[Hne Hx]]; [exact Hk|].
    apply Hoff; auto.
  - intros x w Hx. destruct (Z.eq_dec x k) as [->|Hne]; [apply Hk; auto | apply Hoff; auto].
Qed.

Lemma cb_result s s' k r : cb_ok s s' k r ->
  match r with Some v => store s' k = Some v | None => store s' k = store s k end.
Proof. intros (_ & _ & H). exact H. Qed.

Theorem handle_coh s o : coh s -> coh (fst (handle s o)).
Proof.
  intros Hc. destruct o as [k|k d|k d|k|k d|k d|k d]; cbn [handle].
  - (* load *) destruct (cache s k) as [v|] eqn:Ec; [exact Hc|].
    pose proof (cb_load_ok s k) as H. destruct (cb_load s k) as [[s1 r] nf].
    destruct (cb_keeps s s1 k r (coh_coh_off s k Hc) H) as [Hoff Hck]. apply finish_coh; auto.
    pose proof (cb_result _ _ _ _ H) as Hr. destruct r; auto. intros w Hw. rewrite Hck, Ec in Hw. discriminate.
  - (* add *) destruct (cache s k) as [v|] eqn:Ec; [exact Hc|].
    pose proof (cb_add_ok s k d) as H. destruct (cb_add s k d) as [s1 r].
    destruct (cb_keeps s s1 k r (coh_coh_off s k Hc) H) as [Hoff Hck]. apply finish_coh; auto.
    pose proof (cb_result _ _ _ _ H) as Hr. destruct r; auto. intros w Hw. rewrite Hck, Ec in Hw. discriminate.
  - (* update *) destruct (cache s k) as [pre|] eqn:Ec.
    + pose proof (cb_upd_ok s k d pre) as H. destruct (cb_upd s k d pre) as [s1 r].
      destruct (cb_keeps s s1 k r (coh_coh_off s k Hc) H) as [Hoff Hck]. apply finish_coh; auto.
      pose proof (cb_result _ _ _ _ H) as Hr. destruct r; auto. intros w Hw. rewrite Hck, Ec in Hw. rewrite Hr. apply Hc. congruence.
    + pose proof (cb_load_ok s k) as H. destruct (cb_load s k) as [[s1 r] nf].
      destruct (cb_keeps s s1 k r (coh_coh_off s k Hc) H) as [Hoff Hck].
      destruct r as [v|]; cbn [fst].
      * pose proof (cb_upd_ok s1 k d v) as H2. destruct (cb_upd s1 k d v) as [s2 r2].
        destruct (cb_keeps s1 s2 k r2 Hoff H2) as [Hoff2 Hck2]. apply finish_coh; auto.
        pose proof (cb_result _ _ _ _ H2) as Hr. destruct r2; auto. intros w Hw. rewrite Hck2, Hck, Ec in Hw. discriminate.
      * intros x w Hx. destruct (Z.eq_dec x k) as [->|Hne]; [rewrite Hck, Ec in Hx; discriminate | apply Hoff; auto].
  - (* delete *) pose proof (coh_coh_off s k Hc) as Hoff0.
    unfold cb_del, fails. destruct (faults s) as [|[] fs]; cbn [fst]; try exact Hc.
    + intros x w Hx. cbn [cache store with_cache with_store] in *. apply cdel_law in Hx as [Hne Hx].
      unfold upd. replace (x =? k) with false by (symmetry; apply Z.eqb_neq; exact Hne). apply Hc; auto.
    + intros x w Hx. cbn [cache store with_cache with_store] in *. apply cdel_law in Hx as [Hne Hx].
      unfold upd. replace (x =? k) with false by (symmetry; apply Z.eqb_neq; exact Hne). apply Hc; auto.
  - (* update or add *) destruct (cache s k) as [pre|] eqn:Ec.
    + pose proof (cb_upd_ok s k d pre) as H. destruct (cb_upd s k d pre) as [s1 r].
      destruct (cb_keeps s s1 k r (coh_coh_off s k Hc) H) as [Hoff Hck]. apply finish_coh; auto.
      pose proof (cb_result _ _ _ _ H) as Hr. destruct r; auto. intros w Hw. rewrite Hck, Ec in Hw. rewrite Hr. apply Hc. congruence.
    + pose proof (cb_load_ok s k) as H. destruct (cb_load s k) as [[s1 r] nf].
      destruct (cb_keeps s s1 k r (coh_coh_off s k Hc) H) as [Hoff Hck].
      destruct r as [v|].
      * pose proof (cb_upd_ok s1 k d v) as H2. destruct (cb_upd s1 k d v) as [s2 r2].
        destruct (cb_keeps s1 s2 k r2 Hoff H2) as [Hoff2 Hck2]. apply finish_coh; auto.
        pose proof (cb_result _ _ _ _ H2) as Hr. destruct r2; auto. intros w Hw. rewrite Hck2, Hck, Ec in Hw. discriminate.
      * destruct nf; cbn [fst].
        -- pose proof (cb_add_ok s1 k d) as H2. destruct (cb_add s1 k d) as [s2 r2].
           destruct (cb_keeps s1 s2 k r2 Hoff H2) as [Hoff2 Hck2]. apply finish_coh; auto.
           pose proof (cb_result _ _ _ _ H2) as Hr. destruct r2; auto. intros w Hw. rewrite Hck2, Hck, Ec in Hw. discriminate.
        -- intros x w Hx. destruct (Z.eq_dec x k) as [->|Hne]; [rewrite Hck, Ec in Hx; discriminate | apply Hoff; auto].
  - (* upsert then load *) destruct (cache s k) as [pre|] eqn:Ec.
    + pose proof (cb_upsert_ok s k d) as H. destruct (cb_upsert s k d) as [s1 r].
      destruct (cb_keeps s s1 k r (coh_coh_off s k Hc) H) as [Hoff Hck]. apply finish_coh; auto.
      pose proof (cb_result _ _ _ _ H) as Hr. destruct r; auto. intros w Hw. rewrite Hck, Ec in Hw. rewrite Hr. apply Hc. congruence.
    + pose proof (cb_upsert_ok s k d) as H. destruct (cb_upsert s k d) as [s1 r].
      destruct (cb_keeps s s1 k r (coh_coh_off s k Hc) H) as [Hoff Hck].
      destruct r as [v|]; cbn [fst].
      * pose proof (cb_load_ok s1 k) as H2. destruct (cb_load s1 k) as [[s2 r2] nf].
        destruct (cb_keeps s1 s2 k r2 Hoff H2) as [Hoff2 Hck2]. apply finish_coh; auto.
        pose proof (cb_result _ _ _ _ H2) as Hr. destruct r2; auto. intros w Hw. rewrite Hck2, Hck, Ec in Hw. discriminate.
      * intros x w Hx. destruct (Z.eq_dec x k) as [->|Hne]; [rewrite Hck, Ec in Hx; discriminate | apply Hoff; auto].
  - (* upsert then renew in cache *) destruct (cache s k) as [pre|] eqn:Ec.
    + pose proof (cb_upsert_ok s k d) as H. destruct (cb_upsert s k d) as [s1 r].
      destruct (cb_keeps s s1 k r (coh_coh_off s k Hc) H) as [Hoff Hck]. apply finish_coh; auto.
      pose proof (cb_result _ _ _ _ H) as Hr. destruct r; auto. intros w Hw. rewrite Hck, Ec in Hw. rewrite Hr. apply Hc. congruence.
    + pose proof (cb_upsert_ok s k d) as H. destruct (cb_upsert s k d) as [s1 r].
      destruct (cb_keeps s s1 k r (coh_coh_off s k Hc) H) as [Hoff Hck]. cbn [fst].
      intros x w Hx. destruct (Z.eq_dec x k) as [->|Hne]; [rewrite Hck, Ec in Hx; discriminate | apply Hoff; auto].
Qed.

(* every history, every fault pattern *)
Theorem mux_coherent : forall ops s, coh s -> coh (fold_left (fun s o => fst (handle s o)) ops s).
Proof. induction ops as [|o ops IH]; intros s Hs; cbn; auto. apply IH, handle_coh, Hs. Qed.
End Mux.
Print Assumptions mux_coherent.
