(* C07: CnStyle / FromChStyle composed from the calendar, the decimal text and the bit fields:
   FromChStyle (CnStyle id) = id for every id whose local year has four digits *)
From Coq Require Import ZArith List Lia Bool.
Require Import Decimal Civil BitField.
Import ListNotations.
Open Scope Z_scope.

(* ---- fixed-width decimal fields ---- *)
Definition fmtk (k : nat) (n : Z) : list Z := pad k (digits 20 n).          (* fmt.Sprintf("%0kd", n), n >= 0 *)

Lemma digits_rev_len : forall f n k, (1 <= k)%nat -> 0 <= n < 10 ^ Z.of_nat k -> (length (digits_rev f n) <= k)%nat.
Proof.
  induction f as [|f IH]; intros n k Hk Hn; cbn [digits_rev length]; [lia|].
  destruct (n <? 10) eqn:E; [cbn [length]; lia|]. apply Z.ltb_ge in E. cbn [length].
  destruct k as [|[|k]]; [lia|cbn in Hn; lia|].
  assert (Hq : 0 <= n / 10 < 10 ^ Z.of_nat (S k)).
  { rewrite (Nat2Z.inj_succ (S k)), Z.pow_succ_r in Hn by lia. split; [apply Z.div_pos; lia|apply Z.div_lt_upper_bound; lia]. }
  specialize (IH (n / 10) (S k) ltac:(lia) Hq). lia.
Qed.

Lemma fmtk_length k n : (1 <= k)%nat -> 0 <= n < 10 ^ Z.of_nat k -> length (fmtk k n) = k.
Proof.
  intros Hk Hn. unfold fmtk, pad, digits. rewrite app_length, repeat_length, rev_length.
  pose proof (digits_rev_len 20 n k Hk Hn). lia.
Qed.
Lemma fmtk_parse k n : (1 <= k <= 20)%nat -> 0 <= n < 10 ^ Z.of_nat k -> parse (fmtk k n) = Some n.
Proof.
  intros Hk Hn. unfold fmtk. apply parse_padded; [discriminate|]. split; [lia|].
  apply Z.lt_le_trans with (10 ^ Z.of_nat k); [lia|]. apply Z.pow_le_mono_r; lia.
Qed.

(* cutting a field of known width off the front *)
Definition cut (k : nat) (l : list Z) : list Z * list Z := (firstn k l, skipn k l).
Lemma cut_app k a r : length a = k -> cut k (a ++ r) = (a, r).
Proof.
  intros <-. unfold cut. rewrite firstn_app, skipn_app, Nat.sub_diag, firstn_all, skipn_all. cbn [firstn skipn]. rewrite app_nil_r. reflexivity.
Qed.

(* ---- the two functions ---- *)
Section Cn.
Variables shift epoch off : Z.         (* nodeBits + stepBits; the epoch in ms; the zone offset in ms (fixed +8h for timeLoc) *)
Definition DAY := 86400000.

Definition cn_style (id : Z) : list Z :=
  let ms := Z.shiftr id shift + epoch in
  let loc := ms + off in
  let '(y, m, d) := civil_from_days (loc / DAY) in
  let r := loc mod DAY in
  let lft := Z.land id (2 ^ shift - 1) in
  fmtk 4 y ++ fmtk 2 m ++ fmtk 2 d ++ fmtk 2 (r / 3600000) ++ fmtk 2 (r / 60000 mod 60) ++ fmtk 2 (r / 1000 mod 60) ++ fmtk 3 (r mod 1000) ++ fmtk 7 lft.

Definition from_ch_style (v : list Z) : option Z :=
  if negb (Nat.eqb (length v) 24) then None else
  let '(fy, v1) := cut 4 v in let '(fm, v2) := cut 2 v1 in let '(fd, v3) := cut 2 v2 in let '(fh, v4) := cut 2 v3 in
  let '(fi, v5) := cut 2 v4 in let '(fs, v6) := cut 2 v5 in let '(fms, fl) := cut 3 v6 in
  match parse fy, parse fm, parse fd, parse fh, parse fi, parse fs, parse fms, parse fl with
  | Some y, Some m, Some d, Some hh, Some mi, Some ss, Some ms, Some lft =>
      (* time.Date(...).UnixMilli() - epoch, then the fields are put back together *)
      let t := days_from_civil y m d * DAY + hh * 3600000 + mi * 60000 + ss * 1000 + ms - off in
      Some (Z.lor (Z.shiftl (t - epoch) shift) lft)
  | _, _, _, _, _, _, _, _ => None
  end.

Theorem cn_roundtrip id :
  0 <= shift <= 23 -> 0 <= id ->
  (let '(y, _, _) := civil_from_days ((Z.shiftr id shift + epoch + off) / DAY) in 0 <= y < 10000) ->
  from_ch_style (cn_style id) = Some id.
Proof.
  intros Hs Hid Hy. unfold cn_style.
  set (ms := Z.shiftr id shift + epoch) in *. set (loc := ms + off) in *.
  pose proof (civil_roundtrip (loc / DAY)) as Hc. destruct (civil_from_days (loc / DAY)) as [[y m] d]. destruct Hc as (Hdays & Hm & Hd).
  set (r := loc mod DAY). assert (Hr : 0 <= r < DAY) by (apply Z.mod_pos_bound; unfold DAY; lia). unfold DAY in Hr.
  set (lft := Z.land id (2 ^ shift - 1)).
  assert (Hp : 0 < 2 ^ shift) by (apply Z.pow_pos_nonneg; lia).
  assert (Hleft : lft = id mod 2 ^ shift) by (unfold lft; replace (2 ^ shift - 1) with (Z.ones shift) by (rewrite Z.ones_equiv; lia); apply Z.land_ones; lia).
  assert (Hl2 : 0 <= lft < 2 ^ shift) by (rewrite Hleft; apply Z.mod_pos_bound; lia).
  assert (Hl7 : 0 <= lft < 10 ^ Z.of_nat 7).
  { split; [lia|]. apply Z.lt_le_trans with (2 ^ shift); [lia|]. apply Z.le_trans with (2 ^ 23); [apply Z.pow_le_mono_r; lia|]. cbn. lia. }
  assert (B4 : 0 <= y < 10 ^ Z.of_nat 4) by (cbn; lia).
  assert (B2m : 0 <= m < 10 ^ Z.of_nat 2) by (cbn; lia).
  assert (B2d : 0 <= d < 10 ^ Z.of_nat 2) by (cbn; lia).
  assert (B2h : 0 <= r / 3600000 < 10 ^ Z.of_nat 2) by (cbn; split; [apply Z.div_pos; lia|apply Z.div_lt_upper_bound; lia]).
  assert (B2i : 0 <= r / 60000 mod 60 < 10 ^ Z.of_nat 2) by (cbn; pose proof (Z.mod_pos_bound (r / 60000) 60 ltac:(lia)); lia).
  assert (B2s : 0 <= r / 1000 mod 60 < 10 ^ Z.of_nat 2) by (cbn; pose proof (Z.mod_pos_bound (r / 1000) 60 ltac:(lia)); lia).
  assert (B3 : 0 <= r mod 1000 < 10 ^ Z.of_nat 3) by (cbn; pose proof (Z.mod_pos_bound r 1000 ltac:(lia)); lia).
  unfold from_ch_style.
  rewrite !app_length, (fmtk_length 4 y), !(fmtk_length 2), (fmtk_length 3), (fmtk_length 7) by (assumption || lia).
  cbn [Nat.add Nat.eqb negb].
  rewrite (cut_app 4) by (apply fmtk_length; [lia|exact B4]).
  rewrite (cut_app 2) by (apply fmtk_length; [lia|exact B2m]).
  rewrite (cut_app 2) by (apply fmtk_length; [lia|exact B2d]).
  rewrite (cut_app 2) by (apply fmtk_length; [lia|exact B2h]).
  rewrite (cut_app 2) by (apply fmtk_length; [lia|exact B2i]).
  rewrite (cut_app 2) by (apply fmtk_length; [lia|exact B2s]).
  rewrite (cut_app 3) by (apply fmtk_length; [lia|exact B3]).
  rewrite (fmtk_parse 4 y), (fmtk_parse 2 m), (fmtk_parse 2 d), (fmtk_parse 2 (r / 3600000)), (fmtk_parse 2 (r / 60000 mod 60)),
          (fmtk_parse 2 (r / 1000 mod 60)), (fmtk_parse 3 (r mod 1000)), (fmtk_parse 7 lft) by (assumption || lia).
  f_equal. rewrite Hdays.
  (* the clock fields put the millisecond of the day back together *)
  assert (Ht : loc / DAY * DAY + r / 3600000 * 3600000 + r / 60000 mod 60 * 60000 + r / 1000 mod 60 * 1000 + r mod 1000 - off = ms).
  { assert (Er : r / 3600000 * 3600000 + r / 60000 mod 60 * 60000 + r / 1000 mod 60 * 1000 + r mod 1000 = r).
    { clear -Hr. Z.div_mod_to_equations. lia. }
    pose proof (Z.div_mod loc DAY ltac:(unfold DAY; lia)) as Hdm. fold r in Hdm. unfold loc in *. lia. }
  rewrite Ht. unfold ms. replace (Z.shiftr id shift + epoch - epoch) with (Z.shiftr id shift) by lia.
  rewrite Z.shiftr_div_pow2 by lia. rewrite (lor_shiftl_small (id / 2 ^ shift) shift lft) by lia.
  rewrite Hleft. pose proof (Z.div_mod id (2 ^ shift) ltac:(lia)). lia.
Qed.
End Cn.
Print Assumptions cn_roundtrip.
