(* C03, layer H: non-vacuity.  A clone taken exactly when the root is full, then writes on both sides; nodes released by
   merges and a root collapse are handed out again by newNode. *)
From Coq Require Import ZArith List Bool.
Require Import C03_Model C03_Cow C03_Heap C03_HeapLib C03_HeapWorld.
Import ListNotations.
Open Scope Z_scope.

Definition ins (i : nat) (k : Z) : hop := HIns i (k, k + 100).

(* degree 2: three items fill the leaf root; Clone; the original inserts (its ReplaceOrInsert splits the shared root after
   copying it), the clone replaces an existing key and inserts; then deletes on both sides *)
Definition prog1 : list hop :=
  [ins 0 10; ins 0 20; ins 0 30; HClone 0; ins 0 40; HIns 1 (20, 777); ins 1 5; ins 0 25; ins 1 15;
   HDel 0 (IRmItem 10); HDel 1 IRmMax; HDel 0 IRmMin].

Example prog1_small : f_small 2 [iempty] prog1.
Proof.
  cbn [prog1 f_small]. repeat (match goal with |- context [f_step ?d ?t ?o] => let r := eval vm_compute in (f_step d t o) in change (f_step d t o) with r end; cbv iota beta).
  repeat split; intros t' H; repeat (destruct H as [<-|H]; [vm_compute; reflexivity|]); destruct H.
Qed.
Example prog1_run :
  match h_run 2 world0 prog1, f_run 2 [iempty] prog1 with
  | Some (w, outs), Some (ts, outs') =>
      map (habs (hp (wst w))) (whs w) = map Some ts /\ outs = outs' /\
      map itree_list ts = [[(25,125); (30,130); (40,140)]; [(5,105); (10,110); (15,115); (20,777)]]
  | _, _ => False
  end.
Proof. vm_compute. repeat split; reflexivity. Qed.

(* degree 2: a tree of three levels is emptied (merges and root collapses release nodes into the shared free list), then
   grown again: the new nodes are the released ones, the allocation frontier does not move *)
Definition grow_keys : list Z := [1; 2; 3; 4; 5; 6; 7; 8; 9; 10; 11; 12].
Definition prog2a : list hop := map (ins 0) grow_keys ++ map (fun k => HDel 0 (IRmItem k)) [1; 2; 3; 4; 5; 6; 7; 8; 9].
Definition prog2b : list hop := map (ins 0) [21; 22; 23; 24; 25; 26; 27].
Example prog2_recycles :
  match h_run 2 world0 prog2a with
  | Some (w1, _) =>
      match h_run 2 w1 prog2b, f_run 2 [iempty] (prog2a ++ prog2b) with
      | Some (w2, _), Some (ts, _) =>
          (length (fl (wst w1)) = 6 /\ nxt (wst w2) = nxt (wst w1) /\ length (fl (wst w2)) = 1)%nat /\
          map (habs (hp (wst w2))) (whs w2) = map Some ts /\
          map itree_list ts = [[(10,110); (11,111); (12,112); (21,121); (22,122); (23,123); (24,124); (25,125); (26,126); (27,127)]]
      | _, _ => False
      end
  | None => False
  end.
Proof. vm_compute. repeat split; reflexivity. Qed.

(* degree 2, a free list of two nodes: Clear(true) on the original right after Clone releases nothing (every node is
   shared, none is owned by the original's new context) and the clone keeps its eight items; the clone then copies a
   path by writing, and its Clear(true) releases exactly nodes it owns - two of them, then the list is full; a third
   tree made on the same free list and the cleared original then take these two nodes (the frontier does not move) *)
Definition prog3a : list hop := map (ins 0) [1; 2; 3; 4; 5; 6; 7; 8] ++ [HClone 0; HClear 0 true].
Definition prog3b : list hop := [ins 1 9; ins 1 10; HClear 1 true].
Definition prog3c : list hop := [HNew; ins 2 50; ins 2 51; ins 0 11].
Example prog3_clear :
  match h_run 2 (world_init 2) prog3a with
  | Some (w1, _) =>
      match h_run 2 w1 prog3b with
      | Some (w2, _) =>
          match h_run 2 w2 prog3c, f_run 2 [iempty] (prog3a ++ prog3b ++ prog3c) with
          | Some (w3, _), Some (ts, _) =>
              fl (wst w1) = [] /\
              map (fun hd => option_map itree_list (habs (hp (wst w1)) hd)) (whs w1)
                = [Some []; Some [(1,101); (2,102); (3,103); (4,104); (5,105); (6,106); (7,107); (8,108)]] /\
              (length (fl (wst w2)) = 2 /\ nxt (wst w3) = nxt (wst w2) /\ fl (wst w3) = [])%nat /\
              map (habs (hp (wst w3))) (whs w3) = map Some ts /\
              map itree_list ts = [[(11,111)]; []; [(50,150); (51,151)]]
          | _, _ => False
          end
      | None => False
      end
  | None => False
  end.
Proof. vm_compute. repeat split; reflexivity. Qed.
