(* C08: results are fresh values.  A program over a pool of bitmaps: constructors and the results of
   And / Or / OrThenReverse / Reverse are stored as NEW pool members, any member may LATER be mutated
   (SetI32 / UnsetI32 / SetI16 / UnsetI16), and after every step every pool member is observed again.
   Model: each pool member is an independent 16-word list.  Specification: each pool member is an independent
   boolean array over [0, 1023] (the property's "set of integers").  prog_sound: the model's observations
   satisfy the specification's, for every program. *)
From Coq Require Import List Bool ZArith NArith Lia.
Require Import BitSet C08_Model C08_Spec C08_Word C08_Iter C08_Set.
Import ListNotations.
Open Scope Z_scope.

Inductive pop :=
| PNew                                  (* NewBit1024() *)
| PLit (ws : list N)                    (* a bitmap given by its 16 words *)
| PBin (k : bkind) (a b : nat)          (* pool[a].And/Or/OrThenReverse(pool[b]), stored as a new member *)
| PRev (a : nat)                        (* pool[a].Reverse(), stored as a new member *)
| PMut (k : pkind) (a : nat) (i : Z).   (* pool[a].SetI32(i) ... in place *)

Fixpoint upd_at {A} (a : nat) (f : A -> A) (l : list A) : list A :=
  match l, a with
  | [], _ => []
  | x :: r, O => f x :: r
  | x :: r, S a' => x :: upd_at a' f r
  end.

(* ---------------- model: independent word lists ---------------- *)
Definition zero16 : list N := repeat 0%N 16.
Definition mstep (o : pop) (pool : list (list N)) : list (list N) :=
  match o with
  | PNew => pool ++ [zero16]
  | PLit ws => if Nat.eqb (length ws) 16 then pool ++ [ws] else pool
  | PBin k a b => pool ++ [binop k (nth a pool zero16) (nth b pool zero16)]
  | PRev a => pool ++ [reverse1024 (nth a pool zero16)]
  | PMut k a i => upd_at a (fun ws => point k ws i) pool
  end.
Fixpoint mrun (ops : list pop) (pool : list (list N)) : list (list (list N)) :=
  match ops with [] => [] | o :: r => let p := mstep o pool in p :: mrun r p end.

(* the boolean array of a 16-word bitmap, word by word (bits_of_mem: it is  map (mem1024 ws) dom1024) *)
Definition bits_of_word (w : N) : list bool := map (N.testbit w) (asc 0 64).
Definition bits_of (ws : list N) : list bool := flat_map bits_of_word ws.

(* ---------------- specification: independent boolean arrays indexed by dom1024 ---------------- *)
Definition vfalse : list bool := map (fun _ => false) dom1024.
Definition fbin (k : bkind) (x y : bool) : bool :=
  match k with BAnd => x && y | BOr => x || y | BOrThenReverse => negb (x || y) end.
Definition fpoint (k : pkind) (hit x : bool) : bool :=
  match k with PSetI32 | PSetI16 => hit || x | PUnsetI32 | PUnsetI16 => negb hit && x end.
Definition vbin (k : bkind) (va vb : list bool) : list bool := map (fun xy => fbin k (fst xy) (snd xy)) (combine va vb).
Definition vpoint (k : pkind) (i : Z) (v : list bool) : list bool :=
  map (fun jx => fpoint k (in1024 i && Z.eqb (fst jx) i) (snd jx)) (combine dom1024 v).
Definition sstep (o : pop) (pool : list (list bool)) : list (list bool) :=
  match o with
  | PNew => pool ++ [vfalse]
  | PLit ws => if Nat.eqb (length ws) 16 then pool ++ [bits_of ws] else pool
  | PBin k a b => pool ++ [vbin k (nth a pool vfalse) (nth b pool vfalse)]
  | PRev a => pool ++ [map negb (nth a pool vfalse)]
  | PMut k a i => upd_at a (vpoint k i) pool
  end.
Fixpoint srun (ops : list pop) (pool : list (list bool)) : list (list (list bool)) :=
  match ops with [] => [] | o :: r => let p := sstep o pool in p :: srun r p end.

(* ---------------- comparing an observation with the specification ---------------- *)
Fixpoint bl_eqb (x y : list bool) : bool :=
  match x, y with [], [] => true | a :: x', b :: y' => Bool.eqb a b && bl_eqb x' y' | _, _ => false end.
Fixpoint all2 {A B} (f : A -> B -> bool) (x : list A) (y : list B) : bool :=
  match x, y with [], [] => true | a :: x', b :: y' => f a b && all2 f x' y' | _, _ => false end.
(* one observed bitmap against one boolean array *)
Definition bm_ok (ws : list N) (v : list bool) : bool := Nat.eqb (length ws) 16 && bl_eqb (bits_of ws) v.
Definition prog_ok (obs : list (list (list N))) (sp : list (list (list bool))) : bool := all2 (all2 bm_ok) obs sp.

Fixpoint nll_eqb (x y : list (list N)) : bool :=
  match x, y with [], [] => true | a :: x', b :: y' => nl_eqb a b && nll_eqb x' y' | _, _ => false end.
Fixpoint nlll_eqb (x y : list (list (list N))) : bool :=
  match x, y with [], [] => true | a :: x', b :: y' => nll_eqb a b && nlll_eqb x' y' | _, _ => false end.
Lemma nll_eqb_eq x y : nll_eqb x y = true -> x = y.
Proof.
  revert y; induction x as [|a x IH]; destruct y as [|b y]; cbn [nll_eqb]; try discriminate; auto.
  intros H. apply andb_prop in H. destruct H as [H1 H2]. apply nl_eqb_eq in H1. subst b. f_equal. auto.
Qed.
Lemma nlll_eqb_eq x y : nlll_eqb x y = true -> x = y.
Proof.
  revert y; induction x as [|a x IH]; destruct y as [|b y]; cbn [nlll_eqb]; try discriminate; auto.
  intros H. apply andb_prop in H. destruct H as [H1 H2]. apply nll_eqb_eq in H1. subst b. f_equal. auto.
Qed.

(* ---------------- bits_of is the membership array ---------------- *)
Lemma map_flat_map {A B C} (f : B -> C) (g : A -> list B) l : map f (flat_map g l) = flat_map (fun x => map f (g x)) l.
Proof. induction l as [|x r IH]; cbn [flat_map map]; [reflexivity|]. now rewrite map_app, IH. Qed.
Lemma flat_map_map {A B C} (f : A -> B) (g : B -> list C) l : flat_map g (map f l) = flat_map (fun x => g (f x)) l.
Proof. induction l as [|x r IH]; cbn [flat_map map]; [reflexivity|]. now rewrite IH. Qed.

Lemma chunk_bits ws k : 0 <= k < 16 -> map (mem1024 ws) (map (glob k) (zseq 0 64)) = bits_of_word (word ws k).
Proof.
  intros Hk. rewrite map_map. unfold bits_of_word.
  change (zseq 0 64) with (zseq (Z.of_N 0) 64). rewrite zseq_asc, map_map.
  apply map_ext_in. intros i Hi. apply in_asc in Hi.
  rewrite mem1024_glob by lia. rewrite mem64_bit by lia. now rewrite N2Z.id.
Qed.
Lemma words_all ws : length ws = 16%nat -> map (word ws) (words_ord false) = ws.
Proof.
  intros H. do 16 (destruct ws as [|? ws]; [discriminate|]). destruct ws; [reflexivity|discriminate].
Qed.
Lemma bits_of_mem ws : length ws = 16%nat -> map (mem1024 ws) dom1024 = bits_of ws.
Proof.
  intros H. unfold dom1024. rewrite dom1024_words, map_flat_map.
  rewrite (flat_map_ext_in _ (fun k => bits_of_word (word ws k))).
  - rewrite <- (flat_map_map (word ws) bits_of_word). now rewrite words_all.
  - intros k Hk. apply chunk_bits. now apply words_ord_range in Hk.
Qed.

(* ---------------- simulation ---------------- *)
Definition R (ws : list N) (v : list bool) : Prop := length ws = 16%nat /\ map (mem1024 ws) dom1024 = v.

Lemma bl_eqb_refl x : bl_eqb x x = true.
Proof. induction x as [|a x IH]; cbn [bl_eqb]; auto. rewrite Bool.eqb_reflx, IH. reflexivity. Qed.
Lemma R_ok ws v : R ws v -> bm_ok ws v = true.
Proof. intros [H1 H2]. unfold bm_ok. rewrite <- (bits_of_mem ws H1), H1, H2, bl_eqb_refl. reflexivity. Qed.
Lemma all2_R mp sp : Forall2 R mp sp -> all2 bm_ok mp sp = true.
Proof. induction 1 as [|ws v mp sp H _ IH]; cbn [all2]; auto. rewrite (R_ok ws v H), IH. reflexivity. Qed.

Lemma R_zero : R zero16 vfalse.
Proof. split; [reflexivity|]. vm_compute. reflexivity. Qed.
Lemma R_nth a mp sp : Forall2 R mp sp -> R (nth a mp zero16) (nth a sp vfalse).
Proof.
  intros H. revert a. induction H as [|ws v mp sp H _ IH]; intros a; destruct a; cbn [nth]; auto using R_zero.
Qed.
Lemma R_snoc mp sp ws v : Forall2 R mp sp -> R ws v -> Forall2 R (mp ++ [ws]) (sp ++ [v]).
Proof. intros H1 H2. apply Forall2_app; [exact H1|]. constructor; [exact H2|constructor]. Qed.
Lemma R_upd a (f : list N -> list N) (g : list bool -> list bool) mp sp :
  (forall ws v, R ws v -> R (f ws) (g v)) -> Forall2 R mp sp -> Forall2 R (upd_at a f mp) (upd_at a g sp).
Proof.
  intros Hfg H. revert a. induction H as [|ws v mp sp H Hr IH]; intros a; destruct a; cbn [upd_at]; constructor; auto.
Qed.

Lemma map2_combine {A} (f : bool -> bool -> bool) (p q : A -> bool) l :
  map (fun j => f (p j) (q j)) l = map (fun xy => f (fst xy) (snd xy)) (combine (map p l) (map q l)).
Proof. induction l as [|x r IH]; cbn [map combine fst snd]; [reflexivity|]. now rewrite IH. Qed.
Lemma map_combine_dom {A} (h : A -> bool -> bool) (q : A -> bool) l :
  map (fun j => h j (q j)) l = map (fun jx => h (fst jx) (snd jx)) (combine l (map q l)).
Proof. induction l as [|x r IH]; cbn [map combine fst snd]; [reflexivity|]. now rewrite IH. Qed.

Lemma same_set_map p q : same_set p q dom1024 = true -> map p dom1024 = map q dom1024.
Proof. intros H. apply map_ext_in. now apply same_set_iff. Qed.

Lemma R_bin k a b va vb : R a va -> R b vb -> R (binop k a b) (vbin k va vb).
Proof.
  intros [_ Ha] [_ Hb]. split; [apply binop_length|].
  rewrite (same_set_map _ _ (binop_set k a b)). subst va vb. unfold vbin.
  rewrite <- (map2_combine (fbin k) (mem1024 a) (mem1024 b) dom1024).
  apply map_ext. intros j. destruct k; reflexivity.
Qed.
Lemma R_rev a va : R a va -> R (reverse1024 a) (map negb va).
Proof.
  intros [_ Ha]. split; [reflexivity|]. rewrite (same_set_map _ _ (reverse_set a)). subst va. now rewrite map_map.
Qed.
Lemma R_point k i ws v : R ws v -> R (point k ws i) (vpoint k i v).
Proof.
  intros [_ Hv]. split; [apply point_length|].
  rewrite (same_set_map _ _ (point_spec k ws i)). subst v. unfold vpoint.
  rewrite <- (map_combine_dom (fun j x => fpoint k (in1024 i && Z.eqb j i) x) (mem1024 ws) dom1024).
  apply map_ext. intros j. destruct k; reflexivity.
Qed.

Lemma step_sim o mp sp : Forall2 R mp sp -> Forall2 R (mstep o mp) (sstep o sp).
Proof.
  intros H. destruct o as [|ws|k a b|a|k a i]; cbn [mstep sstep].
  - apply R_snoc; [exact H|apply R_zero].
  - destruct (Nat.eqb (length ws) 16) eqn:E; [|exact H]. apply Nat.eqb_eq in E.
    apply R_snoc; [exact H|]. split; [exact E|now apply bits_of_mem].
  - apply R_snoc; [exact H|]. apply R_bin; now apply R_nth.
  - apply R_snoc; [exact H|]. apply R_rev. now apply R_nth.
  - apply R_upd; [|exact H]. intros ws v Hr. now apply R_point.
Qed.

(* every program: what the model observes after each step is what the boolean-array specification allows *)
Theorem prog_sound : forall ops mp sp, Forall2 R mp sp -> prog_ok (mrun ops mp) (srun ops sp) = true.
Proof.
  induction ops as [|o ops IH]; intros mp sp H; cbn [mrun srun]; [reflexivity|].
  unfold prog_ok in *. cbn [all2]. pose proof (step_sim o mp sp H) as Hs.
  rewrite (all2_R _ _ Hs). cbn [andb]. apply IH. exact Hs.
Qed.

(* the specification in the property's words: a result is a fresh value - mutating member a leaves every other member alone *)
Theorem sstep_mut_others k a i pool c : c <> a -> nth c (sstep (PMut k a i) pool) vfalse = nth c pool vfalse.
Proof.
  cbn [sstep]. revert a c. induction pool as [|v pool IH]; intros a c Hc; destruct a, c; cbn [upd_at nth]; try reflexivity; try congruence.
  apply IH. congruence.
Qed.
(* ... and producing a result leaves every existing member alone *)
Theorem sstep_new_keeps o pool c : (forall k a i, o <> PMut k a i) -> (c < length pool)%nat ->
  nth c (sstep o pool) vfalse = nth c pool vfalse.
Proof.
  intros Ho Hc. destruct o as [|ws|k a b|a|k a i]; cbn [sstep]; try (now rewrite app_nth1).
  - destruct (Nat.eqb (length ws) 16); [now rewrite app_nth1|reflexivity].
  - exfalso. now apply (Ho k a i).
Qed.
