(* C11: the two functions of unicode/utf8 that tex.Buffer (and bytes.Buffer) call: EncodeRune and DecodeRune,
   re-modelled concretely (DESIGN 2.3: small external code the property depends on), with the size contracts
   the refinement proof needs.  Their agreement with the real unicode/utf8 is part of the correspondence check
   (WriteRune / ReadRune steps on generated valid, boundary and malformed sequences). *)
From Coq Require Import ZArith List Lia Bool Arith.
Import ListNotations.
Local Open Scope Z_scope.

Definition rune_error : Z := 65533.
(* Go's conversion uint32(r) of an int32 rune *)
Definition uint32 (r : Z) : Z := r mod 4294967296.

(* utf8.EncodeRune(p, r) / utf8.AppendRune: the bytes written *)
Definition encode_rune (r : Z) : list Z :=
  let i := uint32 r in
  if i <=? 127 then [i]
  else if i <=? 2047 then [192 + i / 64; 128 + i mod 64]
  else
    let i := if (1114111 <? i) || ((55296 <=? i) && (i <=? 57343)) then rune_error else i in
    if i <=? 65535 then [224 + i / 4096; 128 + (i / 64) mod 64; 128 + i mod 64]
    else [240 + i / 262144; 128 + (i / 4096) mod 64; 128 + (i / 64) mod 64; 128 + i mod 64].

Definition cont (b : Z) : bool := (128 <=? b) && (b <=? 191).

(* utf8.DecodeRune(p): rune and width; (RuneError, 0) on empty input, (RuneError, 1) on any malformed prefix *)
Definition decode_rune (l : list Z) : Z * nat :=
  match l with
  | [] => (rune_error, O)
  | p0 :: t =>
    if p0 <? 128 then (p0, 1%nat)                                            (* first[p0] = as *)
    else if (p0 <? 194) || (244 <? p0) then (rune_error, 1%nat)               (* first[p0] = xx: 0x80..0xC1, 0xF5..0xFF *)
    else
      let sz := if p0 <? 224 then 2%nat else if p0 <? 240 then 3%nat else 4%nat in
      let lo := if p0 =? 224 then 160 else if p0 =? 240 then 144 else 128 in   (* acceptRanges *)
      let hi := if p0 =? 237 then 159 else if p0 =? 244 then 143 else 191 in
      if Nat.ltb (length l) sz then (rune_error, 1%nat)
      else
        match t with
        | [] => (rune_error, 1%nat)
        | b1 :: t1 =>
          if (b1 <? lo) || (hi <? b1) then (rune_error, 1%nat)
          else if Nat.eqb sz 2 then ((p0 mod 32) * 64 + b1 mod 64, 2%nat)
          else
            match t1 with
            | [] => (rune_error, 1%nat)
            | b2 :: t2 =>
              if negb (cont b2) then (rune_error, 1%nat)
              else if Nat.eqb sz 3 then ((p0 mod 16) * 4096 + (b1 mod 64) * 64 + b2 mod 64, 3%nat)
              else
                match t2 with
                | [] => (rune_error, 1%nat)
                | b3 :: _ =>
                  if negb (cont b3) then (rune_error, 1%nat)
                  else ((p0 mod 8) * 262144 + (b1 mod 64) * 4096 + (b2 mod 64) * 64 + b3 mod 64, 4%nat)
                end
            end
        end
  end.

(* ---- size contracts ---- *)
Lemma encode_rune_len r : (1 <= length (encode_rune r) <= 4)%nat.
Proof.
  unfold encode_rune.
  destruct (uint32 r <=? 127); [cbn; lia|].
  destruct (uint32 r <=? 2047); [cbn; lia|].
  match goal with |- context [if ?c <=? 65535 then _ else _] => destruct (c <=? 65535) end; cbn; lia.
Qed.

Lemma decode_rune_size l : l <> [] -> (1 <= snd (decode_rune l) <= length l)%nat.
Proof.
  destruct l as [|p0 t]; [congruence|]. intros _. unfold decode_rune.
  destruct (p0 <? 128); [cbn; lia|].
  destruct ((p0 <? 194) || (244 <? p0)); [cbn; lia|].
  set (sz := if p0 <? 224 then 2%nat else if p0 <? 240 then 3%nat else 4%nat).
  assert (Hsz : (sz = 2 \/ sz = 3 \/ sz = 4)%nat).
  { subst sz. destruct (p0 <? 224); [auto|]. destruct (p0 <? 240); auto. }
  destruct (Nat.ltb (length (p0 :: t)) sz) eqn:El; [cbn; lia|].
  apply Nat.ltb_ge in El.
  destruct t as [|b1 t1]; [cbn; lia|].
  match goal with |- context [if ?c then (rune_error, 1%nat) else _] => destruct c end; [cbn; lia|].
  destruct (Nat.eqb sz 2) eqn:E2; [cbn; lia|].
  destruct t1 as [|b2 t2]; [cbn; lia|].
  destruct (negb (cont b2)); [cbn; lia|].
  destruct (Nat.eqb sz 3) eqn:E3; [cbn; lia|].
  destruct t2 as [|b3 t3]; [cbn; lia|].
  destruct (negb (cont b3)); cbn; lia.
Qed.

(* ---- what the two functions do on the defined part of UTF-8 (sanity, by computation) ---- *)
Example enc_examples :
  encode_rune 65 = [65] /\ encode_rune 233 = [195; 169] /\ encode_rune 8364 = [226; 130; 172] /\
  encode_rune 128512 = [240; 159; 152; 128] /\ encode_rune 55296 = [239; 191; 189] /\
  encode_rune 1114112 = [239; 191; 189] /\ encode_rune (-1) = [239; 191; 189].
Proof. vm_compute. repeat split. Qed.

Example dec_examples :
  decode_rune [195; 169; 1] = (233, 2%nat) /\ decode_rune [226; 130; 172] = (8364, 3%nat) /\
  decode_rune [240; 159; 152; 128] = (128512, 4%nat) /\ decode_rune [237; 160; 128] = (rune_error, 1%nat) /\
  decode_rune [192; 128] = (rune_error, 1%nat) /\ decode_rune [226; 130] = (rune_error, 1%nat) /\
  decode_rune [244; 144; 128; 128] = (rune_error, 1%nat) /\ decode_rune [224; 159; 128] = (rune_error, 1%nat).
Proof. vm_compute. repeat split. Qed.

(* every scalar value round-trips (checked on the boundaries of each width; the correspondence check ties
   both functions to unicode/utf8 on generated runes) *)
Example roundtrip_bounds :
  forallb (fun r => let e := encode_rune r in
                    (fst (decode_rune e) =? r) && Nat.eqb (snd (decode_rune e)) (length e))
          [0; 127; 128; 2047; 2048; 55295; 57344; 65535; 65536; 1114111] = true.
Proof. vm_compute. reflexivity. Qed.
