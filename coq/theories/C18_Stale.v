(* C18: Transact on a handle that already carries an error (defect 20, repaired by /repo commit 9f4b88c).
   gorm's Begin starts a driver transaction even then and reports the OLD error in the handle it returns;
   before the repair Transact returned that error and nothing ever finished the transaction.  Now: nothing is begun. *)
From Coq Require Import List Bool Arith Lia.
Require Import C18.
Import ListNotations.

(* how the steps reach Transact / which handle it is given *)
Inductive mode := MDirect | MCombined | MStale.

(* the repaired code: the empty-list test comes first, then the handle's own error *)
Definition transact_stale (c : cfg) : trace :=
  match steps c with [] => ([], RNil) | _ => ([], RBeginErr) end.

(* before the repair: Begin reached the driver, nothing followed *)
Definition transact_stale_prefix (c : cfg) : trace :=
  match steps c with [] => ([], RNil) | _ => (if begin_ok c then [EBegin] else [EBeginFail], RBeginErr) end.

(* the property's clauses on an observed trace, stated without the model: no step ran; whatever was begun was
   finished, and at most one transaction was begun; the caller gets an error unless there was nothing to do *)
Definition holds_stale (c : cfg) (t : trace) : bool :=
  let ev := fst t in let r := snd t in
  Nat.eqb (count is_exec ev) 0
  && Nat.leb (count is_begin ev) 1
  && Nat.eqb (count is_begin ev) (count is_commit ev + count is_rollback ev)
  && match steps c with [] => result_eqb r RNil | _ => negb (result_eqb r RNil) end.

Lemma stale_model_holds c : holds_stale c (transact_stale c) = true.
Proof. unfold holds_stale, transact_stale. destruct (steps c); reflexivity. Qed.

Lemma stale_begins_nothing c : steps c <> [] -> transact_stale c = ([], RBeginErr).
Proof. unfold transact_stale. destruct (steps c); [congruence|reflexivity]. Qed.

Lemma stale_empty c : steps c = [] -> transact_stale c = ([], RNil).
Proof. unfold transact_stale. intros ->. reflexivity. Qed.

(* the behaviour before the repair violates the monitor whenever the driver's Begin succeeds *)
Lemma stale_prefix_refuted : exists c, holds_stale c (transact_stale_prefix c) = false.
Proof. exists {| begin_ok := true; commit_ok := true; rollback_ok := true; steps := [SOk] |}. reflexivity. Qed.

Lemma stale_prefix_violates c : steps c <> [] -> begin_ok c = true -> holds_stale c (transact_stale_prefix c) = false.
Proof.
  intros Hs Hb. unfold holds_stale, transact_stale_prefix. destruct (steps c); [congruence|]. rewrite Hb. reflexivity.
Qed.
