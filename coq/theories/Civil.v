(* C07: the proleptic Gregorian calendar used by time.Unix(...).In(loc) / time.Date(...): days <-> (y, m, d) *)
From Coq Require Import ZArith List Lia Bool.
Open Scope Z_scope.

Definition adj (m : Z) : Z := if m <=? 2 then 1 else 0.

Definition civil_of_doe (doe : Z) : Z * Z * Z :=     (* year-of-era (March based), month, day *)
  let yoe := (doe - doe / 1460 + doe / 36524 - doe / 146096) / 365 in
  let doy := doe - (365 * yoe + yoe / 4 - yoe / 100) in
  let mp := (5 * doy + 2) / 153 in
  let d := doy - (153 * mp + 2) / 5 + 1 in
  let m := if mp <? 10 then mp + 3 else mp - 9 in
  (yoe, m, d).

Definition doe_of (yoe m d : Z) : Z :=
  let doy := (153 * (if 2 <? m then m - 3 else m + 9) + 2) / 5 + d - 1 in
  yoe * 365 + yoe / 4 - yoe / 100 + doy.

Definition civil_from_days (z : Z) : Z * Z * Z :=
  let z' := z + 719468 in
  let era := z' / 146097 in
  let doe := z' mod 146097 in
  let '(yoe, m, d) := civil_of_doe doe in
  (yoe + era * 400 + adj m, m, d).

Definition days_from_civil (y m d : Z) : Z :=
  let y' := y - adj m in
  let era := y' / 400 in
  let yoe := y' mod 400 in
  era * 146097 + doe_of yoe m d - 719468.

(* finite sweep by binary iteration (Common/Sweep.v) *)
Definition stepb (P : Z -> bool) (st : Z * bool) : Z * bool := let '(i, acc) := st in (i + 1, acc && P i).
Definition all_below (P : Z -> bool) (n : positive) : bool := snd (Pos.iter (stepb P) (0, true) n).
Lemma iter_stepb P n : forall i acc,
  Pos.iter (stepb P) (i, acc) n = (i + Z.pos n, acc && snd (Pos.iter (stepb P) (i, true) n)).
Proof.
  induction n using Pos.peano_ind; intros i acc.
  - cbn. now destruct acc, (P i).
  - rewrite !Pos.iter_succ. rewrite IHn. rewrite (IHn i true).
    cbn [stepb snd]. rewrite Pos2Z.inj_succ.
    f_equal; [lia|]. now destruct acc, (snd (Pos.iter (stepb P) (i, true) n)), (P (i + Z.pos n)).
Qed.
Lemma all_below_spec P n : all_below P n = true -> forall i, 0 <= i < Z.pos n -> P i = true.
Proof.
  unfold all_below. induction n using Pos.peano_ind; intros H i Hi.
  - cbn in H. assert (i = 0) by lia. subst. exact H.
  - rewrite Pos.iter_succ in H. rewrite iter_stepb in H. cbn [stepb snd] in H.
    rewrite Pos2Z.inj_succ in Hi. apply andb_prop in H as [H1 H2].
    destruct (Z.eq_dec i (Z.pos n)) as [->|Hne].
    + replace (0 + Z.pos n) with (Z.pos n) in H2 by lia. exact H2.
    + apply IHn; [exact H1 | lia].
Qed.

Definition ok (doe : Z) : bool :=
  let '(yoe, m, d) := civil_of_doe doe in
  (0 <=? yoe) && (yoe <? 400) && (1 <=? m) && (m <=? 12) && (1 <=? d) && (d <=? 31) && (doe_of yoe m d =? doe).

Lemma sweep : all_below ok 146097 = true.
Proof. vm_compute. reflexivity. Qed.

Lemma ok_spec doe : 0 <= doe < 146097 ->
  let '(yoe, m, d) := civil_of_doe doe in
  0 <= yoe < 400 /\ 1 <= m <= 12 /\ 1 <= d <= 31 /\ doe_of yoe m d = doe.
Proof.
  intros H. pose proof (all_below_spec ok 146097 sweep doe H) as Hok. unfold ok in Hok.
  destruct (civil_of_doe doe) as [[yoe m] d].
  repeat (apply andb_prop in Hok as [Hok ?]).
  repeat match goal with
  | H : (_ <=? _) = true |- _ => apply Z.leb_le in H
  | H : (_ <? _) = true |- _ => apply Z.ltb_lt in H
  | H : (_ =? _) = true |- _ => apply Z.eqb_eq in H
  end. lia.
Qed.

(* every day number, of any era, converts to a date and back to itself *)
Theorem civil_roundtrip z :
  let '(y, m, d) := civil_from_days z in days_from_civil y m d = z /\ 1 <= m <= 12 /\ 1 <= d <= 31.
Proof.
  unfold civil_from_days, days_from_civil.
  set (z' := z + 719468). set (era := z' / 146097). set (doe := z' mod 146097).
  assert (Hdoe : 0 <= doe < 146097) by (apply Z.mod_pos_bound; lia).
  pose proof (ok_spec doe Hdoe) as H. destruct (civil_of_doe doe) as [[yoe m] d].
  destruct H as (Hy & Hm & Hd & He).
  replace (yoe + era * 400 + adj m - adj m) with (yoe + era * 400) by lia.
  rewrite Z.div_add, Z.mod_add by lia.
  rewrite (Z.div_small yoe 400), (Z.mod_small yoe 400) by lia.
  rewrite He. split; [|lia].
  pose proof (Z.div_mod z' 146097 ltac:(lia)). fold era doe in H. subst z'. lia.
Qed.
Print Assumptions civil_roundtrip.
