(* C05: what the driver evaluates on every observed case.
   CMem: one history run on cache.NewTTLMemCache(size, ttl) under a virtual clock (steps executed concurrently by racing
         goroutines appear in a witness order chosen by the harness), followed by a probe: one Get per key.
   CRds: one history run on both back-ends (memory cache and the redis adapter over a fake redis.Cmdable that records
         the command stream).
   CRdsHist: one history run on the redis adapter alone, with segments issued by racing goroutines whose redis commands
         the fake interleaves (every racer's first command is served before any racer's second); witness order as in CMem. *)
From Coq Require Import ZArith List Lia Bool.
Require Import Cases_Common.
Require Export TTL TTLView C05_Hist C05_Mon C05_Rds C05_RdsAgree.
Import ListNotations.
Open Scope Z_scope.

(* short forms used by the harness *)
Definition S_ (k v : Z) (t : option Z) (m kp : bool) : op := OSet k v {| s_ttl := t; mne := m; keep := kp |}.
Definition G_ (k : Z) (r : bool) (u : option Z) : op := OGet k {| rag := r; upd := u |}.

Inductive case :=
| CMem (sz dt : Z) (steps probe : list (Z * op * res))
| CRds (sz dt : Z) (steps : list (Z * op * res * (res * list rcmd)))
| CRdsHist (sz dt : Z) (steps : list (Z * op * (res * list rcmd))).

(* ---------- decidable equalities ---------- *)
Definition res_eqb (a b : res) : bool :=
  match a, b with
  | Ok x, Ok y => x =? y | Fail x, Fail y => x =? y
  | Done, Done | Exists, Exists | NotFound, NotFound => true
  | _, _ => false
  end.
Lemma res_eqb_eq a b : res_eqb a b = true -> a = b.
Proof. destruct a, b; cbn; try discriminate; auto; intros H; apply Z.eqb_eq in H; now subst. Qed.

Definition expiry_eqb (a b : expiry) : bool :=
  match a, b with
  | XNone, XNone | XKeep, XKeep => true
  | XPx x, XPx y => x =? y | XEx x, XEx y => x =? y
  | _, _ => false
  end.
Lemma expiry_eqb_eq a b : expiry_eqb a b = true -> a = b.
Proof. destruct a, b; cbn; try discriminate; auto; intros H; apply Z.eqb_eq in H; now subst. Qed.

Definition rcmd_eqb (a b : rcmd) : bool :=
  match a, b with
  | RSet k v e n, RSet k' v' e' n' => (k =? k') && (v =? v') && expiry_eqb e e' && Bool.eqb n n'
  | RSetNX k v, RSetNX k' v' => (k =? k') && (v =? v')
  | RGet k, RGet k' | RGetDel k, RGetDel k' | RDel k, RDel k' => k =? k'
  | RExpire k s, RExpire k' s' => (k =? k') && (s =? s')
  | RScan, RScan => true
  | _, _ => false
  end.
Lemma rcmd_eqb_eq a b : rcmd_eqb a b = true -> a = b.
Proof.
  destruct a, b; cbn; try discriminate; auto; intros H;
    repeat match goal with
           | H : _ && _ = true |- _ => apply andb_prop in H as [H ?]
           | H : (_ =? _) = true |- _ => apply Z.eqb_eq in H
           | H : expiry_eqb _ _ = true |- _ => apply expiry_eqb_eq in H
           | H : Bool.eqb _ _ = true |- _ => apply Bool.eqb_prop in H
           end; now subst.
Qed.

Definition rout_eqb (a b : res * list rcmd) : bool := res_eqb (fst a) (fst b) && list_eqb rcmd_eqb (snd a) (snd b).
Lemma rout_eqb_eq a b : rout_eqb a b = true -> a = b.
Proof.
  destruct a, b. unfold rout_eqb. cbn [fst snd]. intros H. apply andb_prop in H as [H1 H2].
  apply res_eqb_eq in H1. apply (list_eqb_eq rcmd_eqb rcmd_eqb_eq) in H2. now subst.
Qed.

(* ---------- the probe: how many keys are retrievable ---------- *)
Fixpoint nodupb (x : list Z) : bool := match x with [] => true | a :: r => negb (existsb (Z.eqb a) r) && nodupb r end.
Lemma nodupb_NoDup x : nodupb x = true -> NoDup x.
Proof.
  induction x as [|a r IH]; [constructor|]. cbn [nodupb]. intros H. apply andb_prop in H as [H1 H2]. constructor; [|now apply IH].
  intros Hin. apply negb_true_iff in H1. assert (existsb (Z.eqb a) r = true); [|congruence].
  apply existsb_exists. exists a. split; [exact Hin|apply Z.eqb_refl].
Qed.

Definition is_get (s : Z * op * res) : bool := match snd (fst s) with OGet _ _ => true | _ => false end.
Definition pkey (s : Z * op * res) : Z := match snd (fst s) with OGet k _ => k | OSet k _ _ => k | ORemove k => k | OClear => 0 end.
Definition is_hit (s : Z * op * res) : bool := match snd s with Ok _ => true | _ => false end.
(* the probe reads every key once: at most max(0,size) of the reads succeed *)
Definition probe_ok (sz : Z) (p : list (Z * op * res)) : bool :=
  negb (forallb is_get p && nodupb (map pkey p)) || (Z.of_nat (length (filter is_hit p)) <=? Z.max 0 sz).

(* ---------- accept / holds ---------- *)
Definition accept_mem (sz dt : Z) (t : list (Z * op * res)) : bool :=
  list_eqb res_eqb (snd (run (empty sz dt) (hist_of t))) (obs_of t).

(* the monitor of C05_Mon on the observed history (inside the int64 domain) and the bound on the probe *)
Definition holds_mem (sz dt : Z) (steps probe : list (Z * op * res)) : bool :=
  negb (dom_all dt (steps ++ probe)) || (mrun sz dt mon0 (steps ++ probe) && probe_ok sz probe).

Definition rhist (t : list (Z * op * res * (res * list rcmd))) : list (Z * op) := map (fun s => fst (fst s)) t.
Definition rmem (t : list (Z * op * res * (res * list rcmd))) : list res := map (fun s => snd (fst s)) t.
Definition rrds (t : list (Z * op * res * (res * list rcmd))) : list (res * list rcmd) := map snd t.

Definition accept_rds (sz dt : Z) (t : list (Z * op * res * (res * list rcmd))) : bool :=
  list_eqb res_eqb (snd (run (empty sz dt) (rhist t))) (rmem t) && list_eqb rout_eqb (rds_run dt [] (rhist t)) (rrds t).

(* on a restricted history the two back-ends report the same result at every step *)
Definition holds_rds (sz dt : Z) (t : list (Z * op * res * (res * list rcmd))) : bool :=
  negb (restricted sz dt (rhist t)) || list_eqb res_eqb (rmem t) (map fst (rrds t)).

(* the redis adapter alone: what it reports and sends is what the adapter model reports and sends; on a restricted
   history its reports satisfy the same monitor as the memory cache (one-shot reads included) *)
Definition accept_rdsh (dt : Z) (t : list (Z * op * (res * list rcmd))) : bool :=
  list_eqb rout_eqb (rds_run dt [] (map fst t)) (map snd t).
Definition holds_rdsh (sz dt : Z) (t : list (Z * op * (res * list rcmd))) : bool :=
  negb (restricted sz dt (map fst t)) || mrun sz dt mon0 (combine (map fst t) (map (fun s => fst (snd s)) t)).

Definition case_accept (c : case) : bool :=
  match c with
  | CMem sz dt steps probe => accept_mem sz dt (steps ++ probe)
  | CRds sz dt t => accept_rds sz dt t
  | CRdsHist sz dt t => accept_rdsh dt t
  end.

Definition case_holds (c : case) : bool :=
  match c with
  | CMem sz dt steps probe => holds_mem sz dt steps probe
  | CRds sz dt t => holds_rds sz dt t
  | CRdsHist sz dt t => holds_rdsh sz dt t
  end.

(* ---------- soundness ---------- *)
Lemma get_keys_incl c k o now : incl (keys (l (fst (get c k o now)))) (keys (l c)).
Proof.
  unfold get. destruct (find_k k (l c)) as [n|] eqn:Hf; cbn [fst l]; [|apply incl_refl].
  assert (He : incl (keys (erase k (l c))) (keys (l c))) by (intros x Hx; now apply In_keys_erase in Hx as [Hx _]).
  destruct (dl n <? now); cbn [fst l without]; [exact He|]. destruct (rag o); cbn [fst l]; [exact He|].
  intros x Hx. cbn [keys map key] in Hx. destruct Hx as [<-|Hx]; [apply In_keys_find; now exists n|now apply He].
Qed.

Lemma probe_hits p : forall c, forallb is_get p = true -> snd (run c (hist_of p)) = obs_of p ->
  incl (map pkey (filter is_hit p)) (keys (l c)).
Proof.
  induction p as [|[[now o] r] p IH]; intros c Hg Ho; [intros x []|].
  cbn [forallb] in Hg. apply andb_prop in Hg as [Hg1 Hg2]. unfold is_get in Hg1. cbn [fst snd] in Hg1.
  destruct o as [k v so|k go|k|]; try discriminate.
  cbn [hist_of obs_of map fst snd run step] in Ho. fold (hist_of p) in Ho. fold (obs_of p) in Ho.
  pose proof (get_keys_incl c k go now) as Hincl.
  destruct (get c k go now) as [c1 r1] eqn:Eg. cbn [fst] in Hincl.
  destruct (run c1 (hist_of p)) as [c2 rs] eqn:Er. cbn [snd] in Ho. injection Ho as Hr Hrs. subst r1.
  assert (IH' : incl (map pkey (filter is_hit p)) (keys (l c1))) by (apply IH; [exact Hg2|now rewrite Er]).
  cbn [filter]. unfold is_hit at 1. cbn [snd]. destruct r as [v| | | |e].
  - cbn [map]. unfold pkey at 1. cbn [fst snd]. intros x [<-|Hx].
    + unfold get in Eg. destruct (find_k k (l c)) as [n|] eqn:Hf; [apply In_keys_find; now exists n|]. discriminate.
    + apply Hincl. now apply IH'.
  - intros x Hx. apply Hincl. now apply IH'.
  - intros x Hx. apply Hincl. now apply IH'.
  - intros x Hx. apply Hincl. now apply IH'.
  - intros x Hx. apply Hincl. now apply IH'.
Qed.

Lemma NoDup_map_filter {A} (f : A -> Z) (g : A -> bool) x : NoDup (map f x) -> NoDup (map f (filter g x)).
Proof.
  induction x as [|a r IH]; [auto|]. cbn [map filter]. intros H. inversion H; subst. destruct (g a); [|now apply IH].
  cbn [map]. constructor; [|now apply IH]. intros Hin. apply H2. apply in_map_iff in Hin as (y & Hy & Hin).
  apply filter_In in Hin as [Hin _]. apply in_map_iff. now exists y.
Qed.

Lemma app_eq_length {A} (a a' b b' : list A) : length a = length a' -> a ++ b = a' ++ b' -> a = a' /\ b = b'.
Proof.
  revert a'. induction a as [|x a IH]; intros [|y a'] Hl H; try discriminate; [now split|].
  cbn in H. injection H as Hx H. injection Hl as Hl. destruct (IH a' Hl H) as [-> ->]. now subst.
Qed.

Lemma probe_sound sz dt steps probe : snd (run (empty sz dt) (hist_of (steps ++ probe))) = obs_of (steps ++ probe) -> probe_ok sz probe = true.
Proof.
  intros H. unfold probe_ok. destruct (forallb is_get probe && nodupb (map pkey probe)) eqn:E; [|reflexivity].
  apply andb_prop in E as [Eg En]. apply nodupb_NoDup in En. cbn [negb orb]. apply Z.leb_le.
  unfold hist_of, obs_of in H. rewrite !map_app in H. fold (hist_of steps) (hist_of probe) (obs_of steps) (obs_of probe) in H.
  rewrite run_app in H. pose proof (run_wf (hist_of steps) (empty sz dt) (wf_empty sz dt)) as (Hwf & Hsz & _).
  pose proof (run_length (hist_of steps) (empty sz dt)) as Hlen.
  destruct (run (empty sz dt) (hist_of steps)) as [c1 r1]. cbn [fst snd] in *.
  destruct (run c1 (hist_of probe)) as [c2 r2] eqn:Er. cbn [snd] in H.
  apply app_eq_length in H as [_ H]; [|rewrite Hlen; unfold hist_of, obs_of; now rewrite !map_length].
  assert (Hincl : incl (map pkey (filter is_hit probe)) (keys (l c1))) by (apply probe_hits; [exact Eg|now rewrite Er]).
  pose proof (NoDup_incl_length (NoDup_map_filter pkey is_hit probe En) Hincl) as Hl.
  rewrite map_length in Hl. unfold keys in Hl. rewrite map_length in Hl. destruct Hwf as [_ Hb]. cbn [empty size] in Hsz. lia.
Qed.

Lemma accept_mem_holds sz dt steps probe : accept_mem sz dt (steps ++ probe) = true -> holds_mem sz dt steps probe = true.
Proof.
  unfold accept_mem, holds_mem. intros H. apply (list_eqb_eq res_eqb res_eqb_eq) in H.
  destruct (dom_all dt (steps ++ probe)) eqn:Ed; [|reflexivity]. cbn [negb orb]. apply andb_true_intro. split.
  - now apply (run_sim (steps ++ probe) (empty sz dt) mon0 (sim0 sz dt) Ed H).
  - now apply (probe_sound sz dt steps probe).
Qed.

Lemma map_fst_map_snd {A B C} (t : list (A * (B * C))) : map fst (map snd t) = map (fun s => fst (snd s)) t.
Proof. now rewrite map_map. Qed.

Lemma accept_rds_holds sz dt t : accept_rds sz dt t = true -> holds_rds sz dt t = true.
Proof.
  unfold accept_rds, holds_rds. intros H. apply andb_prop in H as [H1 H2].
  apply (list_eqb_eq res_eqb res_eqb_eq) in H1. apply (list_eqb_eq rout_eqb rout_eqb_eq) in H2.
  destruct (restricted sz dt (rhist t)) eqn:Er; [|reflexivity]. cbn [negb orb].
  rewrite <- H1, <- H2. rewrite (rds_agrees sz dt (rhist t) Er). apply list_eqb_refl. intros a. destruct a; cbn; auto using Z.eqb_refl.
Qed.

Lemma accept_rdsh_holds sz dt t : accept_rdsh dt t = true -> holds_rdsh sz dt t = true.
Proof.
  unfold accept_rdsh, holds_rdsh. intros H. apply (list_eqb_eq rout_eqb rout_eqb_eq) in H.
  destruct (restricted sz dt (map fst t)) eqn:Er; [|reflexivity]. cbn [negb orb].
  rewrite <- (map_map snd fst t), <- H. now apply rds_satisfies_monitor.
Qed.

Theorem case_sound : forall c, case_accept c = true -> case_holds c = true.
Proof.
  intros [sz dt steps probe|sz dt t|sz dt t]; cbn [case_accept case_holds];
    [apply accept_mem_holds|apply accept_rds_holds|apply accept_rdsh_holds].
Qed.
