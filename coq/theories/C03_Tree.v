(* C03: the whole tree, on items (key, payload).  One ReplaceOrInsert / Delete / DeleteMin / DeleteMax of the model
   (root split before insert, root collapse after delete, the length field) keeps the B-tree invariant and has
   exactly the effect of the sorted-map operation on the in-order list, including what it returns.
   Item-level version of BTTree.v. *)
From Coq Require Import ZArith List Lia Bool Sorting.Sorted.
Require Import C03_Model C03_Spec C03_D C03_Ins C03_Sel C03_Inv C03_Tot C03_InsInv C03_Up.
Import ListNotations.
Open Scope Z_scope.
Local Coercion key : item >-> Z.

(* ---- sorted lists of items ---- *)
Lemma ss_filter_k (f : item -> bool) l : StronglySorted klt l -> StronglySorted klt (filter f l).
Proof.
  induction 1 as [|a l Hs IH Hf]; cbn [filter]; [constructor|]. destruct (f a); [|exact IH].
  constructor; [exact IH|]. apply Forall_forall. intros x Hx. apply filter_In in Hx. destruct Hx as [Hx _].
  rewrite Forall_forall in Hf. apply Hf, Hx.
Qed.
Lemma ss_join (l1 l2 : list item) : StronglySorted klt l1 -> StronglySorted klt l2 ->
  (forall a b, In a l1 -> In b l2 -> klt a b) -> StronglySorted klt (l1 ++ l2).
Proof.
  induction 1 as [|a l Hs IH Hf]; intros H2 Hlt; cbn [app]; [exact H2|].
  constructor; [apply IH; [exact H2|intros x y Hx Hy; apply Hlt; [right; exact Hx|exact Hy]]|].
  apply Forall_app. split; [exact Hf|]. apply Forall_forall. intros y Hy. apply Hlt; [left; reflexivity|exact Hy].
Qed.
Lemma s_ins_sorted (it : item) L : StronglySorted klt L -> StronglySorted klt (s_ins it L).
Proof.
  intros H. unfold s_ins. apply ss_join; [apply ss_filter_k, H| |].
  - constructor; [apply ss_filter_k, H|]. apply Forall_forall. intros y Hy. apply filter_In in Hy. destruct Hy as [_ Hy]. apply Z.ltb_lt, Hy.
  - intros a b Ha Hb. apply filter_In in Ha. destruct Ha as [_ Ha]. apply Z.ltb_lt in Ha. unfold klt.
    destruct Hb as [<-|Hb]; [exact Ha|]. apply filter_In in Hb. destruct Hb as [_ Hb]. apply Z.ltb_lt in Hb. lia.
Qed.
Lemma ss_removelast (l : list item) : StronglySorted klt l -> StronglySorted klt (removelast l).
Proof.
  induction 1 as [|a l Hs IH Hf]; [constructor|]. cbn [removelast]. destruct l as [|b l]; [constructor|].
  constructor; [exact IH|]. apply Forall_forall. intros x Hx. rewrite Forall_forall in Hf. apply Hf. apply C03_Up.in_removelast, Hx.
Qed.
Lemma spec_list_sorted t L : StronglySorted klt L -> StronglySorted klt (spec_list t L).
Proof.
  intros H. destruct t as [k| |]; cbn [spec_list].
  - apply ss_filter_k, H.
  - destruct L; [constructor|]. inversion H; subst. assumption.
  - apply ss_removelast, H.
Qed.

(* a sorted list around a key *)
Lemma sorted_split (k : Z) L : StronglySorted klt L ->
  exists P R, Forall (fun y : item => y < k) P /\ Forall (fun y : item => k < y) R /\
    (L = P ++ R \/ exists old : item, key old = k /\ L = P ++ old :: R).
Proof.
  induction 1 as [|x L Hs IH Hf]; [exists [], []; split; [constructor|split; [constructor|left; reflexivity]]|].
  unfold klt in Hf. destruct (Z.lt_trichotomy k (key x)) as [Hlt|[Heq|Hgt]].
  - exists [], (x :: L). split; [constructor|]. split; [|left; reflexivity].
    constructor; [exact Hlt|]. rewrite Forall_forall in *. intros y Hy. specialize (Hf y Hy). lia.
  - exists [], L. split; [constructor|]. split; [|right; exists x; split; [symmetry; exact Heq|reflexivity]].
    rewrite Forall_forall in *. intros y Hy. specialize (Hf y Hy). lia.
  - destruct IH as (P & R & HP & HR & Hc). exists (x :: P), R. split; [constructor; [exact Hgt|exact HP]|]. split; [exact HR|].
    destruct Hc as [->|(old & Ho & ->)]; [left; reflexivity|right; exists old; split; [exact Ho|reflexivity]].
Qed.

Lemma s_ins_length (it : item) L : StronglySorted klt L ->
  Z.of_nat (length (s_ins it L)) = match s_lookup it L with None => Z.of_nat (length L) + 1 | Some _ => Z.of_nat (length L) end.
Proof.
  intros Hs. destruct (sorted_split it L Hs) as (P & R & HP & HR & [->|(old & Ho & ->)]).
  - destruct (spec_ins_absent it P R HP HR) as [-> ->]. rewrite !app_length. cbn [length]. lia.
  - destruct (spec_ins_present it old P R Ho HP HR) as [-> ->]. rewrite !app_length. cbn [length]. lia.
Qed.
Lemma s_del_length (k : Z) L : StronglySorted klt L ->
  Z.of_nat (length (spec_list (IRmItem k) L)) = match spec_out (IRmItem k) L with None => Z.of_nat (length L) | Some _ => Z.of_nat (length L) - 1 end.
Proof.
  intros Hs. cbn [spec_list spec_out]. destruct (sorted_split k L Hs) as (P & R & HP & HR & [->|(old & Ho & ->)]).
  - rewrite filter_app, find_app. destruct (filter_ne_lt k P HP) as [-> ->]. destruct (filter_ne_gt k R HR) as [-> ->]. reflexivity.
  - rewrite filter_app, find_app. destruct (filter_ne_lt k P HP) as [-> ->]. cbn [filter find]. unfold ne at 1, has at 1.
    rewrite Ho, Z.eqb_refl. cbn [negb]. destruct (filter_ne_gt k R HR) as [-> _]. rewrite !app_length. cbn [length]. lia.
Qed.

(* what deleteItem returns at the level of the tree (an empty tree returns nil) *)
Definition tree_out (t : irm) (L : list item) : option item :=
  match t with IRmItem k => s_lookup k L | IRmMin => hd_error L | IRmMax => last_error L end.
Lemma last_indep {A} (L : list A) a b : L <> [] -> last L a = last L b.
Proof.
  induction L as [|x L IH]; [congruence|]. intros _. destruct L as [|y L]; [reflexivity|].
  change (last (y :: L) a = last (y :: L) b). apply IH. discriminate.
Qed.
Lemma last_error_last (L : list item) : L <> [] -> last_error L = Some (last L ditem).
Proof.
  destruct L as [|x L]; [congruence|]. intros _. cbn [last_error]. f_equal.
  destruct L as [|y L]; [reflexivity|]. change (last (y :: L) x = last (y :: L) ditem). apply last_indep. discriminate.
Qed.
Lemma tree_out_spec t L : L <> [] -> tree_out t L = spec_out t L.
Proof.
  intros Hne. destruct t as [k| |]; cbn [tree_out spec_out]; [reflexivity| |].
  - destruct L; [congruence|reflexivity].
  - apply last_error_last, Hne.
Qed.

Section Tree.
Variable deg : nat.
Hypothesis deg_ok : (2 <= deg)%nat.
Definition minI_of := (deg - 1)%nat.
Notation minI := minI_of.
Notation maxI := (maxI_of minI).
Lemma minI_pos : (1 <= minI)%nat.
Proof. unfold minI_of. lia. Qed.
Lemma maxI_deg : (2 * deg - 1)%nat = maxI.
Proof. unfold maxI_of, minI_of. lia. Qed.

(* the invariant of a non-empty tree of height h (the root is exempt from the lower bound) *)
Definition tree_inv (h : nat) (r : inode) : Prop :=
  wf minI h r /\ (length (iitems r) <= maxI)%nat /\ StronglySorted klt (iflat (S h) r) /\ (iitems r = [] -> h = O).

Lemma root2_flat h mid a b : iflat (S (S h)) (INode [mid] [a; b]) = iflat (S h) a ++ mid :: iflat (S h) b.
Proof. rewrite flat_S. reflexivity. Qed.
Lemma root1_flat h c : iflat (S (S h)) (INode [] [c]) = iflat (S h) c.
Proof. rewrite flat_S. reflexivity. Qed.

Theorem root_insert_ok h r (it : item) : tree_inv h r -> (S h < IFUEL)%nat ->
  exists h' r' out,
    iinsert IFUEL maxI (if Nat.leb maxI (length (iitems r))
                        then let '(mid, a, b) := isplit r (Nat.div maxI 2) in INode [mid] [a; b] else r) it = Some (r', out) /\
    tree_inv h' r' /\ (h' = h \/ h' = S h) /\
    iflat (S h') r' = s_ins it (iflat (S h) r) /\ out = s_lookup it (iflat (S h) r).
Proof.
  intros ((Hs & Ho & Hu) & Hlen & Hsort & Hemp) Hfuel.
  assert (Hm1 : (1 <= maxI)%nat) by (unfold maxI_of; lia).
  destruct (Nat.leb maxI (length (iitems r))) eqn:Efull.
  - (* full root: split it under a new root *)
    apply Nat.leb_le in Efull. assert (Hfull : length (iitems r) = maxI) by lia.
    replace (maxI / 2)%nat with minI by (unfold maxI_of; symmetry; apply half_odd).
    assert (HP : P minI h r).
    { split; [exact Hs|split; [split; [unfold maxI_of in Hfull; lia|exact Ho]|split; [lia|exact Hu]]]. }
    pose proof (split_P minI minI_pos h r HP Hfull) as Hsp.
    assert (Hidx : (minI < length (iitems r))%nat) by (rewrite Hfull; unfold maxI_of; lia).
    pose proof (split_flat h r minI (shaped_aligned h r Hs) Hidx) as Hsf.
    destruct (isplit r minI) as [[mid a] b]. destruct Hsp as (HPa & HPb & La & Lb). destruct Hsf as [Hsf _].
    set (R := INode [mid] [a; b]).
    assert (HwfR : wf minI (S h) R).
    { apply node_P. split; [reflexivity|]. constructor; [exact HPa|constructor; [exact HPb|constructor]]. }
    assert (HflatR : iflat (S (S h)) R = iflat (S h) r) by (unfold R; rewrite root2_flat; symmetry; exact Hsf).
    destruct (insert_good minI minI_pos IFUEL (S h) R it Hfuel HwfR) as (n' & r0 & Ei & Hwf' & Hb').
    exists (S h), n', r0. split; [exact Ei|].
    destruct (insert_flat maxI Hm1 IFUEL (S h) R it n' r0 (proj1 HwfR) ltac:(rewrite HflatR; exact Hsort) Ei) as [Hfl Hr0].
    rewrite HflatR in Hfl, Hr0.
    split; [|split; [right; reflexivity|split; [exact Hfl|exact Hr0]]].
    split; [exact Hwf'|]. split; [unfold R in Hb'; cbn [iitems length] in Hb'; unfold maxI_of; pose proof minI_pos; lia|].
    split; [rewrite Hfl; apply s_ins_sorted, Hsort|].
    intros E. rewrite E in Hb'. unfold R in Hb'. cbn [iitems length] in Hb'. lia.
  - apply Nat.leb_gt in Efull.
    destruct (insert_good minI minI_pos IFUEL h r it ltac:(lia) (conj Hs (conj Ho Hu))) as (n' & r0 & Ei & Hwf' & Hb').
    exists h, n', r0. split; [exact Ei|].
    destruct (insert_flat maxI Hm1 IFUEL h r it n' r0 Hs Hsort Ei) as [Hfl Hr0].
    split; [|split; [left; reflexivity|split; [exact Hfl|exact Hr0]]].
    split; [exact Hwf'|]. split; [lia|]. split; [rewrite Hfl; apply s_ins_sorted, Hsort|].
    intros E. rewrite E in Hb'. cbn [length] in Hb'. apply Hemp. destruct (iitems r); [reflexivity|cbn [length] in Hb'; lia].
Qed.

Lemma empty_root_flat r : shaped 0 r -> iitems r = [] -> iflat 1 r = [].
Proof. destruct r as [its ch]. cbn. intros -> ->. reflexivity. Qed.

Theorem root_delete_ok h r t : tree_inv h r -> (2 * h + 2 <= IFUEL)%nat -> iitems r <> [] ->
  exists h' r' n' out,
    iremove IFUEL minI r t = Some (n', out) /\
    r' = (if is_nil (iitems n') && negb (is_nil (ichildren n')) then hd dinode (ichildren n') else n') /\
    tree_inv h' r' /\ (h' = h \/ S h' = h) /\
    iflat (S h') r' = spec_list t (iflat (S h) r) /\ out = spec_out t (iflat (S h) r).
Proof.
  intros ((Hs & Ho & Hu) & Hlen & Hsort & Hemp) Hfuel Hne.
  assert (Hok : ok_rm minI r) by (left; destruct (iitems r); [congruence|cbn; lia]).
  assert (Hpre : pre_t h r t) by (unfold pre_t; destruct t; auto; apply flat_nonempty; exact Hne).
  destruct (proj1 (remove_total minI minI_pos h) IFUEL r t Hfuel (conj Hs Ho) Hok Hsort Hpre) as ([n' out] & Er).
  destruct (remove_good minI minI_pos IFUEL h r t n' out (conj Hs Ho) Hok Hsort Hpre Er) as ([Hs' Ho'] & _ & _).
  destruct (remove_upper minI minI_pos IFUEL h r t n' out Hs Ho Hok Hu Er) as [Hu' Hl'].
  destruct (remove_flat minI minI_pos IFUEL h r t n' out Hs Ho Hok Hsort Hpre Er) as [Hfl Hout].
  assert (Hsort' : StronglySorted klt (iflat (S h) n')) by (rewrite Hfl; apply spec_list_sorted, Hsort).
  destruct (is_nil (iitems n') && negb (is_nil (ichildren n'))) eqn:Ec.
  - (* the root lost its last item: its only child becomes the root *)
    apply andb_prop in Ec. destruct Ec as [E1 E2]. apply is_nil_true in E1. apply negb_true_iff in E2.
    destruct n' as [its' ch']. cbn [iitems ichildren] in *. subst its'.
    destruct h as [|h]; [cbn in Hs'; subst ch'; discriminate|].
    destruct (proj1 (node_P minI h [] ch') (conj Hs' (conj Ho' Hu'))) as [Hl1 HP].
    destruct ch' as [|c [|c2 ch']]; try (cbn in Hl1; lia). inversion HP as [|c0 l0 HPc HPr]; subst c0 l0.
    destruct HPc as (Hcs & (Hcm & Hco) & (Hcx & Hcu)).
    exists h, c, (INode [] [c]), out. cbn [hd]. split; [exact Er|]. split; [reflexivity|]. rewrite root1_flat in Hfl, Hsort'.
    split; [|split; [right; reflexivity|split; [exact Hfl|exact Hout]]].
    split; [split; [exact Hcs|split; [exact Hco|exact Hcu]]|]. split; [exact Hcx|]. split; [exact Hsort'|].
    intros E. rewrite E in Hcm. cbn in Hcm. pose proof minI_pos. lia.
  - exists h, n', n', out. split; [exact Er|]. split; [rewrite Ec; reflexivity|]. split; [|split; [left; reflexivity|split; [exact Hfl|exact Hout]]].
    split; [split; [exact Hs'|split; [exact Ho'|exact Hu']]|]. split; [lia|]. split; [exact Hsort'|].
    intros E. rewrite E in Ec. cbn [is_nil andb] in Ec. apply negb_false_iff in Ec. apply is_nil_true in Ec.
    destruct h as [|h]; [reflexivity|]. destruct Hs' as [Hl1 _]. rewrite Ec in Hl1. cbn in Hl1. lia.
Qed.

(* ---- a tree handle: root, length field ---- *)
Definition contents (h : nat) (t : itree) : list item := match iroot t with None => [] | Some r => iflat (S h) r end.
Definition tinv (h : nat) (t : itree) : Prop :=
  match iroot t with None => h = O | Some r => tree_inv h r end /\ ilen t = Z.of_nat (length (contents h t)).

Lemma tinv_sorted h t : tinv h t -> StronglySorted klt (contents h t).
Proof. unfold tinv, contents. destruct (iroot t) as [r|]; [intros ((_ & _ & Hs & _) & _); exact Hs|intros _; constructor]. Qed.

Theorem itree_insert_ok h t (it : item) : tinv h t -> (S h < IFUEL)%nat ->
  exists h' t', itree_insert deg t it = Some (t', s_lookup it (contents h t)) /\ tinv h' t' /\ (h' <= S h)%nat /\
                contents h' t' = s_ins it (contents h t).
Proof.
  intros Hinv Hfuel. pose proof (tinv_sorted h t Hinv) as Hsorted. destruct Hinv as [Hinv Hlen].
  unfold itree_insert, contents in *. rewrite maxI_deg. destruct (iroot t) as [r|].
  - destruct (root_insert_ok h r it Hinv Hfuel) as (h' & r' & out & Ei & Hi & Hh & Hf & Ho). rewrite Ei.
    exists h', {| iroot := Some r'; ilen := match out with None => ilen t + 1 | Some _ => ilen t end |}.
    split; [rewrite Ho; reflexivity|]. split; [|split; [lia|exact Hf]].
    split; [exact Hi|]. unfold contents. cbn [iroot ilen]. rewrite Hf, Ho, Hlen. rewrite (s_ins_length it _ Hsorted).
    destruct (s_lookup it (iflat (S h) r)); reflexivity.
  - subst h. exists O, {| iroot := Some (INode [it] []); ilen := ilen t + 1 |}. cbn [s_lookup find].
    split; [reflexivity|]. split; [|split; [lia|reflexivity]].
    split; [|cbn [iroot ilen iflat iitems ichildren inter hd_rec length] in *; rewrite Hlen; reflexivity].
    cbn [iroot]. split; [split; [reflexivity|split; exact I]|]. split; [cbn [iitems length]; unfold maxI_of; lia|].
    split; [cbn; constructor; constructor|discriminate].
Qed.

Theorem itree_delete_ok h t r : tinv h t -> (2 * h + 2 <= IFUEL)%nat ->
  exists h' t', itree_delete deg t r = Some (t', tree_out r (contents h t)) /\ tinv h' t' /\ (h' <= h)%nat /\
                contents h' t' = spec_list r (contents h t).
Proof.
  intros Hinv Hfuel. pose proof (tinv_sorted h t Hinv) as Hsorted. destruct Hinv as [Hinv Hlen].
  unfold itree_delete, contents in *. destruct (iroot t) as [rt|] eqn:Eroot.
  - destruct (is_nil (iitems rt)) eqn:En.
    + (* empty root: nothing to delete *)
      apply is_nil_true in En. destruct Hinv as ((Hs & Ho & Hu) & Hl & Hsort & Hemp). specialize (Hemp En). subst h.
      pose proof (empty_root_flat rt Hs En) as Hfl.
      exists O, t. rewrite Eroot, Hfl. split; [destruct r; reflexivity|]. split; [|split; [lia|destruct r; reflexivity]].
      split; [rewrite Eroot; repeat split; auto|]. unfold contents. rewrite Eroot. exact Hlen.
    + assert (Hne : iitems rt <> []) by (destruct (iitems rt); [discriminate|discriminate]).
      destruct (root_delete_ok h rt r Hinv Hfuel Hne) as (h' & r' & n' & out & Er & Hr' & Hi & Hh & Hf & Ho).
      fold minI_of. rewrite Er. rewrite <- Hr'.
      assert (HLne : iflat (S h) rt <> []) by (apply flat_nonempty; exact Hne).
      exists h', {| iroot := Some r'; ilen := match out with Some _ => ilen t - 1 | None => ilen t end |}.
      split; [rewrite (tree_out_spec r _ HLne), Ho; reflexivity|]. split; [|split; [lia|exact Hf]].
      split; [exact Hi|]. unfold contents. cbn [iroot ilen]. rewrite Hf, Ho, Hlen.
      destruct r as [k| |].
      * rewrite (s_del_length k _ Hsorted). destruct (spec_out (IRmItem k) (iflat (S h) rt)); reflexivity.
      * cbn [spec_list spec_out]. destruct (iflat (S h) rt); [congruence|]. cbn [tl length]. lia.
      * cbn [spec_list spec_out]. pose proof (f_equal (@length item) (app_removelast_last ditem HLne)) as E.
        rewrite app_length in E. cbn [length] in E. lia.
  - subst h. exists O, t. rewrite Eroot. split; [destruct r; reflexivity|]. split; [|split; [lia|destruct r; reflexivity]].
    split; [rewrite Eroot; reflexivity|]. unfold contents. rewrite Eroot. exact Hlen.
Qed.
End Tree.
