(* C15: observations of scheduled runs - the replay of an observed label sequence on the machine of C15_LTS.v
   ([conc_match]), the monitor evaluated on the observations alone ([conc_holds]), and the proof that every
   observation the machine reproduces satisfies the monitor ([conc_sound]). *)
From Coq Require Import List Bool ZArith Lia.
Require Export C15_Model C15_LTS C15_Obs.
Require Import C15_Proofs C15_Sched.
Import ListNotations.
Open Scope Z_scope.

Definition answer_eqb (a b : answer) : bool :=
  match a, b with
  | AFast x, AFast y => oz_eqb x y
  | ARefused x, ARefused y => err_eqb x y
  | APanic, APanic | AQueued, AQueued | AStopped, AStopped => true
  | AStep i e f, AStep i' e' f' => (i =? i') && event_eqb e e' && opt_eqb res_eqb f f'
  | _, _ => false end.

Lemma answer_eqb_eq a b : answer_eqb a b = true -> a = b.
Proof.
  destruct a, b; cbn; try discriminate; intros H; try reflexivity.
  - apply oz_eqb_eq in H. subst. reflexivity.
  - apply err_eqb_eq in H. subst. reflexivity.
  - apply andb_prop in H as [H H3]. apply andb_prop in H as [H1 H2].
    apply Z.eqb_eq in H1. apply event_eqb_eq in H2. apply (opt_eqb_eq res_eqb res_eqb_eq) in H3. subst. reflexivity.
Qed.

(* one observed label: the label, what it let the observer see, and afterwards - key by key of the universe - what
   the group's caches and the store hold *)
Definition item := (glabel * answer * list (option val) * list val)%type.
Definition it_label (it : item) : glabel := fst (fst (fst it)).
Definition it_answer (it : item) : answer := snd (fst (fst it)).

Definition mem (x : Z) (l : list Z) : bool := existsb (Z.eqb x) l.

(* replay on the machine, comparing every answer and every snapshot; ids of queued jobs must be fresh and the keys
   must belong to the universe (well-formedness of the case) *)
Fixpoint conc_match (c : gcfg) (deep : nat) (univ : list Z) (seen : list Z) (g : mach) (items : list item) : bool :=
  match items with
  | [] => true
  | (l, a, ca, st) :: rest =>
      match gstep c deep g l with
      | None => false
      | Some (g', a') =>
          match l with GCall j => mem (key_of (j_op j)) univ | _ => true end
          && (0 <? g_n c)
          && match l, a' with GCall j, AQueued => negb (mem (j_id j) seen) | _, _ => true end
          && answer_eqb a' a
          && list_eqb ov_eqb (map (mcache_at c g') univ) ca && list_eqb oz_eqb (map (mstore_at c g') univ) st
          && conc_match c deep univ (match l, a' with GCall j, AQueued => j_id j :: seen | _, _ => seen end) g' rest
      end
  end.

(* ------------------------------------------------------------------ the monitor *)
Record mon := mkMon {
  m_queued : list job;                (* the jobs whose requests were queued, in that order *)
  m_done : list Z;                    (* ids of the jobs that have completed *)
  m_started : list Z;                 (* ids of the jobs that have made a call *)
  m_store_ids : list (Z * Z);         (* (key, id) of every store callback so far, in order *)
  m_committed : list val;             (* per key: the store's value after the last completed operation on it *)
  m_prev_store : list val             (* per key: the store before the label at hand *)
}.

Fixpoint find_job (id : Z) (js : list job) : option job :=
  match js with [] => None | j :: r => if j_id j =? id then Some j else find_job id r end.
Fixpoint set_at {A} (univ : list Z) (snap : list A) (k : Z) (v : A) : list A :=
  match univ, snap with
  | x :: univ', y :: snap' => (if x =? k then v else y) :: set_at univ' snap' k v
  | _, _ => snap end.

(* an operation on key k has been queued and has not completed *)
Definition inflight_key (queued : list job) (done : list Z) (k : Z) : bool :=
  existsb (fun j => (key_of (j_op j) =? k) && negb (mem (j_id j) done)) queued.

(* between two labels: a cached value is the store's value or - only for a key with an operation pending - the value
   the store held after the last completed operation on that key *)
Fixpoint coherent3 (univ : list Z) (infl : Z -> bool) (ca : list (option val)) (st cm : list val) : bool :=
  match univ, ca with
  | k :: univ', Some v :: ca' =>
      (oz_eqb (hd None st) v || (infl k && oz_eqb (hd None cm) v))
      && coherent3 univ' infl ca' (tl st) (tl cm)
  | _ :: univ', None :: ca' => coherent3 univ' infl ca' (tl st) (tl cm)
  | _, [] => true
  | [], _ :: _ => false
  end.

Definition item_holds (univ : list Z) (m : mon) (it : item) : bool * mon :=
  let '(l, a, ca, st) := it in
  match l, a with
  | GCall j, AQueued =>
      let m' := mkMon (m_queued m ++ [j]) (m_done m) (m_started m) (m_store_ids m) (m_committed m) st in
      (negb (mem (j_id j) (map j_id (m_queued m)))
       && coherent3 univ (inflight_key (m_queued m') (m_done m')) ca st (m_committed m'), m')
  | GCall j, AFast v =>
      let m' := mkMon (m_queued m) (m_done m) (m_started m) (m_store_ids m) (m_committed m) st in
      (* the fast path answers with what the cache holds; coherent3 relates that to the store *)
      (match j_op j with OGet k => ov_eqb (at_key univ ca k) (Some v) | _ => false end
       && coherent3 univ (inflight_key (m_queued m') (m_done m')) ca st (m_committed m'), m')
  | GCall _, APanic => (false, m)       (* every key has a worker: no call panics (repair 21) *)
  | GCall _, ARefused _ | GStop, AStopped | GAbandon _, ARefused _ =>
      let m' := mkMon (m_queued m) (m_done m) (m_started m) (m_store_ids m) (m_committed m) st in
      (coherent3 univ (inflight_key (m_queued m') (m_done m')) ca st (m_committed m'), m')
  | GStep _, AStep id e fin =>
      match find_job id (m_queued m) with
      | None => (false, m)
      | Some j =>
          let k := key_of (j_op j) in
          let ids := if is_store_ev e then m_store_ids m ++ [(k, id)] else m_store_ids m in
          let done := match fin with Some _ => id :: m_done m | None => m_done m end in
          let cm := match fin with Some _ => set_at univ (m_committed m) k (at_key univ st k) | None => m_committed m end in
          let m' := mkMon (m_queued m) done (id :: m_started m) ids cm st in
          (negb (mem id (m_done m))                                           (* a completed job makes no call *)
           && (ev_key e =? k)                                                 (* the call is about the job's key *)
           && pre_ok (at_key univ (m_prev_store m) k) e                       (* update callbacks get the store's current value *)
           && coherent3 univ (inflight_key (m_queued m') done) ca st cm
           && match fin with
              | Some RNil => match at_key univ ca k with Some _ => false | None => true end   (* successful delete evicts *)
              | Some (RErr EDupKey) => negb (existsb (fun p => snd p =? id) ids)              (* duplicate: no store callback *)
              | _ => true end
           && match j_op j, e with                                            (* add finding its key cached: duplicate at once *)
              | OAdd _ _, EvPeek _ (Some _) =>
                  if mem id (m_started m) then true
                  else match fin with Some (RErr EDupKey) | Some (RErr ECtx) => true | _ => false end   (* ECtx: its caller had left *)
              | _, _ => true end, m')
      end
  | GCaller _, AStep _ _ _ =>
      (* a call made by a caller's own goroutine (no run of the machine has such a label): the monitor keeps judging
         what the caches hold against the store *)
      let m' := mkMon (m_queued m) (m_done m) (m_started m) (m_store_ids m) (m_committed m) st in
      (coherent3 univ (inflight_key (m_queued m') (m_done m')) ca st (m_committed m'), m')
  | GStop, APanic =>
      (* not an observation of the implementation: the harness marks a run it had to give up (a call that did not
         return within its bound, a signal it could not attribute) - never accepted, and no verdict on the property *)
      (true, m)
  | _, _ => (false, m)
  end.

(* the store callbacks of one key follow the order in which the requests for that key were queued, one job at a time *)
Fixpoint drop_until (i : Z) (o : list Z) : option (list Z) :=
  match o with [] => None | x :: o' => if x =? i then Some o else drop_until i o' end.
Fixpoint follows_b (o ids : list Z) {struct ids} : bool :=
  match ids with
  | [] => true
  | i :: ids' => match drop_until i o with Some o' => follows_b o' ids' | None => false end
  end.

Fixpoint conc_fold (univ : list Z) (m : mon) (items : list item) : bool * mon :=
  match items with
  | [] => (true, m)
  | it :: rest => let '(b, m') := item_holds univ m it in
                  if b then conc_fold univ m' rest else (false, m')
  end.

Definition order_ok (m : mon) (k : Z) : bool :=
  follows_b (map j_id (filter (fun j => key_of (j_op j) =? k) (m_queued m)))
            (map snd (filter (fun p => fst p =? k) (m_store_ids m))).

Definition mon0 (c : gcfg) (univ : list Z) : mon :=
  let st0 := map (fun k => lookup k (g_init c)) univ in mkMon [] [] [] [] st0 st0.

Definition conc_holds (c : gcfg) (univ : list Z) (items : list item) : bool :=
  let '(b, m) := conc_fold univ (mon0 c univ) items in
  b && forallb (order_ok m) univ.

(* ================================================================== soundness: what the machine reproduces satisfies the monitor *)

(* ---- general lemmas ---- *)
Lemma mem_true x l : mem x l = true <-> In x l.
Proof.
  unfold mem. rewrite existsb_exists. split.
  - intros (y & Hy & E). apply Z.eqb_eq in E. subst. exact Hy.
  - intros H. exists x. split; [exact H | apply Z.eqb_refl].
Qed.
Lemma mem_false x l : mem x l = false <-> ~ In x l.
Proof. rewrite <- mem_true. destruct (mem x l); split; intros H; congruence. Qed.

Lemma find_job_in l j : NoDup (map j_id l) -> In j l -> find_job (j_id j) l = Some j.
Proof.
  induction l as [|a l IH]; intros Hnd Hin; [destruct Hin|]. cbn [map] in Hnd. inversion Hnd; subst. cbn [find_job].
  destruct Hin as [->|Hin]; [rewrite Z.eqb_refl; reflexivity|].
  destruct (j_id a =? j_id j) eqn:E; [|apply IH; assumption].
  apply Z.eqb_eq in E. exfalso. apply H1. rewrite E. apply in_map. exact Hin.
Qed.

Lemma set_at_map (f : Z -> val) univ k v :
  set_at univ (map f univ) k v = map (fun x => if x =? k then v else f x) univ.
Proof. induction univ as [|a r IH]; [reflexivity|]. cbn [map set_at]. rewrite IH. reflexivity. Qed.

Lemma coherent3_map (ca : Z -> option val) (st cm : Z -> val) infl univ :
  (forall k v, In k univ -> ca k = Some v -> st k = v \/ (infl k = true /\ cm k = v)) ->
  coherent3 univ infl (map ca univ) (map st univ) (map cm univ) = true.
Proof.
  induction univ as [|a r IH]; intros H; [reflexivity|]. cbn [map coherent3 hd tl].
  assert (IH' : coherent3 r infl (map ca r) (map st r) (map cm r) = true).
  { apply IH. intros k v Hk. apply H. right. exact Hk. }
  destruct (ca a) as [v|] eqn:E; [|exact IH'].
  rewrite IH', andb_true_r. destruct (H a v (or_introl eq_refl) E) as [->|[-> ->]].
  - rewrite oz_eqb_refl. reflexivity.
  - rewrite oz_eqb_refl. cbn. apply orb_true_r.
Qed.

Lemma follows_head_in {A} (o : list A) i l : follows o (i :: l) -> In i o.
Proof.
  intros H. remember (i :: l) as il eqn:E. revert i l E. induction H as [o|a o l' H IH|a o l' H IH]; intros i l E.
  - discriminate.
  - inversion E; subst. left. reflexivity.
  - right. eapply IH. exact E.
Qed.

Lemma follows_b_complete : forall ids o, NoDup o -> follows o ids -> follows_b o ids = true.
Proof.
  induction ids as [|i ids IH]; intros o Hnd Hf; [reflexivity|]. cbn [follows_b].
  induction o as [|x o IHo].
  - apply follows_head_in in Hf. destruct Hf.
  - cbn [drop_until]. destruct (x =? i) eqn:E.
    + apply Z.eqb_eq in E. subst x. apply IH; [exact Hnd|]. inversion Hf; subst; [assumption|].
      (* skipped the head although it is i: i would have to occur again *)
      exfalso. inversion Hnd; subst. match goal with Hn : ~ In i o |- _ => apply Hn end. eapply follows_head_in. eassumption.
    + apply Z.eqb_neq in E. inversion Hf; subst; [congruence|]. inversion Hnd; subst. apply IHo; assumption.
Qed.

Lemma NoDup_snoc {A} (l : list A) a : NoDup l -> ~ In a l -> NoDup (l ++ [a]).
Proof.
  induction l as [|x l IH]; intros Hnd Hni; cbn [app]; [constructor; [intros []|constructor]|].
  inversion Hnd; subst. constructor.
  - intros Hin. apply in_app_or in Hin as [Hin|[<-|[]]]; [contradiction|]. apply Hni. left. reflexivity.
  - apply IH; [assumption|]. intros Hin. apply Hni. right. exact Hin.
Qed.

Lemma NoDup_map_filter {A} (f : A -> Z) (p : A -> bool) l : NoDup (map f l) -> NoDup (map f (filter p l)).
Proof.
  induction l as [|a l IH]; intros H; [constructor|]. cbn [map] in H. inversion H; subst. cbn [filter].
  destruct (p a); [|apply IH; assumption]. cbn [map]. constructor; [|apply IH; assumption].
  intros Hin. apply H2. apply in_map_iff in Hin as (x & Hx & Hin). apply filter_In in Hin as [Hin _]. rewrite <- Hx. apply in_map. exact Hin.
Qed.

(* ---- invariants of the machine that the monitor's bookkeeping rests on ---- *)
Definition wjobs (s : wrk) : list job := (match k_cur s with Some r => [r_job r] | None => [] end) ++ k_queue s.

(* a job that has made no call yet is at the head of its handler *)
Definition sinv (g : mach) : Prop :=
  forall w r, k_cur (g w) = Some r -> r_started r = false -> r_prog r = handler (j_op (r_job r)).

(* the jobs in the machine have been seen, and no two places hold jobs with the same id *)
Definition uinv (g : mach) (seen : list Z) : Prop :=
  (forall w j, In j (wjobs (g w)) -> In (j_id j) seen)
  /\ (forall w1 w2 i1 i2 j1 j2, nth_error (wjobs (g w1)) i1 = Some j1 -> nth_error (wjobs (g w2)) i2 = Some j2 ->
        j_id j1 = j_id j2 -> w1 = w2 /\ i1 = i2).

Lemma wcall_wjobs deep s j s' a : winv s -> wcall deep s j = (s', a) ->
  (a = AQueued /\ wjobs s' = wjobs s ++ [j]) \/ (a <> AQueued /\ wjobs s' = wjobs s).
Proof.
  intros Hw Hc. unfold wjobs. destruct (wcall_cases _ _ _ _ _ Hc) as [(Hc' & Hq & Ha)|[(-> & Hn & Hc' & Hq)|(-> & Hn & Hc' & Hq)]].
  - right. rewrite Hc', Hq. split; [exact Ha | reflexivity].
  - left. split; [reflexivity|]. unfold winv in Hw. rewrite Hn in Hw. destruct Hw as (_ & _ & Hqe).
    rewrite Hc', Hq, Hn, Hqe. reflexivity.
  - left. split; [reflexivity|]. rewrite Hc', Hq. rewrite app_assoc. reflexivity.
Qed.

Lemma wstep_wjobs s s' a : wstep s = Some (s', a) ->
  exists r p' st' fs' e, k_cur s = Some r /\ mstep (r_prog r) (k_st s) (r_fs r) = Some (p', st', fs', e) /\ k_st s' = st' /\
    wjobs s = r_job r :: k_queue s /\
    ((done_res p' = None /\ a = AStep (j_id (r_job r)) e None /\ wjobs s' = wjobs s /\
        k_cur s' = Some (mkRun (r_job r) p' fs' (r_sv0 r) (if is_store_ev e then true else r_touched r) true) /\ k_queue s' = k_queue s
        /\ k_committed s' = k_committed s)
     \/ (exists x, p' = Done x /\ a = AStep (j_id (r_job r)) e (Some (if k_gone s then RErr ECtx else x)) /\ wjobs s' = k_queue s /\
        k_cur s' = fst (next_job st' (k_queue s)) /\ k_queue s' = snd (next_job st' (k_queue s))
        /\ k_committed s' = upd (k_committed s) (rkey r) (smap (wsr st') (rkey r)))).
Proof.
  unfold wstep. intros H. destruct (k_cur s) as [r|] eqn:Ec; [|discriminate].
  destruct (mstep (r_prog r) (k_st s) (r_fs r)) as [[[[p' st'] fs'] e]|] eqn:Em; [|discriminate].
  exists r, p', st', fs', e. split; [reflexivity|]. split; [exact Em|].
  destruct (done_res p') as [x|] eqn:Ed.
  - apply done_res_some in Ed. subst p'. destruct (next_job st' (k_queue s)) as [cur' q'] eqn:En. inversion H; subst; clear H.
    cbn [k_st]. split; [reflexivity|]. split; [unfold wjobs; rewrite Ec; reflexivity|]. right. exists x.
    split; [reflexivity|]. split; [reflexivity|]. cbn [k_cur k_queue k_committed fst snd]. split; [|split; [reflexivity|split; reflexivity]].
    unfold wjobs. cbn [k_cur k_queue]. unfold next_job in En. destruct (k_queue s) as [|j2 q]; inversion En; subst; reflexivity.
  - inversion H; subst; clear H. cbn [k_st]. split; [reflexivity|]. split; [unfold wjobs; rewrite Ec; reflexivity|]. left.
    split; [reflexivity|]. split; [reflexivity|]. cbn [k_cur k_queue k_committed]. split; [|split; [reflexivity|split; reflexivity]].
    unfold wjobs. cbn [k_cur k_queue r_job]. rewrite Ec. reflexivity.
Qed.

Lemma nth_error_tl {A} (l : list A) i : nth_error (tl l) i = nth_error l (S i).
Proof. destruct l; [destruct i; reflexivity | reflexivity]. Qed.

Lemma uinv_gstep c deep g seen l g' a : minv g -> uinv g seen -> gstep c deep g l = Some (g', a) ->
  (match l, a with GCall j, AQueued => ~ In (j_id j) seen | _, _ => True end) ->
  uinv g' (match l, a with GCall j, AQueued => j_id j :: seen | _, _ => seen end).
Proof.
  intros Hm [Hs Hu] Hg Hfresh. destruct l as [j|w0| |cid|wa]; [| | |cbn [gstep] in Hg; discriminate|]; [cbn [gstep] in Hg | cbn [gstep] in Hg | cbn [gstep] in Hg |].
  - set (wj := loc_of c (key_of (j_op j))) in *. destruct (wj <? 0).
    { inversion Hg; subst. split; assumption. }
    destruct (wcall deep (g wj) j) as [s' a'] eqn:Ew. inversion Hg; subst g' a'; clear Hg.
    destruct (wcall_wjobs _ _ _ _ _ (Hm wj) Ew) as [[-> Hj]|[Hna Hj]].
    + split.
      * intros w x Hx. destruct (Z.eq_dec w wj) as [->|Hne].
        -- rewrite updm_same, Hj in Hx. apply in_app_or in Hx as [Hx|[<-|[]]]; [right; eapply Hs; eauto | left; reflexivity].
        -- rewrite updm_other in Hx by exact Hne. right. eapply Hs; eauto.
      * assert (Hnew : forall w i x, nth_error (wjobs (updm g wj s' w)) i = Some x ->
                  (nth_error (wjobs (g w)) i = Some x) \/ (w = wj /\ i = length (wjobs (g wj)) /\ x = j)).
        { intros w i x Hx. destruct (Z.eq_dec w wj) as [->|Hne]; [|rewrite updm_other in Hx by exact Hne; left; exact Hx].
          rewrite updm_same, Hj in Hx. destruct (Nat.lt_ge_cases i (length (wjobs (g wj)))) as [Hlt|Hge].
          - left. rewrite nth_error_app1 in Hx by exact Hlt. exact Hx.
          - right. rewrite nth_error_app2 in Hx by exact Hge. split; [reflexivity|].
            destruct (i - length (wjobs (g wj)))%nat as [|n] eqn:En; cbn in Hx; [|destruct n; discriminate].
            inversion Hx; subst. split; [lia | reflexivity]. }
        intros w1 w2 i1 i2 j1 j2 H1 H2 Hid.
        destruct (Hnew _ _ _ H1) as [A1|(-> & -> & ->)]; destruct (Hnew _ _ _ H2) as [A2|(-> & -> & ->)].
        -- eapply Hu; eauto.
        -- exfalso. apply Hfresh. rewrite <- Hid. apply (Hs w1). eapply nth_error_In; eauto.
        -- exfalso. apply Hfresh. rewrite Hid. apply (Hs w2). eapply nth_error_In; eauto.
        -- split; reflexivity.
    + assert (Hsame : forall w, wjobs (updm g wj s' w) = wjobs (g w)).
      { intros w. destruct (Z.eq_dec w wj) as [->|Hne]; [rewrite updm_same; exact Hj | rewrite updm_other by exact Hne; reflexivity]. }
      assert (Hseen : (match a with AQueued => j_id j :: seen | _ => seen end) = seen) by (destruct a; try reflexivity; congruence).
      rewrite Hseen. split.
      * intros w x. rewrite Hsame. apply Hs.
      * intros w1 w2 i1 i2 j1 j2. rewrite !Hsame. apply Hu.
  - destruct ((w0 <? 0) || (g_n c <=? w0)); [discriminate|]. destruct (wstep (g w0)) as [[s' a']|] eqn:Ew; [|discriminate].
    inversion Hg; subst g' a'; clear Hg.
    destruct (wstep_wjobs _ _ _ Ew) as (r & p' & st' & fs' & e & Hc & Hms & Hst & Hwj & [(Hd & -> & Hj & _)|(x & -> & -> & Hj & _)]).
    + assert (Hsame : forall w, wjobs (updm g w0 s' w) = wjobs (g w)).
      { intros w. destruct (Z.eq_dec w w0) as [->|Hne]; [rewrite updm_same; exact Hj | rewrite updm_other by exact Hne; reflexivity]. }
      split; [intros w x; rewrite Hsame; apply Hs | intros w1 w2 i1 i2 j1 j2; rewrite !Hsame; apply Hu].
    + assert (Htl : wjobs s' = tl (wjobs (g w0))) by (rewrite Hj, Hwj; reflexivity).
      assert (Hold : forall w i y, nth_error (wjobs (updm g w0 s' w)) i = Some y ->
                exists i', nth_error (wjobs (g w)) i' = Some y /\ (w = w0 -> i' = S i) /\ (w <> w0 -> i' = i)).
      { intros w i y Hx. destruct (Z.eq_dec w w0) as [->|Hne].
        - rewrite updm_same, Htl, nth_error_tl in Hx. exists (S i). split; [exact Hx|]. split; [reflexivity | congruence].
        - rewrite updm_other in Hx by exact Hne. exists i. split; [exact Hx|]. split; [congruence | reflexivity]. }
      split.
      * intros w y Hx. apply In_nth_error in Hx as [i Hi]. destruct (Hold _ _ _ Hi) as (i' & Hi' & _). apply (Hs w). eapply nth_error_In; eauto.
      * intros w1 w2 i1 i2 j1 j2 H1 H2 Hid. destruct (Hold _ _ _ H1) as (i1' & A1 & B1 & C1). destruct (Hold _ _ _ H2) as (i2' & A2 & B2 & C2).
        destruct (Hu _ _ _ _ _ _ A1 A2 Hid) as [-> Hi]. split; [reflexivity|].
        destruct (Z.eq_dec w2 w0) as [E|E]; [rewrite (B1 E), (B2 E) in Hi; lia | rewrite (C1 E), (C2 E) in Hi; exact Hi].
  - inversion Hg; subst. split; [intros w x; apply (Hs w) | intros w1 w2 i1 i2 j1 j2; apply Hu].
  - destruct (gstep_abandon _ _ _ _ _ _ Hg) as (s' & Ha & -> & ->). destruct (wabandon_spec _ _ Ha) as (_ & E2 & E3 & _).
    assert (Hsame : forall w, wjobs (updm g wa s' w) = wjobs (g w)).
    { intros w. destruct (Z.eq_dec w wa) as [->|Hne]; [rewrite updm_same; unfold wjobs; rewrite E2, E3; reflexivity | rewrite updm_other by exact Hne; reflexivity]. }
    split; [intros w x; rewrite Hsame; apply Hs | intros w1 w2 i1 i2 j1 j2; rewrite !Hsame; apply Hu].
Qed.

Lemma sinv_gstep c deep g l g' a : sinv g -> gstep c deep g l = Some (g', a) -> sinv g'.
Proof.
  intros Hs Hg. destruct l as [j|w0| |cid|wa]; [| | |cbn [gstep] in Hg; discriminate|]; [cbn [gstep] in Hg | cbn [gstep] in Hg | cbn [gstep] in Hg |].
  - set (wj := loc_of c (key_of (j_op j))) in *. destruct (wj <? 0); [inversion Hg; subst; exact Hs|].
    destruct (wcall deep (g wj) j) as [s' a'] eqn:Ew. inversion Hg; subst g' a'; clear Hg.
    intros w r Hc Hst. destruct (Z.eq_dec w wj) as [->|Hne]; [|rewrite updm_other in Hc by exact Hne; eapply Hs; eauto].
    rewrite updm_same in Hc. destruct (wcall_cases _ _ _ _ _ Ew) as [(Hc' & _)|[(_ & _ & Hc' & _)|(_ & _ & Hc' & _)]]; rewrite Hc' in Hc.
    + eapply Hs; eauto.
    + inversion Hc; subst. reflexivity.
    + eapply Hs; eauto.
  - destruct ((w0 <? 0) || (g_n c <=? w0)); [discriminate|]. destruct (wstep (g w0)) as [[s' a']|] eqn:Ew; [|discriminate].
    inversion Hg; subst g' a'; clear Hg. intros w r Hc Hst.
    destruct (Z.eq_dec w w0) as [->|Hne]; [|rewrite updm_other in Hc by exact Hne; eapply Hs; eauto]. rewrite updm_same in Hc.
    destruct (wstep_wjobs _ _ _ Ew) as (r0 & p' & st' & fs' & e & _ & _ & _ & _ & [(_ & _ & _ & Hc' & _)|(x & _ & _ & _ & Hc' & _)]); rewrite Hc' in Hc.
    + inversion Hc; subst. discriminate.
    + unfold next_job in Hc. destruct (k_queue (g w0)); inversion Hc; subst. reflexivity.
  - inversion Hg; subst. intros w r Hc. apply (Hs w r Hc).
  - destruct (gstep_abandon _ _ _ _ _ _ Hg) as (s' & Ha & -> & ->). destruct (wabandon_spec _ _ Ha) as (_ & _ & E3 & _).
    intros w r Hc. destruct (Z.eq_dec w wa) as [->|Hne]; [rewrite updm_same, E3 in Hc | rewrite updm_other in Hc by exact Hne]; apply (Hs _ r Hc).
Qed.

(* ---- small facts about the labels ---- *)
Lemma enqueue_st deep s j s' a : enqueue deep s j = (s', a) -> k_st s' = k_st s /\ k_committed s' = k_committed s.
Proof.
  unfold enqueue. destruct (k_closed s); [intros H; inversion H; split; reflexivity|].
  destruct (full deep (k_queue s)); [intros H; inversion H; split; reflexivity|].
  destruct (k_cur s); intros H; inversion H; split; reflexivity.
Qed.

Lemma c_get_miss c k c' : c_get c k = (c', None) -> c' = c.
Proof. unfold c_get. destruct (lookup k (c_ents c)); intros H; inversion H; reflexivity. Qed.

(* what a call leaves untouched; the fast path changes the LRU order only *)
Lemma wcall_frame deep s j s' a : wcall deep s j = (s', a) ->
  k_committed s' = k_committed s /\ wsr (k_st s') = wsr (k_st s) /\ (forall x, cview (k_st s') x = cview (k_st s) x)
  /\ (forall v, a = AFast v -> exists k, j_op j = OGet k /\ cview (k_st s') k = Some v).
Proof.
  assert (Henq : forall s' a, enqueue deep s j = (s', a) ->
    k_committed s' = k_committed s /\ wsr (k_st s') = wsr (k_st s) /\ (forall x, cview (k_st s') x = cview (k_st s) x)
    /\ (forall v, a = AFast v -> exists k, j_op j = OGet k /\ cview (k_st s') k = Some v)).
  { intros s1 a1 H. destruct (enqueue_st _ _ _ _ _ H) as [E1 E2]. rewrite E1, E2. split; [reflexivity|]. split; [reflexivity|].
    split; [reflexivity|]. intros v ->. exfalso. unfold enqueue in H. destruct (k_closed s); [inversion H|].
    destruct (full deep (k_queue s)); [inversion H|]. destruct (k_cur s); inversion H. }
  unfold wcall. destruct (j_op j) as [k|k d|k d|k|k d|k d|k d] eqn:Eo; try apply Henq.
  pose proof (peek_get (wc (k_st s)) k) as Hp. pose proof (get_result (wc (k_st s)) k) as Hr.
  destruct (c_get (wc (k_st s)) k) as [c' r] eqn:Eg. cbn [fst snd] in Hp, Hr. destruct r as [v|]; [|apply Henq].
  intros H. inversion H; subst; clear H. cbn [k_committed k_st wsr]. split; [reflexivity|]. split; [reflexivity|].
  split; [intros x; unfold cview; cbn [wc]; apply Hp|]. intros v0 Hv. inversion Hv; subst. exists k. split; [reflexivity|].
  unfold cview. cbn [wc]. rewrite Hp. symmetry. exact Hr.
Qed.

(* the existing value handed to an update / upsert callback is the store's value at the moment of the call *)
Lemma mstep_pre_current k sv0 cm p t s fs p' s' fs' e :
  safe k sv0 cm p t (cview s k) (sview s k) -> mstep p s fs = Some (p', s', fs', e) -> pre_good (sview s k) e.
Proof.
  intros Hs Hm. destruct p; cbn [mstep] in Hm; try discriminate.
  - destruct (c_get (wc s) k0). inversion Hm; subst. exact I.
  - inversion Hm; subst. exact I.
  - inversion Hm; subst. exact I.
  - inversion Hm; subst. exact I.
  - destruct (nextf fs) as [f fs1]. destruct (s_load (wsr s) f k0). inversion Hm; subst. exact I.
  - destruct (nextf fs) as [f fs1]. destruct (s_add (wsr s) f k0 d). inversion Hm; subst. exact I.
  - destruct Hs as (_ & -> & Hpre & _). destruct (nextf fs) as [f fs1]. destruct (s_upd (wsr s) f k d pre). inversion Hm; subst. first [exact Hpre | reflexivity].
  - destruct Hs as (_ & -> & Hpre & _). destruct (nextf fs) as [f fs1]. destruct (s_upsert (wsr s) f k d pre). inversion Hm; subst.
    cbn [pre_good]. destruct pre as [x|]; [apply (Hpre x); reflexivity | exact I].
  - destruct (nextf fs) as [f fs1]. destruct (s_delete (wsr s) f k0). inversion Hm; subst. exact I.
Qed.

Lemma existsb_snd_false (l : list (Z * Z)) id : ~ In id (map snd l) -> existsb (fun p => snd p =? id) l = false.
Proof.
  intros H. destruct (existsb (fun p => snd p =? id) l) eqn:E; [|reflexivity]. exfalso. apply H.
  apply existsb_exists in E as (p & Hp & Hq). apply Z.eqb_eq in Hq. rewrite <- Hq. apply in_map. exact Hp.
Qed.

Lemma queued_of_snoc k tr la : queued_of k (tr ++ [la]) = queued_of k tr ++ queued_of k [la].
Proof. unfold queued_of. apply flat_map_app. Qed.
Lemma store_calls_of_snoc k tr la : store_calls_of k (tr ++ [la]) = store_calls_of k tr ++ store_calls_of k [la].
Proof. unfold store_calls_of. apply flat_map_app. Qed.

(* ---- the monitor's bookkeeping against the machine's state ---- *)
Section Rel.
Variables (c : gcfg) (deep : nat) (univ : list Z).

Definition jkey (j : job) : Z := key_of (j_op j).

Record rel (g : mach) (m : mon) (seen : list Z) (tr : list (glabel * answer)) : Prop := mkRel {
  rl_cm : m_committed m = map (mcommitted_at c g) univ;
  rl_ps : m_prev_store m = map (mstore_at c g) univ;
  rl_nd : NoDup (map j_id (m_queued m));
  rl_seen : forall j, In j (m_queued m) -> In (j_id j) seen;
  rl_in : forall w j, In j (wjobs (g w)) -> In j (m_queued m) /\ ~ In (j_id j) (m_done m);
  rl_keys : forall j, In j (m_queued m) -> In (jkey j) univ;
  rl_sub : (forall id, In id (m_started m) -> In id (map j_id (m_queued m)))
           /\ (forall p, In p (m_store_ids m) -> In (snd p) (map j_id (m_queued m)))
           /\ (forall id, In id (m_done m) -> In id (map j_id (m_queued m)));
  rl_cur : forall w r, k_cur (g w) = Some r ->
             (r_started r = true -> In (j_id (r_job r)) (m_started m))
             /\ (r_touched r = false -> ~ In (j_id (r_job r)) (map snd (m_store_ids m)));
  rl_q : forall w j, In j (k_queue (g w)) -> ~ In (j_id j) (map snd (m_store_ids m));
  rl_qo : forall k, map j_id (filter (fun j => jkey j =? k) (m_queued m)) = queued_of k tr;
  rl_so : forall k, map snd (filter (fun p => fst p =? k) (m_store_ids m)) = store_calls_of k tr
}.

(* coherence of a reachable state, in the monitor's terms *)
Lemma coh_all g queued done : minv g ->
  (forall w j, In j (wjobs (g w)) -> In j queued /\ ~ In (j_id j) done) ->
  forall k v, mcache_at c g k = Some v ->
    mstore_at c g k = v \/ (inflight_key queued done k = true /\ mcommitted_at c g k = v).
Proof.
  intros Hm Hin k v Hc. destruct (winv_coherent _ k v (Hm (loc_of c k)) Hc) as [A|[(r & Hr & Hk) B]]; [left; exact A|].
  right. split; [|exact B]. unfold inflight_key. apply existsb_exists. exists (r_job r).
  destruct (Hin (loc_of c k) (r_job r)) as [Hq Hd]; [unfold wjobs; rewrite Hr; left; reflexivity|].
  split; [exact Hq|]. unfold rkey in Hk. rewrite Hk, Z.eqb_refl. cbn [andb]. apply negb_true_iff. apply mem_false. exact Hd.
Qed.

Lemma coherent3_now g queued done : minv g ->
  (forall w j, In j (wjobs (g w)) -> In j queued /\ ~ In (j_id j) done) ->
  coherent3 univ (inflight_key queued done) (map (mcache_at c g) univ) (map (mstore_at c g) univ) (map (mcommitted_at c g) univ) = true.
Proof. intros Hm Hin. apply coherent3_map. intros k v _. apply coh_all; assumption. Qed.

(* labels that neither queue a request nor make a call: the bookkeeping moves only its "store before" column *)
Definition same_jobs (g g' : mach) : Prop :=
  forall w, k_cur (g' w) = k_cur (g w) /\ k_queue (g' w) = k_queue (g w) /\ k_committed (g' w) = k_committed (g w)
            /\ wsr (k_st (g' w)) = wsr (k_st (g w)).

Lemma same_jobs_wjobs g g' w : same_jobs g g' -> wjobs (g' w) = wjobs (g w).
Proof. intros H. destruct (H w) as (A & B & _). unfold wjobs. rewrite A, B. reflexivity. Qed.

Lemma rel_neutral g g' m seen tr la : same_jobs g g' -> rel g m seen tr ->
  (forall k, queued_of k [la] = []) -> (forall k, store_calls_of k [la] = []) ->
  rel g' (mkMon (m_queued m) (m_done m) (m_started m) (m_store_ids m) (m_committed m) (map (mstore_at c g') univ)) seen (tr ++ [la]).
Proof.
  intros Hs [R1 R2 R3 R4 R5 R6 R7 R8 R9 R10 R11] Hq0 Hs0.
  assert (Hcm : forall k, mcommitted_at c g' k = mcommitted_at c g k).
  { intros k. unfold mcommitted_at. destruct (Hs (loc_of c k)) as (_ & _ & E & _). rewrite E. reflexivity. }
  constructor; cbn [m_queued m_done m_started m_store_ids m_committed m_prev_store]; try assumption.
  - rewrite R1. apply map_ext. intros k. symmetry. apply Hcm.
  - reflexivity.
  - intros w j. rewrite (same_jobs_wjobs _ _ w Hs). apply R5.
  - intros w r. destruct (Hs w) as (E & _). rewrite E. apply R8.
  - intros w j. destruct (Hs w) as (_ & E & _). rewrite E. apply R9.
  - intros k. rewrite queued_of_snoc, Hq0, app_nil_r. apply R10.
  - intros k. rewrite store_calls_of_snoc, Hs0, app_nil_r. apply R11.
Qed.

Lemma mstore_same g g' : same_jobs g g' -> forall k, mstore_at c g' k = mstore_at c g k.
Proof. intros Hs k. unfold mstore_at. destruct (Hs (loc_of c k)) as (_ & _ & _ & E). rewrite E. reflexivity. Qed.

End Rel.

Section Step.
Variables (c : gcfg) (deep : nat) (univ : list Z).
Notation rel := (rel c univ).

Definition seen_after (l : glabel) (a : answer) (seen : list Z) : list Z :=
  match l, a with GCall j, AQueued => j_id j :: seen | _, _ => seen end.

(* ---- a call that is answered at once (fast path, refusal, panic) and Stop ---- *)
Lemma step_neutral g m seen tr l a g' :
  minv g -> minv g' -> rel g m seen tr -> same_jobs g g' ->
  (forall k, queued_of k [(l, a)] = []) -> (forall k, store_calls_of k [(l, a)] = []) ->
  let m' := mkMon (m_queued m) (m_done m) (m_started m) (m_store_ids m) (m_committed m) (map (mstore_at c g') univ) in
  coherent3 univ (inflight_key (m_queued m') (m_done m')) (map (mcache_at c g') univ) (map (mstore_at c g') univ) (m_committed m') = true
  /\ rel g' m' seen (tr ++ [(l, a)]).
Proof.
  intros Hm Hm' Hr Hs Hq0 Hs0 m'. pose proof (rel_neutral c univ _ _ _ _ _ _ Hs Hr Hq0 Hs0) as Hr'. split; [|exact Hr'].
  destruct Hr' as [R1 _ _ _ R5 _ _ _ _ _ _]. unfold m'. cbn [m_queued m_done m_committed] in *. rewrite R1.
  apply coherent3_now; assumption.
Qed.

Lemma same_jobs_refl g : same_jobs g g.
Proof. intros w. repeat split. Qed.

Lemma same_jobs_updm g w s' :
  k_cur s' = k_cur (g w) -> k_queue s' = k_queue (g w) -> k_committed s' = k_committed (g w) -> wsr (k_st s') = wsr (k_st (g w)) ->
  same_jobs g (updm g w s').
Proof.
  intros A B C D x. destruct (Z.eq_dec x w) as [->|Hne]; [rewrite updm_same; auto | rewrite updm_other by exact Hne; repeat split].
Qed.

(* ---- a worker makes one call ---- *)
Lemma rel_step_step g m seen tr w0 a g' :
  minv g -> rinv c g -> sinv g -> uinv g seen -> rel g m seen tr ->
  gstep c deep g (GStep w0) = Some (g', a) ->
  exists m', item_holds univ m (GStep w0, a, map (mcache_at c g') univ, map (mstore_at c g') univ) = (true, m')
             /\ rel g' m' seen (tr ++ [(GStep w0, a)]).
Proof.
  intros Hm Hri Hsi Hu Hr Hg.
  pose proof (minv_gstep _ _ _ _ _ _ Hm Hg) as Hm'.
  cbn [gstep] in Hg. destruct ((w0 <? 0) || (g_n c <=? w0)); [discriminate|].
  destruct (wstep (g w0)) as [[s' a']|] eqn:Ew; [|discriminate]. inversion Hg; subst g' a'; clear Hg.
  destruct (wstep_wjobs _ _ _ Ew) as (r & p' & st' & fs' & e & Hc & Hms & Hst & Hwj & Hcase).
  pose proof (Hm w0) as Hw. unfold winv in Hw. rewrite Hc in Hw. destruct Hw as (Hsafe & _ & _).
  destruct (safe_mstep _ _ _ _ _ _ _ _ _ _ _ Hsafe Hms) as (Hs1 & Hk & _ & Hfr & _ & _).
  pose proof (mstep_pre_current _ _ _ _ _ _ _ _ _ _ _ Hsafe Hms) as Hpre.
  destruct (Hri w0) as [Hroute _]. specialize (Hroute r Hc).
  destruct Hr as [R1 R2 R3 R4 R5 R6 R7 R8 R9 R10 R11]. destruct R7 as (R7a & R7b & R7c). destruct Hu as [Us Uu].
  unfold rkey in *. set (jb := r_job r) in *. set (id := j_id jb) in *. set (k := key_of (j_op jb)) in *.
  assert (Hjin : In jb (wjobs (g w0))) by (rewrite Hwj; left; reflexivity).
  destruct (R5 w0 jb Hjin) as [Hjq Hjd].
  assert (Hfind : find_job id (m_queued m) = Some jb) by (apply find_job_in; assumption).
  assert (Hku : In k univ) by (apply (R6 jb Hjq)).
  assert (Hidq : In id (map j_id (m_queued m))) by (apply in_map; exact Hjq).
  (* the store and the committed column after the step *)
  assert (Hstore_k : mstore_at c (updm g w0 s') k = smap (wsr st') k).
  { unfold mstore_at. rewrite Hroute, updm_same, Hst. reflexivity. }
  assert (Hprev : at_key univ (m_prev_store m) k = sview (k_st (g w0)) k).
  { rewrite R2, at_key_map by exact Hku. unfold mstore_at, sview. rewrite Hroute. reflexivity. }
  (* other jobs have other ids *)
  assert (Hother : forall w i x, nth_error (wjobs (g w)) i = Some x -> (w <> w0 \/ i <> O) -> j_id x <> id).
  { intros w i x Hx Hpos E. assert (H0 : nth_error (wjobs (g w0)) 0 = Some jb) by (rewrite Hwj; reflexivity).
    destruct (Uu _ _ _ _ _ _ Hx H0 E) as [-> ->]. destruct Hpos as [H|H]; apply H; reflexivity. }
  assert (Hcur_other : forall w r', w <> w0 -> k_cur (g w) = Some r' -> j_id (r_job r') <> id).
  { intros w r' Hne Hc'. apply (Hother w O). - unfold wjobs. rewrite Hc'. reflexivity. - left. exact Hne. }
  assert (Hq_other : forall w x, In x (k_queue (g w)) -> j_id x <> id).
  { intros w x Hx. apply In_nth_error in Hx as [i Hi]. destruct (Z.eq_dec w w0) as [->|Hne].
    - apply (Hother w0 (S i)); [rewrite Hwj; exact Hi | right; discriminate].
    - destruct (k_cur (g w)) as [r'|] eqn:Ec'.
      + apply (Hother w (S i)); [unfold wjobs; rewrite Ec'; exact Hi | left; exact Hne].
      + apply (Hother w i); [unfold wjobs; rewrite Ec'; exact Hi | left; exact Hne]. }
  (* the new store-callback list *)
  set (ids := if is_store_ev e then m_store_ids m ++ [(k, id)] else m_store_ids m).
  assert (Hids_in : forall i, In i (map snd ids) -> In i (map snd (m_store_ids m)) \/ (i = id /\ is_store_ev e = true)).
  { intros i Hi. unfold ids in Hi. destruct (is_store_ev e); [|left; exact Hi]. rewrite map_app in Hi.
    apply in_app_or in Hi as [Hi|[<-|[]]]; [left; exact Hi | right; split; reflexivity]. }
  assert (Hso : forall k', map snd (filter (fun p => fst p =? k') ids) = store_calls_of k' (tr ++ [(GStep w0, a)])).
  { intros k'. rewrite store_calls_of_snoc, <- R11. unfold ids.
    assert (Ha : exists fin, a = AStep id e fin) by (destruct Hcase as [(_ & -> & _)|(x & _ & -> & _)]; eexists; reflexivity).
    destruct Ha as [fin ->]. cbn [store_calls_of flat_map]. rewrite app_nil_r, Hk. fold k.
    destruct (is_store_ev e); cbn [andb]; [|rewrite app_nil_r; reflexivity].
    rewrite filter_app, map_app. cbn [filter fst]. rewrite (Z.eqb_sym k k'). destruct (k' =? k); reflexivity. }
  assert (Hqo : forall k', map j_id (filter (fun j => jkey j =? k') (m_queued m)) = queued_of k' (tr ++ [(GStep w0, a)])).
  { intros k'. rewrite queued_of_snoc, R10. cbn [queued_of flat_map]. rewrite !app_nil_r. reflexivity. }
  cbn [item_holds]. 
  destruct Hcase as [(Hd & -> & Hj & Hc' & Hq' & Hcm')|(x & -> & -> & Hj & Hc' & Hq' & Hcm')].
  - (* ---- the job goes on ---- *)
    rewrite Hfind. fold k. fold ids.
    assert (Hsame_cm : forall y, mcommitted_at c (updm g w0 s') y = mcommitted_at c g y).
    { intros y. unfold mcommitted_at. destruct (Z.eq_dec (loc_of c y) w0) as [E|E]; [rewrite E, updm_same, Hcm'; reflexivity | rewrite updm_other by exact E; reflexivity]. }
    assert (Hin' : forall w y, In y (wjobs (updm g w0 s' w)) -> In y (m_queued m) /\ ~ In (j_id y) (m_done m)).
    { intros w y Hy. destruct (Z.eq_dec w w0) as [->|Hne]; [rewrite updm_same, Hj in Hy | rewrite updm_other in Hy by exact Hne]; apply (R5 _ _ Hy). }
    assert (Hb : coherent3 univ (inflight_key (m_queued m) (m_done m)) (map (mcache_at c (updm g w0 s')) univ)
                   (map (mstore_at c (updm g w0 s')) univ) (m_committed m) = true).
    { rewrite R1, <- (map_ext _ _ Hsame_cm). apply (coherent3_now c univ _ _ _ Hm' Hin'). }
    eexists. split.
    { apply mem_false in Hjd. fold id in Hjd. rewrite Hjd. cbn [negb andb]. rewrite Hk. fold k. rewrite Z.eqb_refl. cbn [andb].
      rewrite Hprev. fold k. rewrite (pre_good_ok _ _ Hpre). cbn [andb m_queued]. rewrite Hb. cbn [andb].
      (* add for a cached key: the Peek of the handler's head completes the job, so this branch has no such event *)
      assert (Hadd : match j_op jb, e with
                     | OAdd _ _, EvPeek _ (Some _) => if mem id (m_started m) then true else false
                     | _, _ => true end = true).
      { destruct (j_op jb) as [k1|k1 d1|k1 d1|k1|k1 d1|k1 d1|k1 d1] eqn:Eo; try reflexivity.
        destruct e as [| k2 [v2|] | | | | | | |]; try reflexivity.
        destruct (mem id (m_started m)) eqn:Est; [reflexivity|]. exfalso.
        apply mem_false in Est. destruct (R8 w0 r Hc) as [Hstd _].
        assert (Hns : r_started r = false) by (destruct (r_started r); [exfalso; apply Est; apply Hstd; reflexivity | reflexivity]).
        pose proof (Hsi w0 r Hc Hns) as Hp. fold jb in Hp. rewrite Eo in Hp. rewrite Hp in Hms. cbn [handler mstep] in Hms.
        inversion Hms as [[Hp' Hst' Hfs' Hke Hev]]. rewrite <- Hp' in Hd. first [rewrite Hke in Hd | rewrite <- Hke in Hev]. rewrite Hev in Hd. discriminate. }
      rewrite Hadd. reflexivity. }
    constructor; cbn [m_queued m_done m_started m_store_ids m_committed m_prev_store]; try assumption.
    + rewrite R1. apply map_ext. intros y. symmetry. apply Hsame_cm.
    + reflexivity.
    + split; [|split]; [intros i [<-|Hi]; [exact Hidq | apply R7a; exact Hi] | | exact R7c].
      intros p Hp. fold ids in Hp. unfold ids in Hp. destruct (is_store_ev e); [|apply R7b; exact Hp].
      apply in_app_or in Hp as [Hp|[<-|[]]]; [apply R7b; exact Hp | exact Hidq].
    + intros w r' Hcr. destruct (Z.eq_dec w w0) as [->|Hne].
      * rewrite updm_same, Hc' in Hcr. inversion Hcr; subst r'. cbn [r_started r_touched r_job]. fold jb id.
        split; [intros _; left; reflexivity|]. intros Ht Hi. fold ids in Hi. destruct (Hids_in _ Hi) as [Hi'|[_ Hse]].
        -- destruct (is_store_ev e); [discriminate|]. destruct (R8 w0 r Hc) as [_ Htt]. apply (Htt Ht). exact Hi'.
        -- rewrite Hse in Ht. discriminate.
      * rewrite updm_other in Hcr by exact Hne. destruct (R8 w r' Hcr) as [A B]. split; [intros Hs; right; apply A; exact Hs|].
        intros Ht Hi. fold ids in Hi. destruct (Hids_in _ Hi) as [Hi'|[E _]]; [apply (B Ht); exact Hi' | apply (Hcur_other w r' Hne Hcr); exact E].
    + intros w y Hy Hi. fold ids in Hi.
      assert (Hy' : In y (k_queue (g w))) by (destruct (Z.eq_dec w w0) as [->|Hne]; [rewrite updm_same, Hq' in Hy | rewrite updm_other in Hy by exact Hne]; exact Hy).
      destruct (Hids_in _ Hi) as [Hi'|[E _]]; [apply (R9 w y Hy'); exact Hi' | apply (Hq_other w y Hy'); exact E].
  - (* ---- the job completes ---- *)
    rewrite Hfind. fold k. fold ids. cbn [safe] in Hs1. destruct Hs1 as (_ & Hcoh & Hdup & Hnil & _).
    assert (Hcmeq : set_at univ (m_committed m) k (at_key univ (map (mstore_at c (updm g w0 s')) univ) k)
                    = map (mcommitted_at c (updm g w0 s')) univ).
    { rewrite R1, set_at_map, at_key_map by exact Hku. apply map_ext. intros y. unfold mcommitted_at.
      destruct (Z.eq_dec (loc_of c y) w0) as [E|E].
      - rewrite E, updm_same, Hcm'. destruct (y =? k) eqn:Ey.
        + apply Z.eqb_eq in Ey. subst y. rewrite upd_same. exact Hstore_k.
        + apply Z.eqb_neq in Ey. rewrite upd_other by exact Ey. reflexivity.
      - rewrite updm_other by exact E. destruct (y =? k) eqn:Ey; [|reflexivity].
        apply Z.eqb_eq in Ey. subst y. congruence. }
    assert (Hin' : forall w y, In y (wjobs (updm g w0 s' w)) -> In y (m_queued m) /\ ~ In (j_id y) (id :: m_done m)).
    { intros w y Hy.
      assert (Hy' : exists i, nth_error (wjobs (g w)) i = Some y /\ (w <> w0 \/ i <> O)).
      { destruct (Z.eq_dec w w0) as [->|Hne].
        - rewrite updm_same, Hj in Hy. apply In_nth_error in Hy as [i Hi]. exists (S i). split; [rewrite Hwj; exact Hi | right; discriminate].
        - rewrite updm_other in Hy by exact Hne. apply In_nth_error in Hy as [i Hi]. exists i. split; [exact Hi | left; exact Hne]. }
      destruct Hy' as (i & Hi & Hpos). destruct (R5 w y (nth_error_In _ _ Hi)) as [A B]. split; [exact A|].
      intros [E|Hd']; [apply (Hother w i y Hi Hpos); symmetry; exact E | apply B; exact Hd']. }
    assert (Hb : coherent3 univ (inflight_key (m_queued m) (id :: m_done m)) (map (mcache_at c (updm g w0 s')) univ)
                   (map (mstore_at c (updm g w0 s')) univ)
                   (set_at univ (m_committed m) k (at_key univ (map (mstore_at c (updm g w0 s')) univ) k)) = true).
    { rewrite Hcmeq. apply (coherent3_now c univ _ _ _ Hm' Hin'). }
    assert (Hcache_k : mcache_at c (updm g w0 s') k = cview st' k).
    { unfold mcache_at, cview. rewrite Hroute, updm_same, Hst. reflexivity. }
    eexists. split.
    { apply mem_false in Hjd. fold id in Hjd. rewrite Hjd. cbn [negb andb]. rewrite Hk. fold k. rewrite Z.eqb_refl. cbn [andb].
      rewrite Hprev. fold k. rewrite (pre_good_ok _ _ Hpre). cbn [andb m_queued]. rewrite Hb. cbn [andb].
      set (x' := if k_gone (g w0) then RErr ECtx else x).
      assert (Hfin : match x' with
                     | RNil => match at_key univ (map (mcache_at c (updm g w0 s')) univ) k with Some _ => false | None => true end
                     | RErr EDupKey => negb (existsb (fun p => snd p =? id) ids)
                     | _ => true end = true).
      { unfold x'. destruct (k_gone (g w0)); [reflexivity|]. destruct x as [v| |er| |]; try reflexivity.
        - rewrite at_key_map by exact Hku. rewrite Hcache_k. destruct (Hnil eq_refl) as [-> _]. reflexivity.
        - destruct er; try reflexivity. specialize (Hdup eq_refl). unfold touch in Hdup.
          destruct (is_store_ev e) eqn:Ese; [discriminate|]. unfold ids. try rewrite Ese. lazy iota.
          destruct (R8 w0 r Hc) as [_ Htt]. apply negb_true_iff. apply existsb_snd_false. apply Htt. exact Hdup. }
      rewrite Hfin. cbn [andb].
      assert (Hadd : match j_op jb, e with
                     | OAdd _ _, EvPeek _ (Some _) => if mem id (m_started m) then true else match Some x' with Some (RErr EDupKey) | Some (RErr ECtx) => true | _ => false end
                     | _, _ => true end = true).
      { destruct (j_op jb) as [k1|k1 d1|k1 d1|k1|k1 d1|k1 d1|k1 d1] eqn:Eo; try reflexivity.
        destruct e as [| k2 [v2|] | | | | | | |]; try reflexivity.
        destruct (mem id (m_started m)) eqn:Est; [reflexivity|].
        apply mem_false in Est. destruct (R8 w0 r Hc) as [Hstd _].
        assert (Hns : r_started r = false) by (destruct (r_started r); [exfalso; apply Est; apply Hstd; reflexivity | reflexivity]).
        pose proof (Hsi w0 r Hc Hns) as Hp. fold jb in Hp. rewrite Eo in Hp. rewrite Hp in Hms. cbn [handler mstep] in Hms.
        inversion Hms as [[Hp' Hst' Hfs' Hke Hev]]. first [rewrite Hke in Hp' | rewrite <- Hke in Hev]. rewrite Hev in Hp'.
        inversion Hp' as [Hx]. unfold x'. rewrite <- Hx. destruct (k_gone (g w0)); reflexivity. }
      rewrite Hadd. reflexivity. }
    constructor; cbn [m_queued m_done m_started m_store_ids m_committed m_prev_store]; try assumption.
    + reflexivity.
    + split; [|split]; [intros i [<-|Hi]; [exact Hidq | apply R7a; exact Hi] | | intros i [<-|Hi]; [exact Hidq | apply R7c; exact Hi]].
      intros p Hp. fold ids in Hp. unfold ids in Hp. destruct (is_store_ev e); [|apply R7b; exact Hp].
      apply in_app_or in Hp as [Hp|[<-|[]]]; [apply R7b; exact Hp | exact Hidq].
    + intros w r' Hcr. destruct (Z.eq_dec w w0) as [->|Hne].
      * rewrite updm_same, Hc' in Hcr. unfold next_job in Hcr. destruct (k_queue (g w0)) as [|j2 q2] eqn:Eq; [discriminate|].
        cbn [fst] in Hcr. inversion Hcr; subst r'. cbn [start r_started r_touched r_job]. split; [discriminate|].
        intros _ Hi. fold ids in Hi. destruct (Hids_in _ Hi) as [Hi'|[E _]].
        -- apply (R9 w0 j2); [rewrite Eq; left; reflexivity | exact Hi'].
        -- apply (Hq_other w0 j2); [rewrite Eq; left; reflexivity | exact E].
      * rewrite updm_other in Hcr by exact Hne. destruct (R8 w r' Hcr) as [A B]. split; [intros Hs; right; apply A; exact Hs|].
        intros Ht Hi. fold ids in Hi. destruct (Hids_in _ Hi) as [Hi'|[E _]]; [apply (B Ht); exact Hi' | apply (Hcur_other w r' Hne Hcr); exact E].
    + intros w y Hy Hi. fold ids in Hi.
      assert (Hy' : In y (k_queue (g w))).
      { destruct (Z.eq_dec w w0) as [->|Hne]; [|rewrite updm_other in Hy by exact Hne; exact Hy].
        rewrite updm_same, Hq' in Hy. unfold next_job in Hy. destruct (k_queue (g w0)) as [|j2 q2]; [destruct Hy | right; exact Hy]. }
      destruct (Hids_in _ Hi) as [Hi'|[E _]]; [apply (R9 w y Hy'); exact Hi' | apply (Hq_other w y Hy'); exact E].
Qed.

Theorem rel_step g m seen tr l a g' : 0 < g_n c ->
  minv g -> rinv c g -> sinv g -> uinv g seen -> rel g m seen tr ->
  gstep c deep g l = Some (g', a) ->
  (match l with GCall j => In (jkey j) univ | _ => True end) ->
  (match l, a with GCall j, AQueued => ~ In (j_id j) seen | _, _ => True end) ->
  exists m', item_holds univ m (l, a, map (mcache_at c g') univ, map (mstore_at c g') univ) = (true, m')
             /\ rel g' m' (seen_after l a seen) (tr ++ [(l, a)]).
Proof.
  intros Hn Hm Hri Hsi Hu Hr Hg Hkey Hfresh.
  pose proof (minv_gstep _ _ _ _ _ _ Hm Hg) as Hm'.
  destruct l as [j|w0| |cid|wa]; [| | |cbn [gstep] in Hg; discriminate|].
  - (* ---------------- a call ---------------- *)
    cbn [gstep] in Hg. set (wj := loc_of c (key_of (j_op j))) in *.
    destruct (wj <? 0) eqn:En.
    { (* every key has a worker *) exfalso. apply Z.ltb_lt in En. unfold wj, loc_of in En.
      pose proof (lochash_in_range (hash_of c (key_of (j_op j))) (g_n c) Hn). lia. }
    destruct (wcall deep (g wj) j) as [s' a'] eqn:Ew. inversion Hg; subst g' a'; clear Hg.
    destruct (wcall_frame _ _ _ _ _ Ew) as (Fcm & Fst & Fcv & Ffast).
    destruct (wcall_cases _ _ _ _ _ Ew) as [(Hc' & Hq' & Hna)|Hqueued].
    { (* answered at once *)
      assert (Hsj : same_jobs g (updm g wj s')) by (apply same_jobs_updm; assumption).
      assert (Hq0 : forall k, queued_of k [(GCall j, a)] = []) by (intros k; destruct a; try reflexivity; congruence).
      assert (Hseen : seen_after (GCall j) a seen = seen) by (destruct a; try reflexivity; congruence). rewrite Hseen.
      destruct (step_neutral g m seen tr (GCall j) a _ Hm Hm' Hr Hsj Hq0 (fun _ => eq_refl)) as [Hc Hr']. cbn [m_queued m_done m_committed] in Hc.
      eexists. split; [|exact Hr'].
      destruct a as [v| | | | |]; cbn [item_holds m_queued m_done m_committed]; try (rewrite Hc; reflexivity); try congruence.
      - (* fast path: the answer is what the cache holds *)
        destruct (Ffast v eq_refl) as (k & Ho & Hv). rewrite Ho, Hc, andb_true_r. unfold jkey in Hkey. rewrite Ho in Hkey. cbn [key_of] in Hkey.
        rewrite at_key_map by exact Hkey. unfold mcache_at. fold (cview (k_st (updm g wj s' (loc_of c k))) k).
        assert (Hwk : loc_of c k = wj) by (unfold wj; rewrite Ho; reflexivity). rewrite Hwk, updm_same, Hv. unfold ov_eqb. cbn [opt_eqb]. rewrite oz_eqb_refl. reflexivity.
      - (* a call that found its worker does not panic *)
        exfalso. unfold wcall in Ew.
        assert (Henq : forall s1, enqueue deep (g wj) j = (s1, APanic) -> False).
        { intros s1. unfold enqueue. destruct (k_closed (g wj)); [intros H; inversion H|].
          destruct (full deep (k_queue (g wj))); [intros H; inversion H|]. destruct (k_cur (g wj)); intros H; inversion H. }
        destruct (j_op j); try (eapply Henq; eauto; fail).
        destruct (c_get (wc (k_st (g wj))) k) as [c0 r0]. destruct r0; [inversion Ew | eapply Henq; eauto].
      - (* a step answer cannot come from a call *)
        exfalso. unfold wcall in Ew.
        assert (Henq : forall s1 i e f, enqueue deep (g wj) j = (s1, AStep i e f) -> False).
        { intros s1 i0 e0 f0. unfold enqueue. destruct (k_closed (g wj)); [intros H; inversion H|].
          destruct (full deep (k_queue (g wj))); [intros H; inversion H|]. destruct (k_cur (g wj)); intros H; inversion H. }
        destruct (j_op j); try (eapply Henq; eauto; fail).
        destruct (c_get (wc (k_st (g wj))) k) as [c0 r0]. destruct r0; [inversion Ew | eapply Henq; eauto].
      - exfalso. unfold wcall in Ew.
        assert (Henq : forall s1, enqueue deep (g wj) j = (s1, AStopped) -> False).
        { intros s1. unfold enqueue. destruct (k_closed (g wj)); [intros H; inversion H|].
          destruct (full deep (k_queue (g wj))); [intros H; inversion H|]. destruct (k_cur (g wj)); intros H; inversion H. }
        destruct (j_op j); try (eapply Henq; eauto; fail).
        destruct (c_get (wc (k_st (g wj))) k) as [c0 r0]. destruct r0; [inversion Ew | eapply Henq; eauto]. }
    (* queued *)
    assert (Ha : a = AQueued) by (destruct Hqueued as [(-> & _)|(-> & _)]; reflexivity). subst a. cbn [seen_after].
    cbn [item_holds]. destruct Hr as [R1 R2 R3 R4 R5 R6 R7 R8 R9 R10 R11]. destruct R7 as (R7a & R7b & R7c). destruct Hu as [Us Uu].
    assert (Hwj' : wjobs s' = wjobs (g wj) ++ [j]).
    { destruct (wcall_wjobs _ _ _ _ _ (Hm wj) Ew) as [[_ H]|[H _]]; [exact H | congruence]. }
    assert (Hnq : ~ In (j_id j) (map j_id (m_queued m))).
    { intros Hin. apply in_map_iff in Hin as (j0 & E & Hin). apply Hfresh. rewrite <- E. apply R4. exact Hin. }
    assert (Hst : forall k, mstore_at c (updm g wj s') k = mstore_at c g k).
    { intros k. unfold mstore_at. destruct (Z.eq_dec (loc_of c k) wj) as [E|E]; [rewrite E, updm_same, Fst; reflexivity | rewrite updm_other by exact E; reflexivity]. }
    assert (Hcmm : forall k, mcommitted_at c (updm g wj s') k = mcommitted_at c g k).
    { intros k. unfold mcommitted_at. destruct (Z.eq_dec (loc_of c k) wj) as [E|E]; [rewrite E, updm_same, Fcm; reflexivity | rewrite updm_other by exact E; reflexivity]. }
    assert (Hin' : forall w x, In x (wjobs (updm g wj s' w)) -> In x (m_queued m ++ [j]) /\ ~ In (j_id x) (m_done m)).
    { intros w x Hx. destruct (Z.eq_dec w wj) as [->|Hne].
      - rewrite updm_same, Hwj' in Hx. apply in_app_or in Hx as [Hx|[<-|[]]].
        + destruct (R5 wj x Hx) as [A B]. split; [apply in_or_app; left; exact A | exact B].
        + split; [apply in_or_app; right; left; reflexivity|]. intros Hd. apply Hnq. apply R7c. exact Hd.
      - rewrite updm_other in Hx by exact Hne. destruct (R5 w x Hx) as [A B]. split; [apply in_or_app; left; exact A | exact B]. }
    assert (Hb : coherent3 univ (inflight_key (m_queued m ++ [j]) (m_done m)) (map (mcache_at c (updm g wj s')) univ)
                   (map (mstore_at c (updm g wj s')) univ) (m_committed m) = true).
    { rewrite R1. rewrite <- (map_ext _ _ Hcmm). apply (coherent3_now c univ _ _ _ Hm' Hin'). }
    eexists. split.
    { apply mem_false in Hnq. rewrite Hnq. cbn [negb andb m_queued m_done m_committed]. rewrite Hb. reflexivity. }
    constructor; cbn [m_queued m_done m_started m_store_ids m_committed m_prev_store].
    + rewrite R1. apply map_ext. intros k. symmetry. apply Hcmm.
    + reflexivity.
    + rewrite map_app. cbn [map]. apply NoDup_snoc; assumption.
    + intros x Hx. apply in_app_or in Hx as [Hx|[<-|[]]]; [right; apply R4; exact Hx | left; reflexivity].
    + exact Hin'.
    + intros x Hx. apply in_app_or in Hx as [Hx|[<-|[]]]; [apply R6; exact Hx | exact Hkey].
    + split; [|split]; [intros id Hid | intros p Hp | intros id Hid]; rewrite map_app; apply in_or_app; left; auto.
    + intros w r Hc. destruct (Z.eq_dec w wj) as [->|Hne]; [|rewrite updm_other in Hc by exact Hne; apply (R8 w r Hc)].
      rewrite updm_same in Hc. destruct Hqueued as [(_ & Hidle & Hc' & _)|(_ & _ & Hc' & _)]; rewrite Hc' in Hc.
      * inversion Hc; subst r. cbn [start r_started r_touched r_job]. split; [discriminate|]. intros _ Hin.
        apply Hnq. apply in_map_iff in Hin as (p & E & Hp). rewrite <- E. apply R7b. exact Hp.
      * apply (R8 wj r Hc).
    + intros w x Hx. destruct (Z.eq_dec w wj) as [->|Hne]; [|rewrite updm_other in Hx by exact Hne; apply (R9 w x Hx)].
      rewrite updm_same in Hx. destruct Hqueued as [(_ & _ & _ & Hq')|(_ & _ & _ & Hq')]; rewrite Hq' in Hx.
      * apply (R9 wj x Hx).
      * apply in_app_or in Hx as [Hx|[<-|[]]]; [apply (R9 wj x Hx)|]. intros Hin. apply Hnq.
        apply in_map_iff in Hin as (p & E & Hp). rewrite <- E. apply R7b. exact Hp.
    + intros k. rewrite queued_of_snoc, filter_app, map_app, R10. f_equal. cbn [filter queued_of flat_map]. unfold jkey.
      destruct (key_of (j_op j) =? k); reflexivity.
    + intros k. rewrite store_calls_of_snoc. cbn [store_calls_of flat_map]. rewrite app_nil_r. apply R11.
  - (* ---------------- a step ---------------- *)
    cbn [seen_after]. apply (rel_step_step g m seen tr w0 a g' Hm Hri Hsi Hu Hr Hg).
  - (* ---------------- stop ---------------- *)
    cbn [gstep] in Hg. inversion Hg; subst g' a; clear Hg. cbn [seen_after].
    assert (Hsj : same_jobs g (fun w => wstop (g w))) by (intros w; unfold wstop; cbn; repeat split).
    destruct (step_neutral g m seen tr GStop AStopped _ Hm Hm' Hr Hsj (fun _ => eq_refl) (fun _ => eq_refl)) as [Hc Hr']. cbn [m_queued m_done m_committed] in Hc.
    eexists. split; [|exact Hr']. cbn [item_holds m_queued m_done m_committed]. rewrite Hc. reflexivity.
  - (* ---------------- a caller gives up ---------------- *)
    destruct (gstep_abandon _ _ _ _ _ _ Hg) as (s' & Ha & -> & ->). cbn [seen_after].
    destruct (wabandon_spec _ _ Ha) as (E1 & E2 & E3 & E4).
    assert (Hsj : same_jobs g (updm g wa s')) by (apply same_jobs_updm; [exact E3 | exact E2 | exact E4 | rewrite E1; reflexivity]).
    destruct (step_neutral g m seen tr (GAbandon wa) (ARefused ECtx) _ Hm Hm' Hr Hsj (fun _ => eq_refl) (fun _ => eq_refl)) as [Hc Hr']. cbn [m_queued m_done m_committed] in Hc.
    eexists. split; [|exact Hr']. cbn [item_holds m_queued m_done m_committed]. rewrite Hc. reflexivity.
Qed.
End Step.

(* ---- the whole observed sequence ---- *)
Section Sound.
Variables (c : gcfg) (deep : nat) (univ : list Z).

Definition it_pair (it : item) : glabel * answer := (it_label it, it_answer it).

Lemma conc_run : forall items g m seen tr0,
  minv g -> rinv c g -> sinv g -> uinv g seen -> rel c univ g m seen tr0 ->
  conc_match c deep univ seen g items = true ->
  exists g' m' seen', conc_fold univ m items = (true, m')
    /\ rel c univ g' m' seen' (tr0 ++ map it_pair items)
    /\ grun c deep g (map it_label items) = Some (g', map it_pair items).
Proof.
  induction items as [|[[[l a] ca] st] rest IH]; intros g m seen tr0 Hm Hri Hsi Hu Hr Hc.
  - exists g, m, seen. cbn [conc_fold map grun]. rewrite app_nil_r. split; [reflexivity|]. split; [exact Hr | reflexivity].
  - cbn [conc_match] in Hc. destruct (gstep c deep g l) as [[g1 a1]|] eqn:Es; [|discriminate].
    apply andb_prop in Hc as [Hc Hrest]. apply andb_prop in Hc as [Hc Hst]. apply andb_prop in Hc as [Hc Hca].
    apply andb_prop in Hc as [Hc Ha]. apply andb_prop in Hc as [Hkey Hfresh]. apply andb_prop in Hkey as [Hkey Hn]. apply Z.ltb_lt in Hn.
    apply answer_eqb_eq in Ha. subst a1.
    apply (list_eqb_eq _ ov_eqb_eq) in Hca. apply (list_eqb_eq _ oz_eqb_eq) in Hst. subst ca st.
    assert (Hkey' : match l with GCall j => In (jkey j) univ | _ => True end).
    { destruct l; try exact I. apply mem_true. exact Hkey. }
    assert (Hfresh' : match l, a with GCall j, AQueued => ~ In (j_id j) seen | _, _ => True end).
    { destruct l; try exact I. destruct a; try exact I. apply mem_false. apply negb_true_iff. exact Hfresh. }
    destruct (rel_step c deep univ g m seen tr0 l a g1 Hn Hm Hri Hsi Hu Hr Es Hkey' Hfresh') as (m1 & Hih & Hr1).
    pose proof (minv_gstep _ _ _ _ _ _ Hm Es) as Hm1.
    destruct (rinv_gstep _ _ _ _ _ _ Hm Hri Es) as [Hri1 _].
    pose proof (sinv_gstep _ _ _ _ _ _ Hsi Es) as Hsi1.
    pose proof (uinv_gstep _ _ _ _ _ _ _ Hm Hu Es Hfresh') as Hu1.
    destruct (IH g1 m1 _ (tr0 ++ [(l, a)]) Hm1 Hri1 Hsi1 Hu1 Hr1 Hrest) as (g' & m' & seen' & Hf & Hr' & Hrun).
    exists g', m', seen'. cbn [conc_fold]. rewrite Hih, Hf. cbn [map grun it_label it_answer it_pair fst snd]. rewrite Es, Hrun.
    split; [reflexivity|]. split; [|reflexivity]. rewrite <- app_assoc in Hr'. exact Hr'.
Qed.

Lemma rel_init : rel c univ (minit c) (mon0 c univ) [] [].
Proof.
  constructor; cbn [mon0 m_queued m_done m_started m_store_ids m_committed m_prev_store map].
  - reflexivity.
  - reflexivity.
  - constructor.
  - intros j H. destruct H.
  - intros w j H. destruct H.
  - intros j H. destruct H.
  - split; [|split]; intros x H; destruct H.
  - intros w r H. discriminate.
  - intros w j H. destruct H.
  - intros k. reflexivity.
  - intros k. reflexivity.
Qed.

Lemma uinv_init : uinv (minit c) [].
Proof. split; [intros w j H; destruct H | intros w1 w2 i1 i2 j1 j2 H; destruct i1; discriminate]. Qed.
Lemma sinv_init : sinv (minit c).
Proof. intros w r H. discriminate. Qed.

(* whatever observation replays on the machine satisfies the monitor *)
Theorem conc_sound items : conc_match c deep univ [] (minit c) items = true -> conc_holds c univ items = true.
Proof.
  intros Hc.
  destruct (conc_run items (minit c) (mon0 c univ) [] [] (minit_inv c) (rinv_init c) sinv_init uinv_init rel_init Hc)
    as (g' & m' & seen' & Hf & Hr & Hrun).
  unfold conc_holds. rewrite Hf. cbn [andb app] in *. apply forallb_forall. intros k _.
  unfold order_ok. destruct Hr as [_ _ R3 _ _ _ _ _ _ R10 R11]. unfold jkey in R10.
  apply follows_b_complete.
  - apply NoDup_map_filter. exact R3.
  - rewrite R10, R11. eapply sched_same_key_serial. exact Hrun.
Qed.
End Sound.
