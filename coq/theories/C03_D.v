(* C03: node.remove / growChildAndRemove on trees of items (key, payload): effect on the in-order list.
   Item-level version of BTD.v (the key-only prototype): the removed item is returned with its payload, every
   other item keeps its payload. *)
From Coq Require Import ZArith List Lia Bool Sorting.Sorted.
Require Import C03_Model.
Import ListNotations.
Open Scope Z_scope.
Local Coercion key : item >-> Z.


(* aligned pieces: children before an index with the items that follow them,
   and items from an index with the children that follow them *)
Fixpoint pre (F : inode -> list item) (its : list item) (ch : list inode) : list item :=
  match its, ch with
  | x :: its', c :: ch' => F c ++ x :: pre F its' ch'
  | _, _ => []
  end.
Fixpoint post (F : inode -> list item) (its : list item) (ch : list inode) : list item :=
  match its, ch with
  | x :: its', c :: ch' => x :: F c ++ post F its' ch'
  | _, _ => []
  end.

Lemma inter_split F : forall i its ch d,
  (i <= length its)%nat -> length ch = S (length its) ->
  inter F its ch = pre F (firstn i its) (firstn i ch) ++ F (nth i ch d) ++ post F (skipn i its) (skipn (S i) ch).
Proof.
  induction i as [|i IH]; intros its ch d Hi Hl.
  - cbn. destruct ch as [|c ch]; [discriminate|]. cbn in Hl.
    clear Hi. revert c ch Hl. induction its as [|x its IH2]; intros c ch Hl; cbn.
    + destruct ch; [now rewrite app_nil_r | discriminate].
    + destruct ch as [|c2 ch]; [discriminate|]. cbn in Hl. f_equal. f_equal.
      specialize (IH2 c2 ch ltac:(lia)). cbn in IH2. exact IH2.
  - destruct its as [|x its]; [cbn in Hi; lia|]. destruct ch as [|c ch]; [discriminate|].
    cbn in Hi, Hl. cbn [inter hd_rec tl firstn skipn pre nth]. rewrite <- app_assoc. cbn. f_equal. f_equal.
    apply IH; lia.
Qed.

Lemma firstn_set_at {A} (l : list A) i x : (i <= length l)%nat -> firstn i (set_at l i x) = firstn i l.
Proof.
  intros H. unfold set_at. rewrite firstn_app, firstn_firstn, Nat.min_id, firstn_length_le by lia.
  rewrite Nat.sub_diag. cbn. now rewrite app_nil_r.
Qed.
Lemma skipn_set_at {A} (l : list A) i x : (i < length l)%nat -> skipn (S i) (set_at l i x) = skipn (S i) l.
Proof.
  intros H. unfold set_at. rewrite skipn_app.
  rewrite (skipn_all2 (firstn i l)) by (rewrite firstn_length_le; lia).
  rewrite firstn_length_le by lia.
  replace (S i - i)%nat with 1%nat by lia. reflexivity.
Qed.
Lemma nth_set_at {A} (l : list A) i x d : (i < length l)%nat -> nth i (set_at l i x) d = x.
Proof.
  intros H. unfold set_at. rewrite app_nth2; rewrite firstn_length_le by lia; [|lia]. now rewrite Nat.sub_diag.
Qed.
Lemma length_set_at {A} (l : list A) i x : (i < length l)%nat -> length (set_at l i x) = length l.
Proof.
  intros H. unfold set_at. rewrite app_length, firstn_length_le by lia. cbn [length]. rewrite skipn_length. lia.
Qed.

(* replacing one child replaces its segment of the in-order list *)
Lemma inter_set_child F its ch i c' d :
  (i <= length its)%nat -> length ch = S (length its) ->
  inter F its (set_at ch i c') =
  pre F (firstn i its) (firstn i ch) ++ F c' ++ post F (skipn i its) (skipn (S i) ch)
  /\ inter F its ch =
  pre F (firstn i its) (firstn i ch) ++ F (nth i ch d) ++ post F (skipn i its) (skipn (S i) ch).
Proof.
  intros Hi Hl. split; [|apply inter_split; auto].
  rewrite (inter_split F i its (set_at ch i c') d) by (rewrite ?length_set_at; lia).
  rewrite firstn_set_at, skipn_set_at, nth_set_at by lia. reflexivity.
Qed.

(* ---------- list surgery used by growChildAndRemove ---------- *)
Lemma inter_leaf F its : inter F its [] = its.
Proof. induction its as [|x its IH]; cbn; [reflexivity|]. now rewrite IH. Qed.

Lemma inter_merge F : forall its1 ch1 x its2 ch2,
  length ch1 = S (length its1) ->
  inter F (its1 ++ x :: its2) (ch1 ++ ch2) = inter F its1 ch1 ++ x :: inter F its2 ch2.
Proof.
  induction its1 as [|y its1 IH]; intros ch1 x its2 ch2 Hl.
  - destruct ch1 as [|c [|? ?]]; try discriminate. cbn. reflexivity.
  - destruct ch1 as [|c ch1]; [discriminate|]. cbn in Hl. cbn [app inter hd_rec tl].
    rewrite IH by lia. now rewrite <- app_assoc.
Qed.

Lemma inter_removelast F : forall its ch,
  its <> [] -> length ch = S (length its) ->
  inter F its ch = inter F (removelast its) (removelast ch) ++ last its ditem :: F (last ch dinode).
Proof.
  induction its as [|x its IH]; intros ch Hne Hl; [congruence|].
  destruct ch as [|c ch]; [discriminate|]. cbn in Hl.
  destruct its as [|y its].
  - destruct ch as [|c2 [|? ?]]; try discriminate. cbn. reflexivity.
  - destruct ch as [|c2 ch]; [discriminate|].
    specialize (IH (c2 :: ch) ltac:(discriminate) ltac:(cbn in *; lia)).
    cbn [inter hd_rec tl] in *. rewrite IH.
    change (removelast (x :: y :: its)) with (x :: removelast (y :: its)).
    change (removelast (c :: c2 :: ch)) with (c :: removelast (c2 :: ch)).
    change (last (x :: y :: its) ditem) with (last (y :: its) ditem).
    change (last (c :: c2 :: ch) dinode) with (last (c2 :: ch) dinode).
    cbn [inter hd_rec tl]. now rewrite <- app_assoc.
Qed.

Lemma firstn_remove_at {A} (l : list A) i : (i <= length l)%nat -> firstn i (remove_at l i) = firstn i l.
Proof.
  intros H. unfold remove_at.
  rewrite firstn_app, firstn_firstn, Nat.min_id, firstn_length_le, Nat.sub_diag by lia. cbn. now rewrite app_nil_r.
Qed.
Lemma skipn_remove_at {A} (l : list A) i : (i <= length l)%nat -> skipn i (remove_at l i) = skipn (S i) l.
Proof.
  intros H. unfold remove_at. rewrite skipn_app, firstn_length_le, Nat.sub_diag by lia.
  rewrite (skipn_all2 (firstn i l)) by (rewrite firstn_length_le; lia). reflexivity.
Qed.
Lemma length_remove_at {A} (l : list A) i : (i < length l)%nat -> length (remove_at l i) = pred (length l).
Proof. intros H. unfold remove_at. rewrite app_length, firstn_length_le, skipn_length by lia. lia. Qed.
Lemma nth_remove_at_lt {A} (l : list A) i j d : (j < i)%nat -> (i <= length l)%nat -> nth j (remove_at l i) d = nth j l d.
Proof.
  intros Hj Hi. unfold remove_at. rewrite app_nth1 by (rewrite firstn_length_le; lia).
  rewrite <- (firstn_skipn i l) at 2. rewrite app_nth1 by (rewrite firstn_length_le; lia). reflexivity.
Qed.

(* ---------- decomposition style helpers ---------- *)
Lemma split_at {A} (l : list A) j : (j < length l)%nat -> exists a x b, l = a ++ x :: b /\ length a = j.
Proof.
  intros H. exists (firstn j l). destruct (skipn j l) as [|x b] eqn:E.
  - apply (f_equal (@length A)) in E. rewrite skipn_length in E. cbn in E. lia.
  - exists x, b. split; [|apply firstn_length_le; lia]. rewrite <- E. symmetry. apply firstn_skipn.
Qed.
Lemma set_at_app {A} (a : list A) x b y : set_at (a ++ x :: b) (length a) y = a ++ y :: b.
Proof.
  unfold set_at. rewrite firstn_app, skipn_app, Nat.sub_diag, firstn_all, (skipn_all2 a) by lia.
  replace (S (length a) - length a)%nat with 1%nat by lia. cbn. now rewrite app_nil_r.
Qed.
Lemma nth_app_len {A} (a : list A) x b d : nth (length a) (a ++ x :: b) d = x.
Proof. rewrite app_nth2 by lia. now rewrite Nat.sub_diag. Qed.
Lemma remove_at_app {A} (a : list A) x b : remove_at (a ++ x :: b) (length a) = a ++ b.
Proof.
  unfold remove_at. rewrite firstn_app, skipn_app, Nat.sub_diag, firstn_all, (skipn_all2 a) by lia.
  replace (S (length a) - length a)%nat with 1%nat by lia. cbn. now rewrite app_nil_r.
Qed.
Lemma inter_app_pre F : forall a ca its ch, length a = length ca ->
  inter F (a ++ its) (ca ++ ch) = pre F a ca ++ inter F its ch.
Proof.
  induction a as [|x a IH]; intros ca its ch Hl; destruct ca as [|c ca]; try discriminate; cbn.
  - reflexivity.
  - cbn in Hl. rewrite IH by lia. now rewrite <- app_assoc.
Qed.

Definition aligned (n : inode) := ichildren n = [] \/ length (ichildren n) = S (length (iitems n)).
Definition same_kind (a b : inode) := is_nil (ichildren a) = is_nil (ichildren b).

Lemma flat_S f n : iflat (S f) n = inter (iflat f) (iitems n) (ichildren n).
Proof. reflexivity. Qed.

(* flattening of the left sibling after its last item (and child) is taken away *)
Lemma flat_take_last f L :
  aligned L -> iitems L <> [] ->
  iflat (S f) L =
  iflat (S f) (INode (removelast (iitems L)) (removelast (ichildren L))) ++
  last (iitems L) ditem :: (if is_nil (ichildren L) then [] else iflat f (last (ichildren L) dinode)).
Proof.
  intros [Hleaf|Hal] Hne; rewrite !flat_S; cbn [iitems ichildren].
  - rewrite Hleaf. cbn [removelast is_nil]. rewrite !inter_leaf. apply app_removelast_last. exact Hne.
  - destruct (ichildren L) as [|c cs] eqn:E; [discriminate|]. cbn [is_nil].
    rewrite <- E. apply inter_removelast; auto. now rewrite E.
Qed.

Lemma inter_cons_post F : forall b cb c, length cb = length b ->
  inter F b (c :: cb) = F c ++ post F b cb.
Proof.
  induction b as [|y b IH]; intros cb c Hl; destruct cb as [|c2 cb]; try discriminate; cbn.
  - now rewrite app_nil_r.
  - cbn in Hl. rewrite IH by lia. reflexivity.
Qed.

Lemma is_nil_true {A} (l : list A) : is_nil l = true -> l = [].
Proof. destruct l; [reflexivity|discriminate]. Qed.

(* steal from the left sibling *)
Lemma grow_left_flat f a xj b ca L C cb :
  length a = length ca -> length cb = length b ->
  aligned L -> iitems L <> [] -> same_kind L C ->
  let stolen := last (iitems L) ditem in
  let L' := INode (removelast (iitems L)) (removelast (ichildren L)) in
  let C' := INode (xj :: iitems C)
                 (if is_nil (ichildren L) then ichildren C
                  else last (ichildren L) dinode :: ichildren C) in
  iflat (S (S f)) (INode (a ++ stolen :: b) (ca ++ L' :: C' :: cb)) =
  iflat (S (S f)) (INode (a ++ xj :: b) (ca ++ L :: C :: cb)).
Proof.
  intros Ha Hb HaL Hne Hk stolen L' C'.
  rewrite (flat_S (S f)). rewrite (flat_S (S f) (INode (a ++ xj :: b) _)). cbn [iitems ichildren].
  rewrite !inter_app_pre by assumption. f_equal.
  cbn [inter hd_rec tl]. rewrite !inter_cons_post by assumption.
  rewrite (flat_take_last f L HaL Hne). fold stolen L'.
  unfold same_kind in Hk.
  destruct (is_nil (ichildren L)) eqn:EL.
  - symmetry in Hk. apply is_nil_true in Hk.
    subst C'. rewrite !flat_S. cbn [iitems ichildren]. rewrite Hk, !inter_leaf.
    rewrite <- !app_assoc. cbn. reflexivity.
  - subst C'. rewrite (flat_S f (INode _ _)). cbn [iitems ichildren inter hd_rec tl].
    rewrite (flat_S f C). rewrite <- !app_assoc. cbn. rewrite <- ?app_assoc. reflexivity.
Qed.

(* steal from the right sibling *)
Lemma inter_snoc F its ch x c2 :
  length ch = S (length its) -> inter F (its ++ [x]) (ch ++ [c2]) = inter F its ch ++ x :: F c2.
Proof. intros H. rewrite inter_merge by assumption. reflexivity. Qed.

Lemma grow_right_flat f a xi b ca C R cb :
  length a = length ca -> length cb = length b ->
  aligned C -> aligned R -> iitems R <> [] -> same_kind C R ->
  let stolen := hd ditem (iitems R) in
  let R' := INode (tl (iitems R)) (tl (ichildren R)) in
  let C' := INode (iitems C ++ [xi])
                 (if is_nil (ichildren R) then ichildren C
                  else ichildren C ++ [hd dinode (ichildren R)]) in
  iflat (S (S f)) (INode (a ++ stolen :: b) (ca ++ C' :: R' :: cb)) =
  iflat (S (S f)) (INode (a ++ xi :: b) (ca ++ C :: R :: cb)).
Proof.
  intros Ha Hb HaC HaR Hne Hk stolen R' C'.
  rewrite (flat_S (S f)). rewrite (flat_S (S f) (INode (a ++ xi :: b) _)). cbn [iitems ichildren].
  rewrite !inter_app_pre by assumption. f_equal.
  cbn [inter hd_rec tl]. rewrite !inter_cons_post by assumption.
  unfold same_kind in Hk.
  destruct (iitems R) as [|r0 rits] eqn:ER; [congruence|].
  destruct (is_nil (ichildren R)) eqn:ERc.
  - apply is_nil_true in ERc. apply is_nil_true in Hk.
    subst C' R' stolen. rewrite !flat_S. cbn [iitems ichildren hd tl]. rewrite ER, ERc, Hk. cbn [tl hd].
    rewrite !inter_leaf. rewrite <- !app_assoc. cbn. reflexivity.
  - destruct (ichildren R) as [|rc rcs] eqn:ERch; [discriminate|].
    destruct HaC as [HCl|HCa]; [rewrite HCl in Hk; discriminate|].
    subst C' R' stolen. rewrite !flat_S. cbn [iitems ichildren hd tl]. rewrite ER, ERch. cbn [hd tl].
    rewrite inter_snoc by assumption. cbn [inter hd_rec tl].
    rewrite <- !app_assoc. cbn. rewrite <- ?app_assoc. reflexivity.
Qed.

(* merge child i with its right sibling around the separating item *)
Lemma grow_merge_flat f a xi b ca C M cb :
  length a = length ca -> length cb = length b ->
  aligned C -> same_kind C M ->
  let C' := INode (iitems C ++ xi :: iitems M) (ichildren C ++ ichildren M) in
  iflat (S (S f)) (INode (a ++ b) (ca ++ C' :: cb)) =
  iflat (S (S f)) (INode (a ++ xi :: b) (ca ++ C :: M :: cb)).
Proof.
  intros Ha Hb HaC Hk C'.
  rewrite (flat_S (S f)). rewrite (flat_S (S f) (INode (a ++ xi :: b) _)). cbn [iitems ichildren].
  rewrite !inter_app_pre by assumption. f_equal.
  cbn [inter hd_rec tl]. rewrite !inter_cons_post by assumption.
  subst C'. rewrite !flat_S. cbn [iitems ichildren].
  unfold same_kind in Hk.
  destruct HaC as [HCl|HCa].
  - rewrite HCl in *. cbn in Hk. symmetry in Hk. apply is_nil_true in Hk. rewrite Hk. cbn [app].
    rewrite !inter_leaf. rewrite <- !app_assoc. cbn. reflexivity.
  - rewrite inter_merge by assumption. rewrite <- !app_assoc. cbn. reflexivity.
Qed.

(* ---------- bridge: igrow on index form = the decomposed lemmas ---------- *)
Lemma split2 (its : list item) (ch : list inode) j :
  length ch = S (length its) -> (j < length its)%nat ->
  exists a x b ca c1 c2 cb,
    its = a ++ x :: b /\ ch = ca ++ c1 :: c2 :: cb /\ length a = j /\ length ca = j /\ length cb = length b.
Proof.
  intros Hl Hj.
  destruct (split_at its j Hj) as (a & x & b & -> & Ha).
  destruct (split_at ch j ltac:(lia)) as (ca & c1 & rest & -> & Hca).
  rewrite !app_length in Hl. cbn in Hl.
  destruct rest as [|c2 cb]; [cbn in Hl; lia|].
  exists a, x, b, ca, c1, c2, cb. cbn in Hl. repeat split; auto; lia.
Qed.

Lemma nth_app_len_S {A} (a : list A) x y b d : nth (S (length a)) (a ++ x :: y :: b) d = y.
Proof.
  replace (a ++ x :: y :: b) with ((a ++ [x]) ++ y :: b) by now rewrite <- app_assoc.
  replace (S (length a)) with (length (a ++ [x])) by (rewrite app_length; cbn; lia).
  apply nth_app_len.
Qed.
Lemma set_at_app_S {A} (a : list A) x y b z : set_at (a ++ x :: y :: b) (S (length a)) z = a ++ x :: z :: b.
Proof.
  replace (a ++ x :: y :: b) with ((a ++ [x]) ++ y :: b) by now rewrite <- app_assoc.
  replace (S (length a)) with (length (a ++ [x])) by (rewrite app_length; cbn; lia).
  rewrite set_at_app. now rewrite <- app_assoc.
Qed.
Lemma remove_at_app_S {A} (a : list A) x y b : remove_at (a ++ x :: y :: b) (S (length a)) = a ++ x :: b.
Proof.
  replace (a ++ x :: y :: b) with ((a ++ [x]) ++ y :: b) by now rewrite <- app_assoc.
  replace (S (length a)) with (length (a ++ [x])) by (rewrite app_length; cbn; lia).
  rewrite remove_at_app. now rewrite <- app_assoc.
Qed.

Lemma nth_app_len' {A} (a : list A) x b d k : length a = k -> nth k (a ++ x :: b) d = x.
Proof. intros <-. apply nth_app_len. Qed.
Lemma set_at_app' {A} (a : list A) x b y k : length a = k -> set_at (a ++ x :: b) k y = a ++ y :: b.
Proof. intros <-. apply set_at_app. Qed.
Lemma remove_at_app' {A} (a : list A) x b k : length a = k -> remove_at (a ++ x :: b) k = a ++ b.
Proof. intros <-. apply remove_at_app. Qed.
Lemma nth_app_len_S' {A} (a : list A) x y b d k : length a = k -> nth (S k) (a ++ x :: y :: b) d = y.
Proof. intros <-. apply nth_app_len_S. Qed.
Lemma set_at_app_S' {A} (a : list A) x y b z k : length a = k -> set_at (a ++ x :: y :: b) (S k) z = a ++ x :: z :: b.
Proof. intros <-. apply set_at_app_S. Qed.
Lemma remove_at_app_S' {A} (a : list A) x y b k : length a = k -> remove_at (a ++ x :: y :: b) (S k) = a ++ x :: b.
Proof. intros <-. apply remove_at_app_S. Qed.

Lemma grow_flat f minI its ch i :
  length ch = S (length its) -> (i <= length its)%nat -> (1 <= length its)%nat ->
  Forall aligned ch ->
  (forall x y, In x ch -> In y ch -> same_kind x y) ->
  iflat (S (S f)) (igrow minI (INode its ch) i) = iflat (S (S f)) (INode its ch).
Proof.
  intros Hl Hi H1 Hal Hk. unfold igrow. cbn [iitems ichildren]. unfold nth_inode.
  destruct (Nat.ltb 0 i && Nat.ltb minI (length (iitems (nth (i - 1) ch dinode)))) eqn:E1.
  - apply andb_prop in E1 as [Ei Em]. apply Nat.ltb_lt in Ei. apply Nat.ltb_lt in Em.
    destruct (split2 its ch (i - 1) Hl ltac:(lia)) as (a & x & b & ca & L & C & cb & -> & -> & Ha & Hca & Hcb).
    set (j := (i - 1)%nat) in *. replace i with (S j) in * by lia.
    rewrite (nth_app_len' ca L (C :: cb) dinode j Hca) in *.
    rewrite (nth_app_len_S' ca L C cb dinode j Hca).
    rewrite (nth_app_len' a x b ditem j Ha), (set_at_app' a x b _ j Ha).
    rewrite (set_at_app' ca L (C :: cb) _ j Hca), (set_at_app_S' ca _ C cb _ j Hca).
    rewrite Forall_app in Hal. destruct Hal as [_ Hal]. inversion Hal as [|? ? HaL Hal']; subst.
    apply grow_left_flat; auto; try lia.
    + destruct (iitems L); [cbn in Em; lia|discriminate].
    + apply Hk; apply in_or_app; right; cbn; auto.
  - destruct (Nat.ltb i (length its) && Nat.ltb minI (length (iitems (nth (S i) ch dinode)))) eqn:E2.
    + apply andb_prop in E2 as [Ei Em]. apply Nat.ltb_lt in Ei. apply Nat.ltb_lt in Em.
      destruct (split2 its ch i Hl Ei) as (a & x & b & ca & C & R & cb & -> & -> & Ha & Hca & Hcb).
      rewrite (nth_app_len_S' ca C R cb dinode i Hca) in *.
      rewrite (nth_app_len' ca C (R :: cb) dinode i Hca).
      rewrite (nth_app_len' a x b ditem i Ha), (set_at_app' a x b _ i Ha).
      rewrite (set_at_app' ca C (R :: cb) _ i Hca), (set_at_app_S' ca _ R cb _ i Hca).
      rewrite Forall_app in Hal. destruct Hal as [_ Hal]. inversion Hal as [|? ? HaC Hal']; subst.
      inversion Hal' as [|? ? HaR _]; subst.
      apply grow_right_flat; auto; try lia.
      * destruct (iitems R); [cbn in Em; lia|discriminate].
      * apply Hk; apply in_or_app; right; cbn; auto.
    + set (i' := if Nat.leb (length its) i then (i - 1)%nat else i).
      assert (Hi' : (i' < length its)%nat).
      { subst i'. destruct (Nat.leb (length its) i) eqn:E; [apply Nat.leb_le in E | apply Nat.leb_gt in E]; lia. }
      clearbody i'.
      destruct (split2 its ch i' Hl Hi') as (a & x & b & ca & C & M & cb & -> & -> & Ha & Hca & Hcb).
      rewrite (nth_app_len' ca C (M :: cb) dinode i' Hca), (nth_app_len_S' ca C M cb dinode i' Hca).
      rewrite (nth_app_len' a x b ditem i' Ha), (remove_at_app' a x b i' Ha).
      rewrite (set_at_app' ca C (M :: cb) _ i' Hca), (remove_at_app_S' ca _ M cb i' Hca).
      rewrite Forall_app in Hal. destruct Hal as [_ Hal]. inversion Hal as [|? ? HaC Hal']; subst.
      apply grow_merge_flat; auto; try lia.
      apply Hk; apply in_or_app; right; cbn; auto.
Qed.

(* ---------- igrow in decomposed form, once and for all ---------- *)
Definition left_of (L : inode) := INode (removelast (iitems L)) (removelast (ichildren L)).
Definition child_after_left (x : item) (L C : inode) :=
  INode (x :: iitems C) (if is_nil (ichildren L) then ichildren C else last (ichildren L) dinode :: ichildren C).
Definition right_of (R : inode) := INode (tl (iitems R)) (tl (ichildren R)).
Definition child_after_right (x : item) (C R : inode) :=
  INode (iitems C ++ [x]) (if is_nil (ichildren R) then ichildren C else ichildren C ++ [hd dinode (ichildren R)]).
Definition merged (x : item) (C M : inode) := INode (iitems C ++ x :: iitems M) (ichildren C ++ ichildren M).

Inductive grow_case (minI : nat) (its : list item) (ch : list inode) (i : nat) (g : inode) : Prop :=
| GLeft a x b ca L C cb :
    its = a ++ x :: b -> ch = ca ++ L :: C :: cb -> length a = length ca -> length cb = length b ->
    i = S (length ca) -> (minI < length (iitems L))%nat ->
    g = INode (a ++ last (iitems L) ditem :: b) (ca ++ left_of L :: child_after_left x L C :: cb) ->
    grow_case minI its ch i g
| GRight a x b ca C R cb :
    its = a ++ x :: b -> ch = ca ++ C :: R :: cb -> length a = length ca -> length cb = length b ->
    i = length ca -> (minI < length (iitems R))%nat ->
    g = INode (a ++ hd ditem (iitems R) :: b) (ca ++ child_after_right x C R :: right_of R :: cb) ->
    grow_case minI its ch i g
| GMerge a x b ca C M cb :
    its = a ++ x :: b -> ch = ca ++ C :: M :: cb -> length a = length ca -> length cb = length b ->
    (i = length ca \/ i = S (length ca)) ->
    (length (iitems C) <= minI \/ length (iitems M) <= minI)%nat ->
    g = INode (a ++ b) (ca ++ merged x C M :: cb) ->
    grow_case minI its ch i g.

Lemma grow_cases minI its ch i :
  length ch = S (length its) -> (i <= length its)%nat -> (1 <= length its)%nat ->
  (length (iitems (nth i ch dinode)) <= minI)%nat ->
  grow_case minI its ch i (igrow minI (INode its ch) i).
Proof.
  intros Hl Hi H1 Hsmall. unfold igrow. cbn [iitems ichildren]. unfold nth_inode.
  destruct (Nat.ltb 0 i && Nat.ltb minI (length (iitems (nth (i - 1) ch dinode)))) eqn:E1.
  - apply andb_prop in E1 as [Ei Em]. apply Nat.ltb_lt in Ei. apply Nat.ltb_lt in Em.
    destruct (split2 its ch (i - 1) Hl ltac:(lia)) as (a & x & b & ca & L & C & cb & -> & -> & Ha & Hca & Hcb).
    set (j := (i - 1)%nat) in *. replace i with (S j) in * by lia.
    rewrite (nth_app_len' ca L (C :: cb) dinode j Hca) in *.
    rewrite (nth_app_len_S' ca L C cb dinode j Hca).
    rewrite (nth_app_len' a x b ditem j Ha), (set_at_app' a x b _ j Ha).
    rewrite (set_at_app' ca L (C :: cb) _ j Hca), (set_at_app_S' ca _ C cb _ j Hca).
    eapply GLeft; eauto; lia.
  - destruct (Nat.ltb i (length its) && Nat.ltb minI (length (iitems (nth (S i) ch dinode)))) eqn:E2.
    + apply andb_prop in E2 as [Ei Em]. apply Nat.ltb_lt in Ei. apply Nat.ltb_lt in Em.
      destruct (split2 its ch i Hl Ei) as (a & x & b & ca & C & R & cb & -> & -> & Ha & Hca & Hcb).
      rewrite (nth_app_len_S' ca C R cb dinode i Hca) in *.
      rewrite (nth_app_len' ca C (R :: cb) dinode i Hca).
      rewrite (nth_app_len' a x b ditem i Ha), (set_at_app' a x b _ i Ha).
      rewrite (set_at_app' ca C (R :: cb) _ i Hca), (set_at_app_S' ca _ R cb _ i Hca).
      eapply GRight; eauto; lia.
    + set (i' := if Nat.leb (length its) i then (i - 1)%nat else i).
      assert (Hi' : (i' < length its)%nat /\ (i = i' \/ i = S i')).
      { subst i'. destruct (Nat.leb (length its) i) eqn:E; [apply Nat.leb_le in E | apply Nat.leb_gt in E]; lia. }
      destruct Hi' as [Hi' Hii]. clearbody i'.
      destruct (split2 its ch i' Hl Hi') as (a & x & b & ca & C & M & cb & -> & -> & Ha & Hca & Hcb).
      rewrite (nth_app_len' ca C (M :: cb) dinode i' Hca), (nth_app_len_S' ca C M cb dinode i' Hca).
      rewrite (nth_app_len' a x b ditem i' Ha), (remove_at_app' a x b i' Ha).
      rewrite (set_at_app' ca C (M :: cb) _ i' Hca), (remove_at_app_S' ca _ M cb i' Hca).
      eapply GMerge; eauto; try lia.
      destruct Hii as [->| ->].
      * left. now rewrite (nth_app_len' ca C (M :: cb) dinode i' Hca) in Hsmall.
      * right. now rewrite (nth_app_len_S' ca C M cb dinode i' Hca) in Hsmall.
Qed.

(* ---------- shape (all leaves at depth h) and occupancy ---------- *)
Fixpoint shaped (h : nat) (n : inode) : Prop :=
  match h with
  | O => ichildren n = []
  | S h' => length (ichildren n) = S (length (iitems n)) /\ Forall (shaped h') (ichildren n)
  end.

Section Occ.
Variable minI : nat.
Hypothesis minI_pos : (1 <= minI)%nat.

(* every descendant (not the inode itself) holds at least minI items *)
Fixpoint occ (h : nat) (n : inode) : Prop :=
  match h with
  | O => True
  | S h' => Forall (fun c => (minI <= length (iitems c))%nat /\ occ h' c) (ichildren n)
  end.

Lemma shaped_aligned h n : shaped h n -> aligned n.
Proof. destruct h; cbn; intros H; [left|right]; tauto. Qed.

Lemma shaped_same_kind h a b : shaped h a -> shaped h b -> same_kind a b.
Proof.
  unfold same_kind. destruct h; cbn.
  - intros -> ->. reflexivity.
  - intros [Ha _] [Hb _]. destruct (ichildren a), (ichildren b); cbn in *; auto; lia.
Qed.

Lemma Forall_removelast {A} (P : A -> Prop) l : Forall P l -> Forall P (removelast l).
Proof.
  induction 1 as [|x l Hx Hl IH]; cbn; [constructor|]. destruct l; [constructor|]. constructor; auto.
Qed.
Lemma Forall_last {A} (P : A -> Prop) l d : l <> [] -> Forall P l -> P (last l d).
Proof.
  induction l as [|x l IH]; [congruence|]. intros _ H. inversion H; subst. destruct l; cbn; auto.
  apply IH; [discriminate|auto].
Qed.
Lemma length_removelast {A} (l : list A) : l <> [] -> length (removelast l) = pred (length l).
Proof.
  induction l as [|x l IH]; [congruence|]. intros _. destruct l as [|y l]; [reflexivity|].
  change (removelast (x :: y :: l)) with (x :: removelast (y :: l)). cbn [length].
  rewrite IH by discriminate. reflexivity.
Qed.
End Occ.

Section Grow.
Variable minI : nat.
Hypothesis minI_pos : (1 <= minI)%nat.
Notation occ := (occ minI).

Lemma shaped_S_nonnil h n : shaped (S h) n -> is_nil (ichildren n) = false /\ ichildren n <> [].
Proof. cbn. intros [Hl _]. destruct (ichildren n); cbn in *; [lia|]. split; [reflexivity|discriminate]. Qed.
Lemma shaped_0_nil n : shaped 0 n -> is_nil (ichildren n) = true.
Proof. cbn. now intros ->. Qed.

Lemma shaped_left_of h L : shaped h L -> iitems L <> [] -> shaped h (left_of L).
Proof.
  destruct h; cbn; intros H Hne.
  - now rewrite H.
  - destruct H as [Hl Hf]. split; [|now apply Forall_removelast].
    rewrite !length_removelast; auto; [destruct (iitems L); [congruence|cbn in *; lia] | destruct (ichildren L); [discriminate|discriminate]].
Qed.
Lemma occ_left_of h L : occ h L -> occ h (left_of L).
Proof. destruct h; cbn; auto. apply Forall_removelast. Qed.

Lemma shaped_cal h x L C : shaped h L -> shaped h C -> shaped h (child_after_left x L C).
Proof.
  destruct h; intros HL HC.
  - cbn in *. now rewrite HL, HC.
  - destruct (shaped_S_nonnil _ _ HL) as [E Hne]. unfold child_after_left. rewrite E.
    cbn in *. destruct HL as [_ HfL], HC as [HlC HfC]. split; [cbn; lia|].
    constructor; auto. apply Forall_last; auto.
Qed.
Lemma occ_cal h x L C : shaped h L -> occ h L -> occ h C -> occ h (child_after_left x L C).
Proof.
  destruct h; intros HL OL OC; [exact I|].
  destruct (shaped_S_nonnil _ _ HL) as [E Hne]. unfold child_after_left. rewrite E.
  cbn in *. constructor; auto. apply (Forall_last _ _ dinode Hne OL).
Qed.

Lemma shaped_right_of h R : shaped h R -> iitems R <> [] -> shaped h (right_of R).
Proof.
  destruct h; cbn; intros H Hne.
  - now rewrite H.
  - destruct H as [Hl Hf]. destruct (iitems R) as [|r rs]; [congruence|].
    destruct (ichildren R) as [|c cs]; [discriminate|]. cbn in *. inversion Hf; subst. split; auto; lia.
Qed.
Lemma occ_right_of h R : occ h R -> occ h (right_of R).
Proof. destruct h; cbn; auto. intros H. destruct (ichildren R); cbn; auto. now inversion H. Qed.

Lemma shaped_car h x C R : shaped h C -> shaped h R -> shaped h (child_after_right x C R).
Proof.
  destruct h; intros HC HR.
  - cbn in *. now rewrite HR, HC.
  - destruct (shaped_S_nonnil _ _ HR) as [E Hne]. unfold child_after_right. rewrite E.
    cbn in *. destruct HR as [_ HfR], HC as [HlC HfC]. split.
    + rewrite !app_length. cbn. lia.
    + apply Forall_app. split; auto. constructor; [|constructor].
      destruct (ichildren R); [congruence|]. now inversion HfR.
Qed.
Lemma occ_car h x C R : shaped h R -> occ h C -> occ h R -> occ h (child_after_right x C R).
Proof.
  destruct h; intros HR OC OR; [exact I|].
  destruct (shaped_S_nonnil _ _ HR) as [E Hne]. unfold child_after_right. rewrite E.
  cbn in *. apply Forall_app. split; auto. constructor; [|constructor].
  destruct (ichildren R); [congruence|]. now inversion OR.
Qed.

Lemma shaped_merged h x C M : shaped h C -> shaped h M -> shaped h (merged x C M).
Proof.
  destruct h; cbn; intros HC HM.
  - now rewrite HC, HM.
  - destruct HC as [HlC HfC], HM as [HlM HfM]. split.
    + rewrite !app_length. cbn. lia.
    + apply Forall_app. auto.
Qed.
Lemma occ_merged h x C M : occ h C -> occ h M -> occ h (merged x C M).
Proof. destruct h; cbn; auto. intros. apply Forall_app. auto. Qed.

Definition ok_rm (n : inode) : Prop :=
  (1 <= length (iitems n))%nat \/ Forall (fun c => (minI < length (iitems c))%nat) (ichildren n).

Lemma grow_good h its ch i g :
  shaped (S h) (INode its ch) -> occ (S h) (INode its ch) ->
  grow_case minI its ch i g ->
  shaped (S h) g /\ occ (S h) g /\ ok_rm g.
Proof.
  intros [Hl Hf] Ho Hc. cbn [iitems ichildren] in *.
  destruct Hc as [a x b ca L C cb -> -> Ha Hb Hi Hm -> | a x b ca C R cb -> -> Ha Hb Hi Hm -> | a x b ca C M cb -> -> Ha Hb Hi Hm ->].
  - apply Forall_app in Hf as [Hfa Hf]. inversion Hf as [|? ? HL Hf']; subst. inversion Hf' as [|? ? HC Hfb]; subst.
    apply Forall_app in Ho as [Hoa Ho]. inversion Ho as [|? ? [HLn OL] Ho']; subst. inversion Ho' as [|? ? [HCn OC] Hob]; subst.
    assert (HneL : iitems L <> []) by (destruct (iitems L); [cbn in Hm; lia|discriminate]).
    repeat split.
    + cbn. rewrite !app_length. cbn. rewrite !app_length in Hl. cbn in Hl. lia.
    + cbn. apply Forall_app. split; auto. constructor; [now apply shaped_left_of|]. constructor; auto. now apply shaped_cal.
    + cbn. apply Forall_app. split; auto. constructor.
      * split; [|now apply occ_left_of]. cbn. rewrite length_removelast by auto. lia.
      * constructor; auto. split; [cbn; lia | now apply occ_cal].
    + left. cbn. rewrite app_length. cbn. lia.
  - apply Forall_app in Hf as [Hfa Hf]. inversion Hf as [|? ? HC Hf']; subst. inversion Hf' as [|? ? HR Hfb]; subst.
    apply Forall_app in Ho as [Hoa Ho]. inversion Ho as [|? ? [HCn OC] Ho']; subst. inversion Ho' as [|? ? [HRn OR] Hob]; subst.
    assert (HneR : iitems R <> []) by (destruct (iitems R); [cbn in Hm; lia|discriminate]).
    repeat split.
    + cbn. rewrite !app_length. cbn. rewrite !app_length in Hl. cbn in Hl. lia.
    + cbn. apply Forall_app. split; auto. constructor; [now apply shaped_car|]. constructor; auto. now apply shaped_right_of.
    + cbn. apply Forall_app. split; auto. constructor.
      * split; [cbn; rewrite app_length; cbn; lia | now apply occ_car].
      * constructor; auto. split; [|now apply occ_right_of]. cbn. destruct (iitems R); [congruence|]. cbn in *. lia.
    + left. cbn. rewrite app_length. cbn. lia.
  - apply Forall_app in Hf as [Hfa Hf]. inversion Hf as [|? ? HC Hf']; subst. inversion Hf' as [|? ? HM Hfb]; subst.
    apply Forall_app in Ho as [Hoa Ho]. inversion Ho as [|? ? [HCn OC] Ho']; subst. inversion Ho' as [|? ? [HMn OM] Hob]; subst.
    repeat split.
    + cbn. rewrite !app_length. cbn. rewrite !app_length in Hl. cbn in Hl. lia.
    + cbn. apply Forall_app. split; auto. constructor; auto. now apply shaped_merged.
    + cbn. apply Forall_app. split; auto. constructor; auto.
      split; [cbn; rewrite app_length; cbn; lia | now apply occ_merged].
    + destruct a as [|a0 a], b as [|b0 b].
      * right. cbn. destruct ca; [|discriminate]. destruct cb; [|discriminate]. cbn.
        constructor; [|constructor]. cbn. rewrite app_length. cbn. lia.
      * left. cbn. lia.
      * left. cbn. lia.
      * left. cbn. lia.
Qed.
End Grow.


Lemma ss_app_inv (l1 : list item) x l2 :
  StronglySorted klt (l1 ++ x :: l2) ->
  StronglySorted klt l1 /\ StronglySorted klt l2 /\ Forall (fun y : item => y < x) l1 /\ Forall (fun y : item => x < y) l2
  /\ Forall (fun y : item => Forall (fun z : item => y < z) l2) l1.
Proof.
  unfold klt. induction l1 as [|y l1 IH]; cbn; intros H.
  - inversion H; subst. repeat split; auto; constructor.
  - inversion H as [|? ? Hs Hf]; subst. destruct (IH Hs) as (S1 & S2 & F1 & F2 & F3).
    rewrite Forall_app in Hf. destruct Hf as [Hf1 Hf2]. inversion Hf2; subst.
    repeat split; auto; constructor; auto.
Qed.
Lemma ss_app_inv_app (l1 l2 : list item) :
  StronglySorted klt (l1 ++ l2) -> StronglySorted klt l1 /\ StronglySorted klt l2.
Proof.
  induction l1 as [|y l1 IH]; cbn; intros H; [split; [constructor|assumption]|].
  inversion H as [|? ? Hs Hf]; subst. destruct (IH Hs). rewrite Forall_app in Hf. split; auto. constructor; tauto.
Qed.

(* ---------- ifind on strictly sorted items ---------- *)
Lemma find_ix_spec : forall l k i0 i found,
  StronglySorted klt l -> ifind_ix l k i0 = (i, found) ->
  exists a b, l = a ++ b /\ i = (i0 + length a)%nat /\ Forall (fun y : item => y < k) a /\
    (if found then exists x b', b = x :: b' /\ key x = k else Forall (fun y : item => k < y) b).
Proof.
  induction l as [|x l IH]; intros k i0 i found Hs H; cbn in H.
  - inversion H; subst. exists [], []. cbn. repeat split; auto; lia.
  - inversion Hs as [|? ? Hs' Hf]; subst. unfold klt in Hf.
    destruct (k <? x) eqn:E1.
    + inversion H; subst. exists [], (x :: l). cbn. repeat split; auto; try lia.
      apply Z.ltb_lt in E1. constructor; auto. rewrite Forall_forall in *. intros y Hy. specialize (Hf y Hy). lia.
    + destruct (k =? x) eqn:E2.
      * inversion H; subst. apply Z.eqb_eq in E2. exists [], (x :: l). cbn. repeat split; auto; try lia. exists x, l. auto.
      * apply Z.ltb_ge in E1. apply Z.eqb_neq in E2.
        destruct (IH k (S i0) i found Hs' H) as (a & b & -> & -> & Ha & Hb).
        exists (x :: a), b. cbn. repeat split; auto; try lia. constructor; auto. lia.
Qed.

Lemma find_spec l k i found :
  StronglySorted klt l -> ifind l k = (i, found) ->
  exists a b, l = a ++ b /\ i = length a /\ Forall (fun y : item => y < k) a /\
    (if found then exists x b', b = x :: b' /\ key x = k else Forall (fun y : item => k < y) b).
Proof. intros Hs H. destruct (find_ix_spec l k 0 i found Hs H) as (a & b & ? & ? & ?). exists a, b. auto. Qed.

(* ---------- the sorted-list specification of a removal ---------- *)
Definition ne (k : Z) (y : item) : bool := negb (y =? k).
Definition has (k : Z) (y : item) : bool := y =? k.
Definition spec_list (t : irm) (L : list item) : list item :=
  match t with IRmItem k => filter (ne k) L | IRmMin => tl L | IRmMax => removelast L end.
Definition spec_out (t : irm) (L : list item) : option item :=
  match t with
  | IRmItem k => find (has k) L
  | IRmMin => Some (hd ditem L)
  | IRmMax => Some (last L ditem)
  end.

Lemma find_app {A} (f : A -> bool) l1 l2 : find f (l1 ++ l2) = match find f l1 with Some x => Some x | None => find f l2 end.
Proof. induction l1 as [|x l1 IH]; cbn; [reflexivity|]. destruct (f x); auto. Qed.

Lemma filter_ne_lt k l : Forall (fun y : item => y < k) l -> filter (ne k) l = l /\ find (has k) l = None.
Proof.
  induction 1 as [|y l Hy _ [IH1 IH2]]; cbn; [auto|]. unfold ne at 1, has at 1.
  assert (H : (key y =? k) = false) by (apply Z.eqb_neq; lia).
  rewrite H. cbn. now rewrite IH1, IH2.
Qed.
Lemma filter_ne_gt k l : Forall (fun y : item => k < y) l -> filter (ne k) l = l /\ find (has k) l = None.
Proof.
  induction 1 as [|y l Hy _ [IH1 IH2]]; cbn; [auto|]. unfold ne at 1, has at 1.
  assert (H : (key y =? k) = false) by (apply Z.eqb_neq; lia).
  rewrite H. cbn. now rewrite IH1, IH2.
Qed.

(* in a sorted list P ++ x :: R everything in P is below x and everything in R above *)
Lemma ss_mid (P : list item) x R : StronglySorted klt (P ++ x :: R) ->
  Forall (fun y : item => y < x) P /\ Forall (fun y : item => x < y) R.
Proof. intros H. destruct (ss_app_inv P x R H) as (_ & _ & A & B & _). auto. Qed.

Lemma Forall_lt_trans (l : list item) (x k : Z) : Forall (fun y : item => y < x) l -> x <= k -> Forall (fun y : item => y < k) l.
Proof. intros H Hx. rewrite Forall_forall in *. intros y Hy. specialize (H y Hy). lia. Qed.
Lemma Forall_gt_trans (l : list item) (x k : Z) : Forall (fun y : item => x < y) l -> k <= x -> Forall (fun y : item => k < y) l.
Proof. intros H Hx. rewrite Forall_forall in *. intros y Hy. specialize (H y Hy). lia. Qed.

Section Remove.
Variable minI : nat.
Hypothesis minI_pos : (1 <= minI)%nat.
Notation occ := (occ minI).
Notation ok_rm := (ok_rm minI).

Lemma flat_nonempty h c : iitems c <> [] -> iflat (S h) c <> [].
Proof.
  rewrite flat_S. destruct (iitems c) as [|x its]; [congruence|]. intros _. cbn.
  destruct (hd_rec (iflat h) [] (ichildren c)); discriminate.
Qed.

Lemma node_decomp F its ch a b : its = a ++ b -> length ch = S (length its) ->
  exists ca c cb, ch = ca ++ c :: cb /\ length ca = length a /\ length cb = length b /\
     inter F its ch = pre F a ca ++ F c ++ post F b cb.
Proof.
  intros -> Hl. rewrite app_length in Hl.
  destruct (split_at ch (length a) ltac:(lia)) as (ca & c & cb & -> & Hca).
  exists ca, c, cb. rewrite !app_length in Hl. cbn in Hl.
  assert (Hcb : length cb = length b) by lia.
  repeat split; auto.
  rewrite inter_app_pre by auto. now rewrite inter_cons_post.
Qed.

Lemma removelast_app_ne {A} (l1 l2 : list A) : l2 <> [] -> removelast (l1 ++ l2) = l1 ++ removelast l2.
Proof. apply removelast_app. Qed.
Lemma last_app_ne {A} (l1 l2 : list A) d : l2 <> [] -> last (l1 ++ l2) d = last l2 d.
Proof.
  intros H. induction l1 as [|x l1 IH]; cbn; auto. destruct (l1 ++ l2) eqn:E; auto.
  apply app_eq_nil in E. tauto.
Qed.

(* leaf level *)
Lemma remove_leaf f its t n' out :
  StronglySorted klt its ->
  (match t with IRmItem _ => True | _ => its <> [] end) ->
  iremove (S f) minI (INode its []) t = Some (n', out) ->
  iflat 1 n' = spec_list t its /\ out = spec_out t its.
Proof.
  intros Hs Hne H. cbn [iremove iitems ichildren is_nil] in H.
  destruct t as [k| |]; cbn in H.
  - destruct (ifind its k) as [i found] eqn:Ef. cbn in H.
    destruct (find_spec its k i found Hs Ef) as (a & b & -> & -> & Ha & Hb).
    destruct (filter_ne_lt k a Ha) as [Fa Ea].
    destruct found.
    + destruct Hb as (x & b' & -> & Hxk). inversion H; subst n' out; clear H.
      rewrite (remove_at_app a x b'), (nth_app_len a x b' ditem).
      apply ss_app_inv in Hs as (_ & _ & _ & Hb' & _).
      assert (Hb'' : Forall (fun y : item => k < y) b') by (rewrite <- Hxk; exact Hb').
      destruct (filter_ne_gt k b' Hb'') as [Fb Eb].
      cbn [iflat iitems ichildren]. rewrite inter_leaf. cbn [spec_list spec_out].
      rewrite filter_app, find_app, Fa, Ea. cbn [filter find]. unfold ne at 1, has at 1. rewrite Hxk, Z.eqb_refl. cbn [negb]. rewrite Fb.
      split; reflexivity.
    + inversion H; subst; clear H. destruct (filter_ne_gt k b Hb) as [Fb Eb].
      cbn [iflat iitems ichildren]. rewrite inter_leaf. cbn [spec_list spec_out].
      rewrite filter_app, find_app, Fa, Ea, Fb, Eb. split; reflexivity.
  - inversion H; subst; clear H. cbn [iflat iitems ichildren]. rewrite inter_leaf. split; reflexivity.
  - inversion H; subst; clear H. cbn [iflat iitems ichildren]. rewrite inter_leaf. split; reflexivity.
Qed.

Lemma sorted_pre_lt F a ca R (k : Z) :
  StronglySorted klt (pre F a ca ++ R) -> length a = length ca -> Forall (fun y : item => y < k) a ->
  Forall (fun y : item => y < k) (pre F a ca).
Proof.
  intros Hs Hl Ha. destruct a as [|x a] using rev_ind; [destruct ca; [constructor|discriminate]|].
  clear IHa. destruct ca as [|c ca] using rev_ind; [rewrite app_length in Hl; cbn in Hl; lia|]. clear IHca.
  rewrite !app_length in Hl. cbn in Hl.
  assert (Hp : pre F (a ++ [x]) (ca ++ [c]) = pre F a ca ++ F c ++ [x]).
  { assert (length a = length ca) by lia. clear - H. revert ca H.
    induction a as [|y a IH]; intros ca H; destruct ca as [|d ca]; try discriminate; cbn; [reflexivity|].
    cbn in H. rewrite IH by lia. now rewrite <- app_assoc. }
  rewrite Hp in *. apply Forall_app in Ha as [_ Hx]. inversion Hx; subst.
  replace ((pre F a ca ++ F c ++ [x]) ++ R) with ((pre F a ca ++ F c) ++ x :: R) in Hs
    by (rewrite <- !app_assoc; reflexivity).
  destruct (ss_mid _ _ _ Hs) as [Hlt _].
  rewrite app_assoc. apply Forall_app. split; [eapply Forall_lt_trans; eauto; lia | constructor; auto].
Qed.

Lemma sorted_post_gt F b cb P (k : Z) :
  StronglySorted klt (P ++ post F b cb) -> length cb = length b -> Forall (fun y : item => k < y) b ->
  Forall (fun y : item => k < y) (post F b cb).
Proof.
  intros Hs Hl Hb. destruct b as [|x b]; [destruct cb; [constructor|discriminate]|].
  destruct cb as [|c cb]; [discriminate|]. cbn [post] in *. inversion Hb; subst.
  destruct (ss_mid _ _ _ Hs) as [_ Hgt]. constructor; auto. eapply Forall_gt_trans; eauto; lia.
Qed.

Lemma sorted_items F : forall its ch, StronglySorted klt (inter F its ch) -> StronglySorted klt its.
Proof.
  induction its as [|x its IH]; intros ch Hs; [constructor|].
  cbn [inter] in Hs. destruct (ss_app_inv _ _ _ Hs) as (_ & S2 & _ & F2 & _).
  constructor; [apply (IH (tl ch)); exact S2|].
  clear - F2. revert F2. generalize (tl ch). induction its as [|y its IH2]; intros l F2; [constructor|].
  cbn [inter] in F2. apply Forall_app in F2 as [_ F2]. inversion F2; subst. constructor; eauto.
Qed.

Theorem remove_flat : forall fuel h n t n' out,
  shaped h n -> occ h n -> ok_rm n ->
  StronglySorted klt (iflat (S h) n) ->
  (match t with IRmItem _ => True | _ => iflat (S h) n <> [] end) ->
  iremove fuel minI n t = Some (n', out) ->
  iflat (S h) n' = spec_list t (iflat (S h) n) /\ out = spec_out t (iflat (S h) n).
Proof.
  induction fuel as [|f IH]; intros h n t n' out Hsh Hoc Hok Hs Hne H; [discriminate|].
  destruct n as [its ch].
  destruct h as [|h].
  { (* leaf *)
    cbn in Hsh. subst ch. cbn [iflat iitems ichildren] in Hs, Hne. rewrite inter_leaf in Hs, Hne.
    destruct (remove_leaf f its t n' out Hs Hne H) as [A B]. cbn [iflat iitems ichildren].
    rewrite inter_leaf. auto. }
  (* internal node *)
  destruct Hsh as [Hl Hf]. cbn [iitems ichildren] in Hl, Hf.
  pose proof Hoc as Hoc0. cbn [C03_D.occ ichildren] in Hoc.
  assert (Hchne : is_nil ch = false) by (destruct ch; [cbn in Hl; lia|reflexivity]).
  set (F := iflat (S h)) in *.
  assert (HF : iflat (S (S h)) (INode its ch) = inter F its ch) by reflexivity.
  rewrite HF in *.
  cbn [iremove iitems ichildren] in H. rewrite Hchne in H.
  (* common continuation once the index i and found flag are known *)
  assert (Hstep : forall i found a b,
     its = a ++ b -> i = length a ->
     (found = true -> exists k x b', t = IRmItem k /\ b = x :: b' /\ key x = k /\ Forall (fun y : item => y < k) a) ->
     (found = false -> match t with
                       | IRmItem k => Forall (fun y : item => y < k) a /\ Forall (fun y : item => k < y) b
                       | IRmMin => a = []
                       | IRmMax => b = []
                       end) ->
     (let c := nth_inode ch i in
      if Nat.leb (length (iitems c)) minI then iremove f minI (igrow minI (INode its ch) i) t else
      if found then
        match iremove f minI c IRmMax with
        | Some (c', Some m) => Some (INode (set_at its i m) (set_at ch i c'), Some (nth i its ditem))
        | _ => None
        end
      else
        match iremove f minI c t with
        | Some (c', out) => Some (INode its (set_at ch i c'), out)
        | None => None
        end) = Some (n', out) ->
     iflat (S (S h)) n' = spec_list t (inter F its ch) /\ out = spec_out t (inter F its ch)).
  { clear H. intros i found a b Hits Hi Hfound Hnot H.
    assert (Hile : (i <= length its)%nat) by (subst; rewrite app_length; lia).
    cbv zeta in H. unfold nth_inode in H.
    destruct (Nat.leb (length (iitems (nth i ch dinode))) minI) eqn:Esmall.
    - (* the child is too small: restructure, then retry on the same level *)
      apply Nat.leb_le in Esmall.
      assert (H1 : (1 <= length its)%nat).
      { destruct Hok as [Hok|Hok]; [exact Hok|]. cbn [ichildren] in Hok.
        assert (Hlt : (i < length ch)%nat) by lia.
        rewrite Forall_forall in Hok. specialize (Hok (nth i ch dinode) (nth_In ch dinode Hlt)). lia. }
      pose proof (grow_cases minI its ch i Hl Hile H1 Esmall) as Hc.
      destruct (grow_good minI minI_pos h its ch i _ (conj Hl Hf) Hoc0 Hc) as (Gs & Go & Gk).
      assert (Hal : Forall aligned ch) by (eapply Forall_impl; [|exact Hf]; intros; eapply shaped_aligned; eauto).
      assert (Hsk : forall x y, In x ch -> In y ch -> same_kind x y).
      { rewrite Forall_forall in Hf. intros x y Hx Hy. eapply shaped_same_kind; eauto. }
      pose proof (grow_flat h minI its ch i Hl Hile H1 Hal Hsk) as Gf. rewrite HF in Gf.
      specialize (IH (S h) (igrow minI (INode its ch) i) t n' out Gs Go Gk).
      rewrite Gf in IH. apply IH; auto.
    - apply Nat.leb_gt in Esmall.
      destruct (node_decomp F its ch a b Hits Hl) as (ca & c & cb & Hch & Hca & Hcb & Hdec).
      assert (Hnth : nth i ch dinode = c) by (subst ch; apply nth_app_len'; lia).
      rewrite Hnth in *.
      assert (Hcin : In c ch) by (subst ch; apply in_or_app; right; left; reflexivity).
      assert (Hcsh : shaped h c) by (rewrite Forall_forall in Hf; auto).
      assert (Hcoc : occ h c) by (rewrite Forall_forall in Hoc; apply Hoc; auto).
      assert (Hcok : ok_rm c) by (left; lia).
      rewrite Hdec in Hs.
      assert (Hcs : StronglySorted klt (F c)).
      { apply ss_app_inv_app in Hs as [_ Hs]. apply ss_app_inv_app in Hs as [Hs _]. exact Hs. }
      assert (Hcne : F c <> []) by (apply flat_nonempty; destruct (iitems c); [cbn in Esmall; lia|discriminate]).
      destruct found.
      + (* the key sits in this node: replace it by its predecessor *)
        destruct (Hfound eq_refl) as (k & x & b' & -> & -> & Hxk & Halt). subst its.
        destruct (iremove f minI c IRmMax) as [[c' [m|]]|] eqn:Er; try discriminate.
        inversion H; subst n' out; clear H.
        destruct (IH h c IRmMax c' (Some m) Hcsh Hcoc Hcok Hcs Hcne Er) as [Hc' Hm].
        cbn [spec_list spec_out] in Hc', Hm. inversion Hm; subst m; clear Hm.
        rewrite (nth_app_len' a x b' ditem i (eq_sym Hi)).
        rewrite (set_at_app' a x b' _ i (eq_sym Hi)).
        subst ch. rewrite (set_at_app' ca c cb c' i ltac:(lia)).
        rewrite flat_S. cbn [iitems ichildren]. fold F.
        rewrite inter_app_pre by lia. rewrite inter_cons_post by (cbn in *; lia).
        fold F in Hc'. rewrite Hc'.
        rewrite Hdec.
        (* everything around x has a key different from k *)
        assert (Hpre : Forall (fun y : item => y < k) (pre F a ca)) by (eapply sorted_pre_lt; eauto; lia).
        destruct cb as [|c2 cb]; [cbn in Hcb; lia|]. cbn [post] in *.
        set (R := F c2 ++ post F b' cb) in *.
        replace (pre F a ca ++ F c ++ x :: R) with ((pre F a ca ++ F c) ++ x :: R) in Hs by now rewrite <- app_assoc.
        destruct (ss_mid _ _ _ Hs) as [Hlt Hgt]. apply Forall_app in Hlt as [_ Hlt]. rewrite Hxk in Hlt, Hgt.
        cbn [spec_list spec_out]. rewrite !filter_app, !find_app.
        destruct (filter_ne_lt k _ Hpre) as [-> ->]. destruct (filter_ne_lt k _ Hlt) as [-> ->].
        cbn [filter find]. unfold ne at 1, has at 1. rewrite Hxk, Z.eqb_refl. cbn [negb].
        destruct (filter_ne_gt k _ Hgt) as [-> _].
        split; [|reflexivity]. f_equal.
        rewrite (app_removelast_last ditem Hcne) at 2. rewrite <- app_assoc. reflexivity.
      + (* the key is not in this node (or min/max): descend *)
        specialize (Hnot eq_refl). subst its.
        destruct (iremove f minI c t) as [[c' o]|] eqn:Er; try discriminate.
        inversion H; subst n' o; clear H.
        assert (Hpc : match t with IRmItem _ => True | _ => iflat (S h) c <> [] end) by (destruct t; auto).
        destruct (IH h c t c' out Hcsh Hcoc Hcok Hcs Hpc Er) as [Hc' Ho]. fold F in Hc', Ho.
        subst ch. rewrite (set_at_app' ca c cb c' i ltac:(lia)).
        rewrite flat_S. cbn [iitems ichildren]. fold F.
        rewrite inter_app_pre by lia. rewrite inter_cons_post by lia.
        rewrite Hc', Hdec. subst out.
        destruct t as [k| |].
        * destruct Hnot as [Halt Hbgt].
          assert (Hpre : Forall (fun y : item => y < k) (pre F a ca)) by (eapply sorted_pre_lt; eauto; lia).
          assert (Hpost : Forall (fun y : item => k < y) (post F b cb)).
          { rewrite app_assoc in Hs. eapply sorted_post_gt; eauto. }
          cbn [spec_list spec_out]. rewrite !filter_app, !find_app.
          destruct (filter_ne_lt k _ Hpre) as [-> ->]. destruct (filter_ne_gt k _ Hpost) as [-> ->].
          destruct (find (has k) (F c)); split; reflexivity.
        * subst a. destruct ca; [|discriminate]. cbn [pre app spec_list spec_out].
          destruct (F c) as [|x l]; [congruence|]. cbn. split; reflexivity.
        * subst b. destruct cb; [|discriminate]. cbn [post spec_list spec_out]. rewrite !app_nil_r.
          rewrite removelast_app by exact Hcne. rewrite last_app_ne by exact Hcne. split; reflexivity.
  }
  destruct t as [k| |].
  - destruct (ifind its k) as [i found] eqn:Ef.
    assert (Hsi : StronglySorted klt its) by (eapply sorted_items; exact Hs).
    destruct (find_spec its k i found Hsi Ef) as (a & b & Hits & Hi & Ha & Hb).
    apply (Hstep i found a b Hits Hi).
    + intros ->. destruct Hb as (x & b' & -> & Hxk). exists k, x, b'. auto.
    + intros ->. auto.
    + exact H.
  - apply (Hstep O false [] its eq_refl eq_refl); [discriminate | auto | exact H].
  - apply (Hstep (length its) false its [] (eq_sym (app_nil_r its)) eq_refl); [discriminate | auto | exact H].
Qed.
End Remove.
