(* C18 gormx.Transact - worked example of the four artefacts (Model / accept / holds / Properties) *)
From Coq Require Import List Bool ZArith Lia.
Import ListNotations.

(* ---------------- Model ---------------- *)
(* SDoneRb: a step that finishes the transaction itself (calls txn.Rollback()) and returns nil; what is left for
   Transact is a Commit that database/sql answers with ErrTxDone without reaching the driver *)
Inductive step := SOk | SFail (e : nat) | SPanic (p : nat) | SDoneRb.
Inductive event := EBegin | EBeginFail | EExec (i : nat) | ECommit | ERollback.
Inductive result := RNil | RStepErr (e : nat) | RPanicErr (p : nat) | RBeginErr | RCommitErr | RTxDone.

Record cfg := { begin_ok : bool; commit_ok : bool; rollback_ok : bool; steps : list step }.

(* the step loop: stops at the first error; a panic unwinds to the deferred handler *)
Fixpoint run_steps (i : nat) (l : list step) : list event * result :=
  match l with
  | [] => ([], RNil)
  | SOk :: l' => let '(ev, r) := run_steps (S i) l' in (EExec i :: ev, r)
  | SFail e :: _ => ([EExec i], RStepErr e)
  | SPanic p :: _ => ([EExec i], RPanicErr p)
  | SDoneRb :: _ => ([EExec i; ERollback], RTxDone)
  end.

Definition transact (c : cfg) : list event * result :=
  match steps c with
  | [] => ([], RNil)                                   (* len(fnList) == 0: nothing is begun *)
  | _ =>
    if negb (begin_ok c) then ([EBeginFail], RBeginErr)
    else
      let '(ev, r) := run_steps 0 (steps c) in
      match r with
      | RNil => (EBegin :: ev ++ [ECommit], if commit_ok c then RNil else RCommitErr)
      | RTxDone => (EBegin :: ev, RTxDone)              (* already finished by the step: nothing reaches the driver *)
      | _ => (EBegin :: ev ++ [ERollback], r)           (* rollback error is only logged *)
      end
  end.

(* ---------------- decidable equalities for the case files ---------------- *)
Definition step_eqb a b := match a, b with SOk, SOk => true | SDoneRb, SDoneRb => true | SFail x, SFail y => Nat.eqb x y | SPanic x, SPanic y => Nat.eqb x y | _, _ => false end.
Definition event_eqb a b := match a, b with
  | EBegin, EBegin | EBeginFail, EBeginFail | ECommit, ECommit | ERollback, ERollback => true
  | EExec x, EExec y => Nat.eqb x y | _, _ => false end.
Definition result_eqb a b := match a, b with
  | RNil, RNil | RBeginErr, RBeginErr | RCommitErr, RCommitErr | RTxDone, RTxDone => true
  | RStepErr x, RStepErr y => Nat.eqb x y | RPanicErr x, RPanicErr y => Nat.eqb x y | _, _ => false end.
Fixpoint list_eqb {A} (e : A -> A -> bool) (x y : list A) : bool :=
  match x, y with [] , [] => true | a :: x', b :: y' => e a b && list_eqb e x' y' | _, _ => false end.

Lemma event_eqb_eq a b : event_eqb a b = true -> a = b.
Proof. destruct a, b; cbn; try discriminate; auto. intros H. apply Nat.eqb_eq in H. now subst. Qed.
Lemma result_eqb_eq a b : result_eqb a b = true -> a = b.
Proof. destruct a, b; cbn; try discriminate; auto; intros H; apply Nat.eqb_eq in H; now subst. Qed.
Lemma list_eqb_eq {A} (e : A -> A -> bool) (He : forall a b, e a b = true -> a = b) x y : list_eqb e x y = true -> x = y.
Proof. revert y; induction x as [|a x IH]; destruct y as [|b y]; cbn; try discriminate; auto.
  intros H. apply andb_prop in H as [H1 H2]. f_equal; auto. Qed.

(* ---------------- accept: the observed trace is the model's ---------------- *)
Definition trace := (list event * result)%type.
Definition accept (c : cfg) (t : trace) : bool :=
  let '(ev, r) := transact c in list_eqb event_eqb ev (fst t) && result_eqb r (snd t).

(* ---------------- holds: the property's clauses on one observed trace ---------------- *)
Definition count (p : event -> bool) (l : list event) := length (filter p l).
Definition is_begin e := match e with EBegin => true | _ => false end.
Definition is_commit e := match e with ECommit => true | _ => false end.
Definition is_rollback e := match e with ERollback => true | _ => false end.
Definition is_exec e := match e with EExec _ => true | _ => false end.
Definition all_ok (l : list step) := forallb (fun s => match s with SOk => true | _ => false end) l.
Fixpoint first_bad (i : nat) (l : list step) : option (nat * step) :=
  match l with [] => None | SOk :: l' => first_bad (S i) l' | s :: _ => Some (i, s) end.

Definition is_nil_ev (ev : list event) := match ev with [] => true | _ => false end.

Definition holds (c : cfg) (t : trace) : bool :=
  let ev := fst t in let r := snd t in
  let begun := Nat.eqb (count is_begin ev) 1 in
  match steps c with
  | [] => is_nil_ev ev && result_eqb r RNil
  | _ =>
    if negb (begin_ok c) then Nat.eqb (count is_exec ev) 0 && Nat.eqb (count is_commit ev + count is_rollback ev) 0 && result_eqb r RBeginErr
    else
      begun
      && Nat.eqb (count is_commit ev + count is_rollback ev) 1                      (* finished exactly once *)
      && Bool.eqb (Nat.eqb (count is_commit ev) 1) (all_ok (steps c))                (* commit iff every step ok *)
      && match first_bad 0 (steps c) with
         | None => Nat.eqb (count is_exec ev) (length (steps c))
                   && result_eqb r (if commit_ok c then RNil else RCommitErr)        (* nil only if commit succeeded *)
         | Some (i, s) => Nat.eqb (count is_exec ev) (S i)                           (* no later step runs *)
                   && result_eqb r (match s with SFail e => RStepErr e | SPanic p => RPanicErr p | SOk => RNil | SDoneRb => RTxDone end)
         end
  end.

(* ---------------- Proofs ---------------- *)
Definition res_of (s : step) : result := match s with SFail e => RStepErr e | SPanic p => RPanicErr p | SOk => RNil | SDoneRb => RTxDone end.

Definition rb_of (r : result) : nat := match r with RTxDone => 1 | _ => 0 end.

Lemma run_steps_spec : forall l i,
  let '(ev, r) := run_steps i l in
  count is_begin ev = 0 /\ count is_commit ev = 0 /\ count is_rollback ev = rb_of r /\
  match first_bad i l with
  | None => count is_exec ev = length l /\ r = RNil /\ all_ok l = true
  | Some (j, s) => i <= j /\ count is_exec ev = S (j - i) /\ r = res_of s /\ r <> RNil /\ all_ok l = false
  end.
Proof.
  induction l as [|s l IH]; intros i; cbn [run_steps first_bad].
  - cbn. repeat split; auto.
  - destruct s as [|e|p|].
    + specialize (IH (S i)). destruct (run_steps (S i) l) as [ev r].
      destruct IH as (B & C & R & H). unfold count in *. cbn [filter is_begin is_commit is_rollback is_exec].
      split; [exact B|]. split; [exact C|]. split; [exact R|].
      destruct (first_bad (S i) l) as [[j s]|].
      * destruct H as (Hij & Hc & Hr & Hn & Ha). cbn [length]. repeat split; auto; try lia.
      * destruct H as (Hc & Hr & Ha). cbn [length all_ok forallb]. repeat split; auto.
    + cbn. rewrite Nat.sub_diag. repeat split; auto; try lia; discriminate.
    + cbn. rewrite Nat.sub_diag. repeat split; auto; try lia; discriminate.
    + cbn. rewrite Nat.sub_diag. repeat split; auto; try lia; discriminate.
Qed.

Lemma count_app p a b : count p (a ++ b) = count p a + count p b.
Proof. unfold count. now rewrite filter_app, app_length. Qed.

Lemma count_cons p a l : count p (a :: l) = (if p a then 1 else 0) + count p l.
Proof. unfold count. cbn [filter]. destruct (p a); reflexivity. Qed.

Lemma count_nil p : count p [] = 0.
Proof. reflexivity. Qed.

Lemma result_eqb_refl r : result_eqb r r = true.
Proof. destruct r; cbn; auto using Nat.eqb_refl. Qed.

(* the shape of the finished trace, by the way the step loop ended *)
Lemma transact_shape (cm rb : bool) s0 l0 ev r :
  run_steps 0 (s0 :: l0) = (ev, r) ->
  transact {| begin_ok := true; commit_ok := cm; rollback_ok := rb; steps := s0 :: l0 |} =
  match r with
  | RNil => (EBegin :: ev ++ [ECommit], if cm then RNil else RCommitErr)
  | RTxDone => (EBegin :: ev, RTxDone)
  | _ => (EBegin :: ev ++ [ERollback], r)
  end.
Proof. intros E. unfold transact. cbn [steps begin_ok commit_ok negb]. rewrite E. reflexivity. Qed.

Theorem model_holds : forall c, holds c (transact c) = true.
Proof.
  intros [b cm rb l]. destruct l as [|s0 l0]; [reflexivity|].
  destruct b; [|reflexivity].
  pose proof (run_steps_spec (s0 :: l0) 0) as H. destruct (run_steps 0 (s0 :: l0)) as [ev r] eqn:E.
  rewrite (transact_shape cm rb s0 l0 ev r E).
  unfold holds. cbn [steps begin_ok commit_ok negb].
  destruct H as (B & C & R & H).
  destruct (first_bad 0 (s0 :: l0)) as [[j s]|] eqn:Efb.
  - destruct H as (_ & Hc & Hr & Hn & Ha). rewrite Nat.sub_0_r in Hc.
    assert (Hfin : let t := match r with
              | RNil => (EBegin :: ev ++ [ECommit], if cm then RNil else RCommitErr)
              | RTxDone => (EBegin :: ev, RTxDone)
              | _ => (EBegin :: ev ++ [ERollback], r) end in
            count is_begin (fst t) = 1 /\ count is_commit (fst t) = 0 /\ count is_rollback (fst t) = 1 /\
            count is_exec (fst t) = S j /\ snd t = r).
    { destruct r; try congruence; cbn [fst snd rb_of] in *;
        rewrite ?count_cons, ?count_app, ?count_cons, ?count_nil; cbn [is_begin is_commit is_rollback is_exec];
        rewrite ?B, ?C, ?R, ?Hc; cbn [rb_of]; repeat split; lia. }
    cbv zeta in Hfin. destruct Hfin as (F1 & F2 & F3 & F4 & F5).
    rewrite F1, F2, F3, F4, F5, Ha. rewrite Hr. fold (res_of s). rewrite result_eqb_refl, !Nat.eqb_refl. reflexivity.
  - destruct H as (Hc & -> & Ha). cbn [fst snd rb_of] in *.
    rewrite !count_cons, !count_app, !count_cons, !count_nil. cbn [is_begin is_commit is_rollback is_exec].
    rewrite B, C, R, Hc, Ha. cbn [rb_of].
    replace (0 + (0 + (1 + 0)) + (0 + (0 + (0 + 0)))) with 1 by lia.
    replace (1 + (0 + (0 + 0))) with 1 by lia.
    replace (0 + (0 + (1 + 0))) with 1 by lia.
    replace (0 + (length (s0 :: l0) + (0 + 0))) with (length (s0 :: l0)) by lia.
    rewrite !Nat.eqb_refl. cbn [andb Bool.eqb]. apply result_eqb_refl.
Qed.

Theorem accept_sound : forall c t, accept c t = true -> holds c t = true.
Proof.
  intros c [ev r] H. unfold accept in H. destruct (transact c) as [ev' r'] eqn:E.
  apply andb_prop in H as [H1 H2]. cbn [fst snd] in *.
  apply (list_eqb_eq event_eqb event_eqb_eq) in H1. apply result_eqb_eq in H2. subst.
  rewrite <- E. apply model_holds.
Qed.

(* the property, clause by clause, for every step list and every fault vector *)
Theorem transact_finished_once c : steps c <> [] -> begin_ok c = true ->
  count is_commit (fst (transact c)) + count is_rollback (fst (transact c)) = 1.
Proof.
  intros Hs Hb. pose proof (model_holds c) as H. unfold holds in H.
  destruct (steps c); [congruence|]. rewrite Hb in H. cbn [negb] in H.
  repeat (apply andb_prop in H as [H ?]). now apply Nat.eqb_eq.
Qed.

Theorem commit_iff_all_ok c : steps c <> [] -> begin_ok c = true ->
  (count is_commit (fst (transact c)) = 1 <-> all_ok (steps c) = true).
Proof.
  intros Hs Hb. pose proof (model_holds c) as H. unfold holds in H.
  destruct (steps c) eqn:E; [congruence|]. rewrite Hb in H. cbn [negb] in H.
  repeat (apply andb_prop in H as [H ?]).
  match goal with H : Bool.eqb _ _ = true |- _ => apply Bool.eqb_prop in H; rewrite <- H end.
  split; [apply Nat.eqb_eq | apply Nat.eqb_eq].
Qed.

Theorem empty_begins_nothing c : steps c = [] -> transact c = ([], RNil).
Proof. intros H. unfold transact. now rewrite H. Qed.

Theorem begin_failure_runs_nothing c : steps c <> [] -> begin_ok c = false -> transact c = ([EBeginFail], RBeginErr).
Proof. intros Hs Hb. unfold transact. destruct (steps c); [congruence|]. now rewrite Hb. Qed.

Print Assumptions model_holds.
Print Assumptions accept_sound.
Print Assumptions commit_iff_all_ok.
