(* C10: programs of typed writes and reads (round trip, truncation), in-place rewrite, totality of the readers,
   and the soundness of the monitors of C10_Monitor.v with respect to the model *)
From Coq Require Import ZArith List Lia Bool.
Require Import LE Varint C10_Model.
Require Export C10_Monitor C10_Codec.
Import ListNotations.
Open Scope Z_scope.

(* ---------------- runs ---------------- *)
Lemma brun_app : forall a b bs,
  brun bs (a ++ b) = (fst (brun bs a) ++ fst (brun (snd (brun bs a)) b), snd (brun (snd (brun bs a)) b)).
Proof.
  induction a as [|o a IH]; intros b bs; cbn [app brun].
  - cbn [fst snd app]. now destruct (brun bs b).
  - destruct (bstep bs o) as [out bs']. rewrite IH.
    destruct (brun bs' a) as [o1 s1]. cbn [fst snd]. destruct (brun s1 b) as [o2 s2]. reflexivity.
Qed.

Lemma outs_eqb_refl : forall x, outs_eqb x x = true.
Proof. induction x as [|a x IH]; cbn; auto. now rewrite outcome_eqb_refl, IH. Qed.

Lemma enc_all_cons w ws : enc_all (w :: ws) = enc_op w ++ enc_all ws.
Proof. reflexivity. Qed.

(* the writes append their encodings, one after the other *)
Lemma writes_run : forall ws bs, forallb is_write ws = true -> forallb wok ws = true ->
  brun bs ws = (map (fun _ => ODone) ws, bs ++ enc_all ws).
Proof.
  induction ws as [|w ws IH]; intros bs Hi Hw; cbn [brun map].
  - unfold enc_all. cbn. now rewrite app_nil_r.
  - cbn [forallb] in Hi, Hw. apply andb_prop in Hi as [Hi1 Hi2]. apply andb_prop in Hw as [Hw1 Hw2].
    rewrite (write_step w bs Hi1 Hw1). rewrite (IH _ Hi2 Hw2). rewrite enc_all_cons, app_assoc. reflexivity.
Qed.

(* the same sequence of reads returns the written values and leaves exactly the continuation *)
Lemma reads_run : forall ws rest, forallb is_write ws = true -> forallb wok ws = true ->
  brun (enc_all ws ++ rest) (map reader_of ws) = (map val_of ws, rest).
Proof.
  induction ws as [|w ws IH]; intros rest Hi Hw; cbn [brun map]; [reflexivity|].
  cbn [forallb] in Hi, Hw. apply andb_prop in Hi as [Hi1 Hi2]. apply andb_prop in Hw as [Hw1 Hw2].
  rewrite enc_all_cons, <- app_assoc. rewrite (read_write w _ Hi1 Hw1). rewrite (IH rest Hi2 Hw2). reflexivity.
Qed.

Lemma reads_run_nil ws : forallb is_write ws = true -> forallb wok ws = true ->
  brun (enc_all ws) (map reader_of ws) = (map val_of ws, []).
Proof. intros Hi Hw. rewrite <- (app_nil_r (enc_all ws)). apply (reads_run ws [] Hi Hw). Qed.

Theorem codec_roundtrip ws : forallb is_write ws = true -> forallb wok ws = true ->
  brun [] (ws ++ map reader_of ws) = (map (fun _ => ODone) ws ++ map val_of ws, []).
Proof.
  intros Hi Hw. rewrite brun_app. rewrite (writes_run ws [] Hi Hw). cbn [fst snd app].
  rewrite (reads_run_nil ws Hi Hw). reflexivity.
Qed.

Lemma forallb_done (ws : list op) : forallb is_done (map (fun _ => ODone) ws) = true.
Proof. induction ws; cbn; auto. Qed.

(* a write that reports an error has not touched the buffer (only an over-limit WriteLimitString reports one) *)
Theorem failed_write_identity bs w : is_write w = true -> is_err (fst (bstep bs w)) = true -> snd (bstep bs w) = bs.
Proof.
  destruct w; cbn [is_write]; try discriminate; intros _; cbn [bstep fst snd is_err]; try discriminate.
  destruct (limit <? uwrap 32 (zlen s)); cbn [fst snd is_err]; [reflexivity|discriminate].
Qed.
Lemma refused_step w bs : refused w = true -> bstep bs w = (OErr ESizeLimit, bs).
Proof. destruct w; cbn [refused]; try discriminate. intros H. cbn [bstep]. now rewrite H. Qed.
Lemma valid_cases w : valid w = true -> (refused w = true) \/ (refused w = false /\ wok w = true).
Proof.
  unfold valid. destruct (refused w) eqn:R; [now left|]. rewrite orb_false_r. intros H. right. now split.
Qed.

Lemma filter_refused w ws : refused w = true -> filter accepted (w :: ws) = filter accepted ws.
Proof. intros R. cbn [filter]. unfold accepted at 1. now rewrite R. Qed.
Lemma filter_accepted w ws : refused w = false -> filter accepted (w :: ws) = w :: filter accepted ws.
Proof. intros R. cbn [filter]. unfold accepted at 1. now rewrite R. Qed.

(* writes, some of them refused: the accepted ones append their encodings, the refused ones change nothing *)
Lemma writes_run_v : forall ws bs, forallb is_write ws = true -> forallb valid ws = true ->
  brun bs ws = (map wout ws, bs ++ enc_all (filter accepted ws))
  /\ forallb is_write (filter accepted ws) = true /\ forallb wok (filter accepted ws) = true.
Proof.
  induction ws as [|w ws IH]; intros bs Hi Hv.
  - cbn [brun map filter]. unfold enc_all. cbn. rewrite app_nil_r. repeat split.
  - cbn [forallb] in Hi, Hv. apply andb_prop in Hi as [Hi1 Hi2]. apply andb_prop in Hv as [Hv1 Hv2].
    cbn [brun map]. destruct (valid_cases w Hv1) as [R|[R W]].
    + rewrite (filter_refused w ws R). unfold wout at 1. rewrite R.
      rewrite (refused_step w bs R). destruct (IH bs Hi2 Hv2) as (E & A & B). rewrite E.
      split; [reflexivity|]. split; assumption.
    + rewrite (filter_accepted w ws R). unfold wout at 1. rewrite R.
      rewrite (write_step w bs Hi1 W). destruct (IH (bs ++ enc_op w) Hi2 Hv2) as (E & A & B). rewrite E.
      rewrite enc_all_cons, app_assoc. cbn [forallb]. rewrite Hi1, W, A, B.
      split; [reflexivity|]. split; reflexivity.
Qed.

Theorem roundtrip_with_refused ws : forallb is_write ws = true -> forallb valid ws = true ->
  brun [] (ws ++ map reader_of (filter accepted ws)) = (map wout ws ++ map val_of (filter accepted ws), []).
Proof.
  intros Hi Hv. destruct (writes_run_v ws [] Hi Hv) as (E & A & B).
  rewrite brun_app, E. cbn [fst snd app]. now rewrite (reads_run_nil _ A B).
Qed.

Lemma round_sound ws : forallb is_write ws = true -> round_ok ws (fst (brun [] (round_ops ws))) = true.
Proof.
  intros Hi. unfold round_ok. destruct (forallb valid ws) eqn:Hv; [|reflexivity].
  destruct (writes_run_v ws [] Hi Hv) as (E & A & B).
  unfold round_ops. rewrite brun_app, E. cbn [fst snd app brun bstep].
  rewrite brun_app. rewrite (reads_run_nil _ A B). cbn [fst snd brun bstep].
  assert (L : length (map wout ws) = length ws) by apply map_length.
  rewrite (firstn_exact _ _ _ L), (skipn_exact _ _ _ L). rewrite outs_eqb_refl. cbn [is_bytes andb].
  change (zlen []) with 0. apply outs_eqb_refl.
Qed.

(* ---------------- truncation ---------------- *)
Lemma read_nil w : is_write w = true ->
  exists o, bstep [] (reader_of w) = (o, []) /\ is_err o || outcome_eqb o (val_of w) = true.
Proof.
  destruct w; cbn [is_write]; try discriminate; intros _; cbn [reader_of];
    try (eexists; split; [reflexivity|reflexivity]).
  (* Raw *)
  cbn [bstep val_of]. unfold buf_read. destruct p as [|a p].
  - eexists; split; [reflexivity|reflexivity].
  - replace (zlen (a :: p) <=? 0) with false by (symmetry; apply Z.leb_gt; unfold zlen; cbn [length]; lia).
    eexists; split; [reflexivity|reflexivity].
Qed.

Lemma nil_reads : forall ws, forallb is_write ws = true ->
  exists obs, brun [] (map reader_of ws) = (obs, []) /\ val_or_err ws obs = true.
Proof.
  induction ws as [|w ws IH]; intros Hi; cbn [map brun].
  - exists []. split; reflexivity.
  - cbn [forallb] in Hi. apply andb_prop in Hi as [Hi1 Hi2].
    destruct (read_nil w Hi1) as (o & E & Ho). destruct (IH Hi2) as (obs & E2 & Hv).
    rewrite E, E2. exists (o :: obs). split; [reflexivity|]. cbn [val_or_err]. now rewrite Ho, Hv.
Qed.

Lemma zlen_firstn_lt k (l : list Z) : (k < length l)%nat -> zlen (firstn k l) < zlen l.
Proof. intros H. unfold zlen. rewrite firstn_length. lia. Qed.

Lemma fixed_prefix n nz f w k : nz = Z.of_nat n -> (k < n)%nat ->
  exists e, fixed (buf_read (firstn k (le_bytes n w)) nz) f = (OErr e, []).
Proof.
  intros -> Hk. destruct (buf_read_short (firstn k (le_bytes n w)) (Z.of_nat n)) as [e E].
  - rewrite <- (zlen_le n w). apply zlen_firstn_lt. now rewrite le_bytes_length.
  - rewrite E. now exists e.
Qed.
Lemma varint_prefix x k f : (k < length (put_uvarint 10 x))%nat ->
  exists e, varint (uvar (firstn k (put_uvarint 10 x))) f = (OErr e, []).
Proof. intros Hk. destruct (uvar_prefix x k Hk) as [e E]. rewrite E. now exists e. Qed.

Lemma firstn_app_l {A} k (a b : list A) : (k <= length a)%nat -> firstn k (a ++ b) = firstn k a.
Proof. intros H. rewrite firstn_app. replace (k - length a)%nat with 0%nat by lia. cbn [firstn]. apply app_nil_r. Qed.
Lemma firstn_app_r {A} k (a b : list A) : (length a <= k)%nat -> firstn k (a ++ b) = a ++ firstn (k - length a) b.
Proof. intros H. rewrite firstn_app. now rewrite firstn_all2 by exact H. Qed.

(* a proper prefix of one encoding: the read reports an error and nothing is left *)
Lemma proper_prefix w k : is_write w = true -> wok w = true -> (k < length (enc_op w))%nat ->
  exists e, bstep (firstn k (enc_op w)) (reader_of w) = (OErr e, []).
Proof.
  destruct w; cbn [is_write]; try discriminate; intros _ Hw Hk; cbn [wok] in Hw; cbn [enc_op reader_of bstep] in *.
  - (* U8 *) cbn [le_bytes length] in Hk. assert (k = 0%nat) by lia. subst k. eexists; reflexivity.
  - (* Bool *) cbn [length] in Hk. assert (k = 0%nat) by lia. subst k. eexists; reflexivity.
  - rewrite le_bytes_length in Hk. now apply fixed_prefix.
  - rewrite le_bytes_length in Hk. now apply fixed_prefix.
  - rewrite le_bytes_length in Hk. now apply fixed_prefix.
  - rewrite le_bytes_length in Hk. now apply fixed_prefix.
  - rewrite le_bytes_length in Hk. now apply fixed_prefix.
  - rewrite le_bytes_length in Hk. now apply fixed_prefix.
  - rewrite le_bytes_length in Hk. now apply fixed_prefix.
  - now apply varint_prefix.
  - now apply varint_prefix.
  - now apply varint_prefix.
  - now apply varint_prefix.
  - (* Str *) apply Z.ltb_lt in Hw. pose proof (zlen_nonneg s) as Hs. rewrite uwrap_small in * by lia.
    rewrite app_length, le_bytes_length in Hk.
    destruct (Nat.ltb k 4) eqn:E4.
    + apply Nat.ltb_lt in E4. rewrite firstn_app_l by (rewrite le_bytes_length; lia).
      destruct (buf_read_short (firstn k (le_bytes 4 (zlen s))) 4) as [e E].
      * change 4 with (Z.of_nat 4). rewrite <- (zlen_le 4 (zlen s)). apply zlen_firstn_lt. now rewrite le_bytes_length.
      * rewrite E. now exists e.
    + apply Nat.ltb_ge in E4. rewrite firstn_app_r by (rewrite le_bytes_length; lia). rewrite le_bytes_length.
      rewrite (buf_read_le' 4 4) by reflexivity. rewrite le_val_le by (change (256 ^ Z.of_nat 4) with (2 ^ 32); lia).
      rewrite buf_next_short by (apply zlen_firstn_lt; lia). now exists EEmpty.
  - (* LimStr *) apply andb_prop in Hw as [H1 H2]. apply Z.leb_le in H1. apply Z.ltb_lt in H2.
    pose proof (zlen_nonneg s) as Hs. rewrite uwrap_small in * by lia.
    rewrite app_length, le_bytes_length in Hk.
    destruct (Nat.ltb k 4) eqn:E4.
    + apply Nat.ltb_lt in E4. rewrite firstn_app_l by (rewrite le_bytes_length; lia).
      destruct (buf_read_short (firstn k (le_bytes 4 (zlen s))) 4) as [e E].
      * change 4 with (Z.of_nat 4). rewrite <- (zlen_le 4 (zlen s)). apply zlen_firstn_lt. now rewrite le_bytes_length.
      * rewrite E. now exists e.
    + apply Nat.ltb_ge in E4. rewrite firstn_app_r by (rewrite le_bytes_length; lia). rewrite le_bytes_length.
      rewrite (buf_read_le' 4 4) by reflexivity. rewrite le_val_le by (change (256 ^ Z.of_nat 4) with (2 ^ 32); lia).
      replace (limit <? zlen s) with false by (symmetry; apply Z.ltb_ge; lia).
      rewrite buf_next_short by (apply zlen_firstn_lt; lia). now exists EEmpty.
  - (* Raw *) destruct (buf_read_short (firstn k p) (zlen p) (zlen_firstn_lt k p Hk)) as [e E]. rewrite E. now exists e.
Qed.

Lemma trunc_run : forall ws, forallb is_write ws = true -> forallb wok ws = true -> forall cut,
  exists obs, brun (firstn cut (enc_all ws)) (map reader_of ws) = (obs, [])
    /\ val_or_err ws obs = true
    /\ ((cut < length (enc_all ws))%nat -> existsb is_err obs = true)
    /\ ((length (enc_all ws) <= cut)%nat -> obs = map val_of ws).
Proof.
  induction ws as [|w ws IH]; intros Hi Hw cut.
  - exists []. unfold enc_all. cbn [map concat]. rewrite firstn_nil. cbn [brun length].
    split; [reflexivity|]. split; [reflexivity|]. split; [lia|reflexivity].
  - cbn [forallb] in Hi, Hw. apply andb_prop in Hi as [Hi1 Hi2]. apply andb_prop in Hw as [Hw1 Hw2].
    rewrite enc_all_cons, app_length. cbn [map brun].
    destruct (Nat.ltb cut (length (enc_op w))) eqn:Ec.
    + apply Nat.ltb_lt in Ec. rewrite firstn_app_l by lia.
      destruct (proper_prefix w cut Hi1 Hw1 Ec) as [e E]. rewrite E.
      destruct (nil_reads ws Hi2) as (obs & E2 & Hv). rewrite E2.
      exists (OErr e :: obs). split; [reflexivity|]. split; [|split].
      * cbn [val_or_err is_err orb andb]. exact Hv.
      * intros _. reflexivity.
      * intros Hc. lia.
    + apply Nat.ltb_ge in Ec. rewrite firstn_app_r by lia.
      rewrite (read_write w _ Hi1 Hw1).
      destruct (IH Hi2 Hw2 (cut - length (enc_op w))%nat) as (obs & E2 & Hv & Hlt & Hge). rewrite E2.
      exists (val_of w :: obs). split; [reflexivity|]. split; [|split].
      * cbn [val_or_err]. rewrite outcome_eqb_refl, orb_true_r. exact Hv.
      * intros Hc. cbn [existsb]. rewrite Hlt by lia. apply orb_true_r.
      * intros Hc. cbn [map]. f_equal. apply Hge. lia.
Qed.

Lemma val_or_err_length : forall ws obs, val_or_err ws obs = true -> length obs = length ws.
Proof.
  induction ws as [|w ws IH]; destruct obs as [|o obs]; cbn [val_or_err]; try discriminate; auto.
  intros H. apply andb_prop in H as [_ H]. cbn [length]. f_equal. auto.
Qed.

Lemma trunc_sound ws total cut : forallb is_write ws = true ->
  zlen (snd (brun [] ws)) = total -> 0 <= cut -> cut <= total ->
  trunc_ok ws total cut (fst (brun (firstn (Z.to_nat cut) (snd (brun [] ws))) (map reader_of ws ++ [XLen]))) = true.
Proof.
  intros Hi Ht H0 Hc. unfold trunc_ok. destruct (forallb wok ws) eqn:Hw; [|reflexivity].
  rewrite (writes_run ws [] Hi Hw) in *. cbn [snd app] in *.
  destruct (trunc_run ws Hi Hw (Z.to_nat cut)) as (obs & E & Hv & Hlt & Hge).
  rewrite brun_app, E. cbn [fst snd brun bstep]. change (zlen []) with 0.
  pose proof (val_or_err_length ws obs Hv) as L.
  rewrite (firstn_exact _ _ _ L), (skipn_exact _ _ _ L). cbn [outs_eqb outcome_eqb Z.eqb andb]. rewrite Hv. cbn [andb].
  unfold zlen in Ht. destruct (cut <? total) eqn:Ec.
  - apply Z.ltb_lt in Ec. apply Hlt. lia.
  - apply Z.ltb_ge in Ec. rewrite Hge by lia. apply outs_eqb_refl.
Qed.

(* ---------------- in-place rewrite ---------------- *)
Lemma nth_firstn_lt {A} (d : A) : forall k (l : list A) i, (i < k)%nat -> nth i (firstn k l) d = nth i l d.
Proof.
  induction k as [|k IH]; intros l i H; [lia|]. destruct l as [|a l]; [reflexivity|].
  destruct i as [|i]; [reflexivity|]. cbn [firstn nth]. apply IH. lia.
Qed.
Lemma nth_skipn_add {A} (d : A) : forall m (l : list A) j, nth j (skipn m l) d = nth (m + j) l d.
Proof.
  induction m as [|m IH]; intros l j; [reflexivity|]. destruct l as [|a l]; [now destruct j|].
  cbn [skipn Nat.add nth]. apply IH.
Qed.

Lemma splice_length bs pos p : 0 <= pos <= zlen bs -> length (splice bs pos p) = length bs.
Proof.
  intros H. unfold splice, zlen in *. rewrite !app_length, !firstn_length, skipn_length. lia.
Qed.

(* exactly the addressed bytes change *)
Theorem splice_nth bs pos p i : 0 <= pos <= zlen bs -> (i < length bs)%nat ->
  nth i (splice bs pos p) 0 =
  if (pos <=? Z.of_nat i) && (Z.of_nat i <? pos + zlen p) then nth (Z.to_nat (Z.of_nat i - pos)) p 0 else nth i bs 0.
Proof.
  intros H Hi. unfold splice, zlen in *. set (k := Z.to_nat pos). assert (Hk : (k <= length bs)%nat) by lia.
  assert (Epos : pos = Z.of_nat k) by lia.
  destruct (Nat.ltb i k) eqn:E1.
  - apply Nat.ltb_lt in E1. rewrite app_nth1 by (rewrite firstn_length; lia).
    replace (pos <=? Z.of_nat i) with false by (symmetry; apply Z.leb_gt; lia). cbn [andb]. now apply nth_firstn_lt.
  - apply Nat.ltb_ge in E1. rewrite app_nth2 by (rewrite firstn_length; lia). rewrite firstn_length.
    replace (Nat.min k (length bs)) with k by lia.
    replace (pos <=? Z.of_nat i) with true by (symmetry; apply Z.leb_le; lia). cbn [andb].
    destruct (Z.of_nat i <? pos + Z.of_nat (length p)) eqn:E2.
    + apply Z.ltb_lt in E2. rewrite app_nth1 by (rewrite firstn_length; lia).
      rewrite nth_firstn_lt by lia. f_equal. lia.
    + apply Z.ltb_ge in E2. rewrite app_nth2 by (rewrite firstn_length; lia). rewrite firstn_length.
      replace (Nat.min (length bs - k) (length p)) with (length p) by lia.
      rewrite nth_skipn_add. f_equal. lia.
Qed.

Lemma le_bytes4 w : le_bytes 4 w = [w mod 256; (w / 256) mod 256; (w / 65536) mod 256; (w / 16777216) mod 256].
Proof. cbn [le_bytes]. rewrite !Z.div_div by lia. reflexivity. Qed.

Lemma rewrite_at_ok b0 pos p out b1 : rewrite_at b0 pos p = (out, b1) ->
  (if (pos <? 0) || (zlen b0 <? pos) then is_panic out && zl_eqb b1 b0
   else is_done out && (zlen b1 =? zlen b0)
        && forallb (fun i => let z := Z.of_nat i in
                             nth i b1 0 =? (if (pos <=? z) && (z <? pos + zlen p) then nth (Z.to_nat (z - pos)) p 0 else nth i b0 0))
                   (seq 0 (length b0))) = true.
Proof.
  unfold rewrite_at. destruct ((pos <? 0) || (zlen b0 <? pos)) eqn:E; intros H; inversion H; subst; clear H.
  - cbn [is_panic andb]. apply zl_eqb_refl.
  - apply orb_false_elim in E as [E1 E2]. apply Z.ltb_ge in E1, E2.
    cbn [is_done andb]. unfold zlen at 1 2. rewrite splice_length by lia. rewrite Z.eqb_refl. cbn [andb].
    apply forallb_forall. intros i Hin. apply in_seq in Hin. cbv zeta. apply Z.eqb_eq. apply splice_nth; lia.
Qed.

Lemma rewrite_sound b0 o out b1 : is_rewrite o = true -> bstep b0 o = (out, b1) -> rewrite_ok b0 o out b1 = true.
Proof.
  destruct o; cbn [is_rewrite]; try discriminate; intros _; cbn [bstep]; unfold rewrite_ok; cbn [rewrite_args].
  - apply rewrite_at_ok.
  - intros H. rewrite le_bytes4 in H. unfold uwrap in H. rewrite p32 in H. apply rewrite_at_ok in H. exact H.
Qed.

(* ---------------- every call reports a value of its type or an error; only an out-of-range rewrite panics ---------------- *)
Lemma inr_intro lo hi v : lo <= v < hi -> inr lo hi v = true.
Proof. intros H. unfold inr. apply andb_true_intro. split; [apply Z.leb_le|apply Z.ltb_lt]; lia. Qed.

Lemma zlen_firstn_le n (l : list Z) : 0 <= n <= zlen l -> zlen (firstn (Z.to_nat n) l) = n.
Proof. intros H. unfold zlen in *. rewrite firstn_length. lia. Qed.

Lemma buf_read_len bs n d rest : buf_read bs n = RdOk d rest -> zlen d = Z.max 0 n /\ bs = d ++ rest.
Proof.
  unfold buf_read. destruct (n <=? 0) eqn:E.
  - intros H. inversion H; subst. apply Z.leb_le in E. split; [unfold zlen; cbn; lia|reflexivity].
  - apply Z.leb_gt in E. destruct bs as [|a l]; [discriminate|]. destruct (zlen (a :: l) <? n) eqn:E2; [discriminate|].
    apply Z.ltb_ge in E2. intros H. inversion H; subst. split; [rewrite zlen_firstn_le; lia|].
    symmetry. apply firstn_skipn.
Qed.
Lemma buf_next_len bs n d rest : buf_next bs n = RdOk d rest -> zlen d = Z.max 0 n /\ bs = d ++ rest.
Proof.
  unfold buf_next. destruct (zlen bs <? n) eqn:E; [discriminate|]. apply Z.ltb_ge in E.
  intros H. inversion H; subst. split; [|symmetry; apply firstn_skipn].
  destruct (Z.leb_spec n 0) as [Hn|Hn].
  - replace (Z.to_nat n) with 0%nat by lia. unfold zlen. cbn. lia.
  - rewrite zlen_firstn_le; lia.
Qed.

Lemma fixed_shape r f : match fst (fixed r f) with OInt z => exists x, z = f x | OErr _ => True | _ => False end.
Proof. destruct r; cbn; eauto. Qed.
Lemma varint_shape r f : match fst (varint r f) with OInt z => exists x, z = f x | OErr _ => True | _ => False end.
Proof. destruct r; cbn; eauto. Qed.

Lemma shape_sound bs o : shape_ok o (fst (bstep bs o)) = true.
Proof.
  destruct o; cbn [bstep shape_ok]; try reflexivity.
  - (* WLimStr *) destruct (limit <? uwrap 32 (zlen s)); reflexivity.
  - destruct bs; reflexivity.
  - destruct bs; reflexivity.
  - destruct (buf_read bs 2); reflexivity.
  - pose proof (fixed_shape (buf_read bs 2) (swrap 16)) as H. destruct (fst (fixed (buf_read bs 2) (swrap 16))); try tauto.
    destruct H as [x ->]. apply inr_intro. apply (swrap_range 16). lia.
  - destruct (buf_read bs 4); reflexivity.
  - pose proof (fixed_shape (buf_read bs 4) (swrap 32)) as H. destruct (fst (fixed (buf_read bs 4) (swrap 32))); try tauto.
    destruct H as [x ->]. apply inr_intro. apply (swrap_range 32). lia.
  - destruct (buf_read bs 8); reflexivity.
  - pose proof (fixed_shape (buf_read bs 8) (swrap 64)) as H. destruct (fst (fixed (buf_read bs 8) (swrap 64))); try tauto.
    destruct H as [x ->]. apply inr_intro. apply (swrap_range 64). lia.
  - destruct (buf_read bs 8); reflexivity.
  - destruct (uvar bs); reflexivity.
  - destruct (uvar bs); reflexivity.
  - pose proof (varint_shape (uvar bs) (uwrap 32)) as H. destruct (fst (varint (uvar bs) (uwrap 32))); try tauto.
    destruct H as [x ->]. apply inr_intro. apply uwrap_range. lia.
  - pose proof (varint_shape (uvar bs) (fun u => swrap 32 (unzigzag u))) as H.
    destruct (fst (varint (uvar bs) (fun u => swrap 32 (unzigzag u)))); try tauto.
    destruct H as [x ->]. apply inr_intro. apply (swrap_range 32). lia.
  - (* RStr *) destruct (buf_read bs 4) as [d rest|e rest]; [|reflexivity]. destruct (buf_next rest (le_val d)); reflexivity.
  - (* RLimStr *) destruct (buf_read bs 4) as [d rest|e rest]; [|reflexivity].
    destruct (limit <? le_val d) eqn:E; [reflexivity|]. apply Z.ltb_ge in E.
    destruct (buf_next rest (le_val d)) as [d2 r2|e2 r2] eqn:E2; [|reflexivity].
    apply buf_next_len in E2 as [E2 _]. cbn [bytes_of fst]. apply Z.leb_le. lia.
  - (* RRead *) destruct (buf_read bs n) as [d rest|e rest] eqn:E; [|reflexivity].
    apply buf_read_len in E as [E _]. cbn [bytes_of fst]. now apply Z.eqb_eq.
  - (* RReadN *) destruct (n <=? 0) eqn:En.
    + cbn [fst]. apply Z.leb_le in En. replace (0 <? n) with false by (symmetry; apply Z.ltb_ge; lia). reflexivity.
    + apply Z.leb_gt in En. replace (0 <? n) with true by (symmetry; apply Z.ltb_lt; lia).
      destruct (buf_read bs n) as [d rest|e rest] eqn:E; [|reflexivity].
      apply buf_read_len in E as [E _]. cbn [bytes_of fst andb]. apply Z.eqb_eq. lia.
  - (* RZReadN *) destruct (n <? 0) eqn:En.
    + cbn [fst]. apply Z.ltb_lt in En. replace (0 <=? n) with false by (symmetry; apply Z.leb_gt; lia). reflexivity.
    + apply Z.ltb_ge in En. replace (0 <=? n) with true by (symmetry; apply Z.leb_le; lia).
      destruct (buf_next bs n) as [d rest|e rest] eqn:E; [|reflexivity].
      apply buf_next_len in E as [E _]. cbn [bytes_of fst andb]. apply Z.eqb_eq. lia.
  - unfold rewrite_at. destruct ((pos <? 0) || (zlen bs <? pos)); reflexivity.
  - unfold rewrite_at. destruct ((pos <? 0) || (zlen bs <? pos)); reflexivity.
  - cbn [fst]. apply Z.leb_le. apply zlen_nonneg.
Qed.

Lemma rewrite_at_len bs pos p : zlen (snd (rewrite_at bs pos p)) = zlen bs.
Proof.
  unfold rewrite_at. destruct ((pos <? 0) || (zlen bs <? pos)) eqn:E; cbn [snd]; [reflexivity|].
  apply orb_false_elim in E as [E1 E2]. apply Z.ltb_ge in E1, E2. unfold zlen. now rewrite splice_length by (unfold zlen in *; lia).
Qed.

(* what the monitor knows about the length is the length of the model state *)
Definition known_ok (known : option Z) (bs : list Z) : Prop := match known with Some n => n = zlen bs | None => True end.

Lemma known_step known bs o : known_ok known bs ->
  len_ok known o (fst (bstep bs o)) = true /\ known_ok (next_known known o (fst (bstep bs o))) (snd (bstep bs o)).
Proof.
  intros K. destruct o; cbn [len_ok next_known is_write andb]; try (split; [reflexivity|exact I]).
  - (* WLimStr: refused or accepted *)
    cbn [bstep]. destruct (limit <? uwrap 32 (zlen s)); cbn [fst snd is_err]; split; auto; exact I.
  - (* ReWrite *) split; [reflexivity|]. cbn [bstep]. destruct known; cbn [known_ok] in *; [|exact I]. now rewrite rewrite_at_len.
  - (* ReWriteU32 *) split; [reflexivity|]. cbn [bstep]. destruct known; cbn [known_ok] in *; [|exact I]. now rewrite rewrite_at_len.
  - (* Len *) cbn [bstep fst snd obs_len known_ok]. split; [|reflexivity]. destruct known; [|reflexivity]. cbn in K. subst. apply Z.eqb_refl.
  - (* Bytes *) cbn [bstep fst snd obs_len known_ok]. split; [|reflexivity]. destruct known; [|reflexivity]. cbn in K. subst. apply Z.eqb_refl.
  - (* Reset *) split; reflexivity.
Qed.

Lemma hist_sound' : forall ops bs known, known_ok known bs -> hist_ok' known ops (fst (brun bs ops)) = true.
Proof.
  induction ops as [|o ops IH]; intros bs known K; cbn [brun]; [reflexivity|].
  pose proof (shape_sound bs o) as Hs. destruct (known_step known bs o K) as [Hl Hk].
  destruct (bstep bs o) as [out bs']. cbn [fst snd] in *. specialize (IH bs' _ Hk).
  destruct (brun bs' ops) as [outs fin]. cbn [fst hist_ok'] in *. now rewrite Hs, Hl, IH.
Qed.
Lemma hist_sound ops init : hist_ok init ops (fst (brun init ops)) = true.
Proof. apply hist_sound'. reflexivity. Qed.
