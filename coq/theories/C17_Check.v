(* C17: what the driver evaluates on every observed case *)
From Coq Require Import List Bool ZArith Lia.
Require Import Cases_Common.
Require Export Remap Shard C17_Index C17_Shard C17_LruView.
Import ListNotations.
Open Scope Z_scope.

(* a key together with the hash Go computed for it (remap.XXHash; 0 where XXHash panics): the hash is an oracle *)
Record hkey := HK { hkk : key; hkh : Z }.
Definition hkeq (a b : hkey) : bool := key_eqb (hkk a) (hkk b) && (hkh a =? hkh b).
Lemma hkeq_spec a b : hkeq a b = true <-> a = b.
Proof.
  destruct a as [k h], b as [k' h']. unfold hkeq. cbn [hkk hkh]. split.
  - intros H. apply andb_prop in H as [H1 H2]. apply key_eqb_spec in H1. apply Z.eqb_eq in H2. now subst.
  - intros H. inversion H; subst. apply andb_true_intro. split; [now apply key_eqb_spec | apply Z.eqb_refl].
Qed.

Arguments OGet {K} k. Arguments OPeek {K} k. Arguments OExist {K} k. Arguments OSet {K} k v sz. Arguments ODelete {K} k.
Arguments OLock {K} k. Arguments OUnlock {K} k. Arguments ORLock {K} k. Arguments ORUnlock {K} k.
Arguments OAcqR {K} k. Arguments OAcqW {K} k. Arguments ORelR {K} k. Arguments ORelW {K} k.

(* one index probe: key, XXHash(key), xxhash.Sum64 of the observed ToBytes (both 0 where ToBytes panics),
   observed ToBytes (None = panic), SimpleIndex on two ReMap instances, XHashIndex on two instances (None = panic) *)
Inductive probe := Pr (k : key) (h hb : Z) (bs : option (list Z)) (s1 s2 x1 x2 : option Z).

(* one raw hash probe: x, SearchIndex(x) (None = panic) *)
Inductive hprobe := HP (x : Z) (i : option Z).
Definition hpx (p : hprobe) : Z := match p with HP x _ => x end.
Definition hpi (p : hprobe) : option Z := match p with HP _ i => i end.

(* one container operation: the operation, the index observed through the public ReMap API (None = panic),
   the sharded container's answer, the reference answer (unsharded container; for the LRUs the single cache of the
   per-shard capacity run on the sub-history routed to the same shard), and for the LRUs the answer of the single
   cache of the full capacity (other containers: the reference again) *)
Inductive obs := MkObs (op : cop hkey) (rt : option Z) (sh ref un : cres).
Definition oop (x : obs) : cop hkey := match x with MkObs op _ _ _ _ => op end.
Definition ort (x : obs) : option Z := match x with MkObs _ rt _ _ _ => rt end.
Definition osh (x : obs) : cres := match x with MkObs _ _ sh _ _ => sh end.
Definition oref (x : obs) : cres := match x with MkObs _ _ _ ref _ => ref end.
Definition oun (x : obs) : cres := match x with MkObs _ _ _ _ un => un end.

(* as written by the harness: the keys of a history are listed once, operations name them by position *)
Inductive oraw := Ob (op : cop nat) (rt : option Z) (sh ref un : cres).
Definition cop_map {A B} (f : A -> B) (o : cop A) : cop B :=
  match o with
  | OGet k => OGet (f k) | OPeek k => OPeek (f k) | OExist k => OExist (f k) | OSet k v sz => OSet (f k) v sz
  | ODelete k => ODelete (f k) | OLock k => OLock (f k) | OUnlock k => OUnlock (f k) | ORLock k => ORLock (f k)
  | ORUnlock k => ORUnlock (f k) | OAcqR k => OAcqR (f k) | OAcqW k => OAcqW (f k) | ORelR k => ORelR (f k)
  | ORelW k => ORelW (f k)
  end.
Definition kof (keys : list hkey) (i : nat) : hkey := nth i keys (HK (KOther 0) 0).
Definition resolve (keys : list hkey) (x : oraw) : obs :=
  match x with Ob op rt sh ref un => MkObs (cop_map (kof keys) op) rt sh ref un end.
Definition ohk (x : obs) : hkey := okey hkey (oop x).

(* one routing call on a key that is a window of a byte arena owned by the caller ([]byte sub-slice with spare
   capacity, or a Bs implementer returning such a slice): which entry point (0 ToBytes, 1 XXHash, 2 SimpleIndex,
   3 XHashIndex), the key length, the arena bytes from the key's first byte to a few bytes past its end before and
   after the call, the hash remap.XXHash returns for the key, the call's result (index / hash; None for ToBytes) *)
Inductive astep := AS (call klen : Z) (before after : list Z) (h : Z) (res : option Z).
Definition as_call (a : astep) := match a with AS c _ _ _ _ _ => c end.
Definition as_key (a : astep) : list Z := match a with AS _ l b _ _ _ => firstn (Z.to_nat l) b end.
Definition as_before (a : astep) := match a with AS _ _ b _ _ _ => b end.
Definition as_after (a : astep) := match a with AS _ _ _ b _ _ => b end.
Definition as_h (a : astep) := match a with AS _ _ _ _ h _ => h end.
Definition as_res (a : astep) := match a with AS _ _ _ _ _ r => r end.
Definition is_index_call (c : Z) : bool := (c =? 2) || (c =? 3).

Inductive ckind := KMap | KLru (tiny : bool) (cap : Z) | KLock | KSem (ratio : Z).

Inductive case :=
| CIdx (nopt : option Z) (numbs : option Z) (ps : list probe)   (* NewReMap(opts) (None = panic), Numbs(), probes *)
| CHash (n : Z) (xs : list hprobe)                              (* SearchIndex(x) on a remap of n shards *)
| CArena (n : Z) (steps : list astep)                              (* routing calls on keys inside a caller-owned arena *)
| CCont (kind : ckind) (xh : bool) (n : Z) (keys : list hkey) (h : list oraw).   (* one history on a sharded container *)

(* ---------------- small decision procedures ---------------- *)
Definition oz_eqb := opt_eqb Z.eqb.
Lemma oz_eqb_eq a b : oz_eqb a b = true -> a = b.
Proof. apply opt_eqb_eq. intros x y H. now apply Z.eqb_eq. Qed.
Lemma oz_eqb_refl a : oz_eqb a a = true.
Proof. destruct a; cbn; [apply Z.eqb_refl|reflexivity]. Qed.

Definition cres_eqb (a b : cres) : bool :=
  match a, b with
  | RNone, RNone | RUnit, RUnit | RPanic, RPanic | RInvalid, RInvalid => true
  | RSome x, RSome y => x =? y
  | RBool x, RBool y => Bool.eqb x y
  | RCnt r w p g, RCnt r' w' p' g' => (r =? r') && (w =? w') && Bool.eqb p p' && Bool.eqb g g'
  | RSem g c p, RSem g' c' p' => Bool.eqb g g' && (c =? c') && Bool.eqb p p'
  | _, _ => false
  end.
Lemma cres_eqb_eq a b : cres_eqb a b = true -> a = b.
Proof.
  destruct a, b; cbn; intros H; try discriminate; try reflexivity.
  - apply Z.eqb_eq in H. now subst.
  - apply Bool.eqb_prop in H. now subst.
  - apply andb_prop in H as [H H4]. apply andb_prop in H as [H H3]. apply andb_prop in H as [H1 H2].
    apply Z.eqb_eq in H1. apply Z.eqb_eq in H2. apply Bool.eqb_prop in H3. apply Bool.eqb_prop in H4. now subst.
  - apply andb_prop in H as [H H3]. apply andb_prop in H as [H1 H2].
    apply Bool.eqb_prop in H1. apply Z.eqb_eq in H2. apply Bool.eqb_prop in H3. now subst.
Qed.
Lemma cres_eqb_refl a : cres_eqb a a = true.
Proof. destruct a; cbn; rewrite ?Z.eqb_refl, ?Bool.eqb_reflx; reflexivity. Qed.
Definition cresl_eqb := list_eqb cres_eqb.

Definition in_range (n : Z) (i : option Z) : bool := match i with Some i => (0 <=? i) && (i <? n) | None => false end.
Definition pairwise {A} (f : A -> A -> bool) (l : list A) : bool := forallb (fun p => forallb (f p) l) l.
Lemma pairwise_intro {A} (f : A -> A -> bool) l : (forall p q, In p l -> In q l -> f p q = true) -> pairwise f l = true.
Proof. intros H. unfold pairwise. apply forallb_forall. intros p Hp. apply forallb_forall. intros q Hq. now apply H. Qed.

Lemma map_eq_pointwise {A B} (f g : A -> B) l : map f l = map g l -> forall x, In x l -> f x = g x.
Proof.
  induction l as [|a l IH]; cbn; intros H x Hx; [contradiction|]. inversion H. destruct Hx as [->|Hx]; auto.
Qed.

(* ---------------- index probes ---------------- *)
Definition probe_accept (n : Z) (p : probe) : bool :=
  let '(Pr k h hb bs s1 s2 x1 x2) := p in
  let ms := simple_index n k h in
  let mx := xhash_index n k h in
  opt_eqb zl_eqb (to_bytes k) bs && (h =? hb)
  && oz_eqb ms s1 && oz_eqb ms s2 && oz_eqb mx x1 && oz_eqb mx x2.

(* the property on one probe: supported key => index in [0, shards), the same on both instances *)
Definition probe_holds (n : Z) (p : probe) : bool :=
  let '(Pr k h hb bs s1 s2 x1 x2) := p in
  implb (simple_supported k) (in_range n s1 && oz_eqb s1 s2)
  && implb (xhash_supported k) (in_range n x1 && oz_eqb x1 x2).

Lemma in_range_intro n i : 0 <= i < n -> in_range n (Some i) = true.
Proof. intros H. cbn. apply andb_true_intro. split; [apply Z.leb_le | apply Z.ltb_lt]; lia. Qed.

Lemma probe_sound n p : 1 <= n -> probe_accept n p = true -> probe_holds n p = true.
Proof.
  intros Hn. destruct p as [k h hb bs s1 s2 x1 x2]. unfold probe_accept, probe_holds.
  intros H. apply andb_prop in H as [H Hx2]. apply andb_prop in H as [H Hx1]. apply andb_prop in H as [H Hs2].
  apply andb_prop in H as [H Hs1]. clear H.
  apply oz_eqb_eq in Hs1, Hs2, Hx1, Hx2. subst s1 s2 x1 x2.
  apply andb_true_intro. split.
  - destruct (simple_supported k) eqn:E; [|reflexivity]. cbn [implb].
    destruct (simple_index_range n k h Hn E) as (i & -> & Hi). rewrite in_range_intro by exact Hi. apply oz_eqb_refl.
  - destruct (xhash_supported k) eqn:E; [|reflexivity]. cbn [implb].
    destruct (xhash_index_range n k h Hn E) as (i & -> & Hi). rewrite in_range_intro by exact Hi. apply oz_eqb_refl.
Qed.

(* ---------------- raw hash probes ---------------- *)
Definition hash_accept (n : Z) (p : hprobe) : bool := oz_eqb (Some (search_index_c n (hpx p))) (hpi p).
Definition ole (a b : option Z) : bool := match a, b with Some i, Some j => i <=? j | _, _ => false end.
Definition hash_guard (n : Z) (xs : list hprobe) : bool :=
  (1 <=? n) && (n <? 2 ^ 63) && forallb (fun p => (0 <=? hpx p) && (hpx p <=? MaxU64)) xs.
(* in range; monotone in the hash (which contains: equal hashes, equal shards) *)
Definition hash_holds (n : Z) (xs : list hprobe) : bool :=
  forallb (fun p => in_range n (hpi p)) xs
  && pairwise (fun p q => implb (hpx p <=? hpx q) (ole (hpi p) (hpi q))) xs.

(* ---------------- containers ---------------- *)
Definition route_of (xh : bool) (n : Z) (k : hkey) : nat :=
  match index xh n (hkk k) (hkh k) with Some i => Z.to_nat i | None => 0%nat end.
Definition model_rt (xh : bool) (n : Z) (x : obs) : option Z := index xh n (hkk (ohk x)) (hkh (ohk x)).

Definition cell_sh {C} (cstep : C -> cop hkey -> C * cres) (c0 : C) (rt : hkey -> nat) (ops : list (cop hkey)) : list cres :=
  sh_trace hkey _ (cop hkey) cres (okey hkey) (cell_step hkey C (cop hkey) cres (okey hkey) hkeq cstep) rt (fun _ => cinit hkey C c0) ops.
Definition cell_un {C} (cstep : C -> cop hkey -> C * cres) (c0 : C) (ops : list (cop hkey)) : list cres :=
  trace _ (cop hkey) cres (cell_step hkey C (cop hkey) cres (okey hkey) hkeq cstep) (cinit hkey C c0) ops.

(* the model's three answer columns for a history *)
Definition model_cols (kind : ckind) (n : Z) (rt : hkey -> nat) (ops : list (cop hkey)) : list cres * list cres * list cres :=
  match kind with
  | KMap => let u := cell_un (map_cstep hkey) None ops in (cell_sh (map_cstep hkey) None rt ops, u, u)
  | KLock => let u := cell_un (lock_cstep hkey) None ops in (cell_sh (lock_cstep hkey) None rt ops, u, u)
  | KSem ratio => let u := cell_un (sem_cstep hkey ratio) None ops in (cell_sh (sem_cstep hkey ratio) None rt ops, u, u)
  | KLru tiny cap =>
      (sh_trace hkey _ (cop hkey) cres (okey hkey) (lru_step hkey hkeq tiny) rt (fun _ => lru_init hkey (psize cap n)) ops,
       ref_trace hkey _ (cop hkey) cres (okey hkey) (lru_step hkey hkeq tiny) (lru_init hkey (psize cap n)) rt [] ops,
       trace _ (cop hkey) cres (lru_step hkey hkeq tiny) (lru_init hkey cap) ops)
  end.

(* the same key always comes with the same hash *)
Definition hash_consistent (h : list obs) : bool :=
  pairwise (fun x y => implb (key_eqb (hkk (ohk x)) (hkk (ohk y))) (hkh (ohk x) =? hkh (ohk y))) h.

(* the routing function of the model, tabulated on the keys of the history (evaluated once per operation) *)
Fixpoint memo_find (k : hkey) (t : list (hkey * nat)) : option nat :=
  match t with [] => None | (k', i) :: t' => if hkeq k' k then Some i else memo_find k t' end.
Definition memo_table (xh : bool) (n : Z) (ops : list (cop hkey)) : list (hkey * nat) :=
  map (fun o => (okey hkey o, route_of xh n (okey hkey o))) ops.
Definition memo_route (xh : bool) (n : Z) (t : list (hkey * nat)) (k : hkey) : nat :=
  match memo_find k t with Some i => i | None => route_of xh n k end.
Lemma memo_route_eq xh n ops k : memo_route xh n (memo_table xh n ops) k = route_of xh n k.
Proof.
  unfold memo_route, memo_table. induction ops as [|o ops IH]; cbn [map memo_find]; [reflexivity|].
  destruct (hkeq (okey hkey o) k) eqn:E; [|exact IH]. apply hkeq_spec in E. now subst.
Qed.

Definition cont_accept (kind : ckind) (xh : bool) (n : Z) (h : list obs) : bool :=
  let ops := map oop h in
  let t := memo_table xh n ops in
  let '(msh, mref, mun) := model_cols kind n (memo_route xh n t) ops in
  list_eqb oz_eqb (map (model_rt xh n) h) (map ort h)
  && hash_consistent h
  && cresl_eqb msh (map osh h) && cresl_eqb mref (map oref h) && cresl_eqb mun (map oun h).

Definition cont_guard (xh : bool) (n : Z) (h : list obs) : bool :=
  (1 <=? n) && forallb (fun x => supported xh (hkk (ohk x))) h.
(* an LRU history that cannot evict, neither in a shard nor in the single cache of the full capacity: every size set
   is non-negative and all of them together fit both capacities *)
Definition noevict_guard (kind : ckind) (n : Z) (ops : list (cop hkey)) : bool :=
  match kind with
  | KLru tiny cap => forallb (nonneg_op hkey) ops && (W hkey tiny ops <=? cap) && (W hkey tiny ops <=? psize cap n)
  | _ => false
  end.
(* every index in range; equal keys, equal index; the sharded container answers as the reference; an LRU that cannot
   evict answers as the single LRU of the full capacity *)
Definition cont_holds (kind : ckind) (h : list obs) (n : Z) : bool :=
  forallb (fun x => in_range n (ort x)) h
  && pairwise (fun x y => implb (key_eqb (hkk (ohk x)) (hkk (ohk y))) (oz_eqb (ort x) (ort y))) h
  && cresl_eqb (map osh h) (map oref h)
  && (if noevict_guard kind n (map oop h) then cresl_eqb (map osh h) (map oun h) else true).

(* ---------------- keys inside a caller-owned arena ---------------- *)
(* the model: routing is a pure function of the key's bytes (and their hash); nothing is written *)
Definition arena_model (n : Z) (a : astep) : option Z :=
  let c := as_call a in
  if c =? 0 then None else if c =? 1 then Some (as_h a) else index (c =? 3) n (KBytes (as_key a)) (as_h a).
Definition arena_accept (n : Z) (steps : list astep) : bool :=
  forallb (fun a => zl_eqb (as_before a) (as_after a) && oz_eqb (arena_model n a) (as_res a)) steps
  && pairwise (fun a b => implb (zl_eqb (as_key a) (as_key b)) (as_h a =? as_h b)) steps.
(* the property: a routing call leaves the key's bytes and the bytes after it as they were; indices are in range;
   the same key bytes give the same index on every call of the same entry point *)
Definition arena_holds (n : Z) (steps : list astep) : bool :=
  forallb (fun a => zl_eqb (as_before a) (as_after a)
                    && (if is_index_call (as_call a) then in_range n (as_res a) else true)) steps
  && pairwise (fun a b => implb (is_index_call (as_call a) && (as_call a =? as_call b) && zl_eqb (as_key a) (as_key b))
                                (oz_eqb (as_res a) (as_res b))) steps.

Lemma arena_sound n steps : 1 <= n -> arena_accept n steps = true -> arena_holds n steps = true.
Proof.
  intros Hn Ha. unfold arena_accept in Ha. apply andb_prop in Ha as [Ha Hh]. rewrite forallb_forall in Ha.
  assert (Hm : forall a, In a steps -> zl_eqb (as_before a) (as_after a) = true /\ as_res a = arena_model n a).
  { intros a Hin. specialize (Ha a Hin). apply andb_prop in Ha as [A B]. apply oz_eqb_eq in B. auto. }
  unfold arena_holds. apply andb_true_intro. split.
  - apply forallb_forall. intros a Hin. destruct (Hm a Hin) as [A B]. rewrite A. cbn [andb].
    destruct (is_index_call (as_call a)) eqn:E; [|reflexivity]. rewrite B. unfold arena_model.
    unfold is_index_call in E. destruct (as_call a =? 0) eqn:E0; [apply Z.eqb_eq in E0; rewrite E0 in E; discriminate|].
    destruct (as_call a =? 1) eqn:E1; [apply Z.eqb_eq in E1; rewrite E1 in E; discriminate|].
    destruct (index_range (as_call a =? 3) n (KBytes (as_key a)) (as_h a) Hn) as (i & -> & Hi); [destruct (as_call a =? 3); reflexivity|].
    now apply in_range_intro.
  - apply pairwise_intro. intros a b Hina Hinb.
    destruct (is_index_call (as_call a) && (as_call a =? as_call b) && zl_eqb (as_key a) (as_key b)) eqn:E; [|reflexivity].
    cbn [implb]. apply andb_prop in E as [E Ek]. apply andb_prop in E as [_ Ec]. apply Z.eqb_eq in Ec. apply zl_eqb_spec in Ek.
    destruct (Hm a Hina) as [_ ->]. destruct (Hm b Hinb) as [_ ->].
    unfold pairwise in Hh. rewrite forallb_forall in Hh. specialize (Hh a Hina). rewrite forallb_forall in Hh. specialize (Hh b Hinb).
    rewrite Ek in Hh. replace (zl_eqb (as_key b) (as_key b)) with true in Hh by (symmetry; now apply zl_eqb_spec). cbn [implb] in Hh.
    apply Z.eqb_eq in Hh. unfold arena_model. rewrite Ec, Ek, Hh. apply oz_eqb_refl.
Qed.

(* ---------------- the two functions the driver evaluates ---------------- *)
Definition case_accept (c : case) : bool :=
  match c with
  | CIdx nopt numbs ps =>
      let n := numbs_of nopt in
      match numbs with
      | None => negb (new_remap_ok n) && match ps with [] => true | _ => false end
      | Some m => new_remap_ok n && (m =? n) && forallb (probe_accept n) ps
      end
  | CHash n xs => forallb (hash_accept n) xs
  | CArena n steps => arena_accept n steps
  | CCont kind xh n keys h => cont_accept kind xh n (map (resolve keys) h)
  end.

Definition case_holds (c : case) : bool :=
  match c with
  | CIdx nopt numbs ps =>
      let n := numbs_of nopt in
      if 1 <=? n then match numbs with None => false | Some m => (m =? n) && forallb (probe_holds n) ps end
      else true
  | CHash n xs => if hash_guard n xs then hash_holds n xs else true
  | CArena n steps => if 1 <=? n then arena_holds n steps else true
  | CCont kind xh n keys h => let h' := map (resolve keys) h in if cont_guard xh n h' then cont_holds kind h' n else true
  end.

(* ---------------- soundness ---------------- *)
Lemma model_cols_sh_ref kind n rt ops :
  fst (fst (model_cols kind n rt ops)) = snd (fst (model_cols kind n rt ops)).
Proof.
  destruct kind as [|tiny cap| |ratio]; cbn [model_cols fst snd]; unfold cell_sh, cell_un.
  - apply sharded_map_trace. exact hkeq_spec.
  - apply sharded_lru_trace.
  - apply sharded_lock_trace. exact hkeq_spec.
  - apply sharded_sem_trace. exact hkeq_spec.
Qed.

Lemma model_cols_sh_un kind n rt ops : noevict_guard kind n ops = true ->
  fst (fst (model_cols kind n rt ops)) = snd (model_cols kind n rt ops).
Proof.
  destruct kind as [|tiny cap| |ratio]; cbn [noevict_guard]; try discriminate. intros H.
  apply andb_prop in H as [H H3]. apply andb_prop in H as [H1 H2]. apply Z.leb_le in H2. apply Z.leb_le in H3.
  cbn [model_cols fst snd]. apply (sharded_lru_trace_noevict hkey hkeq hkeq_spec); assumption.
Qed.

Lemma hash_sound n xs : forallb (hash_accept n) xs = true -> hash_guard n xs = true -> hash_holds n xs = true.
Proof.
  intros Ha Hg. unfold hash_guard in Hg. apply andb_prop in Hg as [Hg Hx]. apply andb_prop in Hg as [Hn1 Hn2].
  apply Z.leb_le in Hn1. apply Z.ltb_lt in Hn2.
  rewrite forallb_forall in Ha, Hx.
  assert (Hv : forall p, In p xs -> hpi p = Some (search_index_c n (hpx p)) /\ 0 <= hpx p <= MaxU64).
  { intros p Hp. split.
    - specialize (Ha p Hp). unfold hash_accept in Ha. apply oz_eqb_eq in Ha. now symmetry.
    - specialize (Hx p Hp). apply andb_prop in Hx as [A B]. apply Z.leb_le in A. apply Z.leb_le in B. lia. }
  unfold hash_holds. apply andb_true_intro. split.
  - apply forallb_forall. intros p Hp. destruct (Hv p Hp) as [-> _]. apply in_range_intro. now apply search_index_c_total.
  - apply pairwise_intro. intros p q Hp Hq. destruct (Hv p Hp) as [-> Rp]. destruct (Hv q Hq) as [-> Rq].
    destruct (hpx p <=? hpx q) eqn:E; [|reflexivity]. apply Z.leb_le in E. cbn [implb ole]. apply Z.leb_le.
    apply search_index_c_monotone; lia.
Qed.

Lemma cont_sound kind xh n h : cont_accept kind xh n h = true -> cont_guard xh n h = true -> cont_holds kind h n = true.
Proof.
  intros Ha Hg. unfold cont_accept in Ha.
  cbv zeta in Ha.
  pose proof (model_cols_sh_ref kind n (memo_route xh n (memo_table xh n (map oop h))) (map oop h)) as Hsr.
  pose proof (model_cols_sh_un kind n (memo_route xh n (memo_table xh n (map oop h))) (map oop h)) as Hsu.
  destruct (model_cols kind n (memo_route xh n (memo_table xh n (map oop h))) (map oop h)) as [[msh mref] mun]. cbn [fst snd] in Hsr, Hsu. subst mref.
  apply andb_prop in Ha as [Ha Hun]. apply andb_prop in Ha as [Ha Href]. apply andb_prop in Ha as [Ha Hsh].
  apply (list_eqb_eq cres_eqb cres_eqb_eq) in Hun.
  apply andb_prop in Ha as [Hrt Hhc].
  apply (list_eqb_eq oz_eqb oz_eqb_eq) in Hrt.
  apply (list_eqb_eq cres_eqb cres_eqb_eq) in Hsh, Href.
  pose proof (map_eq_pointwise _ _ _ Hrt) as Hp.
  unfold cont_guard in Hg. apply andb_prop in Hg as [Hn Hsup]. apply Z.leb_le in Hn. rewrite forallb_forall in Hsup.
  unfold cont_holds. apply andb_true_intro. split; [apply andb_true_intro; split; [apply andb_true_intro; split|]|].
  - apply forallb_forall. intros x Hx. rewrite <- (Hp x Hx). unfold model_rt.
    destruct (index_range xh n (hkk (ohk x)) (hkh (ohk x)) Hn (Hsup x Hx)) as (i & -> & Hi). now apply in_range_intro.
  - apply pairwise_intro. intros x y Hx Hy. destruct (key_eqb (hkk (ohk x)) (hkk (ohk y))) eqn:E; [|reflexivity].
    cbn [implb]. rewrite <- (Hp x Hx), <- (Hp y Hy). unfold model_rt.
    unfold hash_consistent, pairwise in Hhc. rewrite forallb_forall in Hhc. specialize (Hhc x Hx).
    rewrite forallb_forall in Hhc. specialize (Hhc y Hy). rewrite E in Hhc. cbn [implb] in Hhc.
    apply Z.eqb_eq in Hhc. apply key_eqb_spec in E. rewrite E, Hhc. apply oz_eqb_refl.
  - rewrite <- Hsh, <- Href. apply list_eqb_refl. exact cres_eqb_refl.
  - destruct (noevict_guard kind n (map oop h)) eqn:G; [|reflexivity].
    rewrite <- Hsh, <- Hun, (Hsu eq_refl). apply list_eqb_refl. exact cres_eqb_refl.
Qed.

Theorem case_sound : forall c, case_accept c = true -> case_holds c = true.
Proof.
  intros [nopt numbs ps | n xs | n steps | kind xh n keys h]; cbn [case_accept case_holds].
  - intros Ha. destruct (1 <=? numbs_of nopt) eqn:En; [|reflexivity]. apply Z.leb_le in En.
    destruct numbs as [m|].
    + apply andb_prop in Ha as [Ha Hps]. apply andb_prop in Ha as [_ Hm]. rewrite Hm. cbn [andb].
      apply forallb_forall. intros p Hp. rewrite forallb_forall in Hps. apply probe_sound; [exact En | now apply Hps].
    + apply andb_prop in Ha as [Ha _]. unfold new_remap_ok in Ha. rewrite negb_involutive in Ha. apply Z.eqb_eq in Ha. lia.
  - intros Ha. destruct (hash_guard n xs) eqn:G; [|reflexivity]. now apply hash_sound.
  - intros Ha. destruct (1 <=? n) eqn:G; [|reflexivity]. apply Z.leb_le in G. now apply arena_sound.
  - intros Ha. cbv zeta. destruct (cont_guard xh n (map (resolve keys) h)) eqn:G; [|reflexivity]. exact (cont_sound kind xh n _ Ha G).
Qed.

Print Assumptions case_sound.
