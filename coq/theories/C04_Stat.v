(* C04: when every item has the same size c, every state of the sized cache has Size = c * Length (<= Capacity): what a
   Stats() answer must look like at any point of any history (monitor stat_ok of C04_Check.v; for the tiny cache this is
   c04_size_bound: Size = Length). *)
From Coq Require Import ZArith List Lia Bool.
Require Import LRU Shard Cases_Common LRUOps C04_Model C04_Refine C04_Wide C04_Theorems C04_Check.
Import ListNotations.
Open Scope Z_scope.

Definition sized (c : Z) (l : list E) : Prop := Forall (fun e => snd e = c) l.
Definition op_sized (c : Z) (o : op) : Prop :=
  match o with Set_ _ _ s | SetAndGetRemoved _ _ s | SetIfAbsent _ _ s => s = c | _ => True end.

Lemma sized_remove c k l : sized c l -> sized c (remove_key k l).
Proof. unfold sized, remove_key. intros H. apply Forall_forall. intros e He. apply filter_In in He. rewrite Forall_forall in H. apply H, He. Qed.
Lemma sized_trim c cp l : sized c l -> sized c (trim cp l).
Proof. unfold sized. intros H. rewrite (trim_dropped cp l) in H. apply Forall_app in H. tauto. Qed.
Lemma sized_total c l : sized c l -> total l = c * Z.of_nat (length l).
Proof. induction 1 as [|e l He _ IH]; [cbn; lia|]. rewrite total_cons, He, IH. cbn [length]. lia. Qed.

Lemma istep_sized c l cp ev o : sized c l -> op_sized c o -> sized c (ilist (fst (istep (l, cp, ev) o))).
Proof.
  intros Hs Ho. unfold ilist.
  assert (Hfront : forall k e, lookup k l = Some e -> sized c (e :: remove_key k l)).
  { intros k e El. destruct (lookup_some _ _ _ El) as [Hin _]. constructor; [unfold sized in Hs; rewrite Forall_forall in Hs; apply Hs, Hin|apply sized_remove, Hs]. }
  assert (Htouch : forall k x, sized c (touch k x c l)) by (intros; constructor; [reflexivity|apply sized_remove, Hs]).
  destruct o as [k|k|k|k x s|k x s|k x s|k| |c0]; cbn [istep settle fst snd op_sized] in *; try subst s.
  - destruct (lookup k l) as [e|] eqn:El; cbn [fst]; [apply Hfront, El|exact Hs].
  - exact Hs.
  - exact Hs.
  - apply sized_trim, Htouch.
  - apply sized_trim, Htouch.
  - destruct (lookup k l) as [e|] eqn:El; cbn [fst]; [apply Hfront, El|apply sized_trim, Htouch].
  - destruct (lookup k l) as [e|] eqn:El; cbn [fst]; [apply sized_remove, Hs|exact Hs].
  - constructor.
  - apply sized_trim, Hs.
Qed.

Theorem uniform_size_run c ops : forall cc, MInv VStd cc -> sized c (lst cc) -> Forall op_dom ops -> Forall (op_sized c) ops ->
  sized c (lst (fst (mrun VStd cc ops))) /\ MInv VStd (fst (mrun VStd cc ops)).
Proof.
  induction ops as [|o ops IH]; intros cc HI Hs Hd Ho; [cbn; auto|].
  inversion Hd as [|? ? [Hok Hfit] Hd']; subst. inversion Ho as [|? ? Ho1 Ho']; subst.
  destruct (mstep_refines VStd cc o HI Hok Hfit) as (A & _ & I). cbn [norm] in A.
  assert (Hs1 : sized c (lst (fst (mstep VStd cc o)))) by (rewrite (abs_lst _ _ A); unfold abs; apply istep_sized; assumption).
  cbn [mrun]. destruct (mstep VStd cc o) as [c1 x]. cbn [fst] in *. specialize (IH c1 I Hs1 Hd' Ho').
  destruct (mrun VStd c1 ops) as [c2 xs]. exact IH.
Qed.

(* every state reached by a history of items of size c: Stats() = (Length, c * Length, capacity, evictions), c * Length <= capacity *)
Theorem uniform_size cap0 c ops : cap_dom cap0 -> Forall op_dom ops -> Forall (op_sized c) ops ->
  let cc := fst (mrun VStd (new_lru cap0) ops) in
  size cc = c * Z.of_nat (length (lst cc)) /\ size cc <= cap cc.
Proof.
  intros Hc Hd Ho. cbn zeta.
  destruct (uniform_size_run c ops (new_lru cap0) (new_MInv VStd cap0 Hc) ltac:(constructor) Hd Ho) as [Hs I].
  pose proof (MInv_Inv _ _ I) as (Hsz & _ & _ & _ & Hle). rewrite Hsz. split; [apply sized_total, Hs|exact Hle].
Qed.

Print Assumptions uniform_size.
