(* C17, container half, on top of Shard.v (generic: sharded = single container on the routed sub-history;
   sharded = unsharded for key-local containers).  Here:
   - whole result traces of a history (what the correspondence check compares);
   - "cell" containers (state = one cell per key): key-local by construction; instances: the map,
     the key locker's reference-counted table, the semaphore map's per-key token count;
   - the two LRU caches (capacity-bearing: projection only). *)
From Coq Require Import List Bool Arith ZArith Lia.
Require Import Shard.
Import ListNotations.

(* ---------------- traces ---------------- *)
Section Trace.
Variables K S O R : Type.
Variable key : O -> K.
Variable step : S -> O -> S * R.
Variable init : S.
Variable route : K -> nat.

Local Notation run_state := (run_state S O R step).
Local Notation result := (result S O R step init).
Local Notation sh_step := (sh_step K S O R key step route).
Local Notation sh_run := (sh_run K S O R key step route).
Local Notation sh_result := (sh_result K S O R key step init route).
Local Notation sub := (sub K O key route).

(* results of a history on the single container started in s *)
Fixpoint trace (s : S) (h : list O) : list R :=
  match h with [] => [] | o :: h' => snd (step s o) :: trace (fst (step s o)) h' end.
(* results of a history on the sharded container *)
Fixpoint sh_trace (sh : nat -> S) (h : list O) : list R :=
  match h with [] => [] | o :: h' => snd (sh_step sh o) :: sh_trace (fst (sh_step sh o)) h' end.
(* reference: every operation answered by a fresh single container that has seen exactly the earlier
   operations routed to the same shard *)
Fixpoint ref_trace (pre h : list O) : list R :=
  match h with [] => [] | o :: h' => result (sub (route (key o)) pre) o :: ref_trace (pre ++ [o]) h' end.
(* every operation answered by the single container that has seen all earlier operations *)
Fixpoint un_trace (pre h : list O) : list R :=
  match h with [] => [] | o :: h' => result pre o :: un_trace (pre ++ [o]) h' end.

Lemma run_state_app s a b : run_state s (a ++ b) = run_state (run_state s a) b.
Proof. unfold Shard.run_state. apply fold_left_app. Qed.
Lemma sh_run_app sh a b : sh_run sh (a ++ b) = sh_run (sh_run sh a) b.
Proof. unfold Shard.sh_run. apply fold_left_app. Qed.

Lemma trace_un : forall h pre, trace (run_state init pre) h = un_trace pre h.
Proof.
  induction h as [|o h IH]; intros pre; [reflexivity|]. cbn [trace un_trace]. f_equal.
  rewrite <- IH. rewrite run_state_app. reflexivity.
Qed.

Lemma sh_trace_ref : forall h pre, sh_trace (sh_run (fun _ => init) pre) h = ref_trace pre h.
Proof.
  induction h as [|o h IH]; intros pre; [reflexivity|]. cbn [sh_trace ref_trace]. f_equal.
  - change (snd (sh_step (sh_run (fun _ => init) pre) o)) with (sh_result pre o). apply sharded_result.
  - rewrite <- IH. rewrite sh_run_app. reflexivity.
Qed.

(* any container, any routing, any history: the sharded container's answers are the projection answers *)
Theorem sharded_trace_projection h : sh_trace (fun _ => init) h = ref_trace [] h.
Proof. exact (sh_trace_ref h []). Qed.

Theorem single_trace h : trace init h = un_trace [] h.
Proof. exact (trace_un h []). Qed.

(* key-local containers: the sharded container's answers are the unsharded container's answers *)
Variable keq : K -> K -> bool.
Hypothesis keq_spec : forall a b, keq a b = true <-> a = b.
Hypothesis klocal : forall h o, result h o = result (same K O key keq (key o) h) o.

Lemma ref_un : forall h pre, ref_trace pre h = un_trace pre h.
Proof.
  induction h as [|o h IH]; intros pre; [reflexivity|]. cbn [ref_trace un_trace]. f_equal; [|apply IH].
  rewrite <- (sharded_result K S O R key step init route).
  apply (sharded_equals_unsharded K S O R key step init route keq keq_spec klocal).
Qed.

Theorem sharded_trace_equals_unsharded h : sh_trace (fun _ => init) h = trace init h.
Proof. rewrite sharded_trace_projection, single_trace. apply ref_un. Qed.
End Trace.

(* ---------------- cell containers: one cell per key ---------------- *)
Section Cell.
Variables K C O R : Type.
Variable key : O -> K.
Variable keq : K -> K -> bool.
Hypothesis keq_spec : forall a b, keq a b = true <-> a = b.
Variable cstep : C -> O -> C * R.       (* what an operation does to the cell of its key, and answers *)
Variable c0 : C.                        (* the cell of a key never touched *)

Definition cstate := K -> C.
Definition cset (s : cstate) (k : K) (c : C) : cstate := fun x => if keq x k then c else s x.
Definition cell_step (s : cstate) (o : O) : cstate * R :=
  (cset s (key o) (fst (cstep (s (key o)) o)), snd (cstep (s (key o)) o)).
Definition cinit : cstate := fun _ => c0.

Lemma keq_refl k : keq k k = true.
Proof. apply keq_spec. reflexivity. Qed.

Lemma cell_at_key k : forall h s1 s2, s1 k = s2 k ->
  run_state _ _ _ cell_step s1 h k = run_state _ _ _ cell_step s2 (same _ _ key keq k h) k.
Proof.
  induction h as [|o h IH]; intros s1 s2 E; [exact E|].
  cbn [run_state fold_left same filter].
  change (fold_left (fun s o1 => fst (cell_step s o1)) h (fst (cell_step s1 o)))
    with (run_state _ _ _ cell_step (fst (cell_step s1 o)) h).
  destruct (keq (key o) k) eqn:Ek.
  - cbn [fold_left].
    change (fold_left (fun s o1 => fst (cell_step s o1)) (filter (fun o' => keq (key o') k) h) (fst (cell_step s2 o)))
      with (run_state _ _ _ cell_step (fst (cell_step s2 o)) (same _ _ key keq k h)).
    apply IH. apply keq_spec in Ek. subst k. cbn [cell_step fst]. unfold cset. rewrite keq_refl. rewrite E. reflexivity.
  - change (fold_left (fun s o1 => fst (cell_step s o1)) (filter (fun o' => keq (key o') k) h) s2)
      with (run_state _ _ _ cell_step s2 (same _ _ key keq k h)).
    apply IH. rewrite <- E. cbn [cell_step fst]. unfold cset.
    destruct (keq k (key o)) eqn:E2; [|reflexivity].
    apply keq_spec in E2. subst k. rewrite keq_refl in Ek. discriminate.
Qed.

(* the answer to an operation depends only on the earlier operations on the same key *)
Lemma cell_klocal h o :
  result _ _ _ cell_step cinit h o = result _ _ _ cell_step cinit (same _ _ key keq (key o) h) o.
Proof.
  unfold result. pose proof (cell_at_key (key o) h cinit cinit eq_refl) as E.
  unfold cell_step at 1 3. cbn [snd]. rewrite E. reflexivity.
Qed.

(* sharded = unsharded for every cell container, every routing, every history *)
Theorem cell_sharded_equals_unsharded (route : K -> nat) h :
  sh_trace K cstate O R key cell_step route (fun _ => cinit) h = trace cstate O R cell_step cinit h.
Proof. apply (sharded_trace_equals_unsharded K cstate O R key cell_step cinit route keq keq_spec cell_klocal). Qed.

Theorem cell_sharded_result (route : K -> nat) h o :
  sh_result K cstate O R key cell_step cinit route h o = result cstate O R cell_step cinit h o.
Proof. apply (sharded_equals_unsharded K cstate O R key cell_step cinit route keq keq_spec cell_klocal). Qed.
End Cell.

(* ---------------- the concrete containers ---------------- *)
Open Scope Z_scope.

Section Containers.
Variable K : Type.
Variable keq : K -> K -> bool.
Hypothesis keq_spec : forall a b, keq a b = true <-> a = b.

(* one operation type for all five container families; an operation a family does not have answers RInvalid *)
Inductive cop :=
| OGet (k : K) | OPeek (k : K) | OExist (k : K) | OSet (k : K) (v sz : Z) | ODelete (k : K)
| OLock (k : K) | OUnlock (k : K) | ORLock (k : K) | ORUnlock (k : K)
| OAcqR (k : K) | OAcqW (k : K) | ORelR (k : K) | ORelW (k : K).
Inductive cres :=
| RNone | RSome (v : Z) | RBool (b : bool) | RUnit
| RCnt (r w : Z) (present granted : bool)       (* key locker: counts of the key after the call, entry present, call granted *)
| RSem (granted : bool) (held : Z) (present : bool)  (* semaphore map: outcome, tokens held for the key after the call, entry present *)
| RPanic | RInvalid.

Definition okey (o : cop) : K :=
  match o with
  | OGet k | OPeek k | OExist k | OSet k _ _ | ODelete k | OLock k | OUnlock k | ORLock k | ORUnlock k
  | OAcqR k | OAcqW k | ORelR k | ORelW k => k
  end.

(* --- cache.Map: cell = option value --- *)
Definition map_cstep (c : option Z) (o : cop) : option Z * cres :=
  match o with
  | OGet _ => (c, match c with Some v => RSome v | None => RNone end)
  | OExist _ => (c, RBool (match c with Some _ => true | None => false end))
  | OSet _ v _ => (Some v, RUnit)
  | ODelete _ => (None, RUnit)
  | _ => (c, RInvalid)
  end.

(* --- keylock.KeyLocker / TKeyLocker: cell = option (readCount, writeCount); the entry exists iff registered.
   A call is granted at once iff the per-key RWMutex is free for it (sequential use: nobody is parked). *)
Definition lk_cnt (c : option (Z * Z)) : Z * Z := match c with Some p => p | None => (0, 0) end.
Definition lk_free (r w : Z) : option (Z * Z) := if (r =? 0) && (w =? 0) then None else Some (r, w).   (* tryFree *)
Definition lk_res (c : option (Z * Z)) (g : bool) : cres :=
  RCnt (fst (lk_cnt c)) (snd (lk_cnt c)) (match c with Some _ => true | None => false end) g.
Definition lock_cstep (c : option (Z * Z)) (o : cop) : option (Z * Z) * cres :=
  let '(r, w) := lk_cnt c in
  match o with
  | OLock _ => let c' := Some (r, w + 1) in (c', lk_res c' ((r =? 0) && (w =? 0)))
  | ORLock _ => let c' := Some (r + 1, w) in (c', lk_res c' (w =? 0))
  | OUnlock _ =>
      match c with
      | None => (c, RPanic)                                  (* d.lockMap[key] is nil: nil dereference *)
      | Some _ => let c' := lk_free r (w - 1) in (c', lk_res c' true)
      end
  | ORUnlock _ =>
      match c with
      | None => (c, RPanic)
      | Some _ => let c' := lk_free (r - 1) w in (c', lk_res c' true)
      end
  | _ => (c, RInvalid)
  end.

(* --- semap.SemMap with a context that is already cancelled (a non-blocking try): cell = option cur --- *)
Variable ratio : Z.     (* rwRatio = size of every per-key semaphore; a writer takes all of it *)
Definition sem_res (g : bool) (c : option Z) : cres :=
  RSem g (match c with Some cur => cur | None => 0 end) (match c with Some _ => true | None => false end).
Definition sem_acquire (c : option Z) (n : Z) : option Z * cres :=
  let cur := match c with Some cur => cur | None => 0 end in     (* absent: newWeighted(rwRatio) is entered first *)
  if n <=? ratio - cur then let c' := Some (cur + n) in (c', sem_res true c')
  else let c' := Some cur in (c', sem_res false c').              (* refused: ctx.Err(), the waiter removes itself *)
Definition sem_release (c : option Z) (n : Z) : option Z * cres :=
  let cur := match c with Some cur => cur | None => 0 end in      (* absent: a stale *Weighted, cur = 0 *)
  let cur' := cur - n in
  if cur' <? 0 then (match c with Some _ => Some cur' | None => None end, RPanic)   (* "released more than held" *)
  else if cur' =? 0 then (None, sem_res true None)                 (* no waiters and cur = 0: entry deleted *)
  else let c' := match c with Some _ => Some cur' | None => None end in (c', sem_res true c').
Definition sem_cstep (c : option Z) (o : cop) : option Z * cres :=
  match o with
  | OAcqR _ => sem_acquire c 1
  | OAcqW _ => sem_acquire c ratio
  | ORelR _ => sem_release c 1
  | ORelW _ => sem_release c ratio
  | _ => (c, RInvalid)
  end.

(* --- cache.LRUCache and tiny.LRUCache (tiny: every entry counts 1, update in place never evicts) --- *)
Definition ent := (K * Z * Z)%type.                 (* key, value, size *)
Definition ekey (e : ent) : K := fst (fst e).
Definition eval_ (e : ent) : Z := snd (fst e).
Definition esz (e : ent) : Z := snd e.
Record lru := { ents : list ent; lsize : Z; lcap : Z }.      (* entries most recently used first *)

Fixpoint lfind (k : K) (l : list ent) : option ent :=
  match l with [] => None | e :: l' => if keq (ekey e) k then Some e else lfind k l' end.
Fixpoint lremove (k : K) (l : list ent) : list ent :=
  match l with [] => [] | e :: l' => if keq (ekey e) k then l' else e :: lremove k l' end.

(* checkCapacity, on the reversed list (head = least recently used); true = the list ran empty with
   size still above capacity: list.Back() is nil and the next line panics *)
Fixpoint trim_rev (r : list ent) (size cap : Z) : list ent * Z * bool :=
  if cap <? size then
    match r with
    | [] => ([], size, true)
    | e :: r' => trim_rev r' (size - esz e) cap
    end
  else (r, size, false).
Definition check_capacity (l : list ent) (size cap : Z) (ok : cres) : lru * cres :=
  let '(r, size', p) := trim_rev (rev l) size cap in
  ({| ents := rev r; lsize := size'; lcap := cap |}, if p then RPanic else ok).

Definition lru_step (tiny : bool) (s : lru) (o : cop) : lru * cres :=
  match o with
  | OGet k =>
      match lfind k (ents s) with
      | None => (s, RNone)
      | Some e => ({| ents := e :: lremove k (ents s); lsize := lsize s; lcap := lcap s |}, RSome (eval_ e))
      end
  | OPeek k => (s, match lfind k (ents s) with None => RNone | Some e => RSome (eval_ e) end)
  | OExist k => (s, RBool (match lfind k (ents s) with None => false | Some _ => true end))
  | OSet k v sz0 =>
      let sz := if tiny then 1 else sz0 in
      match lfind k (ents s) with
      | Some e =>                                            (* updateInPlace *)
          let l' := (k, v, sz) :: lremove k (ents s) in
          if tiny then ({| ents := l'; lsize := lsize s; lcap := lcap s |}, RUnit)
          else check_capacity l' (lsize s + (sz - esz e)) (lcap s) RUnit
      | None => check_capacity ((k, v, sz) :: ents s) (lsize s + sz) (lcap s) RUnit      (* addNew *)
      end
  | ODelete k =>
      match lfind k (ents s) with
      | None => (s, RBool false)
      | Some e => ({| ents := lremove k (ents s); lsize := lsize s - esz e; lcap := lcap s |}, RBool true)
      end
  | _ => (s, RInvalid)
  end.
Definition lru_init (cap : Z) : lru := {| ents := []; lsize := 0; lcap := cap |}.
(* newWideLRUCache: capacity/int64(numbs) + 1 per shard *)
Definition psize (cap n : Z) : Z := Z.quot cap n + 1.

(* ---- sharded = unsharded: map, key lockers, semaphore map (every routing, every history) ---- *)
Theorem sharded_map_trace (route : K -> nat) h :
  sh_trace K _ cop cres okey (cell_step K _ cop cres okey keq map_cstep) route (fun _ => cinit K _ None) h
  = trace _ cop cres (cell_step K _ cop cres okey keq map_cstep) (cinit K _ None) h.
Proof. apply cell_sharded_equals_unsharded. exact keq_spec. Qed.

Theorem sharded_lock_trace (route : K -> nat) h :
  sh_trace K _ cop cres okey (cell_step K _ cop cres okey keq lock_cstep) route (fun _ => cinit K _ None) h
  = trace _ cop cres (cell_step K _ cop cres okey keq lock_cstep) (cinit K _ None) h.
Proof. apply cell_sharded_equals_unsharded. exact keq_spec. Qed.

Theorem sharded_sem_trace (route : K -> nat) h :
  sh_trace K _ cop cres okey (cell_step K _ cop cres okey keq sem_cstep) route (fun _ => cinit K _ None) h
  = trace _ cop cres (cell_step K _ cop cres okey keq sem_cstep) (cinit K _ None) h.
Proof. apply cell_sharded_equals_unsharded. exact keq_spec. Qed.

(* ---- the LRUs: shard i is the single cache of capacity psize run on the sub-history routed to i ---- *)
Theorem sharded_lru_trace tiny cap (route : K -> nat) h :
  sh_trace K lru cop cres okey (lru_step tiny) route (fun _ => lru_init cap) h
  = ref_trace K lru cop cres okey (lru_step tiny) (lru_init cap) route [] h.
Proof. apply sharded_trace_projection. Qed.

Theorem sharded_lru_state tiny cap (route : K -> nat) h i :
  sh_run K lru cop cres okey (lru_step tiny) route (fun _ => lru_init cap) h i
  = run_state lru cop cres (lru_step tiny) (lru_init cap) (sub K cop okey route i h).
Proof. apply sharded_projection. Qed.
End Containers.

Print Assumptions sharded_map_trace.
Print Assumptions sharded_lru_trace.
