(* C11 tex.Buffer is observationally identical to the standard bytes.Buffer; ReWrite overwrites exactly the
   addressed bytes; NewSizedBuffer yields an empty buffer of at least the requested capacity.
   The property, clause by clause, for every constructor, every history and every payload (unbounded).
   This file contains statements closed by `exact` only.

   Vocabulary: `run b l` / `srun s l` = what a caller sees after each call of the history l (result with error
   class or panic, Len(), Bytes()) on the concrete model of tex.Buffer / on the contract of bytes.Buffer;
   `ok_seq false k s l` = l is a history the property speaks about, k bounding the capacity reached so far (no UnreadByte/UnreadRune whose nearest non-query
   predecessor is a Grow; readers never deliver more than MinRead-sized offers, writers never report a negative
   count; ReWrite only where the contract fixes the addressing). *)
From Coq Require Import List Bool ZArith Arith.
Require Import C11_Check TexRef C11_Sim C11_Step C11_Thm C11_Utf8Thm.
Import ListNotations.

(* whatever the driver accepts satisfies the monitor (proved through the refinement, not by construction) *)
Theorem c11_case_sound : forall c, case_accept c = true -> case_holds c = true.
Proof. exact case_sound. Qed.

(* sentence 1 of the property: same results, errors, panics and unread contents on every history, from every
   constructor (zero value, NewBuffer, NewBufferString, NewSizedBuffer), for all 18 operations + Cap + ReWrite *)
Theorem c11_tex_buffer_is_bytes_buffer : forall i l,
  init_wf i = true -> ok_seq false (init_k i) (init_spec i) l = true -> run (init_buf i) l = srun (init_spec i) l.
Proof. exact tex_buffer_is_bytes_buffer. Qed.

(* what a caller sees does not depend on the initial capacity / nil-ness: the growth path taken is invisible *)
Theorem c11_capacity_irrelevant : forall i1 i2 l,
  init_wf i1 = true -> init_wf i2 = true -> init_data i1 = init_data i2 ->
  ok_seq false (init_k i1) (init_spec i1) l = true -> ok_seq false (init_k i2) (init_spec i2) l = true ->
  run (init_buf i1) l = run (init_buf i2) l.
Proof. exact capacity_irrelevant. Qed.

(* the same from any pair of related states (e.g. in the middle of a history) *)
Theorem c11_tex_refines_contract : forall l g k b s, R g b s -> (zn (cap b) <= k)%Z -> ok_seq g k s l = true -> run b l = srun s l.
Proof. exact tex_refines_contract. Qed.

(* one operation: equal result and related successor states (all twenty operations) *)
Theorem c11_step_sim : forall g k b s o, R g b s -> (zn (cap b) <= k)%Z -> op_ok g k s o = true ->
  snd (step b o) = snd (sstep s o) /\ R (next_g g o) (fst (step b o)) (fst (sstep s o)) /\
  (zn (cap (fst (step b o))) <= next_k k s o)%Z.
Proof. exact step_sim. Qed.

(* the structural invariant (offset within storage, storage within capacity, nil slice empty) holds in every
   reachable state, and the states stay related *)
Theorem c11_reachable_related : forall l g k b s, R g b s -> (zn (cap b) <= k)%Z -> ok_seq g k s l = true ->
  R (gexec g l) (exec b l) (sexec s l) /\ (zn (cap (exec b l)) <= kexec k s l)%Z.
Proof. exact reachable_related. Qed.
Theorem c11_reachable_inv : forall l g k b s, R g b s -> (zn (cap b) <= k)%Z -> ok_seq g k s l = true -> Inv (exec b l).
Proof. exact reachable_inv. Qed.

(* sizes that cannot be allocated (beyond max_alloc, while the capacity itself is below it): Grow panics with
   ErrTooLarge in the model of tex.Buffer and in the contract alike and no unread byte is lost; whenever grow's
   overflow guard `c > maxInt-c-n` fires the request is beyond max_alloc anyway; while the worst-case reallocation
   2c+n is allocatable grow never panics; a negative size panics with the negative-count message *)
Theorem c11_grow_too_large : forall g k b s n, R g b s -> (zn (cap b) <= k <= max_alloc)%Z -> (max_alloc < n)%Z ->
  snd (step b (Grow n)) = (st_too_large, []) /\ snd (sstep s (Grow n)) = (st_too_large, []) /\
  live (fst (step b (Grow n))) = live b /\ un (fst (sstep s (Grow n))) = un s.
Proof. exact grow_too_large. Qed.
Theorem c11_too_large_beyond_max_alloc : forall b n, (zn (cap b) <= max_alloc)%Z -> (max_alloc < n)%Z -> too_large b n = true.
Proof. exact too_large_true. Qed.
Theorem c11_never_too_large_when_allocatable : forall b n, (0 <= n)%Z -> (2 * zn (cap b) + n <= max_alloc)%Z -> too_large b n = false.
Proof. exact too_large_false. Qed.
Theorem c11_overflow_guard_is_too_large : forall c n, (0 <= c)%Z -> (max_int - c - n < c)%Z -> (max_alloc < 2 * c + n)%Z.
Proof. exact overflow_guard_is_too_large. Qed.
Theorem c11_grow_negative : forall b s n, (n < 0)%Z ->
  step b (Grow n) = (b, (st_neg_count, [])) /\ sstep s (Grow n) = (s, (st_neg_count, [])).
Proof. exact grow_negative. Qed.

(* the state a recovered panic leaves behind (lastRead on every panicking path), and the nil receiver of String *)
Theorem c11_truncate_panic_state : forall b n, (n <> 0)%Z -> (n < 0 \/ zn (blen b) < n)%Z ->
  step b (Truncate n) = (set_last b 0%Z, (st_trunc, [])).
Proof. exact truncate_panic_state. Qed.
Theorem c11_next_panic_state : forall b n, (n < 0)%Z -> step b (Next n) = (set_last b 0%Z, (st_panic, [])).
Proof. exact next_panic_state. Qed.
Theorem c11_writeto_panic_state : forall b m e, blen b <> 0 -> (zn (blen b) < m)%Z ->
  step b (WriteTo m e) = (set_last b 0%Z, (st_bad_write, (-1)%Z :: live b)).
Proof. exact writeto_panic_state. Qed.
Theorem c11_rewrite_panic_state : forall b pos p, rewrite_at (bytes b) pos p = Panic -> step b (ReWrite pos p) = (b, (st_panic, [])).
Proof. exact rewrite_panic_state. Qed.
Theorem c11_unread_after_invalidating_panic : forall b,
  snd (step (set_last b 0%Z) UnreadByte) = (st_unread, []) /\ snd (step (set_last b 0%Z) UnreadRune) = (st_unread, []).
Proof. exact unread_after_invalidating_panic. Qed.
Theorem c11_truncate_panic_contract : forall s n, (n <> 0)%Z -> (n < 0 \/ zn (length (un s)) < n)%Z ->
  sstep s (Truncate n) = (mk (un s) None (pre s), (st_trunc, [])).
Proof. exact truncate_panic_contract. Qed.
Theorem c11_nil_string_contract : forall b s, step b (ONil 0%Z) = (b, (st_ok, nil_string)) /\ sstep s (ONil 0%Z) = (s, (st_ok, nil_string)).
Proof. exact nil_string_contract. Qed.

(* error identity: only io.EOF itself ends ReadFrom without error; any other error (one wrapping io.EOF included:
   the harness scripts it as its own error number) comes back as it is, with what was read; likewise WriteTo *)
Theorem c11_readfrom_error_as_is : forall s chunk e, (e <> 0)%Z -> (e <> 1)%Z -> (e <> -1)%Z ->
  snd (sstep s (ReadFrom [(chunk, e)])) = (st_user e, [zn (length chunk)]) /\
  un (fst (sstep s (ReadFrom [(chunk, e)]))) = un s ++ chunk.
Proof. exact readfrom_error_as_is. Qed.
Theorem c11_readfrom_eof_is_nil : forall s chunk, snd (sstep s (ReadFrom [(chunk, 1%Z)])) = (st_ok, [zn (length chunk)]).
Proof. exact readfrom_eof_is_nil. Qed.
Theorem c11_writeto_error_as_is : forall s m e, un s <> [] -> (0 <= m <= zn (length (un s)))%Z -> (e <> 0)%Z ->
  snd (sstep s (WriteTo m e)) = (st_user e, m :: un s).
Proof. exact writeto_error_as_is. Qed.

(* all five paths of grow() (and the reslice-first variant the writes use) keep the unread bytes, the invariant and
   len = m + n *)
Theorem c11_grow_keeps_unread : forall b n b1 m, Inv b -> grow b n = (b1, m) -> grow_post b b1 m n.
Proof. exact grow_spec. Qed.
Theorem c11_grow_for_write_keeps_unread : forall b n b1 m, Inv b -> grow_for_write b n = (b1, m) -> grow_post b b1 m n.
Proof. exact grow_for_write_spec. Qed.

(* sentence 2, ReWrite: it panics exactly when pos is outside the storage; otherwise Len is unchanged and every
   byte is p[j-pos] when addressed and the old byte when not - for the unread bytes and for the consumed ones in
   front of them *)
Theorem c11_rewrite_contract : forall s l pos p, pre s = Some l ->
  (snd (sstep s (ReWrite pos p)) = (st_panic, []) <-> (pos < 0 \/ Z.of_nat (length l + length (un s)) < pos)%Z) /\
  ((0 <= pos <= Z.of_nat (length l + length (un s)))%Z ->
     let s' := fst (sstep s (ReWrite pos p)) in
     snd (sstep s (ReWrite pos p)) = (st_ok, []) /\
     length (un s') = length (un s) /\
     (forall j, j < length (un s) ->
        nth j (un s') 0%Z =
          if (Z.to_nat pos <=? length l + j) && (length l + j <? Z.to_nat pos + length p)
          then nth (length l + j - Z.to_nat pos) p 0%Z else nth j (un s) 0%Z) /\
     (forall l', pre s' = Some l' -> length l' = length l /\
        forall j, j < length l ->
          nth j l' 0%Z = if (Z.to_nat pos <=? j) && (j <? Z.to_nat pos + length p) then nth (j - Z.to_nat pos) p 0%Z else nth j l 0%Z)).
Proof. exact rewrite_contract. Qed.
(* ... and the model of tex.Buffer does exactly what the contract says, in every reachable state *)
Theorem c11_rewrite_model_exact : forall g b s pos p, R g b s -> (exists l, pre s = Some l) ->
  snd (step b (ReWrite pos p)) = snd (sstep s (ReWrite pos p)) /\
  live (fst (step b (ReWrite pos p))) = un (fst (sstep s (ReWrite pos p))) /\
  blen (fst (step b (ReWrite pos p))) = blen b.
Proof. exact rewrite_model_exact. Qed.
(* on the storage itself (Appendix AQ) *)
Theorem c11_rewrite_panics : forall buf pos p, rewrite_at buf pos p = Panic <-> (pos < 0 \/ Z.of_nat (length buf) < pos)%Z.
Proof. exact rewrite_panics. Qed.
Theorem c11_rewrite_exact : forall buf pos p buf', rewrite_at buf pos p = Done buf' ->
  length buf' = length buf /\
  forall j, nth j buf' 0%Z =
    if (Z.to_nat pos <=? j)%nat && (j <? Z.to_nat pos + length p)%nat && (j <? length buf)%nat
    then nth (j - Z.to_nat pos) p 0%Z else nth j buf 0%Z.
Proof. exact rewrite_exact. Qed.

(* sentence 2, NewSizedBuffer: empty; the capacity is the observed one (the driver's init_holds checks
   size <= Cap()); a negative size panics *)
Theorem c11_new_sized_empty : forall size c,
  blen (init_buf (INewSized size (Some c))) = 0 /\ live (init_buf (INewSized size (Some c))) = []
  /\ cap (init_buf (INewSized size (Some c))) = c /\ init_panics (INewSized size (Some c)) = (size <? 0)%Z.
Proof. exact new_sized_empty. Qed.
Theorem c11_init_related : forall i, init_wf i = true -> R false (init_buf i) (init_spec i).
Proof. exact init_related. Qed.

(* UTF-8 size contracts the rune operations rely on *)
Theorem c11_encode_rune_len : forall r, 1 <= length (encode_rune r) <= 4.
Proof. exact encode_rune_len. Qed.
Theorem c11_decode_rune_size : forall l, l <> [] -> 1 <= snd (decode_rune l) <= length l.
Proof. exact decode_rune_size. Qed.

(* the UTF-8 model round-trips on every Unicode scalar value (whatever follows), anything else is written as
   U+FFFD; hence WriteRune r; ReadRune gives r back *)
Theorem c11_decode_encode : forall r t, valid_scalar r -> decode_rune (encode_rune r ++ t) = (r, length (encode_rune r)).
Proof. exact decode_encode. Qed.
Theorem c11_encode_invalid : forall r, (-2147483648 <= r <= 2147483647)%Z -> ~ valid_scalar r -> encode_rune r = [239; 191; 189]%Z.
Proof. exact encode_invalid. Qed.
Theorem c11_write_read_rune : forall s r, un s = [] -> valid_scalar r ->
  snd (sstep (fst (sstep s (WriteRune r))) ReadRune) = (st_ok, [r; zn (length (encode_rune r))]).
Proof. exact write_read_rune. Qed.

(* non-vacuity: a history through all twenty operations, the grow paths, valid Unread* after every kind of read *)
Theorem c11_demo : ok_seq false (init_k IZero) (init_spec IZero) demo_history = true /\
                   run (init_buf IZero) demo_history = srun (init_spec IZero) demo_history.
Proof. exact demo_ok. Qed.
Theorem c11_grow_paths :
  grow (mkb [1; 2]%Z 2 8) 3 = (mkb [0; 0; 0]%Z 0 8, 0) /\
  grow (mkb [1; 2]%Z 1 8) 3 = (mkb [1; 2; 0; 0; 0]%Z 1 8, 2) /\
  grow zero_buf 5 = (mkb [0; 0; 0; 0; 0]%Z 0 64, 0) /\
  grow (mkb [1; 2; 3; 4; 5; 6; 7; 8]%Z 6 8) 2 = (mkb [7; 8; 0; 0]%Z 0 8, 2) /\
  grow (mkb [1; 2; 3; 4; 5; 6; 7; 8]%Z 0 8) 3 = (mkb [1; 2; 3; 4; 5; 6; 7; 8; 0; 0; 0]%Z 0 19, 8).
Proof. exact (conj grow_path_reset_if_empty (conj grow_path_reslice (conj grow_path_small_alloc (conj grow_path_slide grow_path_reallocate)))). Qed.

(* the property's exception is necessary: after a Grow that moved the data UnreadByte cannot restore the byte, with
   or without queries in between *)
Theorem c11_unread_after_grow_differs :
  let l := [Write (repeat 7%Z 60); Read 50; Grow 20%Z; UnreadByte] in run zero_buf l <> srun (init_spec IZero) l.
Proof. exact unread_after_grow_differs. Qed.
Theorem c11_unread_after_grow_len_differs :
  let l := [Write (repeat 7%Z 60); Read 50; Grow 20%Z; OLen; UnreadByte] in run zero_buf l <> srun (init_spec IZero) l.
Proof. exact unread_after_grow_len_differs. Qed.

(* the defect repaired by /repo commit 6078bb8 (signed `r < utf8.RuneSelf`): WriteRune(-1) wrote the byte 255 and
   returned 1 where the contract writes U+FFFD and returns 3 *)
Theorem c11_write_rune_signed_refuted :
  run_gen rune_is_byte_signed zero_buf [WriteRune (-1)%Z] = [((st_ok, [1%Z]), (1, [255%Z]))] /\
  srun (init_spec IZero) [WriteRune (-1)%Z] = [((st_ok, [3%Z]), (3, [239; 191; 189]%Z))] /\
  run_gen rune_is_byte_signed zero_buf [WriteRune (-1)%Z] <> srun (init_spec IZero) [WriteRune (-1)%Z].
Proof. exact write_rune_signed_refuted. Qed.

Print Assumptions c11_case_sound.
Print Assumptions c11_tex_buffer_is_bytes_buffer.
Print Assumptions c11_capacity_irrelevant.
Print Assumptions c11_tex_refines_contract.
Print Assumptions c11_step_sim.
Print Assumptions c11_reachable_related.
Print Assumptions c11_reachable_inv.
Print Assumptions c11_grow_too_large.
Print Assumptions c11_too_large_beyond_max_alloc.
Print Assumptions c11_never_too_large_when_allocatable.
Print Assumptions c11_overflow_guard_is_too_large.
Print Assumptions c11_grow_negative.
Print Assumptions c11_truncate_panic_state.
Print Assumptions c11_next_panic_state.
Print Assumptions c11_writeto_panic_state.
Print Assumptions c11_rewrite_panic_state.
Print Assumptions c11_unread_after_invalidating_panic.
Print Assumptions c11_truncate_panic_contract.
Print Assumptions c11_nil_string_contract.
Print Assumptions c11_readfrom_error_as_is.
Print Assumptions c11_readfrom_eof_is_nil.
Print Assumptions c11_writeto_error_as_is.
Print Assumptions c11_grow_keeps_unread.
Print Assumptions c11_grow_for_write_keeps_unread.
Print Assumptions c11_rewrite_contract.
Print Assumptions c11_rewrite_model_exact.
Print Assumptions c11_rewrite_panics.
Print Assumptions c11_rewrite_exact.
Print Assumptions c11_new_sized_empty.
Print Assumptions c11_init_related.
Print Assumptions c11_encode_rune_len.
Print Assumptions c11_decode_rune_size.
Print Assumptions c11_decode_encode.
Print Assumptions c11_encode_invalid.
Print Assumptions c11_write_read_rune.
Print Assumptions c11_demo.
Print Assumptions c11_grow_paths.
Print Assumptions c11_unread_after_grow_differs.
Print Assumptions c11_unread_after_grow_len_differs.
Print Assumptions c11_write_rune_signed_refuted.
