(* C04: what a same-key burst may look like at quiescence.  For EVERY linearisation of the burst (every order of the
   issued calls), the state the model reaches passes the quiescent-state monitor burst_single_ok of C04_Check.v.
   So a burst observation that fails the monitor is explained by no linearisation at all. *)
From Coq Require Import ZArith List Lia Bool.
Require Import LRU Shard Cases_Common LRUOps C04_Model C04_Refine C04_Wide C04_Theorems C04_Check.
Import ListNotations.
Open Scope Z_scope.

(* ---------------- the writes of a burst ---------------- *)
(* keys inside the universe, sizes >= 0, all writes to one key carry the same size *)
Definition wfW (W : list bwrite) (univ : list Z) : Prop :=
  (forall w, In w W -> In (fst (fst w)) univ /\ 0 <= snd w) /\
  (forall w1 w2, In w1 W -> In w2 W -> fst (fst w1) = fst (fst w2) -> snd w1 = snd w2).

(* a call of a linearisation: set-like calls are writes of W (as the variant sees them), no Clear / SetCapacity,
   Delete only when the burst deletes *)
Definition lin_op (v : variant) (W : list bwrite) (del : bool) (o : op) : Prop :=
  match norm v o with
  | Set_ k x s | SetAndGetRemoved k x s | SetIfAbsent k x s => In (k, x, s) W
  | Delete _ => del = true
  | Clear | SetCapacity _ => False
  | _ => True
  end.
Definition wkey_of (o : op) : list Z :=
  match o with Set_ k _ _ | SetAndGetRemoved k _ _ | SetIfAbsent k _ _ => [k] | _ => [] end.
Definition wkeys (ops : list op) : list Z := flat_map wkey_of ops.

Definition ent_in (W : list bwrite) (e : E) : Prop := In (keyof e, valof e, snd e) W.

Lemma ksize_of W univ k x s : wfW W univ -> In (k, x, s) W -> ksize k W = s.
Proof.
  intros [_ Hsame] Hin. unfold ksize. destruct (find (wkeyb k) W) as [w|] eqn:Ef.
  - apply find_some in Ef. destruct Ef as [Hw Hk]. unfold wkeyb in Hk. apply Z.eqb_eq in Hk.
    apply (Hsame w (k, x, s) Hw Hin). cbn. exact Hk.
  - pose proof (find_none _ _ Ef _ Hin) as Hn. unfold wkeyb in Hn. cbn in Hn. rewrite Z.eqb_refl in Hn. discriminate.
Qed.

Lemma wsize_of W univ k x s : wfW W univ -> In (k, x, s) W -> wsize k x W = Some s.
Proof.
  intros [_ Hsame] Hin. unfold wsize. destruct (find (fun w => wkeyb k w && (snd (fst w) =? x)) W) as [w|] eqn:Ef.
  - apply find_some in Ef. destruct Ef as [Hw Hk]. apply andb_prop in Hk as [Hk _]. unfold wkeyb in Hk. apply Z.eqb_eq in Hk.
    cbn. f_equal. apply (Hsame w (k, x, s) Hw Hin). cbn. exact Hk.
  - pose proof (find_none _ _ Ef _ Hin) as Hn. unfold wkeyb in Hn. cbn in Hn. rewrite !Z.eqb_refl in Hn. discriminate.
Qed.

Lemma ksize_nonneg W univ k : wfW W univ -> 0 <= ksize k W.
Proof.
  intros [Hk _]. unfold ksize. destruct (find (wkeyb k) W) as [w|] eqn:Ef; [|lia].
  apply find_some in Ef. destruct Ef as [Hw _]. apply (Hk w Hw).
Qed.

(* ---------------- sums over duplicate-free lists ---------------- *)
Lemma zsum_app a b : zsum (a ++ b) = zsum a + zsum b.
Proof. unfold zsum. induction a as [|x a IH]; cbn in *; lia. Qed.

Lemma sum_incl (f : Z -> Z) : (forall x, 0 <= f x) ->
  forall a b, NoDup a -> incl a b -> zsum (map f a) <= zsum (map f b).
Proof.
  intros Hf. induction a as [|x a IH]; intros b Hnd Hincl.
  - cbn. clear Hincl Hnd. induction b as [|y b IHb]; cbn in *; [lia|]. specialize (Hf y). unfold zsum in *. lia.
  - inversion Hnd as [|? ? Hx Hnd']; subst.
    assert (Hxb : In x b) by (apply Hincl; left; reflexivity).
    destruct (in_split x b Hxb) as (b1 & b2 & ->).
    assert (Hincl' : incl a (b1 ++ b2)).
    { intros y Hy. assert (Hyb : In y (b1 ++ x :: b2)) by (apply Hincl; right; exact Hy).
      apply in_app_or in Hyb. apply in_or_app. destruct Hyb as [H|[H|H]]; [left; exact H|subst; contradiction|right; exact H]. }
    specialize (IH (b1 ++ b2) Hnd' Hincl'). rewrite map_app, zsum_app in *. cbn [map]. unfold zsum in *. cbn [fold_right] in *. lia.
Qed.

Lemma total_keys W univ (l : list E) : wfW W univ -> Forall (ent_in W) l ->
  total l = zsum (map (fun k => ksize k W) (map keyof l)).
Proof.
  intros Hwf. induction 1 as [|e l He _ IH]; [reflexivity|]. rewrite total_cons, IH. cbn [map]. unfold zsum. cbn [fold_right].
  rewrite (ksize_of W univ (keyof e) (valof e) (snd e) Hwf He). reflexivity.
Qed.

(* a duplicate-free list of written entries is no larger than the distinct keys written *)
Lemma total_le_need W univ (l : list E) : wfW W univ -> Forall (ent_in W) l -> NoDup (map keyof l) ->
  total l <= need W univ.
Proof.
  intros Hwf Hall Hnd. rewrite (total_keys W univ l Hwf Hall). unfold need.
  apply sum_incl; [intros k; apply (ksize_nonneg W univ k Hwf)|exact Hnd|].
  intros k Hk. apply in_map_iff in Hk. destruct Hk as (e & <- & He). rewrite Forall_forall in Hall.
  destruct Hwf as [Hk _]. apply (Hk _ (Hall e He)).
Qed.

(* ---------------- list facts ---------------- *)
Lemma remove_key_incl k (l : list E) e : In e (remove_key k l) -> In e l.
Proof. unfold remove_key. intros H. apply filter_In in H. tauto. Qed.
Lemma trim_incl cp (l : list E) e : In e (trim cp l) -> In e l.
Proof. intros H. rewrite (trim_dropped cp l). apply in_or_app. left. exact H. Qed.
Lemma keys_remove_other k k' (l : list E) : In k' (map keyof l) -> k' <> k -> In k' (map keyof (remove_key k l)).
Proof.
  intros Hin Hne. apply in_map_iff in Hin. destruct Hin as (e & He & Hl). apply in_map_iff. exists e. split; [exact He|].
  unfold remove_key. apply filter_In. split; [exact Hl|]. apply negb_true_iff, Z.eqb_neq. congruence.
Qed.
Lemma keys_front k k' e (l : list E) : lookup k l = Some e -> In k' (map keyof l) -> In k' (map keyof (e :: remove_key k l)).
Proof.
  intros El Hin. destruct (lookup_some _ _ _ El) as [_ Hk]. cbn [map]. destruct (Z.eq_dec k' k) as [->|Hne]; [left; exact Hk|].
  right. apply keys_remove_other; assumption.
Qed.
Lemma keys_touch k k' x s (l : list E) : In k' (k :: map keyof l) -> In k' (map keyof (touch k x s l)).
Proof.
  intros Hin. unfold touch. cbn [map]. destruct (Z.eq_dec k' k) as [->|Hne]; [left; reflexivity|].
  right. apply keys_remove_other; [destruct Hin; [congruence|assumption]|exact Hne].
Qed.

(* ---------------- the invariant of a linearisation ---------------- *)
Section Burst.
Variables (v : variant) (W : list bwrite) (del : bool) (univ : list Z) (cap0 : Z).
Hypothesis Hwf : wfW W univ.
Hypothesis Hcap : 0 <= cap0.
Definition fits : Prop := need W univ <= cap0.

Definition KInv (s : istate) (seen : list Z) : Prop :=
  icap s = cap0 /\ Forall (ent_in W) (ilist s) /\ 0 <= snd s /\
  (fits -> snd s = 0 /\ (del = false -> forall k, In k seen -> In k (map keyof (ilist s)))).

Lemma settle_fits (l : list E) : fits -> Forall (ent_in W) l -> NoDup (map keyof l) -> trim cap0 l = l /\ dropped cap0 l = [].
Proof.
  intros Hf Hall Hnd. pose proof (total_le_need W univ l Hwf Hall Hnd) as Ht. unfold fits in Hf.
  assert (Hn : nonneg l).
  { apply Forall_forall. intros e He. rewrite Forall_forall in Hall. destruct Hwf as [Hk _]. apply (Hk _ (Hall e He)). }
  split; [apply trim_fits; [exact Hn|exact Hcap|lia]|apply dropped_fits; [exact Hn|exact Hcap|lia]].
Qed.

Lemma kinv_step l ev seen o : NoDup (map keyof l) -> KInv (l, cap0, ev) seen -> lin_op v W del o ->
  KInv (fst (istep (l, cap0, ev) (norm v o))) (wkey_of (norm v o) ++ seen).
Proof.
  intros Hnd (Hc & Hall & Hev & Hfit) Hlin. unfold icap, ilist in *. cbn [fst snd] in *. unfold lin_op in Hlin.
  assert (Hfront : forall k e, lookup k l = Some e -> KInv (e :: remove_key k l, cap0, ev) seen).
  { intros k e El. destruct (lookup_some _ _ _ El) as [Hin _]. unfold KInv, icap, ilist. cbn [fst snd].
    split; [reflexivity|]. split.
    - constructor; [rewrite Forall_forall in Hall; apply Hall, Hin|].
      apply Forall_forall. intros e' He'. rewrite Forall_forall in Hall. apply Hall, (remove_key_incl k l e' He').
    - split; [exact Hev|]. intros Hf. destruct (Hfit Hf) as [E0 Hseen]. split; [exact E0|].
      intros Hd k' Hk'. apply (keys_front k k' e l El). apply (Hseen Hd k' Hk'). }
  assert (Hset : forall k x s, In (k, x, s) W -> KInv (fst (settle (touch k x s l) cap0 ev)) (k :: seen)).
  { intros k x s HW. cbn [settle fst]. unfold KInv, icap, ilist. cbn [fst snd].
    assert (Htall : Forall (ent_in W) (touch k x s l)).
    { unfold touch. constructor; [exact HW|]. apply Forall_forall. intros e' He'. rewrite Forall_forall in Hall.
      apply Hall, (remove_key_incl k l e' He'). }
    split; [reflexivity|]. split.
    - apply Forall_forall. intros e' He'. rewrite Forall_forall in Htall. apply Htall, (trim_incl cap0 _ e' He').
    - split; [lia|]. intros Hf. destruct (Hfit Hf) as [E0 Hseen].
      destruct (settle_fits (touch k x s l) Hf Htall (nodup_touch k x s l Hnd)) as [Et Ed]. rewrite Et, Ed. cbn [length Z.of_nat].
      split; [lia|]. intros Hd k' Hk'. apply keys_touch. destruct Hk' as [->|Hk']; [left; reflexivity|right; apply (Hseen Hd k' Hk')]. }
  assert (Hweak : forall s k, KInv s seen -> (fits -> del = false -> In k (map keyof (ilist s))) -> KInv s (k :: seen)).
  { intros s k (A & B & C & D) Hk. split; [exact A|]. split; [exact B|]. split; [exact C|]. intros Hf. destruct (D Hf) as [E0 Hs].
    split; [exact E0|]. intros Hd k' [<-|Hk']; [apply (Hk Hf Hd)|apply (Hs Hd k' Hk')]. }
  assert (Hsame : KInv (l, cap0, ev) seen) by (split; [reflexivity|split; [exact Hall|split; [exact Hev|exact Hfit]]]).
  destruct (norm v o) as [k|k|k|k x s|k x s|k x s|k| |c0]; cbn [istep wkey_of app].
  - destruct (lookup k l) as [e|] eqn:El; cbn [fst]; [apply (Hfront k e El)|exact Hsame].
  - exact Hsame.
  - exact Hsame.
  - apply (Hset k x s Hlin).
  - destruct (settle (touch k x s l) cap0 ev) as [s' rem] eqn:Es. cbn [fst]. change s' with (fst (s', rem)). rewrite <- Es. apply (Hset k x s Hlin).
  - destruct (lookup k l) as [e|] eqn:El; cbn [fst].
    + apply Hweak; [apply (Hfront k e El)|]. intros _ _. unfold ilist. cbn [fst map]. left. apply (lookup_some _ _ _ El).
    + apply (Hset k x s Hlin).
  - destruct (lookup k l) as [e|] eqn:El; cbn [fst]; [|exact Hsame].
    unfold KInv, icap, ilist. cbn [fst snd]. split; [reflexivity|]. split.
    + apply Forall_forall. intros e' He'. rewrite Forall_forall in Hall. apply Hall, (remove_key_incl k l e' He').
    + split; [exact Hev|]. intros Hf. destruct (Hfit Hf) as [E0 _]. split; [exact E0|]. intros Hd. congruence.
  - contradiction.
  - contradiction.
Qed.

Lemma wkey_of_norm o : wkey_of (norm v o) = wkey_of o.
Proof. destruct v, o; reflexivity. Qed.

Lemma kinv_run ops : forall c seen, MInv v c -> KInv (abs c) seen -> Forall op_dom ops -> Forall (lin_op v W del) ops ->
  MInv v (fst (mrun v c ops)) /\ KInv (abs (fst (mrun v c ops))) (rev (wkeys ops) ++ seen).
Proof.
  induction ops as [|o ops IH]; intros c seen HI HK Hd Hl; [cbn; auto|].
  inversion Hd as [|? ? [Hok Hfit] Hd']; subst. inversion Hl as [|? ? Ho Hl']; subst.
  destruct (mstep_refines v c o HI Hok Hfit) as (A & _ & I).
  assert (HK1 : KInv (abs (fst (mstep v c o))) (wkey_of o ++ seen)).
  { rewrite A, <- wkey_of_norm. pose proof HK as (Hc & _). unfold abs, icap in Hc. cbn [fst snd] in Hc. unfold abs. rewrite Hc.
    apply kinv_step; [apply (MInv_Inv _ _ HI)| |exact Ho]. unfold abs in HK. rewrite Hc in HK. exact HK. }
  cbn [mrun]. destruct (mstep v c o) as [c1 x]. cbn [fst] in *.
  destruct (IH c1 (wkey_of o ++ seen) I HK1 Hd' Hl') as [I2 K2]. destruct (mrun v c1 ops) as [c2 xs]. cbn [fst] in *.
  split; [exact I2|]. unfold wkeys in *. cbn [flat_map]. rewrite rev_app_distr, <- app_assoc.
  replace (rev (wkey_of o)) with (wkey_of o) by (destruct o; reflexivity). exact K2.
Qed.
End Burst.

(* ---------------- reflection of the monitor's tests ---------------- *)
Lemma zmem_in k l : zmem k l = true <-> In k l.
Proof.
  unfold zmem. rewrite existsb_exists. split.
  - intros (x & Hx & E). apply Z.eqb_eq in E. now subst.
  - intros H. exists k. split; [exact H|apply Z.eqb_refl].
Qed.
Lemma nodupb_true l : NoDup l -> nodupb l = true.
Proof.
  induction 1 as [|x l Hx _ IH]; [reflexivity|]. cbn [nodupb]. rewrite IH, andb_true_r. apply negb_true_iff.
  destruct (zmem x l) eqn:E; [apply zmem_in in E; contradiction|reflexivity].
Qed.
Lemma zlist_eqb_refl l : zlist_eqb l l = true.
Proof. apply list_eqb_refl, Z.eqb_refl. Qed.
Lemma stats_eqb_refl s : stats_eqb s s = true.
Proof. destruct s as [[[a b] c] d]. cbn. now rewrite !Z.eqb_refl. Qed.
Lemma bprobe_list_refl (l : list bprobe) : list_eqb bprobe_eqb l l = true.
Proof.
  apply list_eqb_refl. intros [[k b] o]. cbn. rewrite Z.eqb_refl, Bool.eqb_reflx. cbn.
  destruct o; cbn; [apply Z.eqb_refl|reflexivity].
Qed.

Lemma item_sizes_spec W univ (l : list E) : wfW W univ -> Forall (ent_in W) l ->
  forallb is_some (item_sizes W (map fst l)) = true /\ osum (item_sizes W (map fst l)) = total l.
Proof.
  intros Hwf. induction 1 as [|e l He _ [IH1 IH2]]; [split; reflexivity|].
  unfold item_sizes, osum in *. cbn [map forallb]. destruct e as [[k x] s]. unfold ent_in, keyof, valof in He. cbn [fst snd] in *.
  rewrite (wsize_of W univ k x s Hwf He). cbn [is_some andb]. split; [exact IH1|].
  rewrite total_cons. cbn [snd]. unfold zsum in *. cbn [fold_right]. rewrite IH2. reflexivity.
Qed.

(* what Exist and Peek answer at quiescence, key by key, is what the monitor expects from Items() *)
Lemma model_probe (l : list E) univ :
  map (fun k => (k, is_some (lookup k l), option_map valof (lookup k l))) univ = expected_probe (map fst l) univ.
Proof.
  unfold expected_probe. apply map_ext. intros k. unfold lookup.
  induction l as [|e l IH]; [reflexivity|]. cbn [map find]. change (fst (fst e)) with (keyof e).
  destruct (keyof e =? k); [reflexivity|exact IH].
Qed.

(* ---------------- the theorem ---------------- *)
Definition complete (W : list bwrite) (ops : list op) : Prop := forall w, In w W -> In (fst (fst w)) (wkeys ops).

Theorem burst_every_linearisation v W del univ cap0 ops :
  cap_dom cap0 -> wfW W univ -> Forall op_dom ops -> Forall (lin_op v W del) ops -> complete W ops ->
  let c := fst (mrun v (new_lru cap0) ops) in
  burst_single_ok cap0 W del univ false
    (map (fun k => (k, is_some (lookup k (lst c)), option_map valof (lookup k (lst c)))) univ) (snap_of c) = true.
Proof.
  intros Hc Hwf Hd Hl Hcomp. cbn zeta.
  assert (HK0 : KInv W del univ cap0 (abs (new_lru cap0)) []).
  { unfold KInv, abs, icap, ilist, new_lru. cbn. split; [reflexivity|]. split; [constructor|]. split; [lia|]. intros _. split; [reflexivity|]. intros _ k []. }
  destruct (kinv_run v W del univ cap0 Hwf ltac:(unfold cap_dom in Hc; lia) ops (new_lru cap0) [] (new_MInv v cap0 Hc) HK0 Hd Hl) as [HI HK].
  set (c := fst (mrun v (new_lru cap0) ops)) in *. rewrite app_nil_r in HK.
  pose proof (MInv_Inv _ _ HI) as (Hs & Hn & Hnd & _ & Hle). destruct HK as (Kc & Kall & Kev & Kfit).
  unfold abs, icap, ilist in Kc, Kall, Kev, Kfit. cbn [fst snd] in Kc, Kall, Kev, Kfit.
  destruct (item_sizes_spec W univ (lst c) Hwf Kall) as [Hsome Hsum].
  pose proof (total_nonneg KV (lst c) Hn) as Ht0.
  unfold burst_single_ok, snap_of, stats_of, keys_of, items_of. rewrite model_probe.
  rewrite (nodupb_true _ Hnd). replace (map keyof (lst c)) with (map fst (map fst (lst c))) by (rewrite map_map; reflexivity).
  rewrite zlist_eqb_refl, stats_eqb_refl, bprobe_list_refl, Hsome, Hsum. rewrite !map_length, Z.eqb_refl. rewrite Kc, Z.eqb_refl, Hs, Z.eqb_refl.
  replace (0 <=? total (lst c)) with true by (symmetry; apply Z.leb_le; lia).
  replace (total (lst c) <=? cap0) with true by (symmetry; apply Z.leb_le; lia).
  replace (0 <=? evs c) with true by (symmetry; apply Z.leb_le; lia). cbn [negb andb].
  destruct (need W univ <=? cap0) eqn:En; [|reflexivity]. apply Z.leb_le in En. destruct (Kfit En) as [E0 Hseen].
  rewrite E0. cbn [Z.eqb andb]. destruct del; [reflexivity|]. cbn [orb]. apply forallb_forall. intros k _.
  destruct (written k W) eqn:Ew; [|reflexivity]. cbn [negb orb]. apply zmem_in.
  unfold written in Ew. apply existsb_exists in Ew. destruct Ew as (w & Hw & Hk). unfold wkeyb in Hk. apply Z.eqb_eq in Hk. subst k.
  rewrite map_map. apply (Hseen eq_refl). apply in_rev. rewrite rev_involutive. apply (Hcomp w Hw).
Qed.

(* ---------------- the writes the harness describes are well formed ---------------- *)
Lemma row_writes_in v g : forall univ sizes row w, In w (row_writes v g univ sizes row) ->
  exists sz, In (fst (fst w), sz) (combine univ sizes) /\ snd w = bsize v sz.
Proof.
  induction univ as [|k u IH]; intros sizes row w Hw; [destruct sizes, row; contradiction|].
  destruct sizes as [|sz ss]; [contradiction|]. destruct row as [|c r]; [contradiction|].
  cbn [row_writes] in Hw. apply in_app_or in Hw. destruct Hw as [Hw|Hw].
  - destruct (is_bwrite c); [|contradiction]. destruct Hw as [<-|[]]. exists sz. cbn. auto.
  - destruct (IH ss r w Hw) as (sz' & Hin & Hs). exists sz'. split; [right; exact Hin|exact Hs].
Qed.
Lemma all_writes_in v univ sizes : forall progs g w, In w (all_writes v g univ sizes progs) ->
  exists sz, In (fst (fst w), sz) (combine univ sizes) /\ snd w = bsize v sz.
Proof.
  induction progs as [|row r IH]; intros g w Hw; [contradiction|]. cbn [all_writes] in Hw. apply in_app_or in Hw.
  destruct Hw as [Hw|Hw]; [apply (row_writes_in v g univ sizes row w Hw)|apply (IH (g + 1) w Hw)].
Qed.
Lemma combine_fun (u s : list Z) k a b : NoDup u -> In (k, a) (combine u s) -> In (k, b) (combine u s) -> a = b.
Proof.
  revert s. induction u as [|x u IH]; intros s Hnd Ha Hb; [contradiction|]. destruct s as [|y s]; [contradiction|].
  inversion Hnd as [|? ? Hx Hnd']; subst. cbn [combine] in Ha, Hb. destruct Ha as [Ha|Ha]; destruct Hb as [Hb|Hb].
  - congruence.
  - inversion Ha; subst. apply in_combine_l in Hb. contradiction.
  - inversion Hb; subst. apply in_combine_l in Ha. contradiction.
  - apply (IH s Hnd' Ha Hb).
Qed.

Theorem all_writes_wf v univ sizes progs : NoDup univ -> Forall (fun z => 0 <= z) sizes -> wfW (all_writes v 0 univ sizes progs) univ.
Proof.
  intros Hnd Hs. split.
  - intros w Hw. destruct (all_writes_in v univ sizes progs 0 w Hw) as (sz & Hin & E). split; [apply (in_combine_l _ _ _ _ Hin)|].
    rewrite E. apply in_combine_r in Hin. rewrite Forall_forall in Hs. specialize (Hs sz Hin). destruct v; cbn; lia.
  - intros w1 w2 H1 H2 Ek. destruct (all_writes_in v univ sizes progs 0 w1 H1) as (s1 & I1 & E1).
    destruct (all_writes_in v univ sizes progs 0 w2 H2) as (s2 & I2 & E2). rewrite Ek in I1.
    rewrite E1, E2, (combine_fun univ sizes _ s1 s2 Hnd I1 I2). reflexivity.
Qed.

Print Assumptions burst_every_linearisation.
Print Assumptions all_writes_wf.
