(* C16: the clauses of the property over every label sequence of the composed machine *)
From Coq Require Import ZArith List Bool Lia Arith.
Require Import C16_Model C16_Inv.
Import ListNotations.
Open Scope Z_scope.

Definition reachable (m c0 : Z) (t : st) : Prop := exists r ls, run (init m c0 r) ls = Some t.

Lemma reach_ginv m c0 t : reachable m c0 t -> GInv c0 t /\ maxc t = m.
Proof. intros (r & ls & H). destruct (run_ginv c0 ls _ _ (init_ginv m c0 r) H) as [G M]. split; [exact G|exact M]. Qed.

Lemma reach_sinv m c0 t i s : reachable m c0 t -> nth_error (ss t) i = Some s -> started s = true -> SInv s.
Proof.
  intros R En St. destruct (reach_ginv _ _ _ R) as [G _]. pose proof (Forall_nth _ _ _ _ (g_all _ _ G) En) as X.
  unfold Inv1 in X. now rewrite St in X.
Qed.

(* the exit callback runs at most once, whatever happens and in whatever order *)
Theorem exit_at_most_once m c0 t i s : reachable m c0 t -> nth_error (ss t) i = Some s -> (onexit s <= 1)%nat.
Proof.
  intros R En. destruct (reach_ginv _ _ _ R) as [G _]. pose proof (Forall_nth _ _ _ _ (g_all _ _ G) En) as X.
  unfold Inv1 in X. destruct (started s).
  - rewrite (i_onexit s X). destruct (exited s); lia.
  - subst s. cbn. lia.
Qed.

(* as soon as either loop has stopped: the callback ran exactly once, the connection is closed, the queue is closed *)
Theorem single_exit m c0 t i s : reachable m c0 t -> nth_error (ss t) i = Some s -> started s = true ->
  sendl s = false \/ recvl s = false ->
  onexit s = 1%nat /\ copen s = false /\ qclosed s = true /\ exited s = true.
Proof.
  intros R En St L. pose proof (reach_sinv _ _ _ _ _ R En St) as I. pose proof (i_loops s I L) as Ex.
  destruct (i_exit_closed s I Ex) as [A B]. pose proof (i_onexit s I) as C. rewrite Ex in C. auto.
Qed.

(* the connection is closed exactly when the exit ran; before that both loops run *)
Theorem closed_iff_exited m c0 t i s : reachable m c0 t -> nth_error (ss t) i = Some s -> started s = true ->
  (copen s = false <-> onexit s = 1%nat) /\ (onexit s = 0%nat -> copen s = true /\ sendl s = true /\ recvl s = true).
Proof.
  intros R En St. pose proof (reach_sinv _ _ _ _ _ R En St) as I. pose proof (i_onexit s I) as C.
  destruct (exited s) eqn:Ex.
  - destruct (i_exit_closed s I Ex) as [_ B]. split; [split; auto|]. rewrite C. discriminate.
  - pose proof (i_open s I Ex) as B. split; [split; intros X; congruence|]. intros _. split; [exact B|].
    split; [destruct (sendl s) eqn:X|destruct (recvl s) eqn:X]; auto; rewrite (i_loops s I) in Ex; auto; discriminate.
Qed.

(* the count is its previous value plus the sessions started and not yet over: every exit gives exactly its unit back *)
Theorem count_balanced m c0 t : reachable m c0 t -> cnt t = c0 + total (ss t).
Proof. intros R. destruct (reach_ginv _ _ _ R) as [G _]. exact (g_cnt _ _ G). Qed.

Lemma total_zero l : (forall s, In s l -> started s = true -> exited s = true) -> total l = 0.
Proof.
  induction l as [|s l IH]; intros H; cbn; [reflexivity|]. rewrite IH by (intros x Hx; apply H; right; exact Hx).
  unfold live. destruct (started s) eqn:St; cbn; [|reflexivity]. rewrite (H s (or_introl eq_refl) St). reflexivity.
Qed.

Corollary count_returns m c0 t : reachable m c0 t -> (forall s, In s (ss t) -> started s = true -> exited s = true) -> cnt t = c0.
Proof. intros R H. rewrite (count_balanced _ _ _ R), (total_zero _ H). lia. Qed.

(* one exit changes the count by exactly one, nothing else a session does changes it *)
Theorem exit_decrements t i a t' s : step t (On i a) = Some t' -> nth_error (ss t) i = Some s -> Inv1 s ->
  exists s', nth_error (ss t') i = Some s' /\
  cnt t' = cnt t - (if negb (exited s) && exited s' then 1 else 0).
Proof.
  intros H En I. cbn [step] in H. rewrite En in H. destruct (started s) eqn:St; [|discriminate].
  destruct (sess_step s a) as [[s' d]|] eqn:Es; [|discriminate]. inversion H; subst; clear H. cbn.
  exists s'. split; [apply nth_upd_same; apply nth_error_Some; congruence|].
  unfold Inv1 in I. rewrite St in I. destruct (sess_step_inv _ _ _ _ I Es) as [_ [_ F]]. destruct d.
  - destruct F as [A B]. rewrite A, B. reflexivity.
  - rewrite F. destruct (exited s); cbn; lia.
Qed.

(* the count never exceeds the configured maximum when sessions come through the accept loop *)
Theorem count_le_max m t : (exists r ls, run (init m 0 r) ls = Some t /\ forallb not_start ls = true) -> 0 <= cnt t <= Z.max 0 m.
Proof.
  intros (r & ls & H & Hn). destruct (run_ginv 0 ls _ _ (init_ginv m 0 r) H) as [G M]. split.
  - rewrite (g_cnt _ _ G). pose proof (total_nonneg (ss t)). lia.
  - cbn in M. rewrite <- M. apply (run_bound 0 ls (init m 0 r) t (init_ginv m 0 r) (Z.le_refl 0) H Hn). cbn. lia.
Qed.

(* surplus connections are closed on accept and never counted; below the maximum the session starts and is counted *)
Theorem surplus_closed t i t' : step t (Accept i) = Some t' -> maxc t <= cnt t ->
  cnt t' = cnt t /\ ss t' = ss t ++ [rejected] /\ started rejected = false /\ copen rejected = false.
Proof.
  intros H Hf. cbn [step] in H. destruct (Nat.eqb i (length (ss t)) && negb (Nat.eqb (pend t) 0) && aloop (al t) && negb (fdlim (al t))); [|discriminate].
  replace (maxc t <=? cnt t) with true in H by (symmetry; apply Z.leb_le; exact Hf). inversion H; subst. cbn. auto.
Qed.
Theorem accepted_below_max t i t' : step t (Accept i) = Some t' -> cnt t < maxc t ->
  cnt t' = cnt t + 1 /\ ss t' = ss t ++ [fresh Tcp true 0%nat].
Proof.
  intros H Hf. cbn [step] in H. destruct (Nat.eqb i (length (ss t)) && negb (Nat.eqb (pend t) 0) && aloop (al t) && negb (fdlim (al t))); [|discriminate].
  replace (maxc t <=? cnt t) with false in H by (symmetry; apply Z.leb_gt; exact Hf). inversion H; subst. cbn. auto.
Qed.

(* whatever ends it - peer close, read error or timeout, handler error or panic (rcause), a local Close towards a
   reading peer, a payload accepted after a write error or timeout was armed - once the session's goroutines have
   nothing left to do, both have stopped, the callback has run exactly once and the connection is closed *)
Theorem both_loops_stop m c0 t i s : reachable m c0 t -> nth_error (ss t) i = Some s -> started s = true ->
  stable t = true -> must_end s = true ->
  sendl s = false /\ recvl s = false /\ onexit s = 1%nat /\ copen s = false.
Proof.
  intros R En St S M. pose proof (reach_sinv _ _ _ _ _ R En St) as I.
  assert (Q : quiet s = true) by (unfold stable in S; apply andb_prop in S as [_ S]; rewrite forallb_forall in S; apply S; eapply nth_error_In; eauto).
  pose proof (quiet_must_end s I St Q M) as Ex. destruct (quiet_exited s I St Q Ex) as [A B].
  destruct (i_exit_closed s I Ex) as [_ C]. pose proof (i_onexit s I) as D. rewrite Ex in D. auto.
Qed.

(* a send loop still running at quiescence is parked on an open empty queue or blocked in a write nobody reads, with
   no write fault armed: so an armed write error / expired write deadline always ends a session that has data to write *)
Theorem send_loop_at_rest m c0 t i s : reachable m c0 t -> nth_error (ss t) i = Some s -> started s = true ->
  stable t = true -> sendl s = true ->
  (q s = [] /\ qclosed s = false) \/ (has_data (q s) = true /\ peer_reads s = false /\ wfail s = false /\ copen s = true /\ peer_open s = true).
Proof.
  intros R En St S Sl. apply quiet_sendl; auto. unfold stable in S. apply andb_prop in S as [_ S]. rewrite forallb_forall in S. apply S. eapply nth_error_In; eauto.
Qed.

(* flush before a local close: if nothing but Sends (of any payloads, empty ones included) and a local Close happened to the session,
   then at the moment its connection is closed the peer has read every accepted byte, in order *)
Theorem flush_before_local_close m c0 t i s : reachable m c0 t -> nth_error (ss t) i = Some s -> started s = true ->
  clean s = true -> copen s = false -> inbox s = concat (accepted s).
Proof.
  intros R En St Cl Co. pose proof (reach_sinv _ _ _ _ _ R En St) as I.
  destruct (exited s) eqn:Ex; [|rewrite (i_open s I Ex) in Co; discriminate].
  destruct (i_clean s I Cl) as (_ & _ & _ & _ & F). symmetry. exact (F Ex).
Qed.

(* ... and with a reading peer the local Close does end the session, so the flush is complete at quiescence *)
Theorem local_close_flushes m c0 t i s : reachable m c0 t -> nth_error (ss t) i = Some s -> started s = true ->
  stable t = true -> clean s = true -> lclosed s = true -> peer_reads s = true ->
  copen s = false /\ onexit s = 1%nat /\ sendl s = false /\ recvl s = false /\ inbox s = concat (accepted s).
Proof.
  intros R En St S Cl Lc Pr.
  assert (M : must_end s = true) by (unfold must_end; rewrite Lc, Pr; cbn; rewrite orb_true_r; reflexivity).
  destruct (both_loops_stop _ _ _ _ _ R En St S M) as (A & B & C & D).
  repeat split; auto. eapply flush_before_local_close; eauto.
Qed.

(* the peer only ever reads accepted bytes, in the order of acceptance *)
Theorem inbox_in_order m c0 t i s : reachable m c0 t -> nth_error (ss t) i = Some s -> started s = true ->
  exists rest, concat (accepted s) = inbox s ++ rest.
Proof. intros R En St. exact (i_prefix s (reach_sinv _ _ _ _ _ R En St)). Qed.

(* after the exit nothing is accepted any more *)
Theorem no_send_after_exit m c0 t i s bs : reachable m c0 t -> nth_error (ss t) i = Some s -> started s = true ->
  exited s = true -> sess_step s (Send bs true) = None.
Proof.
  intros R En St Ex. pose proof (reach_sinv _ _ _ _ _ R En St) as I. destruct (i_exit_closed s I Ex) as [Qc _].
  unfold sess_step. rewrite Qc. reflexivity.
Qed.

(* every way the read handler can end the receive loop - an error, a panic with any value including nil, Goexit -
   arms the same cause, so at quiescence the session is over (instance of both_loops_stop) *)
Theorem handler_end_kinds m c0 t i s k t' s' : reachable m c0 t -> nth_error (ss t) i = Some s -> started s = true ->
  step t (On i (RecvFault k)) = Some t' -> nth_error (ss t') i = Some s' -> must_end s' = true.
Proof.
  intros R En St H En'. cbn [step] in H. rewrite En, St in H. cbn [sess_step] in H.
  destruct (match k with RErr | RTimeout => true | _ => peer_open s end); [|discriminate].
  inversion H; subst t'; clear H. cbn [ss] in En'.
  rewrite nth_upd_same in En' by (apply nth_error_Some; congruence). inversion En'; subst s'. reflexivity.
Qed.

(* which handler is told about the exit: the one in charge at that moment (Session.rh, else the manager's); when every
   UpdateHandler came before anything that can end the session, that is the last one installed *)
Theorem exit_handler m c0 t i s : reachable m c0 t -> nth_error (ss t) i = Some s -> started s = true ->
  amb (hx s) = false -> exited s = true -> exit_h (hx s) = hid (hx s).
Proof. intros R En St A E. exact (i_amb s (reach_sinv _ _ _ _ _ R En St) A (or_intror E)). Qed.

(* the moment quit reads s.rh is a step of its own (the callback may take a while before the count, the queue and the
   connection change): it records the handler in charge then, and the exit keeps that record *)
Theorem pick_records_current_handler s s' d : sess_step s Pick = Some (s', d) ->
  exit_h (hx s') = hid (hx s) /\ picked (hx s') = true /\ d = false /\ exited s' = exited s /\ qclosed s' = qclosed s /\ copen s' = copen s.
Proof.
  intros H. unfold sess_step in H. destruct (negb (picked (hx s)) && negb (exited s) && can_leave s); [|discriminate].
  inversion H; subst. cbn. repeat split; reflexivity.
Qed.

Theorem quit_keeps_the_pick s s1 d : quit s = (s1, d) -> d = true ->
  exit_h (hx s1) = (if picked (hx s) then exit_h (hx s) else hid (hx s)).
Proof. unfold quit. destruct (exited s); intros H D; inversion H; subst; [discriminate|reflexivity]. Qed.

(* the accept loop: a temporary error of Accept below the retry limit does not end it; it ends only by Server.Close
   or after acceptMaxRetry temporary errors in a row; its errors never touch the count *)
Theorem accept_loop_ends_only c0 t : (exists m r ls, run (init m c0 r) ls = Some t) -> aloop (al t) = false ->
  sclosed (al t) = true \/ (amax (al t) <= aretry (al t))%nat.
Proof. intros (m & r & ls & H) D. destruct (run_ginv c0 ls _ _ (init_ginv m c0 r) H) as [G _]. exact (a_dead _ (g_al _ _ G) D). Qed.

Theorem temporary_error_below_limit t t' : step t AcceptFail = Some t' -> (S (aretry (al t)) < amax (al t))%nat ->
  aloop (al t') = true /\ aretry (al t') = S (aretry (al t)) /\ cnt t' = cnt t /\ ss t' = ss t /\ pend t' = pend t.
Proof.
  intros H L. cbn [step] in H. destruct (negb (Nat.eqb (pend t) 0) && aloop (al t) && fdlim (al t)) eqn:E; [|discriminate].
  apply andb_prop in E as [E _]. apply andb_prop in E as [_ El].
  replace (Nat.leb (amax (al t)) (S (aretry (al t)))) with false in H by (symmetry; apply Nat.leb_gt; exact L).
  inversion H; subst. cbn. auto.
Qed.

Theorem temporary_error_at_limit t t' : step t AcceptFail = Some t' -> (amax (al t) <= S (aretry (al t)))%nat ->
  aloop (al t') = false /\ cnt t' = cnt t /\ ss t' = ss t /\ pend t' = pend t.
Proof.
  intros H L. cbn [step] in H. destruct (negb (Nat.eqb (pend t) 0) && aloop (al t) && fdlim (al t)); [|discriminate].
  replace (Nat.leb (amax (al t)) (S (aretry (al t)))) with true in H by (symmetry; apply Nat.leb_le; exact L).
  inversion H; subst. cbn. auto.
Qed.

(* ---- non-vacuity ---- *)
Example demo_flush : exists t s, run (init 0 0 3)
    [Start 0 Pipe true 0; On 0 (Send [1;2] true); On 0 (Send [3] true); On 0 LocalClose; On 0 SendStep; On 0 SendStep; On 0 SendStep; On 0 RecvEnd] = Some t
  /\ nth_error (ss t) 0 = Some s /\ stable t = true /\ clean s = true /\ lclosed s = true /\ inbox s = [1;2;3] /\ onexit s = 1%nat /\ cnt t = 0.
Proof. eexists. eexists. split; [vm_compute; reflexivity|]. vm_compute. repeat split; reflexivity. Qed.

Example demo_race : exists t s, run (init 0 0 3)
    [Start 0 Tcp true 0; On 0 (Send [7] true); On 0 (RecvFault RPanic); On 0 LocalClose; On 0 RecvEnd; On 0 SendStep] = Some t
  /\ nth_error (ss t) 0 = Some s /\ stable t = true /\ must_end s = true /\ inbox s = [] /\ onexit s = 1%nat /\ cnt t = 0.
Proof. eexists. eexists. split; [vm_compute; reflexivity|]. vm_compute. repeat split; reflexivity. Qed.

Example demo_accept : exists t, run (init 2 0 3)
    [Arrive 0; Arrive 1; Arrive 2; Accept 0; Accept 1; Accept 2; On 0 PeerClose; On 0 RecvEnd; On 0 SendStep; Arrive 3; Arrive 4; Accept 3; Accept 4] = Some t
  /\ cnt t = 2 /\ map started (ss t) = [true; true; false; true; false].
Proof. eexists. split; [vm_compute; reflexivity|]. vm_compute. split; reflexivity. Qed.

(* a zero-length payload is popped and skipped: the session stays up and what is queued behind it is written *)
Example demo_handler : exists t s, run (init 0 0 3)
    [Start 0 Pipe true 1; On 0 (SetHandler 2); On 0 LocalClose; On 0 SendStep; On 0 RecvEnd; On 0 (SetHandler 3)] = Some t
  /\ nth_error (ss t) 0 = Some s /\ stable t = true /\ onexit s = 1%nat /\ exit_h (hx s) = 2%nat /\ hid (hx s) = 3%nat.
Proof. eexists. eexists. split; [vm_compute; reflexivity|]. vm_compute. repeat split; reflexivity. Qed.

Example demo_accept_errors : exists t, run (init 1 0 2)
    [FdExhaust; Arrive 0; AcceptFail; FdRestore; Accept 0; FdExhaust; Arrive 1; AcceptFail; AcceptFail] = Some t
  /\ stable t = true /\ cnt t = 1 /\ pend t = 1%nat /\ aloop (al t) = false /\ length (ss t) = 1%nat.
Proof. eexists. split; [vm_compute; reflexivity|]. vm_compute. repeat split; reflexivity. Qed.

Example empty_payload_skipped : exists t s, run (init 0 0 3)
    [Start 0 Pipe true 0; On 0 (Send [1] true); On 0 (Send [] true); On 0 (Send [2] true); On 0 LocalClose;
     On 0 SendStep; On 0 SendStep; On 0 SendStep; On 0 SendStep; On 0 RecvEnd] = Some t
  /\ nth_error (ss t) 0 = Some s /\ stable t = true /\ accepted s = [[1]; []; [2]] /\ inbox s = [1; 2] /\ onexit s = 1%nat /\ clean s = true.
Proof. eexists. eexists. split; [vm_compute; reflexivity|]. vm_compute. repeat split; reflexivity. Qed.

(* the send loop before repair 225387c violates the flush clause: only Sends and a local Close were issued, the peer
   reads, the session is over at quiescence - and the payload accepted behind the zero-length one was never written *)
Theorem prefix_flush_refuted : exists t s, run_prefix (init 0 0 3)
    [Start 0 Pipe true 0; On 0 (Send [1] true); On 0 (Send [] true); On 0 (Send [2] true); On 0 LocalClose;
     On 0 SendStep; On 0 SendStep; On 0 RecvEnd] = Some t
  /\ nth_error (ss t) 0 = Some s /\ stable t = true /\ clean s = true /\ lclosed s = true /\ peer_reads s = true /\ copen s = false
  /\ accepted s = [[1]; []; [2]] /\ inbox s = [1] /\ inbox s <> concat (accepted s).
Proof. eexists. eexists. split; [vm_compute; reflexivity|]. vm_compute. repeat split; try reflexivity. discriminate. Qed.
