(* C04: the wide caches.  Every shard of WideLRUCache is a single LRUCache of capacity capacity/shards+1 fed the
   sub-history routed to it (instance of Shard.sharded_projection, any routing function, any shard count);
   the family of machine-level shards refines the family of ideal LRUs on every history. *)
From Coq Require Import ZArith List Lia Bool.
Require Import LRU Shard LRUOps C04_Model C04_Refine.
Import ListNotations.
Open Scope Z_scope.

Definition wstepf (v : variant) : lru -> wop -> lru * gout := fun s o => mstep v s (to_op o).
Definition iwstepf (v : variant) : istate -> wop -> istate * res := fun s o => istep s (norm v (to_op o)).

Definition wrel (v : variant) (sh : wstate) (ish : iwstate) : Prop := forall i, MInv v (sh i) /\ abs (sh i) = ish i.
Definition wop_dom (o : wop) : Prop := op_dom (to_op o).

Theorem wide_step_refines v route sh ish o : wrel v sh ish -> wop_dom o ->
  snd (wide_step v route sh o) = Some (snd (iwide_step v route ish o)) /\
  wrel v (fst (wide_step v route sh o)) (fst (iwide_step v route ish o)).
Proof.
  intros HR [Hok Hfit]. unfold wide_step, iwide_step, sh_step. cbn [fst snd].
  set (i := route (wkey o)). destruct (HR i) as [HI HA].
  destruct (mstep_refines v (sh i) (to_op o) HI Hok Hfit) as (A & R & I).
  rewrite HA in A, R. split; [exact R|].
  intros j. unfold upd. destruct (Nat.eqb j i) eqn:Ej.
  - split; [exact I|exact A].
  - apply HR.
Qed.

Fixpoint wide_run (v : variant) (route : Z -> nat) (sh : wstate) (h : list wop) : wstate * list gout :=
  match h with
  | [] => (sh, [])
  | o :: r => let '(s1, x) := wide_step v route sh o in let '(s2, xs) := wide_run v route s1 r in (s2, x :: xs)
  end.
Fixpoint iwide_run (v : variant) (route : Z -> nat) (ish : iwstate) (h : list wop) : iwstate * list res :=
  match h with
  | [] => (ish, [])
  | o :: r => let '(s1, x) := iwide_step v route ish o in let '(s2, xs) := iwide_run v route s1 r in (s2, x :: xs)
  end.

Theorem wide_refines_ideal v route h : forall sh ish, wrel v sh ish -> Forall wop_dom h ->
  snd (wide_run v route sh h) = map Some (snd (iwide_run v route ish h)) /\
  wrel v (fst (wide_run v route sh h)) (fst (iwide_run v route ish h)).
Proof.
  induction h as [|o h IH]; intros sh ish HR Hd; [cbn; auto|].
  inversion Hd as [|? ? Ho Hd']; subst. destruct (wide_step_refines v route sh ish o HR Ho) as (R & HR1).
  cbn [wide_run iwide_run]. destruct (wide_step v route sh o) as [s1 x]. destruct (iwide_step v route ish o) as [i1 y].
  cbn [fst snd] in R, HR1. subst x. destruct (IH s1 i1 HR1 Hd') as (R' & HR2).
  destruct (wide_run v route s1 h) as [s2 xs]. destruct (iwide_run v route i1 h) as [i2 ys]. cbn [fst snd map] in *.
  split; [now rewrite R'|exact HR2].
Qed.

(* ---------------- the per-shard capacity ---------------- *)
Lemma shard_cap_range capacity n : 1 <= n -> 0 <= capacity -> 1 <= shard_cap capacity n <= capacity + 1.
Proof.
  intros Hn Hc. unfold shard_cap. rewrite Z.quot_div_nonneg by lia.
  pose proof (Z.div_pos capacity n Hc ltac:(lia)) as H0.
  assert (capacity / n <= capacity) by (apply Z.div_le_upper_bound; nia). lia.
Qed.

Definition wide_dom (capacity n : Z) : Prop := 1 <= n /\ 0 <= capacity /\ capacity < B.

Lemma wide_init_rel v capacity n : wide_dom capacity n -> wrel v (wide_init capacity n) (iwide_init capacity n).
Proof.
  intros (Hn & Hc & Hb) i. pose proof (shard_cap_range capacity n Hn Hc) as Hr.
  split; [apply new_MInv; lia|reflexivity].
Qed.

Definition icap (s : istate) : Z := snd (fst s).
Lemma istep_cap_wop v s o : icap (fst (iwstepf v s o)) = icap s.
Proof.
  destruct s as [[l cp] ev]. unfold iwstepf, icap.
  destruct o as [k|k|k|k x sz|k]; destruct v; cbn [to_op norm unit_op istep settle fst snd]; try reflexivity;
    destruct (lookup k l); reflexivity.
Qed.

Lemma iwide_cap v route cp h : forall ish, (forall i, icap (ish i) = cp) -> forall i, icap (fst (iwide_run v route ish h) i) = cp.
Proof.
  induction h as [|o h IH]; intros ish H i; [apply H|].
  cbn [iwide_run]. destruct (iwide_step v route ish o) as [i1 y] eqn:E1. destruct (iwide_run v route i1 h) as [i2 ys] eqn:E2.
  cbn [fst]. change i2 with (fst (i2, ys)). rewrite <- E2. apply IH.
  intros j. unfold iwide_step, sh_step in E1. inversion E1; subst. unfold upd.
  destruct (Nat.eqb j (route (wkey o))); [|apply H].
  change (icap (fst (iwstepf v (ish (route (wkey o))) o)) = cp). rewrite istep_cap_wop. apply H.
Qed.

(* after every history every shard holds distinct keys whose sizes add up to the running size <= capacity/shards + 1 *)
Theorem wide_shard_bound v route capacity n h i : wide_dom capacity n -> Forall wop_dom h ->
  let c := fst (wide_run v route (wide_init capacity n) h) i in
  size c = total (lst c) /\ size c <= cap c /\ cap c = shard_cap capacity n /\ NoDup (map keyof (lst c)).
Proof.
  intros Hd Hh. destruct (wide_refines_ideal v route h _ _ (wide_init_rel v capacity n Hd) Hh) as (_ & HR).
  cbn zeta. destruct (HR i) as [HI HA]. pose proof (MInv_Inv _ _ HI) as (Hs & _ & Hnd & _ & Hle).
  pose proof (iwide_cap v route (shard_cap capacity n) h (iwide_init capacity n) (fun _ => eq_refl) i) as Hc.
  rewrite <- HA in Hc. unfold icap, abs in Hc. cbn [fst snd] in Hc.
  rewrite Hs. auto.
Qed.

(* ---------------- shard i = a single cache fed the operations routed to i ---------------- *)
Lemma wide_run_sh_run v route h : forall sh, fst (wide_run v route sh h) = sh_run Z lru wop gout wkey (wstepf v) route sh h.
Proof.
  induction h as [|o h IH]; intros sh; [reflexivity|].
  cbn [wide_run sh_run fold_left]. destruct (wide_step v route sh o) as [s1 x] eqn:E1.
  destruct (wide_run v route s1 h) as [s2 xs] eqn:E2. cbn [fst].
  change s2 with (fst (s2, xs)). rewrite <- E2, IH. unfold sh_run. f_equal.
  unfold wide_step in E1. fold (wstepf v) in E1. rewrite E1. reflexivity.
Qed.
Lemma iwide_run_sh_run v route h : forall ish, fst (iwide_run v route ish h) = sh_run Z istate wop res wkey (iwstepf v) route ish h.
Proof.
  induction h as [|o h IH]; intros ish; [reflexivity|].
  cbn [iwide_run sh_run fold_left]. destruct (iwide_step v route ish o) as [s1 x] eqn:E1.
  destruct (iwide_run v route s1 h) as [s2 xs] eqn:E2. cbn [fst].
  change s2 with (fst (s2, xs)). rewrite <- E2, IH. unfold sh_run. f_equal.
  unfold iwide_step in E1. fold (iwstepf v) in E1. rewrite E1. reflexivity.
Qed.

Lemma run_state_mrun v h : forall c, run_state lru wop gout (wstepf v) c h = fst (mrun v c (map to_op h)).
Proof.
  induction h as [|o h IH]; intros c; [reflexivity|].
  cbn [run_state fold_left map mrun]. unfold wstepf at 2. destruct (mstep v c (to_op o)) as [c1 x]. cbn [fst].
  destruct (mrun v c1 (map to_op h)) as [c2 xs] eqn:E. cbn [fst]. change c2 with (fst (c2, xs)). rewrite <- E. apply IH.
Qed.
Lemma run_state_irun v h : forall s, run_state istate wop res (iwstepf v) s h = fst (irun s (map (fun o => norm v (to_op o)) h)).
Proof.
  induction h as [|o h IH]; intros s; [reflexivity|].
  cbn [run_state fold_left map irun]. unfold iwstepf at 2. destruct (istep s (norm v (to_op o))) as [s1 x]. cbn [fst].
  destruct (irun s1 (map (fun o => norm v (to_op o)) h)) as [s2 xs] eqn:E. cbn [fst]. change s2 with (fst (s2, xs)). rewrite <- E. apply IH.
Qed.

(* for any routing function and any shard count *)
Theorem wide_shard_is_single v route capacity n h i :
  fst (wide_run v route (wide_init capacity n) h) i =
  fst (mrun v (new_lru (shard_cap capacity n)) (map to_op (sub Z wop wkey route i h))).
Proof. rewrite wide_run_sh_run. unfold wide_init. rewrite sharded_projection. apply run_state_mrun. Qed.

Theorem iwide_shard_is_single v route capacity n h i :
  fst (iwide_run v route (iwide_init capacity n) h) i =
  fst (irun (new_istate (shard_cap capacity n)) (map (fun o => norm v (to_op o)) (sub Z wop wkey route i h))).
Proof. rewrite iwide_run_sh_run. unfold iwide_init. rewrite sharded_projection. apply run_state_irun. Qed.

(* the routing of an int64 key through SimpleIndex lands inside [0, shards) *)
Lemma route_simple_range n k : 1 <= n -> (route_simple n k < Z.to_nat n)%nat.
Proof.
  intros Hn. unfold route_simple. pose proof (Z.mod_pos_bound (k mod P64) n ltac:(lia)). lia.
Qed.

Print Assumptions wide_refines_ideal.
Print Assumptions wide_shard_is_single.
