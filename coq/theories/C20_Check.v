(* C20: what the driver evaluates on every observed case.
   case_accept = the implementation did exactly what the model (C20_Model.v) does on this input, on every path that
   delivered the token; case_holds = the property's clauses on the observation alone (exact-or-error against the
   independent reading `reads`, round trip, SQL forms); case_sound is proved through the model theorems. *)
From Coq Require Import List Bool ZArith.
Require Export C20_Spec.
Require Import C20_Proofs.
Import ListNotations.

Definition case := C20_Spec.case.
Definition case_accept (c : case) : bool := accept c.
Definition case_holds (c : case) : bool := holds c.

Theorem case_sound : forall c, case_accept c = true -> case_holds c = true.
Proof. exact accept_sound. Qed.
