(* shared by C01 (one semaphore per key), C14 (one lane per slot), C13 (one queue per lane): a family of independent
   copies of one labelled transition system, indexed by a key.  Every reachable state of the family is, key by key,
   a reachable state of the single system under the labels addressed to that key; invariants lift *)
From Coq Require Import List Bool Arith.
Import ListNotations.

Section Product.
Variables S L : Type.
Variable step : S -> L -> option S.
Variable init : S.

Definition run1 (s : S) (ls : list L) : option S :=
  fold_left (fun o l => match o with Some s => step s l | None => None end) ls (Some s).

Definition upd (f : nat -> S) (k : nat) (v : S) : nat -> S := fun x => if Nat.eqb x k then v else f x.
(* a label of the family names the component it belongs to; the other components do not move *)
Definition pstep (f : nat -> S) (kl : nat * L) : option (nat -> S) :=
  match step (f (fst kl)) (snd kl) with Some s' => Some (upd f (fst kl) s') | None => None end.
Definition prun (f : nat -> S) (ls : list (nat * L)) : option (nat -> S) :=
  fold_left (fun o l => match o with Some f => pstep f l | None => None end) ls (Some f).

Definition sub (k : nat) (ls : list (nat * L)) : list L := map snd (filter (fun kl => Nat.eqb (fst kl) k) ls).

Lemma fold_none {A B} (g : option A -> B -> option A) (Hg : forall b, g None b = None) l : fold_left g l None = None.
Proof. induction l as [|b l IH]; [reflexivity|]. cbn [fold_left]. rewrite Hg. exact IH. Qed.

Theorem projection k : forall ls f f', prun f ls = Some f' -> run1 (f k) (sub k ls) = Some (f' k).
Proof.
  induction ls as [|[k0 l] ls IH]; intros f f' H.
  - cbn in H. inversion H; subst. reflexivity.
  - unfold prun in H. cbn [fold_left] in H. unfold pstep at 2 in H. cbn [fst snd] in H.
    destruct (step (f k0) l) as [s'|] eqn:E.
    + fold (prun (upd f k0 s') ls) in H. specialize (IH _ _ H).
      unfold sub. cbn [filter fst]. rewrite Nat.eqb_sym. destruct (Nat.eqb k k0) eqn:Ek.
      * apply Nat.eqb_eq in Ek. subst k0. cbn [map snd]. unfold run1. cbn [fold_left]. rewrite E.
        unfold run1, sub in IH. unfold upd in IH at 1. rewrite Nat.eqb_refl in IH. exact IH.
      * unfold run1, sub in IH. unfold upd in IH at 1. rewrite Ek in IH. exact IH.
    + rewrite fold_none in H by reflexivity. discriminate.
Qed.

(* an invariant of the single system holds, key by key, in every reachable state of the family *)
Variable Inv : S -> Prop.
Hypothesis inv_init : Inv init.
Hypothesis inv_step : forall s l s', Inv s -> step s l = Some s' -> Inv s'.

Lemma run1_inv : forall ls s s', Inv s -> run1 s ls = Some s' -> Inv s'.
Proof.
  unfold run1. induction ls as [|l ls IH]; intros s s' Hs H; cbn [fold_left] in H.
  - inversion H; subst. exact Hs.
  - destruct (step s l) as [s1|] eqn:E; [apply (IH s1 s' (inv_step s l s1 Hs E) H)|].
    rewrite fold_none in H by reflexivity. discriminate.
Qed.

Theorem family_inv ls f' : prun (fun _ => init) ls = Some f' -> forall k, Inv (f' k).
Proof. intros H k. apply (run1_inv (sub k ls) init (f' k) inv_init). apply (projection k ls (fun _ => init) f' H). Qed.

(* components that receive no label stay in their initial state: no residue under keys nobody uses *)
Lemma sub_none k ls : (forall l, ~ In (k, l) ls) -> sub k ls = [].
Proof.
  induction ls as [|[k0 l] ls IH]; intros Hno; [reflexivity|]. unfold sub in *. cbn [filter fst].
  destruct (Nat.eqb k0 k) eqn:Ek.
  - apply Nat.eqb_eq in Ek. subst k0. exfalso. apply (Hno l). left. reflexivity.
  - apply IH. intros l' Hin. apply (Hno l'). right. exact Hin.
Qed.
Theorem untouched ls f' k : prun (fun _ => init) ls = Some f' -> (forall l, ~ In (k, l) ls) -> f' k = init.
Proof.
  intros H Hno. pose proof (projection k ls (fun _ => init) f' H) as P. rewrite (sub_none k ls Hno) in P.
  cbn in P. inversion P. reflexivity.
Qed.
End Product.

Print Assumptions projection.
Print Assumptions family_inv.
