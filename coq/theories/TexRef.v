(* C11: the abstract contract of bytes.Buffer (unread contents + the byte a successful read consumed last)
   and the proof that the concrete model of tex.Buffer refines it on every history that does not issue
   UnreadByte directly after Grow *)
From Coq Require Import ZArith List Lia Bool Arith.
Import ListNotations.
Require Import TexModel.

Record spec := { un : list Z; lastb : option Z }.
Definition mk (u : list Z) (l : option Z) : spec := {| un := u; lastb := l |}.
Definition last_of (k : nat) (u : list Z) : option Z := match k with O => None | S j => nth_error u j end.

Definition sstep (s : spec) (o : op) : spec * obs :=
  match o with
  | Write p => (mk (un s ++ p) None, tag (Z.of_nat (length p)) [])
  | WriteByte c => (mk (un s ++ [c]) None, tag 0%Z [])
  | Read n =>
      if Nat.eqb (length (un s)) 0 then (mk [] None, tag (if Nat.eqb n 0 then 0%Z else 901%Z) [])
      else let k := Nat.min n (length (un s)) in
           (mk (skipn k (un s)) (last_of k (un s)), tag (Z.of_nat k) (firstn k (un s)))
  | ReadByte =>
      if Nat.eqb (length (un s)) 0 then (mk [] None, tag 901%Z [])
      else (mk (skipn 1 (un s)) (last_of 1 (un s)), tag 0%Z (firstn 1 (un s)))
  | Next n =>
      if (n <? 0)%Z then (mk (un s) None, tag 900%Z [])
      else let k := Nat.min (Z.to_nat n) (length (un s)) in
           (mk (skipn k (un s)) (last_of k (un s)), tag 0%Z (firstn k (un s)))
  | UnreadByte =>
      match lastb s with
      | None => (s, tag 902%Z [])
      | Some c => (mk (c :: un s) None, tag 0%Z [])
      end
  | Truncate n =>
      if (n =? 0)%Z then (mk [] None, tag 0%Z [])
      else if (n <? 0)%Z || (Z.of_nat (length (un s)) <? n)%Z then (mk (un s) None, tag 900%Z [])
      else (mk (firstn (Z.to_nat n) (un s)) None, tag 0%Z [])
  | Reset => (mk [] None, tag 0%Z [])
  | Grow n => if (n <? 0)%Z then (s, tag 900%Z []) else (s, tag 0%Z [])
  end.

(* ---- the simulation relation ---- *)
Definition Inv (b : buf) : Prop :=
  off b <= length (bytes b) /\ length (bytes b) <= cap b /\ (isnil b = true -> bytes b = [] /\ cap b = 0).
Definition Rl (b : buf) (s : spec) : Prop :=
  match lastb s with
  | None => lastr b = 0%Z
  | Some c => lastr b <> 0%Z /\ 1 <= off b /\ nth_error (bytes b) (off b - 1) = Some c
  end.
(* g = the previous operation was Grow: then only the contents are related *)
Definition R (g : bool) (b : buf) (s : spec) : Prop := Inv b /\ live b = un s /\ (g = false -> Rl b s).
Definition is_grow (o : op) : bool := match o with Grow _ => true | _ => false end.

(* ---- list facts ---- *)
Lemma nth_error_skipn {A} (l : list A) n i : nth_error (skipn n l) i = nth_error l (n + i).
Proof. revert l; induction n as [|n IH]; intros l; [reflexivity|]. destruct l as [|a l]; [destruct i; reflexivity|]. cbn [skipn plus nth_error]. apply IH. Qed.
Lemma skipn_add {A} (l : list A) n k : skipn k (skipn n l) = skipn (n + k) l.
Proof. revert l; induction n as [|n IH]; intros l; [reflexivity|]. destruct l as [|a l]; [rewrite !skipn_nil; reflexivity|]. cbn [skipn plus]. apply IH. Qed.
Lemma skipn_cons_nth {A} (l : list A) i c : nth_error l i = Some c -> skipn i l = c :: skipn (S i) l.
Proof. revert l; induction i as [|i IH]; intros l H; destruct l as [|a l]; try discriminate.
  - cbn in H. injection H as ->. reflexivity.
  - cbn [nth_error] in H. change (skipn (S i) (a :: l)) with (skipn i l). change (skipn (S (S i)) (a :: l)) with (skipn (S i) l). apply IH, H. Qed.
Lemma skipn_app_le {A} (l r : list A) n : n <= length l -> skipn n (l ++ r) = skipn n l ++ r.
Proof. intros H. rewrite skipn_app. replace (n - length l) with 0 by lia. reflexivity. Qed.
Lemma skipn_none {A} (l : list A) n : length l <= n -> skipn n l = [].
Proof. apply skipn_all2. Qed.
Lemma live_len b : length (live b) = blen b.
Proof. unfold live, blen. apply skipn_length. Qed.
Lemma zeros_len n : length (zeros n) = n.
Proof. apply repeat_length. Qed.

(* ---- every grow path keeps the unread bytes ---- *)
Definition grow_post (b b1 : buf) (m n : nat) : Prop :=
  Inv b1 /\ length (bytes b1) = m + n /\ off b1 <= m /\ skipn (off b1) (firstn m (bytes b1)) = live b
  /\ (lastr b1 = lastr b \/ lastr b1 = 0%Z).

Lemma reslice_post b n : Inv b -> n <= cap b - length (bytes b) ->
  grow_post b {| bytes := bytes b ++ zeros n; off := off b; lastr := lastr b; cap := cap b; isnil := isnil b |} (length (bytes b)) n.
Proof.
  intros (Ho & Hc & Hn) Hle. unfold grow_post, Inv; cbn [bytes off lastr cap isnil].
  rewrite app_length, zeros_len, firstn_app, Nat.sub_diag, firstn_all. cbn [firstn]. rewrite app_nil_r.
  repeat split; try lia; auto.
  - destruct (Hn H) as [-> E]. cbn in *. assert (n = 0) by lia. subst n. reflexivity.
  - apply Hn, H.
Qed.

Lemma moved_post b n c nl : Inv b -> blen b + n <= c -> (nl = true -> blen b + n = 0 /\ c = 0) ->
  grow_post b {| bytes := live b ++ zeros n; off := 0; lastr := lastr b; cap := c; isnil := nl |} (blen b) n.
Proof.
  intros (Ho & Hc & Hn) Hle Hnl. unfold grow_post, Inv; cbn [bytes off lastr cap isnil].
  rewrite app_length, zeros_len, live_len, firstn_app, live_len, Nat.sub_diag. cbn [firstn skipn]. rewrite app_nil_r, <- live_len, firstn_all, live_len.
  repeat split; try lia; auto.
  - destruct (Hnl H) as [E _]. apply length_zero_iff_nil. rewrite app_length, zeros_len, live_len. exact E.
  - apply Hnl, H.
Qed.

Lemma grow_spec b n b1 m : Inv b -> grow b n = (b1, m) -> grow_post b b1 m n.
Proof.
  intros HI. unfold grow.
  set (b' := if Nat.eqb (blen b) 0 && negb (Nat.eqb (off b) 0) then reset b else b).
  assert (HI' : Inv b').
  { subst b'. destruct (Nat.eqb (blen b) 0 && negb (Nat.eqb (off b) 0)); [|exact HI].
    destruct HI as (Ho & Hc & Hn). unfold Inv, reset; cbn [bytes off cap isnil length]. repeat split; try lia.
    apply Hn, H. }
  assert (Hlive : live b' = live b /\ blen b' = blen b /\ (lastr b' = lastr b \/ lastr b' = 0%Z)).
  { subst b'. destruct (Nat.eqb (blen b) 0 && negb (Nat.eqb (off b) 0)) eqn:E; [|auto].
    apply andb_prop in E. destruct E as [E _]. apply Nat.eqb_eq in E.
    unfold reset, live, blen in *; cbn [bytes off lastr length skipn]. split; [|split; [lia|auto]].
    symmetry. apply skipn_none. destruct HI as (Ho & _). lia. }
  destruct Hlive as (Hl & Hb & Hr).
  assert (Hcap : cap b' = cap b /\ isnil b' = isnil b).
  { subst b'. destruct (Nat.eqb (blen b) 0 && negb (Nat.eqb (off b) 0)); auto. }
  clearbody b'.
  assert (T : forall x k, grow_post b' x k n -> grow_post b x k n).
  { intros x k (A & B & C & D & E). unfold grow_post. rewrite <- Hl. split; [exact A|split; [exact B|split; [exact C|split; [exact D|]]]]. destruct E as [E|E]; [destruct Hr as [F|F]; [left|right]; congruence | right; exact E]. }
  destruct (Nat.leb n (cap b' - length (bytes b'))) eqn:E1.
  { intros H; inversion H; subst. apply T, reslice_post; [exact HI'|]. apply Nat.leb_le, E1. }
  apply Nat.leb_gt in E1.
  destruct (isnil b' && Nat.leb n 64) eqn:E2.
  { intros H; inversion H; subst. apply T. apply andb_prop in E2. destruct E2 as [E2 E3]. apply Nat.leb_le in E3.
    destruct HI' as (Ho & Hc & Hn). destruct (Hn E2) as [Hb0 Hc0].
    unfold grow_post, Inv; cbn [bytes off lastr cap isnil firstn skipn]. rewrite zeros_len.
    unfold live. rewrite Hb0. rewrite skipn_nil. repeat split; try lia; try discriminate; auto. }
  rewrite <- Hb.
  destruct (Nat.leb n (cap b' / 2 - blen b')) eqn:E3.
  { intros H; inversion H; subst. apply T. apply moved_post; [exact HI'| |].
    - apply Nat.leb_le in E3. destruct HI' as (Ho & Hc & Hn). unfold blen in *.
      assert (cap b' / 2 * 2 <= cap b') by (rewrite Nat.mul_comm; apply Nat.mul_div_le; lia). lia.
    - intros Hn'. rewrite Hn' in E2. cbn in E2. apply Nat.leb_gt in E2.
      destruct HI' as (Ho & Hc & Hn). destruct (Hn Hn') as [Hb0 Hc0]. rewrite Hc0 in E3. apply Nat.leb_le in E3. cbn in E3. lia. }
  intros H; inversion H; subst. apply T. apply moved_post; [exact HI'| |discriminate].
  destruct HI' as (Ho & Hc & Hn). unfold blen. lia.
Qed.

Lemma grow_for_write_spec b n b1 m : Inv b -> grow_for_write b n = (b1, m) -> grow_post b b1 m n.
Proof.
  intros HI. unfold grow_for_write. destruct (Nat.leb n (cap b - length (bytes b))) eqn:E.
  - intros H; inversion H; subst. apply reslice_post; [exact HI|]. apply Nat.leb_le, E.
  - apply grow_spec, HI.
Qed.

(* ---- consequences used by the step lemma ---- *)
Lemma Inv_set_last b v : Inv (set_last b v) <-> Inv b.
Proof. reflexivity. Qed.

Lemma write_sim b s p b1 m : Inv b -> live b = un s -> lastr b = 0%Z -> grow_for_write b (length p) = (b1, m) ->
  R false (write_at b1 m p) (mk (un s ++ p) None).
Proof.
  intros HI Hl Hr Hg. destruct (grow_for_write_spec _ _ _ _ HI Hg) as ((Ho & Hc & Hn) & Hlen & Hom & Hk & Hlr).
  assert (Hfl : length (firstn m (bytes b1)) = m) by (rewrite firstn_length; lia).
  unfold R, Inv, Rl, write_at, live; cbn [bytes off lastr cap isnil un lastb mk].
  rewrite app_length, Hfl. split; [split; [lia|split; [lia|]]|split].
  - intros Hnil. destruct (Hn Hnil) as [E1 E2]. rewrite E1 in *. cbn in Hlen. assert (length p = 0) by lia.
    rewrite firstn_nil. destruct p; [auto|discriminate].
  - rewrite skipn_app_le by lia. rewrite Hk, Hl. reflexivity.
  - intros _. destruct Hlr as [E|E]; congruence.
Qed.

Lemma consume_sim b s k v : Inv b -> live b = un s -> k <= blen b -> v <> 0%Z -> 1 <= k ->
  R false (set_off b (off b + k) v) (mk (skipn k (un s)) (last_of k (un s))).
Proof.
  intros (Ho & Hc & Hn) Hl Hk Hv Hk1. unfold R, Inv, Rl, set_off, live, blen in *; cbn [bytes off lastr cap isnil un lastb mk].
  split; [split; [lia|split; [lia|exact Hn]]|split].
  - rewrite <- Hl, skipn_add. reflexivity.
  - intros _. destruct k as [|j]; [lia|]. cbn [last_of]. rewrite <- Hl, nth_error_skipn.
    destruct (nth_error (bytes b) (off b + j)) as [c|] eqn:E.
    + split; [exact Hv|split; [lia|]]. rewrite <- E. f_equal. lia.
    + apply nth_error_None in E. lia.
Qed.

Lemma consume0_sim b s : Inv b -> live b = un s ->
  R false (set_off b (off b + 0) 0%Z) (mk (skipn 0 (un s)) (last_of 0 (un s))).
Proof.
  intros HI Hl. unfold R, Rl, set_off, live in *; cbn [bytes off lastr cap isnil un lastb mk last_of skipn].
  rewrite Nat.add_0_r. split; [exact HI|split; [exact Hl|reflexivity]].
Qed.

Lemma reset_sim b : Inv b -> R false (reset b) (mk [] None).
Proof.
  intros (Ho & Hc & Hn). unfold R, Inv, Rl, reset, live; cbn [bytes off lastr cap isnil un lastb mk length skipn].
  split; [split; [lia|split; [lia|]]|split; reflexivity].
  intros H. split; [reflexivity|apply Hn, H].
Qed.

Lemma weaken g b s : R false b s -> R g b s.
Proof. intros (A & B & C). split; [exact A|split; [exact B|intros _; apply C; reflexivity]]. Qed.

(* ---- one step ---- *)
Lemma step_sim g b s o : R g b s -> (g = true -> o <> UnreadByte) ->
  fst (snd (step b o), snd (sstep s o)) = snd (snd (step b o), snd (sstep s o)) /\
  R (is_grow o) (fst (step b o)) (fst (sstep s o)).
Proof.
  intros (HI & Hl & HR) Hex.
  assert (Hlen : length (un s) = blen b) by (rewrite <- Hl; apply live_len).
  destruct o as [p|c|n| |n| |n| |n]; cbn [step sstep is_grow fst snd].
  - (* Write *)
    destruct (grow_for_write (set_last b 0%Z) (length p)) as [b1 m] eqn:Eg. cbn [fst snd]. split; [reflexivity|].
    apply (write_sim (set_last b 0%Z) s p b1 m); [exact HI | exact Hl | reflexivity | exact Eg].
  - (* WriteByte *)
    destruct (grow_for_write (set_last b 0%Z) 1) as [b1 m] eqn:Eg. cbn [fst snd]. split; [reflexivity|].
    apply (write_sim (set_last b 0%Z) s [c] b1 m); [exact HI | exact Hl | reflexivity | exact Eg].
  - (* Read *)
    change (blen (set_last b 0%Z)) with (blen b). rewrite Hlen.
    destruct (Nat.eqb (blen b) 0) eqn:E; cbn [fst snd].
    + split; [reflexivity|]. apply reset_sim, HI.
    + apply Nat.eqb_neq in E. change (off (set_last b 0%Z)) with (off b). change (live (set_last b 0%Z)) with (live b).
      rewrite Hl. split; [reflexivity|].
      destruct (Nat.eqb (Nat.min n (blen b)) 0) eqn:E0.
      * apply Nat.eqb_eq in E0. rewrite E0. apply (consume0_sim (set_last b 0%Z) s); auto.
      * apply Nat.eqb_neq in E0. apply (consume_sim (set_last b 0%Z) s); auto; try lia. change (blen (set_last b 0%Z)) with (blen b). lia.
  - (* ReadByte *)
    rewrite Hlen. destruct (Nat.eqb (blen b) 0) eqn:E; cbn [fst snd].
    + split; [reflexivity|]. apply reset_sim, HI.
    + apply Nat.eqb_neq in E. rewrite Hl. split; [reflexivity|].
      replace (S (off b)) with (off b + 1) by lia. apply consume_sim; auto; try lia.
  - (* Next *)
    destruct (n <? 0)%Z; cbn [fst snd].
    + split; [reflexivity|]. split; [exact HI|split; [exact Hl|intros _; reflexivity]].
    + rewrite Hlen, Hl. split; [reflexivity|].
      destruct (Nat.eqb (Nat.min (Z.to_nat n) (blen b)) 0) eqn:E0.
      * apply Nat.eqb_eq in E0. rewrite E0. apply consume0_sim; auto.
      * apply Nat.eqb_neq in E0. apply consume_sim; auto; try lia.
  - (* UnreadByte *)
    destruct g; [exfalso; apply (Hex eq_refl); reflexivity|]. specialize (HR eq_refl). unfold Rl in HR.
    destruct (lastb s) as [c|] eqn:El.
    + destruct HR as (Hv & Ho1 & Hn). apply Z.eqb_neq in Hv. rewrite Hv. cbn [fst snd]. split; [reflexivity|].
      destruct (Nat.eqb (off b) 0) eqn:E0; [apply Nat.eqb_eq in E0; lia|].
      destruct HI as (Ho & Hc & Hnil). unfold R, Inv, Rl, set_off, live in *; cbn [bytes off lastr cap isnil un lastb mk].
      split; [split; [lia|split; [lia|exact Hnil]]|split; [|intros _; reflexivity]].
      rewrite (skipn_cons_nth _ _ _ Hn). replace (S (off b - 1)) with (off b) by lia. rewrite Hl. reflexivity.
    + rewrite HR. cbn [Z.eqb fst snd]. split; [reflexivity|]. split; [exact HI|split; [exact Hl|intros _; unfold Rl; rewrite El; exact HR]].
  - (* Truncate *)
    destruct (n =? 0)%Z eqn:E0; cbn [fst snd].
    + split; [reflexivity|]. apply reset_sim, HI.
    + rewrite Hlen. destruct ((n <? 0)%Z || (Z.of_nat (blen b) <? n)%Z) eqn:E1; cbn [fst snd].
      * split; [reflexivity|]. split; [exact HI|split; [exact Hl|intros _; reflexivity]].
      * split; [reflexivity|]. apply orb_false_elim in E1. destruct E1 as [E1 E2]. apply Z.ltb_ge in E1. apply Z.ltb_ge in E2.
        destruct HI as (Ho & Hc & Hnil). unfold R, Inv, Rl, live, blen in *; cbn [bytes off lastr cap isnil un lastb mk].
        rewrite firstn_length. split; [split; [lia|split; [lia|]]|split; [|intros _; reflexivity]].
        -- intros H. destruct (Hnil H) as [E ?]. rewrite E, firstn_nil. auto.
        -- rewrite <- Hl. symmetry. apply firstn_skipn_comm.
  - (* Reset *)
    split; [reflexivity|]. apply reset_sim, HI.
  - (* Grow *)
    destruct (n <? 0)%Z; cbn [fst snd].
    + split; [reflexivity|]. split; [exact HI|split; [exact Hl|discriminate]].
    + destruct (grow b (Z.to_nat n)) as [b1 m] eqn:Eg. cbn [fst snd]. split; [reflexivity|].
      destruct (grow_spec _ _ _ _ HI Eg) as ((Ho & Hc & Hnil) & Hlen1 & Hom & Hk & _).
      unfold R, Inv, live; cbn [bytes off lastr cap isnil]. rewrite firstn_length.
      split; [split; [lia|split; [lia|]]|split; [|discriminate]].
      * intros H. destruct (Hnil H) as [E ?]. rewrite E, firstn_nil. auto.
      * rewrite Hk. exact Hl.
Qed.

(* ---- whole histories: what a caller sees at every step is (result, Len, Bytes) ---- *)
Definition view := (obs * (nat * list Z))%type.
Fixpoint run (b : buf) (l : list op) : list view :=
  match l with [] => [] | o :: r => let '(b', ob) := step b o in (ob, (blen b', live b')) :: run b' r end.
Fixpoint srun (s : spec) (l : list op) : list view :=
  match l with [] => [] | o :: r => let '(s', ob) := sstep s o in (ob, (length (un s'), un s')) :: srun s' r end.
(* no UnreadByte directly after Grow (g = the previous operation was Grow) *)
Fixpoint ok_seq (g : bool) (l : list op) : bool :=
  match l with
  | [] => true
  | o :: r => negb (g && match o with UnreadByte => true | _ => false end) && ok_seq (is_grow o) r
  end.

Theorem tex_refines_spec_bytes l : forall g b s, R g b s -> ok_seq g l = true -> run b l = srun s l.
Proof.
  induction l as [|o r IH]; intros g b s HR Hok; [reflexivity|].
  cbn [ok_seq] in Hok. apply andb_prop in Hok. destruct Hok as [H1 H2].
  assert (Hex : g = true -> o <> UnreadByte).
  { intros -> ->. discriminate. }
  destruct (step_sim g b s o HR Hex) as [Ho HR']. cbn [fst snd] in Ho.
  cbn [run srun]. destruct (step b o) as [b' ob]. destruct (sstep s o) as [s' os]. cbn [fst snd] in *.
  destruct HR' as (HI' & Hl' & HR'').
  assert (Hlen : length (un s') = blen b') by (rewrite <- Hl'; apply live_len).
  rewrite Ho, Hlen, Hl'. f_equal. apply (IH (is_grow o)); [split; [exact HI'|split; [exact Hl'|exact HR'']] | exact H2].
Qed.

(* the three constructors start related to the empty / given contents *)
Lemma zero_related : R false zero_buf (mk [] None).
Proof. unfold R, Inv, Rl, zero_buf, live; cbn. split; [split; [lia|split; [lia|auto]]|split; reflexivity]. Qed.
Lemma new_related data nl : (nl = true -> data = []) -> R false (new_buf data nl) (mk data None).
Proof. intros H. unfold R, Inv, Rl, new_buf, live; cbn [bytes off lastr cap isnil un lastb mk skipn].
  split; [split; [lia|split; [lia|]]|split; reflexivity].
  intros E. rewrite (H E). split; reflexivity. Qed.

Corollary tex_is_bytes_buffer_zero l : ok_seq false l = true -> run zero_buf l = srun (mk [] None) l.
Proof. apply tex_refines_spec_bytes, zero_related. Qed.

(* non-vacuity: a history that crosses reset-if-empty, small allocation, reslice, slide and reallocation *)
Example paths : let l := [Write (repeat 7%Z 40); Read 30; Write (repeat 8%Z 20); Grow 10; ReadByte; UnreadByte; Write (repeat 9%Z 100); Read 200; Grow 1; WriteByte 1%Z; ReadByte; UnreadByte]
  in ok_seq false l = true /\ run zero_buf l = srun (mk [] None) l.
Proof. vm_compute. split; reflexivity. Qed.

(* the excluded case is genuinely different in the concrete model: after a Grow that moved the data the byte is not restored *)
Example unread_after_grow_differs :
  let l := [Write (repeat 7%Z 60); Read 50; Grow 20; UnreadByte] in run zero_buf l <> srun (mk [] None) l.
Proof. vm_compute. discriminate. Qed.

Print Assumptions tex_refines_spec_bytes.
