(* C11: the concrete model of tex.Buffer (TexModel.v) refines the contract (C11_Spec.v) on every history the
   property speaks about: same results, errors and panics, same Len and Bytes after every call. *)
From Coq Require Import ZArith List Lia Bool Arith.
Import ListNotations.
Require Import ReWrite C11_Utf8 TexModel C11_Spec.

(* ---- the simulation relation ---- *)
Definition Inv (b : buf) : Prop :=
  off b <= length (bytes b) /\ length (bytes b) <= cap b /\ (isnil b = true -> bytes b = [] /\ cap b = 0).
(* the part of the storage in front of the read offset *)
Definition consumed (b : buf) : list Z := firstn (off b) (bytes b).

Definition Rk (b : buf) (s : spec) : Prop :=
  match lastk s with
  | None => lastr b = 0%Z
  | Some (isr, bs) =>
      bs <> [] /\ (exists h, consumed b = h ++ bs) /\ lastr b = (if isr : bool then zn (length bs) else (-1)%Z)
  end.
Definition Rp (b : buf) (s : spec) : Prop :=
  match pre s with Some l => consumed b = l | None => True end.
(* g = the nearest preceding non-query operation was a Grow: then the last-read kind is not related *)
Definition R (g : bool) (b : buf) (s : spec) : Prop :=
  Inv b /\ live b = un s /\ Rp b s /\ (g = false -> Rk b s).

(* ---- list facts ---- *)
Lemma skipn_app_le {A} (l r : list A) n : n <= length l -> skipn n (l ++ r) = skipn n l ++ r.
Proof. intros H. rewrite skipn_app. replace (n - length l) with 0 by lia. reflexivity. Qed.
Lemma firstn_app_le {A} (l r : list A) n : n <= length l -> firstn n (l ++ r) = firstn n l.
Proof. intros H. rewrite firstn_app. replace (n - length l) with 0 by lia. cbn [firstn]. apply app_nil_r. Qed.
Lemma firstn_app_exact {A} (l r : list A) : firstn (length l) (l ++ r) = l.
Proof. rewrite firstn_app, Nat.sub_diag, firstn_all. cbn [firstn]. apply app_nil_r. Qed.
Lemma skipn_app_exact {A} (l r : list A) : skipn (length l) (l ++ r) = r.
Proof. rewrite skipn_app, Nat.sub_diag, skipn_all. reflexivity. Qed.
Lemma live_len b : length (live b) = blen b.
Proof. unfold live, blen. apply skipn_length. Qed.
Lemma zeros_len n : length (zeros n) = n.
Proof. apply repeat_length. Qed.
Lemma consumed_live b : bytes b = consumed b ++ live b.
Proof. unfold consumed, live. symmetry. apply firstn_skipn. Qed.
Lemma consumed_len b : off b <= length (bytes b) -> length (consumed b) = off b.
Proof. intros H. unfold consumed. rewrite firstn_length. lia. Qed.

(* moving the read offset to a known split point of the storage *)
Lemma split_at b x y o v : bytes b = x ++ y -> o = length x ->
  consumed (set_off b o v) = x /\ live (set_off b o v) = y.
Proof.
  intros Hb ->. unfold consumed, live, set_off; cbn [bytes off]. rewrite Hb.
  split; [apply firstn_app_exact | apply skipn_app_exact].
Qed.
Lemma Inv_set_off b o v : Inv b -> o <= length (bytes b) -> Inv (set_off b o v).
Proof. intros (Ho & Hc & Hn) H. unfold Inv, set_off; cbn [bytes off cap isnil]. auto. Qed.

(* ---- every grow path keeps the unread bytes ---- *)
Definition grow_post (b b1 : buf) (m n : nat) : Prop :=
  Inv b1 /\ length (bytes b1) = m + n /\ off b1 <= m /\ skipn (off b1) (firstn m (bytes b1)) = live b
  /\ (lastr b1 = lastr b \/ lastr b1 = 0%Z) /\ off b1 <= off b.

Lemma reslice_post b n : Inv b -> n <= cap b - length (bytes b) ->
  grow_post b {| bytes := bytes b ++ zeros n; off := off b; lastr := lastr b; cap := cap b; isnil := isnil b |} (length (bytes b)) n.
Proof.
  intros (Ho & Hc & Hn) Hle. unfold grow_post, Inv; cbn [bytes off lastr cap isnil].
  rewrite app_length, zeros_len, firstn_app_exact.
  split; [split; [lia|split; [lia|]]|split; [reflexivity|split; [exact Ho|split; [reflexivity|split; [left; reflexivity|lia]]]]].
  intros H. destruct (Hn H) as [E1 E2]. rewrite E1, E2 in *. cbn in Hle. assert (n = 0) by lia. subst n. split; reflexivity.
Qed.

Lemma moved_post b n c nl : Inv b -> blen b + n <= c -> (nl = true -> blen b + n = 0 /\ c = 0) ->
  grow_post b {| bytes := live b ++ zeros n; off := 0; lastr := lastr b; cap := c; isnil := nl |} (blen b) n.
Proof.
  intros (Ho & Hc & Hn) Hle Hnl. unfold grow_post, Inv; cbn [bytes off lastr cap isnil].
  rewrite app_length, zeros_len, live_len.
  replace (firstn (blen b) (live b ++ zeros n)) with (live b)
    by (rewrite <- (live_len b); symmetry; apply firstn_app_exact).
  cbn [skipn].
  split; [split; [lia|split; [lia|]]|split; [reflexivity|split; [lia|split; [reflexivity|split; [left; reflexivity|lia]]]]].
  intros H. destruct (Hnl H) as [E Ec]. split; [|exact Ec]. apply length_zero_iff_nil. rewrite app_length, zeros_len, live_len. exact E.
Qed.

Lemma grow_spec b n b1 m : Inv b -> grow b n = (b1, m) -> grow_post b b1 m n.
Proof.
  intros HI. unfold grow.
  set (b' := if Nat.eqb (blen b) 0 && negb (Nat.eqb (off b) 0) then reset b else b).
  assert (HI' : Inv b').
  { subst b'. destruct (Nat.eqb (blen b) 0 && negb (Nat.eqb (off b) 0)); [|exact HI].
    destruct HI as (Ho & Hc & Hn). unfold Inv, reset; cbn [bytes off cap isnil length]. split; [lia|split; [lia|]].
    intros H. split; [reflexivity|apply Hn, H]. }
  assert (Hlive : live b' = live b /\ blen b' = blen b /\ (lastr b' = lastr b \/ lastr b' = 0%Z) /\ off b' <= off b).
  { subst b'. destruct (Nat.eqb (blen b) 0 && negb (Nat.eqb (off b) 0)) eqn:E; [|auto].
    apply andb_prop in E. destruct E as [E _]. apply Nat.eqb_eq in E.
    unfold reset, live, blen in *; cbn [bytes off lastr length skipn]. split; [|split; [lia|split; [auto|lia]]].
    symmetry. apply skipn_all2. destruct HI as (Ho & _). lia. }
  destruct Hlive as (Hl & Hb & Hr & Hoff).
  clearbody b'.
  assert (T : forall x k, grow_post b' x k n -> grow_post b x k n).
  { intros x k (A & B & C & D & E & F). unfold grow_post. rewrite <- Hl.
    split; [exact A|split; [exact B|split; [exact C|split; [exact D|split; [|lia]]]]].
    destruct E as [E|E]; [destruct Hr as [G|G]; [left|right]; congruence | right; exact E]. }
  destruct (Nat.leb n (cap b' - length (bytes b'))) eqn:E1.
  { intros H; inversion H; subst. apply T, reslice_post; [exact HI'|]. apply Nat.leb_le, E1. }
  apply Nat.leb_gt in E1.
  destruct (isnil b' && Nat.leb n small_buffer_size) eqn:E2.
  { intros H; inversion H; subst. apply T. apply andb_prop in E2. destruct E2 as [E2 E3]. apply Nat.leb_le in E3.
    destruct HI' as (Ho & Hc & Hn). destruct (Hn E2) as [Hb0 Hc0].
    unfold grow_post, Inv; cbn [bytes off lastr cap isnil firstn skipn]. rewrite zeros_len.
    unfold live. rewrite Hb0. rewrite skipn_nil.
    split; [split; [lia|split; [exact E3|discriminate]]|split; [reflexivity|split; [lia|split; [reflexivity|split; [left; reflexivity|lia]]]]]. }
  rewrite <- Hb.
  destruct (Nat.leb n (cap b' / 2 - blen b')) eqn:E3.
  { intros H; inversion H; subst. apply T. apply moved_post; [exact HI'| |].
    - apply Nat.leb_le in E3. destruct HI' as (Ho & Hc & Hn). unfold blen in *.
      assert (cap b' / 2 * 2 <= cap b') by (rewrite Nat.mul_comm; apply Nat.mul_div_le; lia). lia.
    - intros Hn'. rewrite Hn' in E2. cbn [andb] in E2. apply Nat.leb_gt in E2.
      destruct HI' as (Ho & Hc & Hn). destruct (Hn Hn') as [Hb0 Hc0]. rewrite Hc0 in E3. apply Nat.leb_le in E3. cbn in E3.
      unfold small_buffer_size in E2. lia. }
  intros H; inversion H; subst. apply T. apply moved_post; [exact HI'| |discriminate].
  destruct HI' as (Ho & Hc & Hn). unfold blen. lia.
Qed.

Lemma grow_for_write_spec b n b1 m : Inv b -> grow_for_write b n = (b1, m) -> grow_post b b1 m n.
Proof.
  intros HI. unfold grow_for_write. destruct (Nat.leb n (cap b - length (bytes b))) eqn:E.
  - intros H; inversion H; subst. apply reslice_post; [exact HI|]. apply Nat.leb_le, E.
  - apply grow_spec, HI.
Qed.
