(* C10 bytex: executable model of BufferX (bytex/bufferx.go, over bytes.Buffer) and ReaderX (bytex/ioreader.go, over io.Reader).

   State of a BufferX = the unread bytes of its bytes.Buffer (a list of bytes; writes append, reads take from the front).
   State of a ReaderX = the source: a list of chunks still to be delivered (one Read call of the source delivers at most
   the rest of the first chunk; chunks may be empty = (0, nil); the last data may come together with io.EOF).
   Every method is a function  state -> outcome * state ; Panic is a first-class outcome. *)
From Coq Require Import ZArith List Lia Bool.
Require Import LE Varint.
Import ListNotations.
Open Scope Z_scope.

(* ---------------- observables ---------------- *)
Inductive err := EEOF          (* io.EOF *)
               | EUnexpected   (* io.ErrUnexpectedEOF (binary.ReadUvarint after the first byte) *)
               | EEmpty        (* ErrByteBufferEmpty *)
               | EWrongNum     (* ErrReadWrongNum *)
               | ESizeLimit    (* ErrSizeLimit *)
               | EOverflow     (* binary: varint overflows a 64-bit integer *)
               | EOther.
Inductive outcome := ODone | OInt (z : Z) | OBool (b : bool) | OBytes (l : list Z) | OErr (e : err) | OPanic.

Inductive op :=
  (* typed writes; integers are the Go values (signed ones negative where negative), F64 is the IEEE bit pattern *)
  | WU8 (v : Z) | WBool (b : bool) | WU16 (v : Z) | WI16 (v : Z) | WU32 (v : Z) | WI32 (v : Z)
  | WU64 (v : Z) | WI64 (v : Z) | WF64 (bits : Z)
  | WVarU64 (v : Z) | WVarI64 (v : Z) | WVarU32 (v : Z) | WVarI32 (v : Z)
  | WStr (s : list Z) | WLimStr (limit : Z) (s : list Z) | WRaw (p : list Z)
  (* typed reads *)
  | RU8 | RBool | RU16 | RI16 | RU32 | RI32 | RU64 | RI64 | RF64
  | RVarU64 | RVarI64 | RVarU32 | RVarI32
  | RStr | RLimStr (limit : Z) | RRead (n : Z) | RReadN (n : Z) | RZReadN (n : Z)
  (* in-place rewrite of the unread region, queries *)
  | XReWrite (pos : Z) (p : list Z) | XReWriteU32 (pos : Z) (v : Z) | XLen | XBytes | XReset.

Definition zlen (l : list Z) : Z := Z.of_nat (length l).
Definition uwrap (w x : Z) : Z := x mod 2 ^ w.                                   (* uintN(x) *)
Definition swrap (w x : Z) : Z := (x + 2 ^ (w - 1)) mod 2 ^ w - 2 ^ (w - 1).     (* intN(x)  *)

(* binary.PutVarint: ux := uint64(x) << 1; if x < 0 { ux = ^ux } *)
Definition zigzag (x : Z) : Z := if x <? 0 then uwrap 64 (- (2 * x) - 1) else uwrap 64 (2 * x).
(* binary.ReadVarint: x := int64(ux >> 1); if ux&1 != 0 { x = ^x } *)
Definition unzigzag (u : Z) : Z := if Z.even u then u / 2 else - (u / 2) - 1.

(* the bytes a (successful) typed write appends *)
Definition enc_op (o : op) : list Z :=
  match o with
  | WU8 v => le_bytes 1 (uwrap 8 v)
  | WBool b => [if b then 1 else 0]
  | WU16 v | WI16 v => le_bytes 2 (uwrap 16 v)
  | WU32 v | WI32 v => le_bytes 4 (uwrap 32 v)
  | WU64 v | WI64 v | WF64 v => le_bytes 8 (uwrap 64 v)
  | WVarU64 v => put_uvarint 10 (uwrap 64 v)
  | WVarI64 v => put_uvarint 10 (zigzag (swrap 64 v))
  | WVarU32 v => put_uvarint 10 (uwrap 32 v)
  | WVarI32 v => put_uvarint 10 (zigzag (swrap 32 v))
  | WStr s | WLimStr _ s => le_bytes 4 (uwrap 32 (zlen s)) ++ s                   (* WriteU32(uint32(len(val))); WriteString(val) *)
  | WRaw p => p
  | _ => []
  end.

(* ---------------- bytes.Buffer primitives ---------------- *)
Inductive rd (S : Type) := RdOk (d : list Z) (rest : S) | RdErr (e : err) (rest : S).
Arguments RdOk {S}. Arguments RdErr {S}.

(* BufferX.Read(p), n = len(p):  l == 0 -> nil;  buffer.Read: empty -> io.EOF, else copies min(n, avail) and advances;
   size != l -> ErrByteBufferEmpty (the partial data is consumed) *)
Definition buf_read (bs : list Z) (n : Z) : rd (list Z) :=
  if n <=? 0 then RdOk [] bs
  else match bs with
       | [] => RdErr EEOF []
       | _ => if zlen bs <? n then RdErr EEmpty [] else RdOk (firstn (Z.to_nat n) bs) (skipn (Z.to_nat n) bs)
       end.

(* buffer.Next(n) followed by the test len(data) != n  (n >= 0) *)
Definition buf_next (bs : list Z) (n : Z) : rd (list Z) :=
  if zlen bs <? n then RdErr EEmpty [] else RdOk (firstn (Z.to_nat n) bs) (skipn (Z.to_nat n) bs).

(* binary.ReadUvarint(b.buffer): k = iterations left of `for i := 0; i < 10; i++`, first = (i == 0) *)
Inductive vres := VOk (v : Z) (rest : list Z) | VErr (e : err) (rest : list Z).
Fixpoint read_uvarint (k : nat) (first : bool) (bs : list Z) (x s : Z) : vres :=
  match k with
  | O => VErr EOverflow bs                                                     (* ten continuation bytes *)
  | S k' =>
    match bs with
    | [] => VErr (if first then EEOF else EUnexpected) []
    | b :: r =>
      if b <? 128 then
        (if Nat.eqb k' 0 && (1 <? b) then VErr EOverflow r else VOk (x + b * 2 ^ s) r)
      else read_uvarint k' false r (x + (b - 128) * 2 ^ s) (s + 7)
    end
  end.
Definition uvar (bs : list Z) : vres := read_uvarint 10 true bs 0 0.

Definition fixed (r : rd (list Z)) (f : Z -> Z) : outcome * list Z :=
  match r with RdOk d rest => (OInt (f (le_val d)), rest) | RdErr e rest => (OErr e, rest) end.
Definition varint (r : vres) (f : Z -> Z) : outcome * list Z :=
  match r with VOk v rest => (OInt (f v), rest) | VErr e rest => (OErr e, rest) end.
Definition bytes_of (r : rd (list Z)) : outcome * list Z :=
  match r with RdOk d rest => (OBytes d, rest) | RdErr e rest => (OErr e, rest) end.

(* copy(buf[pos:], p) on buf = the unread bytes *)
Definition splice (bs : list Z) (pos : Z) (p : list Z) : list Z :=
  let k := Z.to_nat pos in
  firstn k bs ++ firstn (length bs - k) p ++ skipn (k + length p) bs.
Definition rewrite_at (bs : list Z) (pos : Z) (p : list Z) : outcome * list Z :=
  if (pos <? 0) || (zlen bs <? pos) then (OPanic, bs)                            (* slice bounds out of range *)
  else (ODone, splice bs pos p).

(* ---------------- BufferX, method by method ---------------- *)
Definition bstep (bs : list Z) (o : op) : outcome * list Z :=
  match o with
  | WLimStr limit s =>
      if limit <? uwrap 32 (zlen s) then (OErr ESizeLimit, bs) else (ODone, bs ++ enc_op o)
  | WU8 _ | WBool _ | WU16 _ | WI16 _ | WU32 _ | WI32 _ | WU64 _ | WI64 _ | WF64 _
  | WVarU64 _ | WVarI64 _ | WVarU32 _ | WVarI32 _ | WStr _ | WRaw _ => (ODone, bs ++ enc_op o)
  | RU8 => match bs with [] => (OErr EEOF, []) | b :: r => (OInt b, r) end               (* buffer.ReadByte *)
  | RBool => match bs with [] => (OErr EEOF, []) | b :: r => (OBool (negb (b =? 0)), r) end
  | RU16 => fixed (buf_read bs 2) (fun x => x)
  | RI16 => fixed (buf_read bs 2) (swrap 16)
  | RU32 => fixed (buf_read bs 4) (fun x => x)
  | RI32 => fixed (buf_read bs 4) (swrap 32)
  | RU64 | RF64 => fixed (buf_read bs 8) (fun x => x)
  | RI64 => fixed (buf_read bs 8) (swrap 64)
  | RVarU64 => varint (uvar bs) (fun x => x)
  | RVarI64 => varint (uvar bs) unzigzag
  | RVarU32 => varint (uvar bs) (uwrap 32)
  | RVarI32 => varint (uvar bs) (fun u => swrap 32 (unzigzag u))
  | RStr =>
      match buf_read bs 4 with
      | RdErr e rest => (OErr e, rest)
      | RdOk d rest => bytes_of (buf_next rest (le_val d))
      end
  | RLimStr limit =>
      match buf_read bs 4 with
      | RdErr e rest => (OErr e, rest)
      | RdOk d rest => if limit <? le_val d then (OErr ESizeLimit, rest) else bytes_of (buf_next rest (le_val d))
      end
  | RRead n => bytes_of (buf_read bs n)
  | RReadN n => if n <=? 0 then (OErr EWrongNum, bs) else bytes_of (buf_read bs n)
  | RZReadN n => if n <? 0 then (OErr EWrongNum, bs) else bytes_of (buf_next bs n)
  | XReWrite pos p => rewrite_at bs pos p
  | XReWriteU32 pos v => rewrite_at bs pos (le_bytes 4 (uwrap 32 v))
  | XLen => (OInt (zlen bs), bs)
  | XBytes => (OBytes bs, bs)
  | XReset => (ODone, [])
  end.

Fixpoint brun (bs : list Z) (ops : list op) : list outcome * list Z :=
  match ops with
  | [] => ([], bs)
  | o :: r => let '(out, bs') := bstep bs o in let '(outs, fin) := brun bs' r in (out :: outs, fin)
  end.

(* ---------------- ReaderX over a fragmenting io.Reader ---------------- *)
Definition source := (list (list Z) * bool)%type.     (* chunks still to deliver; true = the last data arrives together with io.EOF *)
Definition src_bytes (s : source) : list Z := concat (fst s).

(* one call reader.Read(p) with len(p) = n > 0: (data, err == io.EOF, source afterwards) *)
Definition src_read (s : source) (n : Z) : list Z * bool * source :=
  match fst s with
  | [] => ([], true, s)
  | c :: r =>
    let k := Z.to_nat (Z.min n (zlen c)) in
    match skipn k c with
    | [] => (firstn k c, match r with [] => snd s | _ => false end, (r, snd s))
    | c' => (firstn k c, false, (c' :: r, snd s))
    end
  end.

Inductive rf := RFok (d : list Z) (s : source) | RFerr (e : err) (s : source) | RFfuel.

(* io.ReadFull = ReadAtLeast(r, buf, len(buf)):  for n < min && err == nil { nn, err = r.Read(buf[n:]); n += nn }
   n >= min -> nil;  n > 0 && err == EOF -> ErrUnexpectedEOF (which ReaderX.Read turns into ErrByteBufferEmpty) *)
Fixpoint read_full (fuel : nat) (s : source) (n : Z) (acc : list Z) : rf :=
  match fuel with
  | O => RFfuel
  | S f =>
    let '(d, eof, s') := src_read s n in
    let acc' := acc ++ d in
    let n' := n - zlen d in
    if n' <=? 0 then RFok acc' s'
    else if eof then RFerr (match acc' with [] => EEOF | _ => EEmpty end) s'
    else read_full f s' n' acc'
  end.

(* ReaderX.Read(p), n = len(p) *)
Definition rx_read (s : source) (n : Z) : rd source :=
  if n <=? 0 then RdOk [] s
  else match read_full (S (S (length (fst s)))) s n [] with
       | RFok d s' => RdOk d s'
       | RFerr e s' => RdErr e s'
       | RFfuel => RdErr EOther s
       end.

Definition rfixed (r : rd source) (f : Z -> Z) : outcome * source :=
  match r with RdOk d rest => (OInt (f (le_val d)), rest) | RdErr e rest => (OErr e, rest) end.
Definition rbytes_of (r : rd source) : outcome * source :=
  match r with RdOk d rest => (OBytes d, rest) | RdErr e rest => (OErr e, rest) end.
(* ReaderX.ReadN / ZReadN *)
Definition rx_readn (s : source) (n : Z) : outcome * source :=
  if n <=? 0 then (OErr EWrongNum, s) else rbytes_of (rx_read s n).
Definition rx_zreadn (s : source) (n : Z) : outcome * source :=
  if n =? 0 then (OBytes [], s) else rx_readn s n.

Definition stream_op (o : op) : bool :=
  match o with
  | RU8 | RBool | RU16 | RI16 | RU32 | RI32 | RU64 | RI64 | RF64 | RStr | RLimStr _ | RRead _ | RReadN _ | RZReadN _ => true
  | _ => false
  end.

Definition rstep (s : source) (o : op) : outcome * source :=
  match o with
  | RU8 => match rx_read s 1 with RdOk d rest => (OInt (le_val d), rest) | RdErr e rest => (OErr e, rest) end   (* ReadByte: p[0] *)
  | RBool => match rx_read s 1 with RdOk d rest => (OBool (negb (le_val d =? 0)), rest) | RdErr e rest => (OErr e, rest) end
  | RU16 => rfixed (rx_read s 2) (fun x => x)
  | RI16 => rfixed (rx_read s 2) (swrap 16)
  | RU32 => rfixed (rx_read s 4) (fun x => x)
  | RI32 => rfixed (rx_read s 4) (swrap 32)
  | RU64 | RF64 => rfixed (rx_read s 8) (fun x => x)
  | RI64 => rfixed (rx_read s 8) (swrap 64)
  | RStr =>
      match rx_read s 4 with
      | RdErr e rest => (OErr e, rest)
      | RdOk d rest => rx_zreadn rest (le_val d)
      end
  | RLimStr limit =>
      match rx_read s 4 with
      | RdErr e rest => (OErr e, rest)
      | RdOk d rest => if limit <? le_val d then (OErr ESizeLimit, rest) else rx_zreadn rest (le_val d)
      end
  | RRead n => rbytes_of (rx_read s n)
  | RReadN n => rx_readn s n
  | RZReadN n => rx_zreadn s n
  | _ => (OErr EOther, s)                                                        (* not a method of ReaderX *)
  end.

Fixpoint rrun (s : source) (ops : list op) : list outcome * source :=
  match ops with
  | [] => ([], s)
  | o :: r => let '(out, s') := rstep s o in let '(outs, fin) := rrun s' r in (out :: outs, fin)
  end.

(* ---------------- the two pre-fix behaviours of ReaderX (defects 7 and 8), kept as named variants ---------------- *)
(* before b171ca6: a single reader.Read; a short count is reported as ErrByteBufferEmpty *)
Definition rx_read_prefix (s : source) (n : Z) : rd source :=
  if n <=? 0 then RdOk [] s
  else let '(d, eof, s') := src_read s n in
       match d with
       | [] => if eof then RdErr EEOF s' else RdErr EEmpty s'
       | _ => if zlen d <? n then RdErr EEmpty s' else RdOk d s'
       end.
(* before 44704af: ZReadN(0) went to ReadN(0) = ErrReadWrongNum *)
Definition rx_zreadn_prefix (s : source) (n : Z) : outcome * source := rx_readn s n.

(* ---------------- decidable equality of observables (for the case files) ---------------- *)
Definition err_eqb (a b : err) : bool :=
  match a, b with
  | EEOF, EEOF | EUnexpected, EUnexpected | EEmpty, EEmpty | EWrongNum, EWrongNum
  | ESizeLimit, ESizeLimit | EOverflow, EOverflow | EOther, EOther => true
  | _, _ => false
  end.
Fixpoint zl_eqb (x y : list Z) : bool :=
  match x, y with [], [] => true | a :: x', b :: y' => (a =? b) && zl_eqb x' y' | _, _ => false end.
Definition outcome_eqb (a b : outcome) : bool :=
  match a, b with
  | ODone, ODone | OPanic, OPanic => true
  | OInt x, OInt y => x =? y
  | OBool x, OBool y => Bool.eqb x y
  | OBytes x, OBytes y => zl_eqb x y
  | OErr x, OErr y => err_eqb x y
  | _, _ => false
  end.
Fixpoint outs_eqb (x y : list outcome) : bool :=
  match x, y with [], [] => true | a :: x', b :: y' => outcome_eqb a b && outs_eqb x' y' | _, _ => false end.

Lemma err_eqb_eq a b : err_eqb a b = true -> a = b.
Proof. destruct a, b; cbn; congruence. Qed.
Lemma zl_eqb_eq : forall x y, zl_eqb x y = true -> x = y.
Proof.
  induction x as [|a x IH]; destruct y as [|b y]; cbn; try discriminate; auto.
  intros H. apply andb_prop in H as [H1 H2]. apply Z.eqb_eq in H1. subst. f_equal. auto.
Qed.
Lemma zl_eqb_refl : forall x, zl_eqb x x = true.
Proof. induction x as [|a x IH]; cbn; auto. now rewrite Z.eqb_refl, IH. Qed.
Lemma outcome_eqb_eq a b : outcome_eqb a b = true -> a = b.
Proof.
  destruct a, b; cbn; try discriminate; auto; intros H.
  - apply Z.eqb_eq in H. now subst.
  - apply Bool.eqb_prop in H. now subst.
  - apply zl_eqb_eq in H. now subst.
  - apply err_eqb_eq in H. now subst.
Qed.
Lemma outcome_eqb_refl a : outcome_eqb a a = true.
Proof. destruct a; cbn; auto using Z.eqb_refl, zl_eqb_refl. - now destruct b. - now destruct e. Qed.
Lemma outs_eqb_eq : forall x y, outs_eqb x y = true -> x = y.
Proof.
  induction x as [|a x IH]; destruct y as [|b y]; cbn; try discriminate; auto.
  intros H. apply andb_prop in H as [H1 H2]. apply outcome_eqb_eq in H1. subst. f_equal. auto.
Qed.
