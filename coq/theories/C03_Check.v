(* C03: what the driver evaluates on every observed case.
   A case is a history run on the real implementation: the operations, what each returned, and (at sampled
   steps) the implementation's actual tree as read through the verif hook VerifShape.
   case_accept: every observation is what the model (C03_Model.v) produces, and the real tree is well formed.
   case_holds : every observation is what the sorted map (C03_Spec.v) prescribes; the real tree is ordered,
                balanced for its degree, its in-order list is exactly the sorted map, its length field is the
                item count; copy-on-write ownership is closed upwards; handles of clone programs are
                independent values; concurrent callers of the wrapper each see a sequential sorted map on
                their own keys. *)
From Coq Require Import ZArith List Bool Lia Sorting.Sorted.
Require Export C03_Model C03_Spec C03_Steps.
Require Import C03_Hist C03_Refine.
Import ListNotations.
Open Scope Z_scope.

(* ---------------- cases ---------------- *)
Definition wstep := (wop * obs * option shape)%type.
Definition istep := (iop * obs * option shape)%type.
Definition cstep := (cop * obs * option shape)%type.
Inductive case :=
| CaseW (steps : list wstep)                          (* a history on the wrapper ds/tree.BTree *)
| CaseI (deg : nat) (steps : list istep)              (* a history on the inner btree.BTree of that degree *)
| CaseC (deg : nat) (steps : list cstep)              (* a clone program on up to 4 handles *)
| CaseP (g : Z) (hist : list (list (wop * obs))) (final : shape)
    (* g concurrent callers of one wrapper; caller i uses only keys = i mod g and filters on them;
       hist = what each caller did and saw, final = the tree afterwards *)
| CaseM (fixed : list item) (mv mv' : item) (falses : Z) (seen : list (wop * obs))
    (* one writer moves an entry back and forth between two keys with Update (mv <-> mv') over a fixed set of other
       items while readers scan and Get concurrently; seen = the distinct (operation, result) pairs the readers
       observed, falses = how often Update returned false *)
| CaseB (start step count stride : Z) (scans : list (wscan * Z * filt * Z * (Z * list item * list item * Z)))
    (* a big wrapper tree given compactly: the items (k, k+7) for the keys k = start + step*i, i = (j*stride) mod count,
       inserted in the order j = 0..count-1; then bounded scans (which, pivot, filter, limit), each observed through a
       summary of the returned list: (length, its first three items, its last three items, a checksum) *)
| CaseFatal.                                          (* the implementation killed or hung the process *)

(* the model stands for trees below 2^31 items (above that its constant recursion fuel is not known to suffice) *)
Definition LIM : Z := 2147483648.

(* big trees given compactly *)
Definition big_items (start step count stride : Z) : list item :=
  map (fun j => let k := start + step * Z.modulo (Z.of_nat j * stride) count in (k, k + 7)) (seq 0 (Z.to_nat count)).
Definition CKP : Z := 2147483647.
Definition checksum (l : list item) : Z := fold_left (fun acc x => Z.modulo (acc * 1000003 + fst x * 7 + snd x) CKP) l 0.
Definition summ (l : list item) : Z * list item * list item * Z :=
  (Z.of_nat (length l), firstn 3 l, rev (firstn 3 (rev l)), checksum l).
Definition summ_eqb (a b : Z * list item * list item * Z) : bool :=
  let '(n1, f1, l1, c1) := a in let '(n2, f2, l2, c2) := b in (n1 =? n2) && ilist_eqb f1 f2 && ilist_eqb l1 l2 && (c1 =? c2).
Definition big_ops (start step count stride : Z) (scans : list (wscan * Z * filt * Z * (Z * list item * list item * Z))) : list wop :=
  map WInsert (big_items start step count stride) ++ map (fun sc => let '(w, k, f, n, _) := sc in WScan w k f n) scans.
Fixpoint big_cmp (scans : list (wscan * Z * filt * Z * (Z * list item * list item * Z))) (outs : list obs) : bool :=
  match scans, outs with
  | [], [] => true
  | (_, _, _, _, sm) :: scans', OList l :: outs' => summ_eqb sm (summ l) && big_cmp scans' outs'
  | _, _ => false
  end.
(* the model's results of an operation list (None: out of fuel or beyond the size bound) *)
Fixpoint w_outs (t : itree) (ops : list wop) : option (list obs) :=
  match ops with
  | [] => Some []
  | o :: r => match w_step t o with
              | Some (t', x) => if ilen t' <? LIM then match w_outs t' r with Some xs => Some (x :: xs) | None => None end else None
              | None => None end
  end.
Fixpoint ws_outs (L : list item) (ops : list wop) : list obs :=
  match ops with [] => [] | o :: r => snd (ws_step L o) :: ws_outs (fst (ws_step L o)) r end.

(* the mover scenario: Update is one critical section, so at every linearisation point the map is one of two states,
   and every read returns what one of the two states returns *)
Definition mover_ok (fixed : list item) (mv mv' : item) (falses : Z) (seen : list (wop * obs)) : bool :=
  let base := fold_left (fun a x => s_ins x a) fixed [] in
  let A := s_ins mv base in let B := s_ins mv' base in
  (falses =? 0) && negb (key mv =? key mv') && negb (is_some (s_lookup (key mv) base)) && negb (is_some (s_lookup (key mv') base)) &&
  forallb (fun so => match fst so with
                     | WGet _ | WScan _ _ _ _ => obs_eqb (snd so) (snd (ws_step A (fst so))) || obs_eqb (snd so) (snd (ws_step B (fst so)))
                     | _ => false end) seen.

(* ---------------- model runs ---------------- *)
Fixpoint w_run (t : itree) (l : list wstep) : bool :=
  match l with
  | [] => true
  | (o, r, sh) :: l' =>
      match w_step t o with
      | Some (t', r') => obs_eqb r r' && shape_is WDEG (itree_list t') sh && (ilen t' <? LIM) && w_run t' l'
      | None => false
      end
  end.
Fixpoint i_run (deg : nat) (t : itree) (l : list istep) : bool :=
  match l with
  | [] => true
  | (o, r, sh) :: l' =>
      match i_step deg t o with
      | Some (t', r') => obs_eqb r r' && shape_is deg (itree_list t') sh && (ilen t' <? LIM) && i_run deg t' l'
      | None => false
      end
  end.
Definition handles := list (option itree).
Definition set_nth {A} (l : list A) (i : nat) (x : A) : list A := firstn i l ++ x :: skipn (S i) l.
(* the third component: the tree that was written (its shape may have been observed) *)
Definition c_step (deg : nat) (hs : handles) (o : cop) : option (handles * obs * option itree) :=
  match o with
  | CClone s d => match nth s hs None with
                  | Some t => if Nat.ltb d (length hs) then Some (set_nth hs d (Some t), OUnit, Some t) else None
                  | None => None end
  | COn h io => match nth h hs None with
                | Some t => match i_step deg t io with
                            | Some (t', r) => Some (set_nth hs h (Some t'), r, Some t')
                            | None => None end
                | None => None end
  | CSnap => Some (hs, OSnap (map (option_map (fun t => (itree_scan (collect_visit 0) EAscend 0 0 t [], ilen t))) hs), None)
  (* Clear empties that tree only, whether or not its nodes go to the free list *)
  | CClear h _ => match nth h hs None with
                  | Some _ => Some (set_nth hs h (Some iempty), OUnit, Some iempty)
                  | None => None end
  | CNew d => if Nat.ltb d (length hs) then Some (set_nth hs d (Some iempty), OUnit, Some iempty) else None
  end.
(* ownership as the copy-on-write code leaves it (two consequences of the heap-level model, C03_HeapWorld.v, that do not
   depend on the shape of the tree): after ReplaceOrInsert through a handle the root node belongs to the handle's context;
   right after Clone neither handle owns any node *)
Fixpoint no_owned (s : snode) : bool := match s with SNode o _ ch => negb o && forallb no_owned ch end.
Definition root_owned (s : snode) : bool := match s with SNode o _ _ => o end.
Definition own_chk (o : cop) (sh : option shape) : bool :=
  match o, sh with
  | CClone _ _, Some (Some s, _) => no_owned s
  | COn _ (IIns _), Some (Some s, _) => root_owned s
  | _, _ => true
  end.

Fixpoint c_run (deg : nat) (hs : handles) (l : list cstep) : bool :=
  match l with
  | [] => true
  | (o, r, sh) :: l' =>
      match c_step deg hs o with
      | Some (hs', r', ot) =>
          obs_eqb r r' && own_chk o sh
          && match ot with Some t' => shape_is deg (itree_list t') sh && (ilen t' <? LIM) | None => true end
          && c_run deg hs' l'
      | None => false
      end
  end.
Fixpoint p_run1 (t : itree) (l : list (wop * obs)) : option itree :=
  match l with
  | [] => Some t
  | (o, r) :: l' => match w_step t o with
                    | Some (t', r') => if obs_eqb r r' && (ilen t' <? LIM) then p_run1 t' l' else None
                    | None => None end
  end.
Definition merge (Ls : list (list item)) : list item := fold_left (fun acc L => fold_left (fun a x => s_ins x a) L acc) Ls [].
Fixpoint opts_all {A} (l : list (option A)) : option (list A) :=
  match l with
  | [] => Some []
  | None :: _ => None
  | Some x :: r => match opts_all r with Some xs => Some (x :: xs) | None => None end
  end.

(* the callers of a concurrent case keep to their own keys *)
Definition own_key (g i : Z) (k : Z) : bool := Z.modulo k g =? i.
Definition own_op (g i : Z) (o : wop) : bool :=
  match o with
  | WInsert x => own_key g i (key x)
  | WUpdate k n | WUpdateOrInsert k n => own_key g i k && own_key g i (key n)
  | WDelete k | WGet k => own_key g i k
  | WScan _ _ f _ => match f with FKeyMod m r => (m =? g) && (r =? i) | FNone => true | _ => false end
  end.
Fixpoint own_all (g : Z) (i : Z) (hist : list (list (wop * obs))) : bool :=
  match hist with
  | [] => true
  | h :: r => forallb (fun s => own_op g i (fst s)) h && own_all g (i + 1) r
  end.

Definition model_ok (c : case) : bool :=
  match c with
  | CaseW steps => w_run iempty steps
  | CaseI deg steps => Nat.leb 2 deg && i_run deg iempty steps
  | CaseC deg steps => Nat.leb 2 deg && c_run deg [Some iempty; None; None; None] steps
  | CaseP g hist final =>
      (0 <? g) && own_all g 0 hist &&
      match opts_all (map (p_run1 iempty) hist) with
      | Some ts => shape_is WDEG (merge (map itree_list ts)) (Some final)
      | None => false
      end
  | CaseM fixed mv mv' falses seen => mover_ok fixed mv mv' falses seen
  | CaseB start step count stride scans =>
      (0 <? count) && match w_outs iempty (big_ops start step count stride scans) with
                      | Some outs => big_cmp scans (skipn (Z.to_nat count) outs)
                      | None => false end
  | CaseFatal => false
  end.

(* ---------------- sorted-map runs ---------------- *)
Fixpoint ws_run (L : list item) (l : list wstep) : bool :=
  match l with
  | [] => true
  | (o, r, sh) :: l' => obs_eqb r (snd (ws_step L o)) && shape_is WDEG (fst (ws_step L o)) sh && ws_run (fst (ws_step L o)) l'
  end.
Fixpoint is_run (deg : nat) (L : list item) (l : list istep) : bool :=
  match l with
  | [] => true
  | (o, r, sh) :: l' => obs_eqb r (snd (is_step L o)) && shape_is deg (fst (is_step L o)) sh && is_run deg (fst (is_step L o)) l'
  end.
Definition shandles := list (option (list item)).
Definition cs_step (hs : shandles) (o : cop) : option (shandles * obs * option (list item)) :=
  match o with
  | CClone s d => match nth s hs None with
                  | Some L => if Nat.ltb d (length hs) then Some (set_nth hs d (Some L), OUnit, Some L) else None
                  | None => None end
  | COn h io => match nth h hs None with
                | Some L => Some (set_nth hs h (Some (fst (is_step L io))), snd (is_step L io), Some (fst (is_step L io)))
                | None => None end
  | CSnap => Some (hs, OSnap (map (option_map (fun L => (L, Z.of_nat (length L)))) hs), None)
  | CClear h _ => match nth h hs None with
                  | Some _ => Some (set_nth hs h (Some []), OUnit, Some [])
                  | None => None end
  | CNew d => if Nat.ltb d (length hs) then Some (set_nth hs d (Some []), OUnit, Some []) else None
  end.
Fixpoint cs_run (deg : nat) (hs : shandles) (l : list cstep) : bool :=
  match l with
  | [] => true
  | (o, r, sh) :: l' =>
      match cs_step hs o with
      | Some (hs', r', oL) =>
          obs_eqb r r' && own_chk o sh
          && match oL with Some L' => shape_is deg L' sh | None => true end
          && cs_run deg hs' l'
      | None => false
      end
  end.
Fixpoint ps_run1 (L : list item) (l : list (wop * obs)) : option (list item) :=
  match l with
  | [] => Some L
  | (o, r) :: l' => if obs_eqb r (snd (ws_step L o)) then ps_run1 (fst (ws_step L o)) l' else None
  end.

Definition case_holds (c : case) : bool :=
  match c with
  | CaseW steps => ws_run [] steps
  | CaseI deg steps => Nat.leb 2 deg && is_run deg [] steps
  | CaseC deg steps => Nat.leb 2 deg && cs_run deg [Some []; None; None; None] steps
  | CaseP g hist final =>
      (0 <? g) && own_all g 0 hist &&
      match opts_all (map (ps_run1 []) hist) with
      | Some Ls => shape_is WDEG (merge Ls) (Some final)
      | None => false
      end
  | CaseM fixed mv mv' falses seen => mover_ok fixed mv mv' falses seen
  | CaseB start step count stride scans =>
      (0 <? count) && big_cmp scans (skipn (Z.to_nat count) (ws_outs [] (big_ops start step count stride scans)))
  | CaseFatal => false
  end.

(* the implementation behaved exactly as the model on this case *)
Definition case_accept (c : case) : bool := model_ok c.

(* ---------------- soundness: what the model accepts, the sorted map prescribes ---------------- *)
Lemma lim_small t L deg : refines0 deg t L -> (ilen t <? LIM) = true -> refines deg t L.
Proof.
  intros H0 Hl. split; [exact H0|]. rewrite (refines_len deg t L H0) in Hl. apply Z.ltb_lt in Hl.
  unfold small. unfold LIM in Hl. change (2 ^ 31) with 2147483648. exact Hl.
Qed.

Lemma w_run_sound : forall l t L, refines WDEG t L -> w_run t l = true -> ws_run L l = true.
Proof.
  induction l as [|[[o r] sh] l IH]; intros t L HR H; [reflexivity|].
  cbn [w_run] in H. destruct (w_step_refines t L o HR) as (t' & E & R'). rewrite E in H.
  apply andb_prop in H as [H H4]. apply andb_prop in H as [H H3]. apply andb_prop in H as [H1 H2].
  cbn [ws_run]. rewrite (refines_list WDEG t' _ R') in H2. rewrite H1, H2. cbn [andb].
  apply (IH t'); [apply lim_small; assumption|exact H4].
Qed.
Lemma i_run_sound deg : (2 <= deg)%nat -> forall l t L, refines deg t L -> i_run deg t l = true -> is_run deg L l = true.
Proof.
  intros Hd. induction l as [|[[o r] sh] l IH]; intros t L HR H; [reflexivity|].
  cbn [i_run] in H. destruct (i_step_refines deg Hd t L o HR) as (t' & E & R'). rewrite E in H.
  apply andb_prop in H as [H H4]. apply andb_prop in H as [H H3]. apply andb_prop in H as [H1 H2].
  cbn [is_run]. rewrite (refines_list deg t' _ R') in H2. rewrite H1, H2. cbn [andb].
  apply (IH t'); [apply lim_small; assumption|exact H4].
Qed.

(* clone programs: the handles are pointwise related *)
Definition hrel (deg : nat) (ot : option itree) (oL : option (list item)) : Prop :=
  match ot, oL with Some t, Some L => refines deg t L | None, None => True | _, _ => False end.
Lemma hrel_nth deg hs shs i : Forall2 (hrel deg) hs shs -> hrel deg (nth i hs None) (nth i shs None).
Proof. intros H. revert i. induction H as [|a b hs shs Hab _ IH]; intros [|i]; cbn; auto. Qed.
Lemma hrel_set deg hs shs i a b : Forall2 (hrel deg) hs shs -> hrel deg a b -> Forall2 (hrel deg) (set_nth hs i a) (set_nth shs i b).
Proof.
  intros H Hab. unfold set_nth. revert i. induction H as [|x y hs shs Hxy Ht IH]; intros [|i]; cbn [firstn skipn app].
  - constructor; [exact Hab|constructor].
  - constructor; [exact Hab|constructor].
  - constructor; [exact Hab|exact Ht].
  - constructor; [exact Hxy|apply IH].
Qed.
Lemma hrel_len deg hs shs : Forall2 (hrel deg) hs shs -> length hs = length shs.
Proof. induction 1; cbn; congruence. Qed.
Lemma s_scan_all L : s_scan EAscend 0 0 L = L.
Proof. unfold s_scan. cbn. induction L as [|x L IH]; cbn; congruence. Qed.
Lemma hrel_snap deg hs shs : Forall2 (hrel deg) hs shs ->
  map (option_map (fun t => (itree_scan (collect_visit 0) EAscend 0 0 t [], ilen t))) hs
  = map (option_map (fun L : list item => (L, Z.of_nat (length L)))) shs.
Proof.
  induction 1 as [|a b hs shs Hab _ IH]; [reflexivity|]. cbn [map]. rewrite IH. f_equal.
  destruct a as [t|], b as [L|]; cbn in Hab; try contradiction; [|reflexivity]. cbn [option_map].
  rewrite (refines_collect deg t L EAscend 0 0 0 (proj1 Hab)), (refines_len deg t L (proj1 Hab)). rewrite s_scan_all. reflexivity.
Qed.

Lemma c_run_sound deg : (2 <= deg)%nat -> forall l hs shs, Forall2 (hrel deg) hs shs -> c_run deg hs l = true -> cs_run deg shs l = true.
Proof.
  intros Hd. induction l as [|[[o r] sh] l IH]; intros hs shs HR H; [reflexivity|].
  cbn [c_run] in H. cbn [cs_run]. destruct o as [s d|h io| |h b|d]; cbn [c_step cs_step] in *.
  - pose proof (hrel_nth deg hs shs s HR) as Hn. destruct (nth s hs None) as [t|]; [|discriminate].
    destruct (nth s shs None) as [L|]; [|contradiction]. rewrite <- (hrel_len deg hs shs HR). cbn in Hn.
    destruct (Nat.ltb d (length hs)); [|discriminate].
    apply andb_prop in H as [H H3]. apply andb_prop in H as [H H2]. apply andb_prop in H as [H1 H1']. apply andb_prop in H2 as [H2 _].
    rewrite (refines_list deg t L (proj1 Hn)) in H2. rewrite H1, H1', H2. cbn [andb].
    apply (IH (set_nth hs d (Some t))); [apply hrel_set; [exact HR|exact Hn]|exact H3].
  - pose proof (hrel_nth deg hs shs h HR) as Hn. destruct (nth h hs None) as [t|]; [|discriminate].
    destruct (nth h shs None) as [L|]; [|contradiction]. cbn in Hn.
    destruct (i_step_refines deg Hd t L io Hn) as (t' & E & R'). rewrite E in H.
    apply andb_prop in H as [H H3]. apply andb_prop in H as [H H2]. apply andb_prop in H as [H1 H1']. apply andb_prop in H2 as [H2 H2'].
    rewrite (refines_list deg t' _ R') in H2. rewrite H1, H1', H2. cbn [andb].
    apply (IH (set_nth hs h (Some t'))); [apply hrel_set; [exact HR|apply lim_small; assumption]|exact H3].
  - rewrite (hrel_snap deg hs shs HR) in H. apply andb_prop in H as [H H3]. apply andb_prop in H as [H _]. apply andb_prop in H as [H1 H1']. rewrite H1, H1'. cbn [andb].
    apply (IH hs); assumption.
  - pose proof (hrel_nth deg hs shs h HR) as Hn. destruct (nth h hs None) as [t|]; [|discriminate].
    destruct (nth h shs None) as [L|]; [|contradiction].
    apply andb_prop in H as [H H3]. apply andb_prop in H as [H H2]. apply andb_prop in H as [H1 H1']. apply andb_prop in H2 as [H2 _].
    rewrite (refines_list deg iempty [] (proj1 (refines_empty deg))) in H2. rewrite H1, H1', H2. cbn [andb].
    apply (IH (set_nth hs h (Some iempty))); [apply hrel_set; [exact HR|apply refines_empty]|exact H3].
  - rewrite <- (hrel_len deg hs shs HR). destruct (Nat.ltb d (length hs)); [|discriminate].
    apply andb_prop in H as [H H3]. apply andb_prop in H as [H H2]. apply andb_prop in H as [H1 H1']. apply andb_prop in H2 as [H2 _].
    rewrite (refines_list deg iempty [] (proj1 (refines_empty deg))) in H2. rewrite H1, H1', H2. cbn [andb].
    apply (IH (set_nth hs d (Some iempty))); [apply hrel_set; [exact HR|apply refines_empty]|exact H3].
Qed.

(* concurrent callers: each caller's own history *)
Lemma p_run1_sound : forall l t L tf, refines WDEG t L -> p_run1 t l = Some tf ->
  exists Lf, ps_run1 L l = Some Lf /\ refines WDEG tf Lf.
Proof.
  induction l as [|[o r] l IH]; intros t L tf HR H.
  - cbn in H. inversion H; subst. exists L. split; [reflexivity|exact HR].
  - cbn [p_run1] in H. destruct (w_step_refines t L o HR) as (t' & E & R'). rewrite E in H.
    destruct (obs_eqb r (snd (ws_step L o)) && (ilen t' <? LIM)) eqn:Eb; [|discriminate].
    apply andb_prop in Eb as [E1 E2]. cbn [ps_run1]. rewrite E1. apply (IH t'); [apply lim_small; assumption|exact H].
Qed.
Lemma p_all_sound : forall hist ts, opts_all (map (p_run1 iempty) hist) = Some ts ->
  opts_all (map (ps_run1 []) hist) = Some (map itree_list ts).
Proof.
  induction hist as [|l hist IH]; intros ts H; cbn [map opts_all] in *.
  - inversion H; subst. reflexivity.
  - destruct (p_run1 iempty l) as [tf|] eqn:E; [|discriminate].
    destruct (opts_all (map (p_run1 iempty) hist)) as [ts'|] eqn:E2; [|discriminate]. inversion H; subst.
    destruct (p_run1_sound l iempty [] tf (refines_empty WDEG) E) as (Lf & Ep & Rf). rewrite Ep, (IH ts' eq_refl).
    cbn [map]. rewrite (refines_list WDEG tf Lf (proj1 Rf)). reflexivity.
Qed.

Lemma w_outs_sound : forall ops t L outs, refines WDEG t L -> w_outs t ops = Some outs -> outs = ws_outs L ops.
Proof.
  induction ops as [|o ops IH]; intros t L outs HR H; cbn [w_outs ws_outs] in *; [inversion H; reflexivity|].
  destruct (w_step_refines t L o HR) as (t' & E & R'). rewrite E in H.
  destruct (ilen t' <? LIM) eqn:El; [|discriminate]. destruct (w_outs t' ops) as [xs|] eqn:Ex; [|discriminate]. inversion H; subst outs.
  f_equal. apply (IH t' _ xs); [apply lim_small; assumption|exact Ex].
Qed.

Theorem case_sound : forall c, case_accept c = true -> case_holds c = true.
Proof.
  intros c H. unfold case_accept in H. destruct c as [steps|deg steps|deg steps|g hist final|fixed mv mv' falses seen|start step count stride scans|]; cbn [model_ok case_holds] in *.
  - apply (w_run_sound steps iempty []); [apply refines_empty|exact H].
  - apply andb_prop in H as [Hd H]. rewrite Hd. cbn [andb]. apply Nat.leb_le in Hd.
    apply (i_run_sound deg Hd steps iempty []); [apply refines_empty|exact H].
  - apply andb_prop in H as [Hd H]. rewrite Hd. cbn [andb]. apply Nat.leb_le in Hd.
    apply (c_run_sound deg Hd steps [Some iempty; None; None; None]); [|exact H].
    constructor; [apply refines_empty|]. repeat (constructor; [exact I|]). constructor.
  - apply andb_prop in H as [Hg H]. rewrite Hg. cbn [andb].
    destruct (opts_all (map (p_run1 iempty) hist)) as [ts|] eqn:E; [|discriminate].
    rewrite (p_all_sound hist ts E). exact H.
  - exact H.
  - apply andb_prop in H as [Hc H]. rewrite Hc. cbn [andb].
    destruct (w_outs iempty (big_ops start step count stride scans)) as [outs|] eqn:E; [|discriminate].
    rewrite <- (w_outs_sound _ iempty [] outs (refines_empty WDEG) E). exact H.
  - discriminate.
Qed.
