(* C20: a concrete instance of the base64 codec Base64Bytes calls (encoding/base64.RawStdEncoding: standard alphabet,
   no padding, non-strict trailing bits, CR and LF skipped), so that the hypothesis "decode (encode b) = b" of the
   Base64Bytes round trip is a theorem about a model that every run compares with the real codec. *)
From Coq Require Import ZArith List Lia Bool.
Require Import C20_Radix.
Import ListNotations.
Open Scope Z_scope.

(* "ABCDEFGHIJKLMNOPQRSTUVWXYZabcdefghijklmnopqrstuvwxyz0123456789+/" *)
Definition b64_char (i : Z) : Z :=
  if i <? 26 then 65 + i else if i <? 52 then 71 + i else if i <? 62 then i - 4 else if i =? 62 then 43 else 47.
Definition b64_val (c : Z) : option Z :=
  if (65 <=? c) && (c <=? 90) then Some (c - 65)
  else if (97 <=? c) && (c <=? 122) then Some (c - 71)
  else if (48 <=? c) && (c <=? 57) then Some (c + 4)
  else if c =? 43 then Some 62
  else if c =? 47 then Some 63
  else None.

(* EncodeToString: three bytes give four characters; one or two left-over bytes give two or three *)
Fixpoint b64_enc (l : list Z) : list Z :=
  match l with
  | a :: b :: c :: r =>
      let n := a * 65536 + b * 256 + c in
      b64_char (n / 262144) :: b64_char (n / 4096 mod 64) :: b64_char (n / 64 mod 64) :: b64_char (n mod 64) :: b64_enc r
  | [a; b] => let n := a * 65536 + b * 256 in [b64_char (n / 262144); b64_char (n / 4096 mod 64); b64_char (n / 64 mod 64)]
  | [a] => let n := a * 65536 in [b64_char (n / 262144); b64_char (n / 4096 mod 64)]
  | [] => []
  end.

(* the decoder's reading loop: '\r' and '\n' are skipped, any other byte outside the alphabet is corrupt input *)
Fixpoint b64_vals (l : list Z) : option (list Z) :=
  match l with
  | [] => Some []
  | c :: r => if (c =? 10) || (c =? 13) then b64_vals r
              else match b64_val c, b64_vals r with Some v, Some t => Some (v :: t) | _, _ => None end
  end.
(* quanta of four; a final quantum of two or three characters gives one or two bytes (left-over bits ignored); one is corrupt *)
Fixpoint b64_groups (fuel : nat) (v : list Z) : res (list Z) :=
  match fuel with
  | O => Err
  | S f =>
    match v with
    | s1 :: s2 :: s3 :: s4 :: r =>
        let n := s1 * 262144 + s2 * 4096 + s3 * 64 + s4 in
        match b64_groups f r with Ok t => Ok (n / 65536 :: n / 256 mod 256 :: n mod 256 :: t) | e => e end
    | [s1; s2; s3] => let n := s1 * 262144 + s2 * 4096 + s3 * 64 in Ok [n / 65536; n / 256 mod 256]
    | [s1; s2] => let n := s1 * 262144 + s2 * 4096 in Ok [n / 65536]
    | [_] => Err
    | [] => Ok []
    end
  end.
Definition b64_dec (l : list Z) : res (list Z) :=
  match b64_vals l with Some v => b64_groups (S (length v)) v | None => Err end.

(* ---------------- decode (encode b) = b ---------------- *)
Definition sextets : list Z := map Z.of_nat (seq 0 64).
Lemma in_sextets i : 0 <= i < 64 -> In i sextets.
Proof. intros H. unfold sextets. rewrite <- (Z2Nat.id i) by lia. apply in_map. apply in_seq. lia. Qed.
Lemma b64_val_char i : 0 <= i < 64 -> b64_val (b64_char i) = Some i /\ ((b64_char i =? 10) || (b64_char i =? 13)) = false.
Proof.
  intros H.
  assert (A : forallb (fun i => oz_eqb (b64_val (b64_char i)) (Some i) && negb ((b64_char i =? 10) || (b64_char i =? 13))) sextets = true)
    by (vm_compute; reflexivity).
  rewrite forallb_forall in A. specialize (A i (in_sextets i H)). apply andb_prop in A as [A B].
  split; [apply oz_eqb_eq, A|apply negb_true_iff, B].
Qed.
Lemma b64_vals_cons i r : 0 <= i < 64 -> b64_vals (b64_char i :: r) = match b64_vals r with Some t => Some (i :: t) | None => None end.
Proof. intros H. destruct (b64_val_char i H) as [A B]. cbn [b64_vals]. rewrite A, B. reflexivity. Qed.

Definition is_byte8 (z : Z) : bool := (0 <=? z) && (z <=? 255).
Lemma is_byte8_spec z : is_byte8 z = true <-> 0 <= z <= 255.
Proof. unfold is_byte8. rewrite andb_true_iff, !Z.leb_le. tauto. Qed.

(* the sextet list of a byte list *)
Fixpoint b64_sext (l : list Z) : list Z :=
  match l with
  | a :: b :: c :: r =>
      let n := a * 65536 + b * 256 + c in n / 262144 :: n / 4096 mod 64 :: n / 64 mod 64 :: n mod 64 :: b64_sext r
  | [a; b] => let n := a * 65536 + b * 256 in [n / 262144; n / 4096 mod 64; n / 64 mod 64]
  | [a] => let n := a * 65536 in [n / 262144; n / 4096 mod 64]
  | [] => []
  end.

Lemma by3_ind (Q : list Z -> Prop) :
  Q [] -> (forall a, Q [a]) -> (forall a b, Q [a; b]) -> (forall a b c r, Q r -> Q (a :: b :: c :: r)) -> forall l, Q l.
Proof.
  intros H0 H1 H2 H3. assert (G : forall n l, (length l <= n)%nat -> Q l).
  { induction n as [|n IH]; intros l Hl.
    - destruct l; [exact H0|cbn in Hl; lia].
    - destruct l as [|a [|b [|c r]]]; auto. apply H3. apply IH. cbn [length] in Hl. lia. }
  intros l. apply (G (length l)). lia.
Qed.

Lemma b64_vals_enc l : forallb is_byte8 l = true -> b64_vals (b64_enc l) = Some (b64_sext l).
Proof.
  induction l as [|a|a b|a b c r IH] using by3_ind; intros H.
  - reflexivity.
  - cbn [forallb] in H. apply andb_prop in H as [Ha _]. apply is_byte8_spec in Ha.
    cbn [b64_enc b64_sext]. cbv zeta.
    rewrite !b64_vals_cons by (Z.div_mod_to_equations; lia). reflexivity.
  - cbn [forallb] in H. apply andb_prop in H as [Ha H]. apply andb_prop in H as [Hb _]. apply is_byte8_spec in Ha. apply is_byte8_spec in Hb.
    cbn [b64_enc b64_sext]. cbv zeta.
    rewrite !b64_vals_cons by (Z.div_mod_to_equations; lia). reflexivity.
  - cbn [forallb] in H. apply andb_prop in H as [Ha H]. apply andb_prop in H as [Hb H]. apply andb_prop in H as [Hc Hr].
    apply is_byte8_spec in Ha. apply is_byte8_spec in Hb. apply is_byte8_spec in Hc.
    cbn [b64_enc b64_sext]. cbv zeta.
    rewrite !b64_vals_cons by (Z.div_mod_to_equations; lia). rewrite (IH Hr). reflexivity.
Qed.

Lemma b64_groups_sext l : forallb is_byte8 l = true -> forall f, (length (b64_sext l) < f)%nat -> b64_groups f (b64_sext l) = Ok l.
Proof.
  induction l as [|a|a b|a b c r IH] using by3_ind; intros H f Hf.
  - destruct f; [lia|reflexivity].
  - cbn [forallb] in H. apply andb_prop in H as [Ha _]. apply is_byte8_spec in Ha.
    destruct f; [lia|]. cbn [b64_sext b64_groups]. cbv zeta. f_equal. f_equal. Z.div_mod_to_equations; lia.
  - cbn [forallb] in H. apply andb_prop in H as [Ha H]. apply andb_prop in H as [Hb _]. apply is_byte8_spec in Ha. apply is_byte8_spec in Hb.
    destruct f; [lia|]. cbn [b64_sext b64_groups]. cbv zeta. f_equal. f_equal; [|f_equal]; Z.div_mod_to_equations; lia.
  - cbn [forallb] in H. apply andb_prop in H as [Ha H]. apply andb_prop in H as [Hb H]. apply andb_prop in H as [Hc Hr].
    apply is_byte8_spec in Ha. apply is_byte8_spec in Hb. apply is_byte8_spec in Hc.
    destruct f; [lia|]. cbn [b64_sext b64_groups]. cbv zeta. cbn [b64_sext length] in Hf.
    rewrite (IH Hr f) by lia. f_equal. f_equal; [|f_equal; [|f_equal]]; Z.div_mod_to_equations; lia.
Qed.

Theorem b64_roundtrip l : forallb is_byte8 l = true -> b64_dec (b64_enc l) = Ok l.
Proof. intros H. unfold b64_dec. rewrite (b64_vals_enc l H). apply b64_groups_sext; [exact H|lia]. Qed.

Lemma b64_groups_no_panic f v : b64_groups f v <> Panic.
Proof.
  revert v. induction f as [|f IH]; intros v; cbn [b64_groups]; [discriminate|].
  destruct v as [|s1 [|s2 [|s3 [|s4 r]]]]; try discriminate.
  specialize (IH r). destruct (b64_groups f r); [discriminate|discriminate|congruence].
Qed.
Lemma b64_dec_no_panic l : b64_dec l <> Panic.
Proof. unfold b64_dec. destruct (b64_vals l); [apply b64_groups_no_panic|discriminate]. Qed.

Example b64_demo :
  b64_enc [65; 66; 67; 68] = [81; 85; 74; 68; 82; 65] /\ b64_dec [81; 85; 74; 68; 82; 65] = Ok [65; 66; 67; 68]
  /\ b64_dec [81; 81; 61; 61] = Err /\ b64_dec [81] = Err /\ b64_dec [81; 10; 81] = Ok [65] /\ b64_dec [81; 82] = Ok [65]
  /\ b64_dec [81; 45; 95; 81] = Err /\ b64_enc [251; 255] = [43; 47; 56].
Proof. vm_compute. repeat split. Qed.
