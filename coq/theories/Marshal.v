(* C09 core: the sparse encoding of Bit1024 (two little-endian bytes per member) decodes to the same members *)
From Coq Require Import ZArith List Bool Lia.
Import ListNotations.
Open Scope Z_scope.

Definition encode_sparse (ms : list Z) : list Z := flat_map (fun m => [m mod 256; m / 256]) ms.

Inductive res := Ok (ms : list Z) | BadLength | BadElement.

(* Unmarshal, sparse branch: int16(LittleEndian.Uint16(buf[2i:])) must lie in [0, 1023] *)
Fixpoint decode_pairs (bs : list Z) : res :=
  match bs with
  | [] => Ok []
  | [_] => BadLength
  | b0 :: b1 :: r =>
    let u := b0 + 256 * b1 in
    let i16 := if u <? 32768 then u else u - 65536 in
    if (i16 <? 0) || (1023 <? i16) then BadElement
    else match decode_pairs r with Ok ms => Ok (i16 :: ms) | e => e end
  end.

Definition unmarshal (bs : list Z) : res + unit :=   (* inr tt: the 128-byte dense form, handled elsewhere *)
  let n := Z.of_nat (length bs) in
  if n =? 0 then inl (Ok [])
  else if 128 <? n then inl BadLength
  else if negb (n mod 2 =? 0) then inl BadLength
  else if n <? 128 then inl (decode_pairs bs) else inr tt.

Lemma decode_encode : forall ms, Forall (fun m => 0 <= m <= 1023) ms -> decode_pairs (encode_sparse ms) = Ok ms.
Proof.
  induction 1 as [|m ms Hm _ IH]; [reflexivity|].
  cbn [encode_sparse flat_map app decode_pairs]. fold (encode_sparse ms).
  pose proof (Z.div_mod m 256 ltac:(lia)) as Hd.
  replace (m mod 256 + 256 * (m / 256)) with m by lia.
  replace (m <? 32768) with true by (symmetry; apply Z.ltb_lt; lia).
  replace (m <? 0) with false by (symmetry; apply Z.ltb_ge; lia).
  replace (1023 <? m) with false by (symmetry; apply Z.ltb_ge; lia).
  cbn [orb]. now rewrite IH.
Qed.

Lemma encode_length ms : length (encode_sparse ms) = (2 * length ms)%nat.
Proof. induction ms as [|m ms IH]; cbn; [reflexivity|]. fold (encode_sparse ms). rewrite IH. lia. Qed.

(* Marshal uses the sparse form exactly when there are fewer than 64 members; Unmarshal then takes the
   sparse branch and returns them *)
Theorem sparse_roundtrip ms : Forall (fun m => 0 <= m <= 1023) ms -> (0 < length ms < 64)%nat ->
  unmarshal (encode_sparse ms) = inl (Ok ms).
Proof.
  intros Hm Hl. unfold unmarshal. rewrite encode_length.
  replace (Z.of_nat (2 * length ms) =? 0) with false by (symmetry; apply Z.eqb_neq; lia).
  replace (128 <? Z.of_nat (2 * length ms)) with false by (symmetry; apply Z.ltb_ge; lia).
  replace (Z.of_nat (2 * length ms) mod 2 =? 0) with true
    by (symmetry; apply Z.eqb_eq; rewrite Nat2Z.inj_mul; change (Z.of_nat 2) with 2; rewrite Z.mul_comm; apply Z.mod_mul; lia).
  cbn [negb]. replace (Z.of_nat (2 * length ms) <? 128) with true by (symmetry; apply Z.ltb_lt; lia).
  now rewrite decode_encode.
Qed.

(* arbitrary bytes: the sparse branch never yields an element outside [0, 1023] *)
Theorem decode_in_range : forall bs ms, decode_pairs bs = Ok ms -> Forall (fun m => 0 <= m <= 1023) ms.
Proof.
  fix IH 1. intros [|b0 [|b1 r]] ms H; cbn in H.
  - inversion H. constructor.
  - discriminate.
  - destruct ((_ <? 0) || (1023 <? _)) eqn:E; [discriminate|].
    destruct (decode_pairs r) as [ms'| |] eqn:Er; try discriminate. inversion H; subst.
    apply orb_false_iff in E as [E1 E2]. apply Z.ltb_ge in E1. apply Z.ltb_ge in E2.
    constructor; [lia | eapply IH; eauto].
Qed.
Print Assumptions sparse_roundtrip.
Print Assumptions decode_in_range.
