(* C05: the three behaviours repaired by the fix: commits, kept as refuted variants, and the observed pre-fix traces as
   cases the monitor rejects (regression witnesses). *)
From Coq Require Import ZArith List Lia Bool.
Require Import TTL TTLView C05_Hist C05_Mon C05_Rds C05_RdsAgree C05_Check.
Import ListNotations.
Open Scope Z_scope.

(* pre-fix Set: an expired entry that was not collected yet counted as existing *)
Definition set_old (c : cache) (k v : Z) (o : setopt) (now : Z) : cache * res :=
  let ttl := set_ttl c o in
  match find_k k (l c) with
  | Some n =>
      if mne o then (c, Exists)
      else ({| size := size c; dttl := dttl c;
               l := {| key := k; val := v; dl := if keep o then dl n else deadline ttl now |} :: erase k (l c) |}, Done)
  | None =>
      let l1 := {| key := k; val := v; dl := deadline ttl now |} :: l c in
      ({| size := size c; dttl := dttl c; l := if size c <? Z.of_nat (length l1) then removelast l1 else l1 |}, Done)
  end.

Definition c_old : cache := fst (set (empty 4 0) 1 7 {| s_ttl := Some 3; mne := false; keep := false |} 10).

(* Set; the ttl elapses; set-if-absent: the pre-fix code answers already-exists, the repaired model succeeds *)
Lemma set_old_refuted :
  expired c_old 1 20 /\
  snd (set_old c_old 1 8 {| s_ttl := None; mne := true; keep := false |} 20) = Exists /\
  snd (set c_old 1 8 {| s_ttl := None; mne := true; keep := false |} 20) = Done.
Proof. split; [exists {| key := 1; val := 7; dl := 13 |}; split; [reflexivity|cbn; lia]|split; reflexivity]. Qed.

(* ... and keep-ttl on the elapsed key stays dead in the pre-fix code *)
Lemma set_old_keep_refuted :
  view (fst (set_old c_old 1 8 {| s_ttl := Some 5; mne := false; keep := true |} 20)) 1 20 = None /\
  view (fst (set c_old 1 8 {| s_ttl := Some 5; mne := false; keep := true |} 20)) 1 20 = Some 8.
Proof. split; reflexivity. Qed.

(* pre-fix redis adapter: time.Duration(ttl) without * time.Second; every ttl below a millisecond's worth of
   nanoseconds went out as PX 1 *)
Definition dur_old (ttl : Z) : Z := wrap64 ttl.
Lemma rds_old_refuted ttl : 0 < ttl < MSEC -> expiry_of (dur_old ttl) = XPx 1.
Proof.
  intros H. unfold dur_old. rewrite wrap64_id by (unfold MSEC, MAXI in *; lia).
  unfold expiry_of, use_precise, format_ms. unfold MSEC, SEC in *.
  replace (ttl <? 1000000000) with true by (symmetry; apply Z.ltb_lt; lia). cbn [orb].
  replace (0 <? ttl) with true by (symmetry; apply Z.ltb_lt; lia).
  replace (ttl <? 1000000) with true by (symmetry; apply Z.ltb_lt; lia). reflexivity.
Qed.

(* the observed pre-fix traces (DESIGN section 7, rows 2-4) are rejected by case_holds *)
Example prefix_size0_trace_rejected :
  case_holds (CMem 0 0 [(5, S_ 0 1 None false false, Done); (5, S_ 1 2 None false false, Done)]
                       [(5, G_ 0 false None, Ok 1); (5, G_ 1 false None, Ok 2)]) = false.
Proof. vm_compute. reflexivity. Qed.

Example prefix_expired_mne_trace_rejected :
  case_holds (CMem 4 0 [(10, S_ 1 7 (Some 3) false false, Done); (20, S_ 1 8 None true false, Exists)] []) = false.
Proof. vm_compute. reflexivity. Qed.

Example prefix_expired_keep_trace_rejected :
  case_holds (CMem 4 0 [(10, S_ 1 7 (Some 3) false false, Done); (20, S_ 1 8 (Some 5) false true, Done); (20, G_ 1 false None, NotFound)] []) = false.
Proof. vm_compute. reflexivity. Qed.

Example prefix_rds_px1_trace_rejected :
  case_holds (CRds 8 0 [(10, S_ 1 7 (Some 10) false false, Done, (Done, [RSet 1 7 (XPx 1) false]));
                        (11, G_ 1 false None, Ok 7, (NotFound, [RGet 1]))]) = false.
Proof. vm_compute. reflexivity. Qed.

(* non-vacuity: the hypotheses of the headline theorems are satisfiable by non-trivial objects *)
Definition h_demo : list (Z * op) :=
  [(10, S_ 1 7 (Some 3) false false); (10, S_ 2 8 None false false); (11, G_ 1 false None); (12, S_ 3 9 (Some 2) true false);
   (13, G_ 2 false None); (14, G_ 1 false None); (14, S_ 1 5 None true true); (15, G_ 3 true None); (15, G_ 3 false None)].

Example demo_in_domain : dom_all 4 (trace_of (empty 2 4) h_demo) = true.
Proof. vm_compute. reflexivity. Qed.
Example demo_results : snd (run (empty 2 4) h_demo) = [Done; Done; Ok 7; Done; NotFound; NotFound; Done; NotFound; NotFound].
Proof. vm_compute. reflexivity. Qed.
Example demo_restricted : restricted 2 4 h_demo = false /\
  restricted 3 4 [(10, S_ 1 7 (Some 3) false false); (11, S_ 1 8 None false true); (12, G_ 1 false (Some 0)); (17, G_ 1 true None); (17, G_ 1 false None)] = true.
Proof. split; vm_compute; reflexivity. Qed.
Example demo_expired : expired c_old 1 20.
Proof. exists {| key := 1; val := 7; dl := 13 |}. split; [reflexivity|cbn; lia]. Qed.
