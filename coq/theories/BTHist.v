(* C03: every history.  The height of a well-formed tree is logarithmic in its size, so the model's constant
   fuel suffices for every tree of fewer than 2^31 items; then any sequence of operations keeps the invariant
   and the in-order list of the tree is the abstract ordered set after the same sequence *)
From Coq Require Import ZArith List Lia Bool Sorting.Sorted.
Require Import BTmodel BTD BTIns BTSel BTInv BTTot BTInsInv BTUp BTTree.
Import ListNotations.

(* ---- size against height ---- *)
Lemma inter_length_ge F m : forall its ch, length ch = S (length its) ->
  Forall (fun c => (m <= S (length (F c)))%nat) ch ->
  (S (length its) * m <= S (length (inter F its ch)))%nat.
Proof.
  induction its as [|x its IH]; intros ch Hl Hf.
  - destruct ch as [|c [|c2 ch]]; try (cbn in Hl; lia). inversion Hf; subst. cbn [inter hd_rec length]. lia.
  - destruct ch as [|c ch]; [cbn in Hl; lia|]. inversion Hf as [|? ? Hc Hf']; subst.
    cbn [inter hd_rec tl]. rewrite app_length. cbn [length] in *.
    specialize (IH ch ltac:(lia) Hf'). lia.
Qed.

Lemma size_height minI : (1 <= minI)%nat -> forall h n, shaped h n -> occ minI h n ->
  (S (length (items_of n)) * 2 ^ h <= S (length (flat (S h) n)))%nat.
Proof.
  intros Hm. induction h as [|h IH]; intros n Hs Ho.
  - destruct n as [its ch]. cbn in Hs. subst ch. rewrite flat_S. cbn [items_of children_of]. rewrite inter_leaf. cbn [Nat.pow]. lia.
  - rewrite flat_S. destruct n as [its ch]. destruct Hs as [Hl Hf]. cbn [items_of children_of BTD.occ] in *.
    replace (2 ^ S h)%nat with (2 * 2 ^ h)%nat by (cbn [Nat.pow]; lia).
    apply inter_length_ge; [exact Hl|].
    apply Forall_forall. intros c Hc. rewrite Forall_forall in Hf, Ho. destruct (Ho c Hc) as [Hcm Hco].
    specialize (IH c (Hf c Hc) Hco).
    assert (2 * 2 ^ h <= S (length (items_of c)) * 2 ^ h)%nat by (apply Nat.mul_le_mono_r; lia). lia.
Qed.

Definition small (L : list Z) : Prop := (Z.of_nat (length L) < 2 ^ 31)%Z.

Lemma fuel_enough deg : (2 <= deg)%nat -> forall h t, tinv deg h t -> small (contents h t) -> (2 * h + 2 <= FUEL)%nat.
Proof.
  intros Hd h t Hinv Hsmall. unfold FUEL. destruct t as [r|]; [|cbn in Hinv; subst; lia].
  destruct Hinv as ((Hs & Ho & _) & _ & _ & Hemp). cbn [contents] in Hsmall. unfold small in Hsmall.
  destruct (items_of r) as [|x its] eqn:Ei; [rewrite (Hemp eq_refl); lia|].
  pose proof (size_height (minI_of deg) (minI_pos deg Hd) h r Hs Ho) as Hsz. rewrite Ei in Hsz. cbn [length] in Hsz.
  destruct (Nat.le_gt_cases h 30) as [Hle|Hgt]; [lia|exfalso].
  assert (H2 : (2 * 2 ^ h <= S (length (flat (S h) r)))%nat) by lia.
  apply Nat2Z.inj_le in H2. rewrite Nat2Z.inj_mul, Nat2Z.inj_pow in H2. change (Z.of_nat 2) with 2%Z in H2.
  assert (H3 : (2 ^ 31 <= 2 ^ Z.of_nat h)%Z) by (apply Z.pow_le_mono_r; lia).
  lia.
Qed.

(* ---- histories ---- *)
Definition run (deg : nat) (t : option node) (ops : list op) : option node := fold_left (apply deg) ops t.
Definition spec_run (L : list Z) (ops : list op) : list Z := fold_left (fun L o => spec_apply o L) ops L.
(* the abstract set stays below 2^31 elements at every step *)
Fixpoint all_small (L : list Z) (ops : list op) : Prop :=
  small L /\ match ops with [] => True | o :: r => all_small (spec_apply o L) r end.

Theorem history_ok deg : (2 <= deg)%nat -> forall ops h t, tinv deg h t -> all_small (contents h t) ops ->
  exists h', tinv deg h' (run deg t ops) /\ contents h' (run deg t ops) = spec_run (contents h t) ops.
Proof.
  intros Hd. induction ops as [|o ops IH]; intros h t Hinv Hsm.
  - exists h. split; [exact Hinv|reflexivity].
  - destruct Hsm as [Hs0 Hsm]. cbn [run spec_run fold_left].
    destruct (apply_ok deg Hd h t o Hinv (fuel_enough deg Hd h t Hinv Hs0)) as (h1 & Hinv1 & _ & Hc1).
    rewrite <- Hc1 in Hsm. destruct (IH h1 (apply deg t o) Hinv1 Hsm) as (h' & Hinv' & Hc').
    exists h'. split; [exact Hinv'|]. unfold run, spec_run in *. rewrite Hc', Hc1. reflexivity.
Qed.

(* from the empty tree: the in-order list is the abstract set, and it is strictly increasing *)
Lemma tinv_sorted deg h t : tinv deg h t -> StronglySorted Z.lt (contents h t).
Proof. destruct t as [r|]; cbn [tinv contents]; [intros (_ & _ & Hs & _); exact Hs|intros _; constructor]. Qed.

Corollary from_empty deg : (2 <= deg)%nat -> forall ops, all_small [] ops ->
  exists h', tinv deg h' (run deg None ops) /\ contents h' (run deg None ops) = spec_run [] ops /\
             StronglySorted Z.lt (spec_run [] ops).
Proof.
  intros Hd ops Hsm. destruct (history_ok deg Hd ops O None eq_refl Hsm) as (h' & Hinv & Hc).
  exists h'. split; [exact Hinv|]. split; [exact Hc|]. cbn [contents] in Hc. rewrite <- Hc. eapply tinv_sorted, Hinv.
Qed.

(* ---- the abstract operations are the set operations ---- *)
Lemma spec_ins_in k L x : In x (spec_ins k L) <-> x = k \/ In x L.
Proof.
  unfold spec_ins. rewrite in_app_iff. cbn [In]. rewrite !filter_In. split.
  - intros [[H _]|[H|[H _]]]; auto.
  - intros [->|H]; [right; left; reflexivity|].
    destruct (Z.lt_trichotomy x k) as [Hlt|[->|Hgt]]; [left; split; [exact H|apply Z.ltb_lt, Hlt] | right; left; reflexivity | right; right; split; [exact H|apply Z.ltb_lt, Hgt]].
Qed.
Lemma spec_del_in k L x : In x (spec_list (RmItem k) L) <-> In x L /\ x <> k.
Proof.
  cbn [spec_list]. rewrite filter_In. unfold ne. rewrite negb_true_iff, Z.eqb_neq. tauto.
Qed.
Lemma spec_min L : StronglySorted Z.lt L -> L <> [] ->
  exists m, L = m :: spec_list RmMin L /\ Forall (fun y => (m < y)%Z) (spec_list RmMin L).
Proof. intros Hs Hne. destruct L as [|m L]; [congruence|]. exists m. cbn [spec_list tl]. inversion Hs; subst. auto. Qed.
Lemma spec_max L : StronglySorted Z.lt L -> L <> [] ->
  L = spec_list RmMax L ++ [last L 0%Z] /\ Forall (fun y => (y < last L 0)%Z) (spec_list RmMax L).
Proof.
  intros Hs Hne. cbn [spec_list]. pose proof (app_removelast_last 0%Z Hne) as E. split; [exact E|].
  rewrite E in Hs. apply ss_app_inv in Hs. tauto.
Qed.

(* non-vacuity: a history with splits, a root split, steals, merges and a root collapse (degree 2) *)
Definition demo : list op := [Ins 5; Ins 1; Ins 9; Ins 3; Ins 7; Ins 2; Ins 8; Ins 4; Ins 6; Del 5; DelMin; Del 9; DelMax; Del 3; Del 4; Del 6; Ins 10]%Z.
Example demo_small : all_small [] demo.
Proof. unfold demo, small; cbn; repeat split; lia. Qed.
Example demo_run : run 2 None demo = Some (Node [2; 7; 10]%Z []) /\ spec_run [] demo = [2; 7; 10]%Z.
Proof. vm_compute. split; reflexivity. Qed.

Print Assumptions history_ok.
Print Assumptions from_empty.
