(* C01: the code computes in Go's int (64 bit, wrapping), the model in Z.
   stepG is the per-key machine with EVERY arithmetic operation of semaphore.go wrapped to int64:
     acquire        s.size-s.cur >= n            s.cur += n
     notifyWaiters  s.size-s.cur < w.n           s.cur += w.n
     release        s.cur -= n
     cancel path    s.size > s.cur               (a comparison, no arithmetic)
   With the fit test as coded (`size-cur < n`) the wrapped machine IS the Z machine in every state satisfying the
   invariant, for every 1 <= rwRatio <= MaxInt64 (int64_faithful): 0 <= cur <= size keeps size-cur, cur+n (only computed
   when it fits) and cur-n (n = tokens of a holder) inside [0, MaxInt64].  The algebraically equal test `cur+n > size`
   is NOT faithful: at rwRatio = MaxInt64 it wraps and hands a queued writer the semaphore beside a reader
   (notify_fit_overflow_refuted). *)
From Coq Require Import ZArith List Lia Bool Arith.
Require Import Semap C01_Model.
Import ListNotations.
Open Scope Z_scope.

Definition two63 : Z := 9223372036854775808.
Definition two64 : Z := 18446744073709551616.
Definition max64 : Z := 9223372036854775807.
Definition wrap64 (x : Z) : Z := (x + two63) mod two64 - two63.

Lemma wrap64_id x : - two63 <= x <= max64 -> wrap64 x = x.
Proof. unfold wrap64, two63, two64, max64. intros H. rewrite Z.mod_small by lia. lia. Qed.

(* the two ways of writing "the head of the queue does not fit" *)
Definition unfit_code (size c n : Z) : bool := wrap64 (size - c) <? n.        (* s.size-s.cur < w.n *)
Definition unfit_sum (size c n : Z) : bool := wrap64 (c + n) >? size.         (* s.cur+w.n > s.size *)

Section G.
Variable size : Z.
Variable unfit : Z -> Z -> bool.

Fixpoint notifyG (c : Z) (w g : list (nat * Z)) : Z * list (nat * Z) * list (nat * Z) :=
  match w with
  | [] => (c, [], g)
  | (t, n) :: w' => if unfit c n then (c, w, g) else notifyG (wrap64 (c + n)) w' (g ++ [(t, n)])
  end.

Definition stepG (s : st) (l : label) : option (st * list nat * list nat) :=
  match l with
  | Acq t n =>
      match lookup t (held s) with Some _ => None | None =>
      let e := match ent s with Some e => e | None => {| cur := 0; q := [] |} end in
      match lookup t (q e) with Some _ => None | None =>
      if (n <=? wrap64 (size - cur e)) && is_nil (q e)
      then Some ({| ent := Some {| cur := wrap64 (cur e + n); q := [] |}; held := held s ++ [(t, n)] |}, [t], [])
      else Some ({| ent := Some {| cur := cur e; q := q e ++ [(t, n)] |}; held := held s |}, [], [])
      end end
  | Cancel t =>
      match ent s with None => None | Some e =>
      match lookup t (q e) with
      | None => match lookup t (held s) with Some _ => Some (s, [], []) | None => None end
      | Some _ =>
        let isfront := match q e with (t', _) :: _ => Nat.eqb t t' | [] => false end in
        let q' := remove_t t (q e) in
        if isfront && (cur e <? size)
        then let '(c, w, g) := notifyG (cur e) q' [] in
             Some ({| ent := Some {| cur := c; q := w |}; held := held s ++ g |}, map fst g, [t])
        else Some ({| ent := Some {| cur := cur e; q := q' |}; held := held s |}, [], [t])
      end end
  | Rel t =>
      match ent s, lookup t (held s) with
      | Some e, Some n =>
        let '(c, w, g) := notifyG (wrap64 (cur e - n)) (q e) [] in
        let h := remove_first t (held s) ++ g in
        if is_nil w && (c =? 0)
        then Some ({| ent := None; held := h |}, map fst g, [])
        else Some ({| ent := Some {| cur := c; q := w |}; held := h |}, map fst g, [])
      | _, _ => None
      end
  end.

Fixpoint runG (s : st) (ls : list label) : option st :=
  match ls with
  | [] => Some s
  | l :: ls' => match stepG s l with Some (s', _, _) => runG s' ls' | None => None end
  end.
End G.

Section Faithful.
Variable size : Z.
Hypothesis size_lo : 1 <= size.
Hypothesis size_hi : size <= max64.

(* the hand-off loop in int64 is the hand-off loop in Z *)
Lemma notifyG_notify : forall w c g, wf_w size w -> 0 <= c <= size ->
  notifyG (unfit_code size) c w g = notify size c w g.
Proof.
  induction w as [|[t n] w IH]; intros c g Hw Hc; cbn [notifyG notify]; [reflexivity|].
  inversion Hw as [|? ? Hn Hw']; subst. cbn in Hn. unfold unfit_code.
  rewrite wrap64_id by (unfold two63, max64 in *; lia).
  destruct (size - c <? n) eqn:E; [reflexivity|]. apply Z.ltb_ge in E.
  rewrite wrap64_id by (unfold two63, max64 in *; lia). apply IH; auto. lia.
Qed.

(* every quantity the code computes stays inside int64 in every state satisfying the invariant *)
Theorem quantities_in_range s : Inv size s ->
  match ent s with
  | Some e => 0 <= size - cur e <= max64 /\
              (forall n, 1 <= n <= size - cur e -> 0 <= cur e + n <= max64) /\
              (forall t n, lookup t (held s) = Some n -> 0 <= cur e - n <= max64)
  | None => True
  end.
Proof.
  intros [Hh He]. destruct (ent s) as [e|]; [|exact I]. destruct He as (Hc & Hb & _).
  split; [lia|]. split; [intros n Hn; lia|]. intros t n Hl.
  destruct (remove_first_spec size _ _ _ Hh Hl) as [Hsum Hwf]. pose proof (sumw_pos size _ Hwf) as [Hp _].
  pose proof (lookup_weight size _ _ _ Hh Hl). lia.
Qed.

(* with the fit test as coded, the int64 machine is the Z machine *)
Theorem int64_faithful s l : Inv size s -> lab_ok size l ->
  stepG size (unfit_code size) s l = stepo size s l.
Proof.
  intros Hi Hl. pose proof (quantities_in_range s Hi) as Hq. destruct Hi as [Hh He].
  destruct l as [t n|t|t]; cbn [stepG stepo].
  - cbn in Hl. destruct (lookup t (held s)); [reflexivity|].
    destruct (ent s) as [e|]; cbn [cur q].
    + destruct He as (Hc & Hb & _). destruct (lookup t (q e)); [reflexivity|].
      rewrite wrap64_id by (unfold two63, max64 in *; lia).
      destruct ((n <=? size - cur e) && is_nil (q e)) eqn:E; [|reflexivity].
      apply andb_prop in E as [E _]. apply Z.leb_le in E.
      rewrite wrap64_id by (unfold two63, max64 in *; lia). reflexivity.
    + cbn [lookup find option_map]. rewrite wrap64_id by (unfold two63, max64 in *; lia).
      destruct ((n <=? size - 0) && is_nil (@nil (nat * Z))) eqn:E; [|reflexivity].
      rewrite wrap64_id by (unfold two63, max64 in *; lia). reflexivity.
  - destruct (ent s) as [e|]; [|reflexivity]. destruct He as (Hc & Hb & Hq' & _).
    destruct (lookup t (q e)); [|reflexivity].
    rewrite notifyG_notify; [reflexivity| apply wf_remove_t; auto | lia].
  - destruct (ent s) as [e|]; [|reflexivity]. destruct He as (Hc & Hb & Hq' & _).
    destruct (lookup t (held s)) as [n|] eqn:El; [|reflexivity].
    destruct Hq as (_ & _ & Hr). specialize (Hr t n El). pose proof (lookup_weight size _ _ _ Hh El) as Hn.
    rewrite wrap64_id by (unfold two63, max64 in *; lia).
    rewrite notifyG_notify; [reflexivity| auto | lia].
Qed.
End Faithful.

(* hence along every label sequence of the keyed machine, for every key *)
Theorem int64_faithful_reachable size ls S k l : 1 <= size <= max64 -> krun size kinit ls = Some S ->
  stepG size (unfit_code size) (S k) (lab_sem size l) = stepo size (S k) (lab_sem size l).
Proof.
  intros [Hlo Hhi] H. apply int64_faithful; auto.
  - apply (reachable_inv size Hlo ls S H).
  - apply lab_sem_ok. exact Hlo.
Qed.

(* the "same" test written as a sum wraps at rwRatio = MaxInt64: two readers in, a writer queues, one reader releases
   - the writer is handed the semaphore beside the remaining reader; as coded it stays queued *)
Example notify_fit_overflow_refuted :
  exists s, runG max64 (unfit_sum max64) init [Acq 1 1; Acq 2 1; Acq 3 max64; Rel 1] = Some s /\
            held s = [(2%nat, 1); (3%nat, max64)].
Proof. eexists. split; vm_compute; reflexivity. Qed.

Example notify_fit_as_coded :
  exists s, runG max64 (unfit_code max64) init [Acq 1 1; Acq 2 1; Acq 3 max64; Rel 1] = Some s /\
            held s = [(2%nat, 1)] /\ qof s = [(3%nat, max64)].
Proof. eexists. split; [|split]; vm_compute; reflexivity. Qed.

Print Assumptions int64_faithful.
Print Assumptions notify_fit_overflow_refuted.
