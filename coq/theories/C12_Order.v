(* C12: the specified order of the pipe queue stated declaratively, over every history, prior adds included.
   Every accepted item is stamped (ghost) with the time of its acceptance and with whether it came by a prior add.
   Theorem p_order: whenever a pop hands out an item,
     - if it came by a prior add, it is the MOST RECENTLY accepted prior add still pending;
     - if it came by an ordinary add, no prior add is pending and it is the EARLIEST accepted item still pending
   ("first-in-first-out, with prior additions going to the front"). *)
From Coq Require Import ZArith List Bool Lia Arith.
Require Import C12_Base C12_Pipe.
Import ListNotations.

Definition tag := (bool * nat)%type.          (* (came by a prior add, acceptance time) *)

Record tq := { tst : pq; tags : list tag; now : nat }.

Definition t_step (t : tq) (o : pop) : tq * res :=
  let '(s', r) := p_step (tst t) o in
  ({| tst := s';
      tags := match o, r with
              | PAdd _, RDone | PAddAnyway _, RDone => tags t ++ [(false, now t)]
              | PPrior _, RDone => (true, now t) :: tags t
              | PPop, RItem _ | PPopAnyway, RItem _ => tl (tags t)
              | _, _ => tags t
              end;
      now := S (now t) |}, r).

(* the stamps are pure ghosts: erasing them gives back the model *)
Lemma t_step_erase t o : tst (fst (t_step t o)) = fst (p_step (tst t) o) /\ snd (t_step t o) = snd (p_step (tst t) o).
Proof. unfold t_step. destruct (p_step (tst t) o). split; reflexivity. Qed.

(* all ordinary, strictly increasing stamps *)
Fixpoint ord_n (l : list tag) : Prop :=
  match l with
  | [] => True
  | (b, t) :: l' => b = false /\ Forall (fun g => t < snd g) l' /\ ord_n l'
  end.
(* pending prior adds, newest first, then the pending ordinary adds, oldest first *)
Fixpoint ord (l : list tag) : Prop :=
  match l with
  | [] => True
  | (true, t) :: l' => Forall (fun g => fst g = true -> snd g < t) l' /\ ord l'
  | (false, t) :: l' => ord_n l
  end.

(* what "the specified item" means for the head g of the pending list g :: rest *)
Definition head_spec (g : tag) (rest : list tag) : Prop :=
  if fst g
  then Forall (fun h => fst h = true -> snd h < snd g) rest               (* the newest pending prior add *)
  else Forall (fun h => fst h = false /\ snd g < snd h) rest.             (* no prior pending; the oldest pending item *)

Lemma ord_n_head t l : ord_n ((false, t) :: l) -> Forall (fun h => fst h = false /\ t < snd h) l.
Proof.
  revert t. induction l as [|[b u] l IH]; intros t H; [constructor|].
  destruct H as (_ & Hf & Hn). inversion Hf as [|? ? Hu Hf']; subst. cbn [snd] in Hu. destruct Hn as (Hb & Hf2 & Hn). subst b.
  constructor; [cbn; split; [reflexivity|exact Hu]|].
  specialize (IH u (conj eq_refl (conj Hf2 Hn))). eapply Forall_impl; [|exact IH]. cbn. intros a [H1 H2]. split; [exact H1|lia].
Qed.

Lemma ord_head g rest : ord (g :: rest) -> head_spec g rest.
Proof.
  destruct g as [[|] t]; cbn [ord]; unfold head_spec; cbn [fst snd].
  - intros [H _]. exact H.
  - intros H. now apply ord_n_head.
Qed.

Lemma ord_tl g rest : ord (g :: rest) -> ord rest.
Proof.
  destruct g as [[|] t]; cbn [ord].
  - intros [_ H]. exact H.
  - intros (_ & _ & H). destruct rest as [|[b u] r]; [exact I|]. cbn [ord]. destruct H as (Hb & H). subst b. split; [reflexivity|exact H].
Qed.

Lemma ord_n_snoc l n : ord_n l -> Forall (fun g => snd g < n) l -> ord_n (l ++ [(false, n)]).
Proof.
  induction l as [|[b t] l IH]; intros Ho Hf; [cbn; auto|].
  destruct Ho as (Hb & Hlt & Ho). inversion Hf as [|? ? Ht Hf']; subst. cbn [app ord_n]. split; [first [exact Hb|reflexivity]|]. split; [|now apply IH].
  apply Forall_app. split; [exact Hlt|constructor; [exact Ht|constructor]].
Qed.

Lemma ord_snoc l n : ord l -> Forall (fun g => snd g < n) l -> ord (l ++ [(false, n)]).
Proof.
  induction l as [|[b t] l IH]; intros Ho Hf; [cbn; auto|].
  inversion Hf as [|? ? Ht Hf']; subst. destruct b.
  - destruct Ho as [H1 H2]. cbn [app ord]. split; [|now apply IH].
    apply Forall_app. split; [exact H1|constructor; [cbn; discriminate|constructor]].
  - change (ord_n (((false, t) :: l) ++ [(false, n)])). apply ord_n_snoc; assumption.
Qed.

Lemma ord_cons_prior l n : ord l -> Forall (fun g => snd g < n) l -> ord ((true, n) :: l).
Proof.
  intros Ho Hf. cbn [ord]. split; [|exact Ho]. eapply Forall_impl; [|exact Hf]. cbn. intros a Ha _. exact Ha.
Qed.

Definition t_inv (t : tq) : Prop :=
  ord (tags t) /\ Forall (fun g => snd g < now t) (tags t) /\ length (tags t) = length (items (tst t)).

Lemma forall_lt_S (l : list tag) n : Forall (fun g => snd g < n) l -> Forall (fun g => snd g < S n) l.
Proof. intros H. eapply Forall_impl; [|exact H]. cbn. intros; lia. Qed.

Lemma t_step_inv t o : t_inv t -> t_inv (fst (t_step t o)).
Proof.
  intros (Ho & Hf & Hl). unfold t_inv, t_step.
  assert (Htl : forall l : list tag, ord l -> ord (tl l)) by (intros [|g l] H; [exact I|now apply ord_tl in H]).
  assert (Hftl : forall (l : list tag) n, Forall (fun g => snd g < n) l -> Forall (fun g => snd g < n) (tl l))
    by (intros [|g l] n H; [constructor|now inversion H]).
  destruct o as [x|x|x| | | |]; cbn [p_step]; unfold p_add_anyway, p_add, p_prior, p_pop, p_close.
  - destruct (closed (tst t)); [cbn; auto using forall_lt_S|].
    destruct (full _ _); cbn [fst tst tags now items set_items]; [auto using forall_lt_S|].
    split; [now apply ord_snoc|]. split; [apply Forall_app; split; [now apply forall_lt_S|constructor; [cbn; lia|constructor]]|].
    rewrite !app_length. cbn [length]. lia.
  - destruct (closed (tst t)); [cbn; auto using forall_lt_S|].
    destruct (full _ _); cbn [fst tst tags now items set_items]; [auto using forall_lt_S|].
    split; [now apply ord_snoc|]. split; [apply Forall_app; split; [now apply forall_lt_S|constructor; [cbn; lia|constructor]]|].
    rewrite !app_length. cbn [length]. lia.
  - destruct (closed (tst t)); cbn [fst tst tags now items set_items]; [auto using forall_lt_S|].
    split; [now apply ord_cons_prior|]. split; [constructor; [cbn; lia|now apply forall_lt_S]|]. cbn [length]. lia.
  - destruct (items (tst t)) as [|y l] eqn:Ei.
    + destruct (closed (tst t)); cbn [fst tst tags now]; rewrite Ei; auto using forall_lt_S.
    + destruct (true && closed (tst t)); cbn [fst tst tags now items set_items]; rewrite ?Ei; [auto using forall_lt_S|].
      split; [now apply Htl|]. split; [apply forall_lt_S; now apply Hftl|].
      destruct (tags t); cbn [length tl] in *; lia.
  - destruct (items (tst t)) as [|y l] eqn:Ei.
    + destruct (closed (tst t)); cbn [fst tst tags now]; rewrite Ei; auto using forall_lt_S.
    + cbn [andb fst tst tags now items set_items].
      split; [now apply Htl|]. split; [apply forall_lt_S; now apply Hftl|].
      destruct (tags t); cbn [length tl] in *; lia.
  - cbn [fst tst tags now items]. auto using forall_lt_S.
  - cbn [fst tst tags now]. auto using forall_lt_S.
Qed.

(* the tagged run: for every call, the result, and - when an item was handed out - its tag and the other pending tags *)
Fixpoint t_run (t : tq) (ops : list pop) : list (res * option (tag * list tag)) :=
  match ops with
  | [] => []
  | o :: ops' =>
      let '(t', r) := t_step t o in
      (r, match r, tags t with RItem _, g :: rest => Some (g, rest) | _, _ => None end) :: t_run t' ops'
  end.

Definition t_new (k : pkind) (n : Z) : tq := {| tst := p_new k n; tags := []; now := 0 |}.

Lemma t_new_inv k n : t_inv (t_new k n).
Proof. unfold t_inv, t_new. cbn. repeat split; constructor. Qed.

(* erasure over whole runs: the results of the tagged run are the model's results *)
Theorem t_run_results : forall ops t, map fst (t_run t ops) = map snd (fst (h_run p_step (tst t) ops)).
Proof.
  induction ops as [|o ops IH]; intros t; [reflexivity|].
  cbn [t_run h_run]. pose proof (t_step_erase t o) as [E1 E2]. destruct (t_step t o) as [t' r]. cbn [fst snd] in *.
  destruct (p_step (tst t) o) as [s' r']. cbn [fst snd] in *. subst. specialize (IH t').
  destruct (h_run p_step (tst t') ops) as [h s'']. cbn [map fst snd] in *. now rewrite IH.
Qed.

(* an item is handed out exactly when the tagged run records a tag for it (the ghost list is aligned with the queue) *)
Lemma t_item_has_tag t o x : t_inv t -> snd (t_step t o) = RItem x -> tags t <> [].
Proof.
  intros (_ & _ & Hl) Hr. pose proof (t_step_erase t o) as [_ E2]. rewrite E2 in Hr.
  assert (items (tst t) <> []).
  { destruct o; cbn [p_step] in Hr; unfold p_add_anyway, p_add, p_prior, p_pop, p_close in Hr.
    - destruct (closed _); [discriminate|]. destruct (full _ _); discriminate.
    - destruct (closed _); [discriminate|]. destruct (full _ _); discriminate.
    - destruct (closed _); discriminate.
    - destruct (items (tst t)); [destruct (closed _); discriminate|discriminate].
    - destruct (items (tst t)); [destruct (closed _); discriminate|discriminate].
    - discriminate.
    - discriminate. }
  destruct (tags t); [|discriminate]. destruct (items (tst t)); [congruence|discriminate].
Qed.

Theorem p_order_from : forall ops t, t_inv t ->
  Forall (fun e => match e with
                   | (RItem _, Some (g, rest)) => head_spec g rest
                   | (RItem _, None) => False
                   | _ => True
                   end) (t_run t ops).
Proof.
  induction ops as [|o ops IH]; intros t HI; [constructor|].
  cbn [t_run]. pose proof (t_step_inv t o HI) as HI'. pose proof (t_item_has_tag t o) as Hnz.
  destruct (t_step t o) as [t' r]. cbn [fst snd] in *. constructor; [|now apply IH].
  destruct r; try exact I. specialize (Hnz x HI eq_refl). destruct (tags t) as [|g rest] eqn:Et; [congruence|].
  apply ord_head. destruct HI as (Ho & _). now rewrite Et in Ho.
Qed.

Theorem p_order : forall k n ops,
  Forall (fun e => match e with
                   | (RItem _, Some (g, rest)) => head_spec g rest
                   | (RItem _, None) => False
                   | _ => True
                   end) (t_run (t_new k n) ops).
Proof. intros k n ops. apply p_order_from, t_new_inv. Qed.
