(* C03: ReplaceOrInsert puts exactly the key into the sorted in-order list (split on the way down) *)
From Coq Require Import ZArith List Lia Bool Sorting.Sorted.
Require Import BTmodel BTD.
Import ListNotations.
Open Scope Z_scope.

(* these three lemmas of BTD.v picked up its section hypothesis through `lia`; instantiate it away
   (in the real development they move out of the section) *)
Definition node_decomp' := node_decomp 1 (le_n 1).
Definition sorted_pre_lt' := sorted_pre_lt 1 (le_n 1).
Definition sorted_post_gt' := sorted_post_gt 1 (le_n 1).

Definition spec_ins (k : Z) (L : list Z) : list Z := filter (fun y => y <? k) L ++ k :: filter (fun y => k <? y) L.

Lemma filter_lt_all k l : Forall (fun y => y < k) l -> filter (fun y => y <? k) l = l /\ filter (fun y => k <? y) l = [].
Proof.
  induction 1 as [|y l Hy _ [IH1 IH2]]; cbn; [auto|].
  replace (y <? k) with true by (symmetry; apply Z.ltb_lt; lia). replace (k <? y) with false by (symmetry; apply Z.ltb_ge; lia).
  now rewrite IH1, IH2.
Qed.
Lemma filter_gt_all k l : Forall (fun y => k < y) l -> filter (fun y => y <? k) l = [] /\ filter (fun y => k <? y) l = l.
Proof.
  induction 1 as [|y l Hy _ [IH1 IH2]]; cbn; [auto|].
  replace (y <? k) with false by (symmetry; apply Z.ltb_ge; lia). replace (k <? y) with true by (symmetry; apply Z.ltb_lt; lia).
  now rewrite IH1, IH2.
Qed.

(* the key goes between everything below it and everything above it *)
Lemma spec_ins_mid k P M R : Forall (fun y => y < k) P -> Forall (fun y => k < y) R ->
  spec_ins k (P ++ M ++ R) = P ++ spec_ins k M ++ R.
Proof.
  intros HP HR. unfold spec_ins. rewrite !filter_app.
  destruct (filter_lt_all k P HP) as [-> ->]. destruct (filter_gt_all k R HR) as [-> ->].
  cbn [app]. rewrite app_nil_r. rewrite <- !app_assoc. reflexivity.
Qed.
Lemma spec_ins_present k P R : Forall (fun y => y < k) P -> Forall (fun y => k < y) R ->
  spec_ins k (P ++ k :: R) = P ++ k :: R.
Proof.
  intros HP HR. unfold spec_ins. rewrite !filter_app. cbn [filter]. rewrite Z.ltb_irrefl.
  destruct (filter_lt_all k P HP) as [-> ->]. destruct (filter_gt_all k R HR) as [-> ->].
  cbn [app]. now rewrite app_nil_r.
Qed.
Lemma spec_ins_absent k P R : Forall (fun y => y < k) P -> Forall (fun y => k < y) R ->
  spec_ins k (P ++ R) = P ++ k :: R.
Proof.
  intros HP HR. unfold spec_ins. rewrite !filter_app.
  destruct (filter_lt_all k P HP) as [-> ->]. destruct (filter_gt_all k R HR) as [-> ->].
  cbn [app]. now rewrite app_nil_r.
Qed.

(* node.split(i): the node's in-order list is left ++ item i ++ right *)
Lemma split_flat f c i : aligned c -> (i < length (items_of c))%nat ->
  let '(mid, c1, c2) := split c i in
  flat (S f) c = flat (S f) c1 ++ mid :: flat (S f) c2 /\ mid = nth i (items_of c) 0.
Proof.
  intros Hal Hi. unfold split. destruct c as [its ch]. cbn [items_of children_of] in *.
  destruct (split_at its i Hi) as (a & x & b & -> & Ha).
  rewrite (nth_app_len' a x b 0 i Ha). split; [|reflexivity].
  rewrite !flat_S. cbn [items_of children_of].
  rewrite firstn_app, firstn_all2, skipn_app by lia. replace (i - length a)%nat with 0%nat by lia.
  rewrite (skipn_all2 a) by lia. replace (S i - length a)%nat with 1%nat by lia.
  change (firstn 0 (x :: b)) with (@nil Z). change (skipn 1 (x :: b)) with b. rewrite app_nil_r. cbn [app].
  destruct Hal as [Hleaf|Hl]; cbn [children_of] in *.
  - subst ch. cbn [is_nil]. rewrite !inter_leaf. reflexivity.
  - cbn [items_of] in Hl. rewrite app_length in Hl. cbn [length] in Hl.
    assert (Hnil : is_nil ch = false) by (destruct ch; [cbn in Hl; lia | reflexivity]). rewrite Hnil.
    destruct (split_at ch (S i) ltac:(lia)) as (ca & cx & cb & Hch & Hca).
    rewrite Hch. rewrite firstn_app, firstn_all2, skipn_app by lia.
    replace (S i - length ca)%nat with 0%nat by lia. rewrite (skipn_all2 ca) by lia.
    change (firstn 0 (cx :: cb)) with (@nil node). change (skipn 0 (cx :: cb)) with (cx :: cb). rewrite app_nil_r. cbn [app].
    (* ca has i+1 children: ca = ca' ++ [last]; align with a ++ [x] *)
    destruct ca as [|c1 ca' _] using rev_ind; [cbn in Hca; lia|].
    rewrite app_length in Hca. cbn [length] in Hca.
    replace ((ca' ++ [c1]) ++ cx :: cb) with (ca' ++ c1 :: cx :: cb) by (rewrite <- app_assoc; reflexivity).
    rewrite inter_app_pre by lia. cbn [inter hd_rec tl].
    rewrite Hch in Hl. rewrite !app_length in Hl. cbn [length] in Hl.
    rewrite (inter_cons_post (flat f) b cb cx) by lia.
    (* left part: inter over a and ca' ++ [c1] *)
    assert (Hleft : inter (flat f) a (ca' ++ [c1]) = pre (flat f) a ca' ++ flat f c1).
    { replace a with (a ++ []) at 1 by apply app_nil_r. rewrite inter_app_pre by lia. reflexivity. }
    rewrite Hleft. rewrite <- !app_assoc. reflexivity.
Qed.

Lemma shaped_split h c i : shaped h c -> (i < length (items_of c))%nat ->
  let '(_, c1, c2) := split c i in shaped h c1 /\ shaped h c2.
Proof.
  intros Hs Hi. unfold split. destruct c as [its ch]. cbn [items_of children_of] in *.
  destruct h as [|h]; cbn [shaped items_of children_of] in Hs |- *.
  - subst ch. cbn [is_nil]. cbn [shaped children_of]. auto.
  - destruct Hs as [Hl Hf]. assert (Hnil : is_nil ch = false) by (destruct ch; [cbn in Hl; lia | reflexivity]). rewrite Hnil.
    cbn [items_of children_of]. repeat split.
    + rewrite !firstn_length_le by lia. lia.
    + rewrite <- (firstn_skipn (S i) ch) in Hf. apply Forall_app in Hf. tauto.
    + rewrite !skipn_length. lia.
    + rewrite <- (firstn_skipn (S i) ch) in Hf. apply Forall_app in Hf. tauto.
Qed.

Lemma insert_at_app {A} (a b : list A) x k : length a = k -> insert_at (a ++ b) k x = a ++ x :: b.
Proof.
  intros <-. unfold insert_at. rewrite firstn_app, Nat.sub_diag, firstn_all, skipn_app, Nat.sub_diag. cbn.
  rewrite (skipn_all2 a) by lia. now rewrite app_nil_r.
Qed.

Lemma flat_node3 F a x b ca c1 c2 cb : length a = length ca -> length cb = length b ->
  inter F (a ++ x :: b) (ca ++ c1 :: c2 :: cb) = pre F a ca ++ F c1 ++ x :: F c2 ++ post F b cb.
Proof. intros Ha Hb. rewrite inter_app_pre by auto. cbn [inter hd_rec tl]. rewrite inter_cons_post by auto. reflexivity. Qed.

Lemma sorted_items F : forall its ch, StronglySorted Z.lt (inter F its ch) -> StronglySorted Z.lt its.
Proof.
  induction its as [|x its IH]; intros ch Hs; [constructor|].
  cbn [inter] in Hs. destruct (ss_app_inv _ _ _ Hs) as (_ & S2 & _ & F2 & _).
  constructor; [apply (IH (tl ch)); exact S2|].
  clear - F2. revert F2. generalize (tl ch). induction its as [|y its IH2]; intros l F2; [constructor|].
  cbn [inter] in F2. apply Forall_app in F2 as [_ F2]. inversion F2; subst. constructor; eauto.
Qed.

Theorem insert_flat maxI : (1 <= maxI)%nat -> forall fuel h n k n' r,
  shaped h n -> StronglySorted Z.lt (flat (S h) n) ->
  insert fuel maxI n k = Some (n', r) ->
  flat (S h) n' = spec_ins k (flat (S h) n).
Proof.
  intros Hmax. induction fuel as [|f IH]; intros h n k n' r Hsh Hs H; [discriminate|].
  destruct n as [its ch]. cbn [insert items_of children_of] in H.
  rewrite flat_S in Hs |- *. cbn [items_of children_of] in Hs |- *.
  pose proof (sorted_items _ _ _ Hs) as Hsi.
  destruct (find its k) as [i found] eqn:Ef.
  destruct (find_spec its k i found Hsi Ef) as (a & b & Hits & Hi & Ha & Hb).
  destruct h as [|h].
  - (* leaf *)
    cbn in Hsh. subst ch. cbn [is_nil] in H. rewrite inter_leaf in *.
    destruct found.
    + destruct Hb as [b' ->]. inversion H; subst n' r its; clear H.
      rewrite (set_at_app' a k b' k i (eq_sym Hi)). rewrite ?flat_S. cbn [items_of children_of]. rewrite inter_leaf.
      destruct (ss_mid _ _ _ Hs) as [_ Hgt]. rewrite ?inter_leaf. symmetry. apply spec_ins_present; auto.
    + inversion H; subst n' r its; clear H. rewrite insert_at_app by auto.
      rewrite ?flat_S. cbn [items_of children_of]. rewrite ?inter_leaf. symmetry. apply spec_ins_absent; auto.
  - (* internal node *)
    destruct Hsh as [Hl Hf]. cbn [items_of children_of] in Hl, Hf.
    assert (Hnil : is_nil ch = false) by (destruct ch; [cbn in Hl; lia | reflexivity]).
    set (F := flat (S h)) in *.
    change (flat (S (S h)) (Node its ch)) with (inter F its ch) in *.
    destruct found.
    + (* the key is an item of this node: replaced in place *)
      destruct Hb as [b' ->]. inversion H; subst n' r its; clear H.
      rewrite (set_at_app' a k b' k i (eq_sym Hi)). rewrite ?flat_S. cbn [items_of children_of]. fold F.
      destruct (node_decomp' F (a ++ k :: b') ch a (k :: b') eq_refl Hl) as (ca & c & cb & Hch & Hca & Hcb & Hdec).
      rewrite Hdec in *. destruct cb as [|c2 cb]; [cbn in Hcb; lia|]. cbn [post] in *.
      replace (pre F a ca ++ F c ++ k :: F c2 ++ post F b' cb) with ((pre F a ca ++ F c) ++ k :: F c2 ++ post F b' cb) in * by now rewrite <- app_assoc.
      destruct (ss_mid _ _ _ Hs) as [Hlt Hgt]. symmetry. apply spec_ins_present; auto.
    + rewrite Hnil in H. unfold nth_node in H.
      destruct (node_decomp' F its ch a b Hits Hl) as (ca & c & cb & Hch & Hca & Hcb & Hdec).
      assert (Hnth : nth i ch dnode = c) by (subst ch; apply nth_app_len'; lia). rewrite Hnth in H.
      assert (Hcsh : shaped h c) by (rewrite Forall_forall in Hf; apply Hf; subst ch; apply in_or_app; right; left; reflexivity).
      rewrite Hdec in Hs.
      assert (Hpre : Forall (fun y => y < k) (pre F a ca)) by (eapply sorted_pre_lt'; eauto; lia).
      assert (Hpost : Forall (fun y => k < y) (post F b cb)) by (rewrite app_assoc in Hs; eapply sorted_post_gt'; eauto).
      assert (Hcs : StronglySorted Z.lt (F c)).
      { apply ss_app_inv_app in Hs as [_ Hs']. apply ss_app_inv_app in Hs' as [Hs' _]. exact Hs'. }
      destruct (Nat.ltb (length (items_of c)) maxI) eqn:Efull.
      * (* room in the child *)
        destruct (insert f maxI c k) as [[c' r']|] eqn:Ei; [|discriminate]. inversion H; subst n' r; clear H.
        pose proof (IH h c k c' r' Hcsh Hcs Ei) as Hc'. fold F in Hc'.
        subst ch. rewrite (set_at_app' ca c cb c' i ltac:(lia)).
        rewrite ?flat_S. cbn [items_of children_of]. fold F. subst its.
        rewrite inter_app_pre by lia. rewrite inter_cons_post by lia. rewrite Hc', Hdec.
        symmetry. apply spec_ins_mid; auto.
      * (* the child is full: split it, then go left, right, or replace the separator *)
        apply Nat.ltb_ge in Efull.
        assert (Hidx : (maxI / 2 < length (items_of c))%nat).
        { assert (maxI / 2 < maxI)%nat by (apply Nat.div_lt; lia). lia. }
        pose proof (split_flat h c (maxI / 2) (shaped_aligned h c Hcsh) Hidx) as Hsp.
        pose proof (shaped_split h c (maxI / 2) Hcsh Hidx) as Hss.
        destruct (split c (maxI / 2)) as [[mid c1] c2]. destruct Hsp as [Hsp _]. destruct Hss as [Hs1 Hs2]. fold F in Hsp.
        assert (Hits' : insert_at its i mid = a ++ mid :: b) by (subst its; apply insert_at_app; lia).
        assert (Hch' : insert_at (set_at ch i c1) (S i) c2 = ca ++ c1 :: c2 :: cb).
        { subst ch. rewrite (set_at_app' ca c cb c1 i ltac:(lia)).
          replace (ca ++ c1 :: cb) with ((ca ++ [c1]) ++ cb) by now rewrite <- app_assoc.
          rewrite insert_at_app by (rewrite app_length; cbn; lia). now rewrite <- app_assoc. }
        rewrite Hits', Hch' in H. rewrite Hsp in Hs, Hcs.
        replace (pre F a ca ++ (F c1 ++ mid :: F c2) ++ post F b cb)
          with (pre F a ca ++ F c1 ++ mid :: F c2 ++ post F b cb) in Hs by (rewrite <- !app_assoc; reflexivity).
        rewrite Hdec, Hsp.
        replace (pre F a ca ++ (F c1 ++ mid :: F c2) ++ post F b cb)
          with (pre F a ca ++ F c1 ++ mid :: F c2 ++ post F b cb) by (rewrite <- !app_assoc; reflexivity).
        destruct (ss_app_inv_app _ _ Hs) as [_ Hs'].
        destruct (ss_app_inv _ _ _ Hcs) as (Sc1 & Sc2 & Flt1 & Fgt2 & _).
        assert (Hmidpost : Forall (fun y => mid < y) (post F b cb)).
        { replace (F c1 ++ mid :: F c2 ++ post F b cb) with (F c1 ++ mid :: (F c2 ++ post F b cb)) in Hs' by reflexivity.
          destruct (ss_mid _ _ _ Hs') as [_ Hg]. apply Forall_app in Hg. tauto. }
        destruct (k <? mid) eqn:Ekm.
        -- apply Z.ltb_lt in Ekm.
           destruct (insert f maxI c1 k) as [[c' r']|] eqn:Ei; [|discriminate]. inversion H; subst n' r; clear H.
           pose proof (IH h c1 k c' r' Hs1 Sc1 Ei) as Hc'. fold F in Hc'.
           rewrite (set_at_app' ca c1 (c2 :: cb) c' i ltac:(lia)).
           rewrite ?flat_S. cbn [items_of children_of]. fold F. rewrite flat_node3 by lia. rewrite Hc'.
           symmetry. apply (spec_ins_mid k (pre F a ca) (F c1) (mid :: F c2 ++ post F b cb)); auto.
           constructor; [lia|]. apply Forall_app. split; eapply Forall_gt_trans; eauto; lia.
        -- apply Z.ltb_ge in Ekm. destruct (mid <? k) eqn:Emk.
           ++ apply Z.ltb_lt in Emk.
              destruct (insert f maxI c2 k) as [[c' r']|] eqn:Ei; [|discriminate]. inversion H; subst n' r; clear H.
              pose proof (IH h c2 k c' r' Hs2 Sc2 Ei) as Hc'. fold F in Hc'.
              rewrite (set_at_app_S' ca c1 c2 cb c' i ltac:(lia)).
              rewrite ?flat_S. cbn [items_of children_of]. fold F. rewrite flat_node3 by lia. rewrite Hc'.
              replace (pre F a ca ++ F c1 ++ mid :: spec_ins k (F c2) ++ post F b cb)
                with ((pre F a ca ++ F c1 ++ [mid]) ++ spec_ins k (F c2) ++ post F b cb) by (rewrite <- !app_assoc; reflexivity).
              replace (pre F a ca ++ F c1 ++ mid :: F c2 ++ post F b cb)
                with ((pre F a ca ++ F c1 ++ [mid]) ++ F c2 ++ post F b cb) by (rewrite <- !app_assoc; reflexivity).
              symmetry. apply spec_ins_mid; auto.
              apply Forall_app. split; auto. apply Forall_app. split; [eapply Forall_lt_trans; eauto; lia | constructor; [lia|constructor]].
           ++ apply Z.ltb_ge in Emk. assert (k = mid) by lia. subst mid.
              inversion H; subst n' r; clear H.
              rewrite (set_at_app' a k b k i (eq_sym Hi)).
              rewrite ?flat_S. cbn [items_of children_of]. fold F. rewrite flat_node3 by lia.
              replace (pre F a ca ++ F c1 ++ k :: F c2 ++ post F b cb)
                with ((pre F a ca ++ F c1) ++ k :: F c2 ++ post F b cb) by (rewrite <- !app_assoc; reflexivity).
              symmetry. apply spec_ins_present.
              ** apply Forall_app. split; auto.
              ** apply Forall_app. split; auto.
Qed.
Print Assumptions insert_flat.
