(* C05: the frame of Set.  A Set on k changes what is retrievable under at most one other key: the entry evicted from the
   cold end (the last element of the list after k moved to the front). *)
From Coq Require Import ZArith List Lia Bool.
Require Import TTL TTLView C05_Hist.
Import ListNotations.
Open Scope Z_scope.

Lemma last_nonempty {A} (b : A) r d1 d2 : last (b :: r) d1 = last (b :: r) d2.
Proof.
  revert b. induction r as [|c r IH]; intros b; [reflexivity|].
  change (last (b :: c :: r) d1) with (last (c :: r) d1). change (last (b :: c :: r) d2) with (last (c :: r) d2). apply IH.
Qed.

Lemma find_removelast_other (l1 : list node) (d : node) k' : NoDup (keys l1) -> k' <> key (last l1 d) ->
  find_k k' (removelast l1) = find_k k' l1.
Proof.
  induction l1 as [|a r IH]; [reflexivity|]. intros Hnd Hne. destruct r as [|b r'].
  - cbn [last] in Hne. cbn [removelast]. unfold find_k. cbn [find]. replace (key a =? k') with false by (symmetry; apply Z.eqb_neq; lia). reflexivity.
  - change (removelast (a :: b :: r')) with (a :: removelast (b :: r')). change (last (a :: b :: r') d) with (last (b :: r') d) in Hne.
    cbn [keys map] in Hnd. inversion Hnd; subst. unfold find_k in *. cbn [find]. destruct (key a =? k'); [reflexivity|]. now apply IH.
Qed.

Lemma find_head_other k x l0 k' : key x = k -> k' <> k -> find_k k' (x :: erase k l0) = find_k k' l0.
Proof. intros Hx Hne. rewrite find_cons_other by congruence. now apply find_erase_other. Qed.

(* the key that a Set on k may push out *)
Definition evictee (c : cache) (k : Z) : Z :=
  key (last (erase k (l c)) {| key := k; val := 0; dl := 0 |}).

Theorem set_frame c k v o now : wf c -> forall k' now', k' <> k -> k' <> evictee c k ->
  view (fst (set c k v o now)) k' now' = view c k' now'.
Proof.
  intros Hwf k' now' Hk He. pose proof Hwf as [Hnd Hb]. unfold view.
  assert (Htrim : forall x, key x = k -> find_k k' (trim (size c) (x :: erase k (l c))) = find_k k' (l c)).
  { intros x Hx. unfold trim. destruct (size c <? _).
    - rewrite (find_removelast_other _ x k').
      + now apply find_head_other.
      + cbn [keys map]. rewrite Hx. constructor; [apply not_in_keys_erase|now apply NoDup_keys_erase].
      + unfold evictee in He. destruct (erase k (l c)) as [|b r'] eqn:Ee.
        * cbn [last]. congruence.
        * change (last (x :: b :: r') x) with (last (b :: r') x).
          rewrite (last_nonempty b r' x {| key := k; val := 0; dl := 0 |}). exact He.
    - now apply find_head_other. }
  pose proof (set_cases c k v o now Hwf) as Hsc. cbv zeta in Hsc.
  destruct Hsc as [(n & _ & _ & _ & ->)|[(n & _ & _ & _ & ->)|(_ & ->)]]; cbn [fst l]; [reflexivity| |]; now rewrite Htrim.
Qed.
