(* C19 vcode: in the always / never regimes no decision depends on the clock.
   If every configured duration is either below zero (zero too for the minimum interval) or at least H, then two
   runs of the same operations under two different clocks - each clock non-decreasing and spanning less than H -
   produce the same observations.  This is what lets the correspondence check use the time stamp it took just
   before a call in place of the service's own reading inside the call. *)
From Coq Require Import ZArith List Bool Lia String Ascii.
Require Import C19_Model C19_Cache.
Import ListNotations.
Open Scope Z_scope.

Definition op_time (o : op) : Z := match o with Send _ _ now _ => now | Verify _ _ _ _ now => now end.
Definition set_time (o : op) (t : Z) : op :=
  match o with Send a p _ s => Send a p t s | Verify a p cd hs _ => Verify a p cd hs t end.

Section Clock.
Variable c : cfg.
Variable H : Z.
Hypothesis H_pos : 0 < H <= MAXDUR.
Hypothesis R_ttl : ttl c < 0 \/ H <= ttl c.
Hypothesis R_min : minInterval c <= 0 \/ H <= minInterval c.
Hypothesis R_cnt : counterDuration c < 0 \/ H <= counterDuration c.

(* the two clocks: all readings of clock i lie in [lo_i, lo_i + H) *)
Variables lo1 lo2 : Z.
Hypothesis lo1_ok : 0 <= lo1.
Hypothesis lo2_ok : 0 <= lo2.

Lemma tsub_recent lo t now : lo <= t <= now -> now < lo + H -> tsub now t = now - t /\ 0 <= now - t < H.
Proof. intros Ht Hn. unfold tsub, MAXDUR in *. lia. Qed.
Lemma tsub_never now : 0 <= now -> tsub now NEVER = MAXDUR.
Proof. intros Hn. unfold tsub, NEVER, MAXDUR. lia. Qed.
Lemma tsub_self now : tsub now now = 0.
Proof. unfold tsub, MAXDUR. lia. Qed.

Lemma lt_agree D x y : D <= 0 \/ H <= D -> 0 <= x < H -> 0 <= y < H -> (x <? D) = (y <? D).
Proof.
  intros [HD|HD] Hx Hy.
  - transitivity false; [apply Z.ltb_ge|symmetry; apply Z.ltb_ge]; lia.
  - transitivity true; [apply Z.ltb_lt|symmetry; apply Z.ltb_lt]; lia.
Qed.
Lemma gt_agree D x y : D < 0 \/ H <= D -> 0 <= x < H -> 0 <= y < H -> (D <? x) = (D <? y).
Proof.
  intros [HD|HD] Hx Hy.
  - transitivity true; [apply Z.ltb_lt|symmetry; apply Z.ltb_lt]; lia.
  - transitivity false; [apply Z.ltb_ge|symmetry; apply Z.ltb_ge]; lia.
Qed.

(* entries of the two runs: everything equal but the two time stamps, which are earlier readings of the own clock *)
Definition vrel (cur1 cur2 : Z) (v1 v2 : vc) : Prop :=
  sendCount v1 = sendCount v2 /\ verifyCount v1 = verifyCount v2 /\ code v1 = code v2 /\ hash v1 = hash v2 /\
  lo1 <= setTime v1 <= cur1 /\ lo1 <= counterTime v1 <= cur1 /\
  lo2 <= setTime v2 <= cur2 /\ lo2 <= counterTime v2 <= cur2.
Definition erel (cur1 cur2 : Z) (x y : string * vc) : Prop := fst x = fst y /\ vrel cur1 cur2 (snd x) (snd y).
Definition srel (cur1 cur2 : Z) (st1 st2 : cache) : Prop := Forall2 (erel cur1 cur2) st1 st2.

Lemma vrel_weaken cur1 cur2 n1 n2 v1 v2 : cur1 <= n1 -> cur2 <= n2 -> vrel cur1 cur2 v1 v2 -> vrel n1 n2 v1 v2.
Proof. unfold vrel. intros H1 H2 Hv. decompose [and] Hv. repeat split; auto; lia. Qed.
Lemma srel_weaken cur1 cur2 n1 n2 st1 st2 : cur1 <= n1 -> cur2 <= n2 -> srel cur1 cur2 st1 st2 -> srel n1 n2 st1 st2.
Proof.
  intros H1 H2 Hs. induction Hs as [|x y l1 l2 [Hk Hv] _ IH]; constructor; auto.
  split; [exact Hk|eapply vrel_weaken; eauto].
Qed.

Lemma srel_lookup cur1 cur2 k st1 st2 : srel cur1 cur2 st1 st2 ->
  (lookup k st1 = None /\ lookup k st2 = None) \/
  (exists v1 v2, lookup k st1 = Some v1 /\ lookup k st2 = Some v2 /\ vrel cur1 cur2 v1 v2).
Proof.
  intros Hs. induction Hs as [|[k1 v1] [k2 v2] l1 l2 [Hk Hv] _ IH]; [left; auto|].
  cbn [fst snd] in *. subst k2. cbn [lookup]. destruct (String.eqb k k1); [right; eauto|exact IH].
Qed.

Lemma srel_remove cur1 cur2 k st1 st2 : srel cur1 cur2 st1 st2 -> srel cur1 cur2 (remove k st1) (remove k st2).
Proof.
  intros Hs. induction Hs as [|[k1 v1] [k2 v2] l1 l2 [Hk Hv] _ IH]; [constructor|].
  cbn [fst snd] in *. subst k2. cbn [remove]. destruct (String.eqb k k1); [exact IH|].
  constructor; [split; auto|exact IH].
Qed.

Lemma srel_take cur1 cur2 st1 st2 : srel cur1 cur2 st1 st2 -> forall n, srel cur1 cur2 (take n st1) (take n st2).
Proof.
  intros Hs. induction Hs as [|x y l1 l2 Hxy _ IH]; intros n; cbn [take]; [constructor|].
  destruct (n <=? 0); [constructor|]. constructor; [exact Hxy|apply IH].
Qed.

(* one operation under the two clocks: same observation, related states *)
Theorem step_clock_independent st1 st2 cur1 cur2 o now2 oc oh :
  srel cur1 cur2 st1 st2 ->
  lo1 <= cur1 <= op_time o -> op_time o < lo1 + H ->
  lo2 <= cur2 <= now2 -> now2 < lo2 + H ->
  snd (step c st1 o oc oh) = snd (step c st2 (set_time o now2) oc oh) /\
  srel (op_time o) now2 (fst (step c st1 o oc oh)) (fst (step c st2 (set_time o now2) oc oh)).
Proof.
  intros Hs Hc1 Hh1 Hc2 Hh2.
  assert (Hs' : srel (op_time o) now2 st1 st2) by (eapply srel_weaken; [| |exact Hs]; lia).
  destruct o as [a p now1 smsok|a p cd hs now1]; cbn [op_time set_time step] in *.
  - (* send *)
    unfold send. set (k := key a p).
    set (v1 := match lookup k st1 with Some v => v | None => fresh now1 end).
    set (v2 := match lookup k st2 with Some v => v | None => fresh now2 end).
    assert (Hv : sendCount v1 = sendCount v2 /\
                 (tsub now1 (setTime v1) <? minInterval c) = (tsub now2 (setTime v2) <? minInterval c) /\
                 (counterDuration c <? tsub now1 (counterTime v1)) = (counterDuration c <? tsub now2 (counterTime v2)) /\
                 lo1 <= counterTime v1 <= now1 /\ lo2 <= counterTime v2 <= now2).
    { subst v1 v2. destruct (srel_lookup cur1 cur2 k st1 st2 Hs) as [[E1 E2]|(w1 & w2 & E1 & E2 & Hw)]; rewrite E1, E2.
      - cbn [fresh sendCount setTime counterTime]. rewrite !tsub_never, !tsub_self by lia. repeat split; auto; lia.
      - destruct Hw as (A & _ & _ & _ & B1 & B2 & B3 & B4).
        destruct (tsub_recent lo1 (setTime w1) now1 ltac:(lia) ltac:(lia)) as [-> ?].
        destruct (tsub_recent lo2 (setTime w2) now2 ltac:(lia) ltac:(lia)) as [-> ?].
        destruct (tsub_recent lo1 (counterTime w1) now1 ltac:(lia) ltac:(lia)) as [-> ?].
        destruct (tsub_recent lo2 (counterTime w2) now2 ltac:(lia) ltac:(lia)) as [-> ?].
        repeat split; auto; try lia; try (apply lt_agree; auto; lia); try (apply gt_agree; auto; lia). }
    destruct Hv as (Hsc & Htf & Hrf & Hct1 & Hct2). rewrite <- Htf, <- Hrf, <- Hsc.
    destruct (tsub now1 (setTime v1) <? minInterval c); [split; [reflexivity|exact Hs']|].
    destruct (negb _ && _); [split; [reflexivity|exact Hs']|].
    destruct (gen_code c p oc) as [cdv|]; [|split; [reflexivity|exact Hs']].
    unfold lru_set. destruct (cacheSize c <? 0); [split; [reflexivity|constructor]|].
    cbn [fst snd]. split; [reflexivity|]. apply srel_take. constructor; [|apply srel_remove, Hs'].
    split; [reflexivity|]. cbn [snd]. unfold vrel. cbn [sendCount verifyCount code hash setTime counterTime].
    rewrite Hsc. destruct (counterDuration c <? tsub now1 (counterTime v1)); repeat split; auto; lia.
  - (* verify *)
    unfold verify, verify_k. set (k := key a p).
    destruct (srel_lookup cur1 cur2 k st1 st2 Hs) as [[E1 E2]|(w1 & w2 & E1 & E2 & Hw)]; rewrite E1, E2.
    + split; [reflexivity|exact Hs'].
    + destruct Hw as (A & B & C & D & B1 & B2 & B3 & B4). cbn [fst snd verifyCount].
      destruct (tsub_recent lo1 (setTime w1) now1 ltac:(lia) ltac:(lia)) as [-> ?].
      destruct (tsub_recent lo2 (setTime w2) now2 ltac:(lia) ltac:(lia)) as [-> ?].
      rewrite B, C, D, (gt_agree (ttl c) (now1 - setTime w1) (now2 - setTime w2)) by auto.
      split; [reflexivity|]. constructor; [|apply srel_remove, Hs'].
      split; [reflexivity|]. cbn [snd]. unfold vrel. cbn [sendCount verifyCount code hash setTime counterTime].
      repeat split; auto; lia.
Qed.

(* whole operation sequences: (operation, oracle code, oracle hash) with the time of clock 1; ts = the readings of clock 2 *)
Fixpoint run_obs (st : cache) (ops : list (op * string * Z)) : list obs :=
  match ops with
  | [] => []
  | (o, oc, oh) :: r => snd (step c st o oc oh) :: run_obs (fst (step c st o oc oh)) r
  end.
Fixpoint retime (ops : list (op * string * Z)) (ts : list Z) : list (op * string * Z) :=
  match ops, ts with
  | (o, oc, oh) :: r, t :: ts' => (set_time o t, oc, oh) :: retime r ts'
  | _, _ => []
  end.
(* non-decreasing readings, from cur on, below hi *)
Fixpoint clock_ok (cur hi : Z) (ts : list Z) : Prop :=
  match ts with [] => True | t :: r => cur <= t /\ t < hi /\ clock_ok t hi r end.

Theorem run_clock_independent : forall ops ts st1 st2 cur1 cur2,
  List.length ts = List.length ops ->
  srel cur1 cur2 st1 st2 -> lo1 <= cur1 -> lo2 <= cur2 ->
  clock_ok cur1 (lo1 + H) (map (fun x => op_time (fst (fst x))) ops) ->
  clock_ok cur2 (lo2 + H) ts ->
  run_obs st1 ops = run_obs st2 (retime ops ts).
Proof.
  induction ops as [|[[o oc] oh] r IH]; intros ts st1 st2 cur1 cur2 Hl Hs Hc1 Hc2 Hk1 Hk2.
  - destruct ts; [reflexivity|discriminate].
  - destruct ts as [|t ts]; [discriminate|]. cbn [map fst clock_ok] in Hk1, Hk2.
    destruct Hk1 as (Ha1 & Hb1 & Hr1). destruct Hk2 as (Ha2 & Hb2 & Hr2).
    cbn [retime run_obs].
    destruct (step_clock_independent st1 st2 cur1 cur2 o t oc oh Hs) as [Eo Hs']; try lia.
    rewrite Eo. f_equal. cbn [List.length] in Hl. eapply IH; eauto; try lia.
Qed.

End Clock.

(* from the empty cache, with both clocks starting anywhere at or above zero *)
Corollary clock_independent c H lo1 lo2 ops ts :
  0 < H <= MAXDUR ->
  (ttl c < 0 \/ H <= ttl c) -> (minInterval c <= 0 \/ H <= minInterval c) -> (counterDuration c < 0 \/ H <= counterDuration c) ->
  0 <= lo1 -> 0 <= lo2 -> List.length ts = List.length ops ->
  clock_ok lo1 (lo1 + H) (map (fun x => op_time (fst (fst x))) ops) ->
  clock_ok lo2 (lo2 + H) ts ->
  run_obs c [] ops = run_obs c [] (retime ops ts).
Proof.
  intros HH R1 R2 R3 L1 L2 Hl K1 K2.
  eapply (run_clock_independent c H HH R1 R2 R3 lo1 lo2 L1 L2 ops ts [] [] lo1 lo2); auto; try lia. constructor.
Qed.

Print Assumptions clock_independent.
