(* C19 vcode: further facts - the model is total (every operation sequence has a conforming history, so the
   theorems over conforming histories are not vacuous), and what the monitor says about a pair depends only
   on the items of that pair (pairs are independent) *)
From Coq Require Import ZArith List Bool Lia String Ascii.
Require Import C19_Model C19_Cache C19_Spec C19_Sound C19_Nonce C19_Thm.
Import ListNotations.
Open Scope Z_scope.

(* ---------------- totality ---------------- *)
Lemma zeros_valid n : valid_code n (zeros (Z.to_nat (Z.max 0 n))) = true.
Proof.
  unfold valid_code. unfold zlen. rewrite length_zeros.
  replace (Z.of_nat (Z.to_nat (Z.max 0 n)) =? Z.max 0 n) with true by (symmetry; apply Z.eqb_eq; lia).
  cbn [andb]. induction (Z.to_nat (Z.max 0 n)) as [|k IH]; cbn [zeros str_all]; [reflexivity|].
  rewrite IH. reflexivity.
Qed.

Theorem model_total c st o : exists ob st', conforms c st (o, ob) = Some st'.
Proof.
  destruct o as [a p now smsok|a p cd hs now].
  - set (oc := zeros (Z.to_nat (Z.max 0 (codeLen c)))).
    destruct (send c st a p now smsok oc 1) as [st' ob] eqn:Es.
    exists ob, st'. unfold conforms. cbn [fst snd step].
    assert (H : send c st a p now smsok (oracle_code ob) (oracle_hash ob) = (st', ob) /\ oracle_ok c (Send a p now smsok, ob) = true).
    { unfold send in *. destruct (_ <? minInterval c).
      { injection Es as <- <-. cbn. auto. }
      destruct (negb _ && _).
      { injection Es as <- <-. cbn. auto. }
      unfold gen_code in *. destruct (mock c) eqn:Em.
      - destruct (mock_code p (codeLen c)) as [cd|].
        + unfold lru_set in *. destruct (cacheSize c <? 0); injection Es as <- <-; cbn [oracle_code oracle_hash calls_code oracle_ok].
          * auto.
          * rewrite Em. cbn. auto.
        + injection Es as <- <-. cbn. auto.
      - unfold lru_set in *. destruct (cacheSize c <? 0).
        + injection Es as <- <-. cbn. auto.
        + injection Es as <- <-. cbn [oracle_code oracle_hash calls_code oracle_ok]. split; [reflexivity|].
          rewrite Em. subst oc. rewrite zeros_valid. destruct smsok; reflexivity. }
    destruct H as [-> ->]. now rewrite obs_eqb_refl.
  - destruct (verify c st a p cd hs now) as [st' ob] eqn:Ev. exists ob, st'.
    unfold conforms. cbn [fst snd step oracle_ok]. rewrite Ev, obs_eqb_refl. reflexivity.
Qed.

(* every sequence of operations, from every state, has a conforming history *)
Theorem histories_exist c : forall ops st, exists items, map fst items = ops /\ conforms_run c st items = true.
Proof.
  induction ops as [|o ops IH]; intros st.
  - exists []. auto.
  - destruct (model_total c st o) as (ob & st' & H). destruct (IH st') as (items & Hm & Hr).
    exists ((o, ob) :: items). cbn [map fst conforms_run]. rewrite Hm, H. auto.
Qed.

(* ---------------- pairs are independent ---------------- *)
Definition item_key (it : item) : string :=
  match fst it with Send a p _ _ => key a p | Verify a p _ _ _ => key a p end.
Definition on_key (k : string) (it : item) : bool := String.eqb (item_key it) k.

Lemma sent_info_off_key c k it : on_key k it = false -> sent_info c k it = None.
Proof.
  destruct it as [[a p now smsok|a p cd hs now] [h e calls|e|]]; unfold on_key, item_key; cbn [fst sent_info]; auto.
  intros ->. reflexivity.
Qed.
Lemma is_verify_off_key k it : on_key k it = false -> is_verify_on k it = false.
Proof.
  destruct it as [[a p now smsok|a p cd hs now] ob]; unfold on_key, item_key; cbn [fst is_verify_on]; auto.
Qed.

(* what the monitor knows about k is a function of the items of k alone *)
Theorem monitor_projects c k : forall past,
  last_send c k (filter (on_key k) past) = last_send c k past /\
  attempts c k (filter (on_key k) past) = attempts c k past /\
  win c k (filter (on_key k) past) = win c k past.
Proof.
  induction past as [|it r (IH1 & IH2 & IH3)]; [auto|].
  cbn [filter]. destruct (on_key k it) eqn:E.
  - cbn [last_send attempts win]. rewrite IH1, IH2, IH3. auto.
  - cbn [last_send attempts win]. rewrite (sent_info_off_key c k it E), (is_verify_off_key k it E). auto.
Qed.

(* hence what a verification / a send of pair k must answer does not depend on what happened to other pairs *)
Corollary expectations_project c k cd hs now past :
  exp_verify c k cd hs now (filter (on_key k) past) = exp_verify c k cd hs now past /\
  exp_send c k now (filter (on_key k) past) = exp_send c k now past.
Proof.
  destruct (monitor_projects c k past) as (E1 & E2 & E3). unfold exp_verify, exp_send. now rewrite E1, E2, E3.
Qed.

Print Assumptions histories_exist.
Print Assumptions expectations_project.
