(* C03 B-tree: ordered-set equivalence, bounded range scans, clone isolation.
   The property, clause by clause, over all histories / inputs.  Statements closed by `exact` only.
   Model: C03_Model.v (items = (key, payload) ordered by key; node.insert / split / remove / growChildAndRemove /
   iterate / root split and collapse / length, the ten scan entry points, the wrapper's Update, UpdateOrInsert,
   iterWalk).  Specification: C03_Spec.v (a list of items strictly increasing by key = a sorted map).
   `refines0 deg t L` : the model tree t of degree deg stands for the sorted map L (C03_Hist.v);
   `refines`         : ... and L has fewer than 2^31 items (the model's recursion fuel is then sufficient). *)
From Coq Require Import ZArith List Lia Bool Sorting.Sorted.
Require Import C03_Model C03_Spec C03_D C03_Ins C03_InsInv C03_Tree C03_Scan C03_ScanSpec C03_Hist C03_Steps C03_Refine C03_History C03_Cow C03_Monitor C03_Check.
Import ListNotations.
Open Scope Z_scope.

(* ------------------------------------------------------------------------------------------------------------
   1. Ordered-set equivalence over every history, with the most recently stored item
   ------------------------------------------------------------------------------------------------------------ *)

(* every history of the inner tree (ReplaceOrInsert / Delete / DeleteMin / DeleteMax / Get / Has / Min / Max / Len /
   the ten scans), for every degree >= 2, from any tree standing for a sorted map: each operation returns exactly
   what the sorted map returns, and the final tree stands for the final map *)
Theorem c03_inner_history : forall deg, (2 <= deg)%nat -> forall ops t L, refines0 deg t L -> i_small L ops ->
  exists t', i_hist deg t ops = Some (t', snd (is_hist L ops)) /\ refines deg t' (fst (is_hist L ops)).
Proof. exact inner_history. Qed.

(* every history of the wrapper (Insert / Update / UpdateOrInsert / Delete / Get / AscendGte / AscendGt /
   DescendLte / DescendLt with any filter and any limit) *)
Theorem c03_wrapper_history : forall ops t L, refines0 WDEG t L -> w_small L ops ->
  exists t', w_hist t ops = Some (t', snd (ws_hist L ops)) /\ refines WDEG t' (fst (ws_hist L ops)).
Proof. exact wrapper_history. Qed.

(* the empty tree stands for the empty map *)
Theorem c03_empty : forall deg, refines deg iempty [].
Proof. exact refines_empty. Qed.

(* one operation = one operation of the sorted map (the step behind the two theorems above) *)
Theorem c03_inner_step : forall deg, (2 <= deg)%nat -> forall t L o, refines deg t L ->
  exists t', i_step deg t o = Some (t', snd (is_step L o)) /\ refines0 deg t' (fst (is_step L o)).
Proof. exact i_step_refines. Qed.
Theorem c03_wrapper_step : forall t L o, refines WDEG t L ->
  exists t', w_step t o = Some (t', snd (ws_step L o)) /\ refines0 WDEG t' (fst (ws_step L o)).
Proof. exact w_step_refines. Qed.

(* ReplaceOrInsert on the whole tree: the in-order list gets the item at its key, the replaced item is returned *)
Theorem c03_insert_spec : forall deg, (2 <= deg)%nat -> forall h t (it : item), tinv deg h t -> (S h < IFUEL)%nat ->
  exists h' t', itree_insert deg t it = Some (t', s_lookup (key it) (contents h t)) /\ tinv deg h' t' /\ (h' <= S h)%nat /\
                contents h' t' = s_ins it (contents h t).
Proof. exact itree_insert_ok. Qed.
(* Delete / DeleteMin / DeleteMax on the whole tree *)
Theorem c03_delete_spec : forall deg, (2 <= deg)%nat -> forall h t r, tinv deg h t -> (2 * h + 2 <= IFUEL)%nat ->
  exists h' t', itree_delete deg t r = Some (t', tree_out r (contents h t)) /\ tinv deg h' t' /\ (h' <= h)%nat /\
                contents h' t' = spec_list r (contents h t).
Proof. exact itree_delete_ok. Qed.

(* the sorted map itself: the most recently stored item is the one found, other keys are untouched,
   a deleted key is gone, and lookup is membership in the strictly sorted list *)
Theorem c03_latest_item_wins : forall (it : item) L, s_lookup (key it) (s_ins it L) = Some it.
Proof. exact lookup_ins_same. Qed.
Theorem c03_insert_other_keys : forall (it : item) k L, k <> key it -> s_lookup k (s_ins it L) = s_lookup k L.
Proof. exact lookup_ins_other. Qed.
Theorem c03_delete_removes : forall k L, s_lookup k (s_del k L) = None.
Proof. exact lookup_del_same. Qed.
Theorem c03_delete_other_keys : forall k k' L, k' <> k -> s_lookup k' (s_del k L) = s_lookup k' L.
Proof. exact lookup_del_other. Qed.
Theorem c03_lookup_is_membership : forall k (L : list item), StronglySorted klt L ->
  forall x, s_lookup k L = Some x <-> (In x L /\ key x = k).
Proof. exact lookup_in. Qed.
Theorem c03_insert_keeps_sorted : forall (it : item) L, StronglySorted klt L -> StronglySorted klt (s_ins it L).
Proof. exact s_ins_sorted. Qed.

(* reads as functions of the sorted map *)
Theorem c03_get_spec : forall deg t L k, refines0 deg t L -> itree_get t k = s_lookup k L.
Proof. exact refines_get. Qed.
Theorem c03_min_spec : forall deg, (2 <= deg)%nat -> forall t L, refines0 deg t L -> itree_min t = hd_error L.
Proof. exact refines_min. Qed.
Theorem c03_max_spec : forall deg, (2 <= deg)%nat -> forall t L, refines0 deg t L -> itree_max t = last_error L.
Proof. exact refines_max. Qed.

(* ------------------------------------------------------------------------------------------------------------
   2. The tree stays ordered and balanced; length = item count
   ------------------------------------------------------------------------------------------------------------ *)
(* a tree that stands for L: L is strictly sorted, the length field is |L|, and the root (if any) has all leaves at
   one depth h, every node below it within degree-1 .. 2*degree-1 items, one more child than items in every
   internal node, and the root itself at most 2*degree-1 items *)
Theorem c03_ordered_balanced : forall deg t L, (2 <= deg)%nat -> refines0 deg t L ->
  StronglySorted klt L /\ ilen t = Z.of_nat (length L) /\ itree_list t = L /\
  match iroot t with
  | None => L = []
  | Some r => exists h, shaped h r /\ occ (deg - 1) h r /\ upper (deg - 1) h r /\
                        (length (iitems r) <= 2 * deg - 1)%nat /\ iflat (S h) r = L
  end.
Proof. exact refines_invariant. Qed.
(* the height is logarithmic: below 2^31 items it is at most 30, far inside the model's fuel *)
Theorem c03_height_bound : forall deg, (2 <= deg)%nat -> forall h t, tinv deg h t -> small (contents h t) -> (h <= 30)%nat.
Proof. exact height_small. Qed.

(* the executable predicates the driver evaluates on the implementation's actual nodes (read through VerifShape)
   are these invariants: what the monitor accepts is ordered and balanced, and every ordered, balanced tree passes *)
Theorem c03_monitor_ordered_sound : forall l : list item, sortedb l = true -> StronglySorted klt l.
Proof. exact sortedb_sound. Qed.
Theorem c03_monitor_ordered_complete : forall l : list item, StronglySorted klt l -> sortedb l = true.
Proof. exact sortedb_complete. Qed.
Theorem c03_monitor_balanced_sound : forall deg n, (1 <= deg)%nat -> balanced deg n = true ->
  exists h, shaped h n /\ occ (deg - 1) h n /\ upper (deg - 1) h n /\ (length (iitems n) <= 2 * deg - 1)%nat.
Proof. exact balanced_sound. Qed.
Theorem c03_monitor_balanced_complete : forall deg h n, (1 <= deg)%nat -> (h <= IFUEL)%nat ->
  shaped h n -> occ (deg - 1) h n -> upper (deg - 1) h n -> (length (iitems n) <= 2 * deg - 1)%nat -> balanced deg n = true.
Proof. exact balanced_complete. Qed.

(* ------------------------------------------------------------------------------------------------------------
   3. Scans
   ------------------------------------------------------------------------------------------------------------ *)
(* node.iterate ascending / descending, for every well-formed ordered tree, every optional start, every optional
   stop, includeStart or not, and every callback: the callback is run over exactly the selected part of the
   in-order list, in scan order, until it stops *)
Theorem c03_iterate_ascending : forall A (visit : A -> item -> A * bool) start stop incl f n a,
  iwf f n -> StronglySorted klt (iflat f n) ->
  scan_acc (asc A visit start stop incl f n false a)
  = fst (feed visit (filter (fun x => keep start incl x && stop_a stop x) (iflat f n)) a).
Proof. exact iterate_asc_spec. Qed.
Theorem c03_iterate_descending : forall A (visit : A -> item -> A * bool) start stop incl f n a,
  iwf f n -> StronglySorted klt (iflat f n) ->
  scan_acc (desc A visit start stop incl f n false a)
  = fst (feed visit (filter (fun x => keepd start incl x && stop_d stop x) (rev (iflat f n))) a).
Proof. exact iterate_desc_spec. Qed.
(* the ten entry points (the eight upstream ones and AscendGreater / DescendLess added by this repository) *)
Theorem c03_ten_scans : forall A (visit : A -> item -> A * bool) e p q t a,
  tree_wf t -> itree_scan visit e p q t a = fst (feed visit (s_scan e p q (itree_list t)) a).
Proof. exact itree_scan_spec. Qed.
Theorem c03_ten_scans_on_map : forall deg t L A (visit : A -> item -> A * bool) e p q a,
  refines0 deg t L -> itree_scan visit e p q t a = fst (feed visit (s_scan e p q L) a).
Proof. exact refines_scan. Qed.
(* the wrapper's four scans: exactly the first n matching items of the sorted map in scan order, for every pivot,
   every filter and every limit (0: nothing, negative: panic) *)
Theorem c03_bounded_scans : forall deg t L w k f n, refines0 deg t L -> iter_walk t w k f n = s_walk w k f n L.
Proof. exact refines_walk. Qed.
Theorem c03_bounded_scans_wf : forall t w k f n, tree_wf t -> iter_walk t w k f n = s_walk w k f n (itree_list t).
Proof. exact iter_walk_spec. Qed.

(* ------------------------------------------------------------------------------------------------------------
   4. Clone isolation (copy-on-write ownership)
   ------------------------------------------------------------------------------------------------------------ *)
(* under the ownership invariant a write through one handle (one that changes only fresh nodes and nodes owned by
   its context) leaves the tree seen through every other handle unchanged ... *)
Theorem c03_write_isolated : forall h h' hs i r c, Own h hs -> nth_error hs i = Some (r, c) -> write_by c h h' ->
  forall j r' c' f, nth_error hs j = Some (r', c') -> i <> j -> abs f h' r' = abs f h r'.
Proof. exact write_isolated. Qed.
(* ... keeps the invariant ... *)
Theorem c03_write_keeps_ownership : forall h h' hs i r c rnew,
  Own h hs -> nth_error hs i = Some (r, c) -> write_by c h h' ->
  (forall a, reach h' rnew a -> h' a <> None) ->
  (forall a, reach h' rnew a -> reach h r a \/ h' a <> h a) ->
  let hs' := firstn i hs ++ (rnew, c) :: skipn (S i) hs in
  (forall j, j <> i -> nth_error hs' j = nth_error hs j) -> nth_error hs' i = Some (rnew, c) ->
  Own h' hs'.
Proof. exact write_keeps_own. Qed.
(* ... and Clone (one root under two fresh contexts) establishes it for the pair *)
Theorem c03_clone_establishes_ownership : forall h hs i r c c1 c2,
  Own h hs -> nth_error hs i = Some (r, c) -> c1 <> c2 ->
  (forall a n, h a = Some n -> own n <> c1 /\ own n <> c2) ->
  (forall j r' c', nth_error hs j = Some (r', c') -> c' <> c1 /\ c' <> c2) ->
  Own h ((r, c2) :: firstn i hs ++ (r, c1) :: skipn (S i) hs).
Proof. exact clone_own. Qed.
(* the first heap-level write function, node.mutableFor: it writes only a fresh address, what it creates belongs to the
   writer's context, the node it returns stands for the same tree, and it is invisible through every other handle *)
Theorem c03_mutable_for_discipline : forall h c a fresh, h fresh = None -> write_by c h (fst (mutable_for h c a fresh)).
Proof. exact mutable_for_write_by. Qed.
Theorem c03_mutable_for_same_tree : forall f h c a fresh, h fresh = None -> (forall x, reach h a x -> h x <> None) ->
  abs f (fst (mutable_for h c a fresh)) (snd (mutable_for h c a fresh)) = abs f h a.
Proof. exact mutable_for_abs. Qed.
Theorem c03_mutable_for_isolated : forall h hs i r c a fresh, Own h hs -> nth_error hs i = Some (r, c) -> h fresh = None ->
  forall j r' c' f, nth_error hs j = Some (r', c') -> i <> j ->
  abs f (fst (mutable_for h c a fresh)) r' = abs f h r'.
Proof. exact mutable_for_isolated. Qed.
(* PENDING (c03_clone_isolation at full strength): that the heap-level write functions of btree.go (beyond mutableFor:
   mutableChild, split, insert, remove, growChildAndRemove with the shared free list) satisfy `write_by` and the
   two structural side conditions of c03_write_keeps_ownership.  Until then the clause is carried by the three
   theorems above plus the correspondence check on clone programs (handles are independent values; ownership
   flags read through VerifShape are closed upwards). *)

(* ------------------------------------------------------------------------------------------------------------
   5. The correspondence check is sound: whatever the driver accepts satisfies the monitor
   ------------------------------------------------------------------------------------------------------------ *)
Theorem c03_case_sound : forall c, case_accept c = true -> case_holds c = true.
Proof. exact case_sound. Qed.

(* non-vacuity: a concrete history (splits, root split, steals, merges, root collapse, updates, scans) and the
   pivot classes of the bounded scans *)
Theorem c03_demo_history :
  option_map snd (w_hist iempty demo) = Some (snd (ws_hist [] demo)) /\
  fst (ws_hist [] demo) = [(0,11); (2,6); (6,9); (7,5); (8,7); (9,12)] /\
  skipn 15 (snd (ws_hist [] demo)) =
    [OItem (9,12); OList [(6,9); (7,5); (8,7)]; OList [(8,7); (6,9)]; OList []; OList []].
Proof. exact demo_run. Qed.
Theorem c03_demo_small : w_small [] demo.
Proof. exact demo_small. Qed.
Theorem c03_demo_pivots :
  iter_walk demo_tree WAscendGte 40 FAll 3 = Some [(40,140); (50,150); (60,160)] /\
  iter_walk demo_tree WAscendGt 40 FAll 3 = Some [(50,150); (60,160); (70,170)] /\
  iter_walk demo_tree WDescendLte 60 FAll 2 = Some [(60,160); (50,150)] /\
  iter_walk demo_tree WDescendLt 60 FAll 2 = Some [(50,150); (40,140)] /\
  iter_walk demo_tree WAscendGt 45 FAll 2 = Some [(50,150); (60,160)] /\
  iter_walk demo_tree WDescendLt 45 FAll 2 = Some [(40,140); (30,130)] /\
  iter_walk demo_tree WAscendGte 5 FAll 2 = Some [(10,110); (20,120)] /\
  iter_walk demo_tree WDescendLte 5 FAll 2 = Some [] /\
  iter_walk demo_tree WAscendGt 500 FAll 2 = Some [] /\
  iter_walk demo_tree WDescendLt 500 (FKeyMod 20 0) 3 = Some [(100,200); (80,180); (60,160)] /\
  iter_walk demo_tree WAscendGte 40 FAll 0 = Some [] /\
  iter_walk demo_tree WAscendGte 90 FAll 1000 = Some [(90,190); (100,200); (110,210)] /\
  iter_walk demo_tree WAscendGte 40 FAll (-1) = None /\
  iter_walk iempty WDescendLte 40 FAll 5 = Some [].
Proof. exact demo_pivots. Qed.

Print Assumptions c03_inner_history.
Print Assumptions c03_wrapper_history.
Print Assumptions c03_empty.
Print Assumptions c03_inner_step.
Print Assumptions c03_wrapper_step.
Print Assumptions c03_insert_spec.
Print Assumptions c03_delete_spec.
Print Assumptions c03_latest_item_wins.
Print Assumptions c03_insert_other_keys.
Print Assumptions c03_delete_removes.
Print Assumptions c03_delete_other_keys.
Print Assumptions c03_lookup_is_membership.
Print Assumptions c03_insert_keeps_sorted.
Print Assumptions c03_get_spec.
Print Assumptions c03_min_spec.
Print Assumptions c03_max_spec.
Print Assumptions c03_ordered_balanced.
Print Assumptions c03_height_bound.
Print Assumptions c03_monitor_ordered_sound.
Print Assumptions c03_monitor_ordered_complete.
Print Assumptions c03_monitor_balanced_sound.
Print Assumptions c03_monitor_balanced_complete.
Print Assumptions c03_iterate_ascending.
Print Assumptions c03_iterate_descending.
Print Assumptions c03_ten_scans.
Print Assumptions c03_ten_scans_on_map.
Print Assumptions c03_bounded_scans.
Print Assumptions c03_bounded_scans_wf.
Print Assumptions c03_write_isolated.
Print Assumptions c03_write_keeps_ownership.
Print Assumptions c03_clone_establishes_ownership.
Print Assumptions c03_mutable_for_discipline.
Print Assumptions c03_mutable_for_same_tree.
Print Assumptions c03_mutable_for_isolated.
Print Assumptions c03_case_sound.
Print Assumptions c03_demo_history.
Print Assumptions c03_demo_small.
Print Assumptions c03_demo_pivots.
