(* C03 B-tree: ordered-set equivalence, bounded range scans, clone isolation.
   The property, clause by clause, over all histories / inputs.  Statements closed by `exact` only.
   Model: C03_Model.v (items = (key, payload) ordered by key; node.insert / split / remove / growChildAndRemove /
   iterate / root split and collapse / length, the ten scan entry points, the wrapper's Update, UpdateOrInsert,
   iterWalk).  Specification: C03_Spec.v (a list of items strictly increasing by key = a sorted map).
   `refines0 deg t L` : the model tree t of degree deg stands for the sorted map L (C03_Hist.v);
   `refines`         : ... and L has fewer than 2^31 items (the model's recursion fuel is then sufficient). *)
From Coq Require Import ZArith List Lia Bool Sorting.Sorted.
Require Import C03_Model C03_Spec C03_D C03_Ins C03_Sel C03_Inv C03_Tot C03_InsInv C03_Up C03_Tree C03_Scan C03_ScanSpec C03_Hist C03_Steps C03_Refine C03_History C03_Cow C03_Monitor C03_Heap C03_HeapLib C03_HeapIns C03_HeapRem C03_HeapTree C03_HeapClear C03_HeapWorld C03_HeapEx C03_Check.
Import ListNotations.
Open Scope Z_scope.

(* ------------------------------------------------------------------------------------------------------------
   1. Ordered-set equivalence over every history, with the most recently stored item
   ------------------------------------------------------------------------------------------------------------ *)

(* every history of the inner tree (ReplaceOrInsert / Delete / DeleteMin / DeleteMax / Get / Has / Min / Max / Len /
   the ten scans), for every degree >= 2, from any tree standing for a sorted map: each operation returns exactly
   what the sorted map returns, and the final tree stands for the final map *)
Theorem c03_inner_history : forall deg, (2 <= deg)%nat -> forall ops t L, refines0 deg t L -> i_small L ops ->
  exists t', i_hist deg t ops = Some (t', snd (is_hist L ops)) /\ refines deg t' (fst (is_hist L ops)).
Proof. exact inner_history. Qed.

(* every history of the wrapper (Insert / Update / UpdateOrInsert / Delete / Get / AscendGte / AscendGt /
   DescendLte / DescendLt with any filter and any limit) *)
Theorem c03_wrapper_history : forall ops t L, refines0 WDEG t L -> w_small L ops ->
  exists t', w_hist t ops = Some (t', snd (ws_hist L ops)) /\ refines WDEG t' (fst (ws_hist L ops)).
Proof. exact wrapper_history. Qed.

(* the empty tree stands for the empty map *)
Theorem c03_empty : forall deg, refines deg iempty [].
Proof. exact refines_empty. Qed.

(* one operation = one operation of the sorted map (the step behind the two theorems above) *)
Theorem c03_inner_step : forall deg, (2 <= deg)%nat -> forall t L o, refines deg t L ->
  exists t', i_step deg t o = Some (t', snd (is_step L o)) /\ refines0 deg t' (fst (is_step L o)).
Proof. exact i_step_refines. Qed.
Theorem c03_wrapper_step : forall t L o, refines WDEG t L ->
  exists t', w_step t o = Some (t', snd (ws_step L o)) /\ refines0 WDEG t' (fst (ws_step L o)).
Proof. exact w_step_refines. Qed.

(* ReplaceOrInsert on the whole tree: the in-order list gets the item at its key, the replaced item is returned *)
Theorem c03_insert_spec : forall deg, (2 <= deg)%nat -> forall h t (it : item), tinv deg h t -> (S h < IFUEL)%nat ->
  exists h' t', itree_insert deg t it = Some (t', s_lookup (key it) (contents h t)) /\ tinv deg h' t' /\ (h' <= S h)%nat /\
                contents h' t' = s_ins it (contents h t).
Proof. exact itree_insert_ok. Qed.
(* Delete / DeleteMin / DeleteMax on the whole tree *)
Theorem c03_delete_spec : forall deg, (2 <= deg)%nat -> forall h t r, tinv deg h t -> (2 * h + 2 <= IFUEL)%nat ->
  exists h' t', itree_delete deg t r = Some (t', tree_out r (contents h t)) /\ tinv deg h' t' /\ (h' <= h)%nat /\
                contents h' t' = spec_list r (contents h t).
Proof. exact itree_delete_ok. Qed.

(* the sorted map itself: the most recently stored item is the one found, other keys are untouched,
   a deleted key is gone, and lookup is membership in the strictly sorted list *)
Theorem c03_latest_item_wins : forall (it : item) L, s_lookup (key it) (s_ins it L) = Some it.
Proof. exact lookup_ins_same. Qed.
Theorem c03_insert_other_keys : forall (it : item) k L, k <> key it -> s_lookup k (s_ins it L) = s_lookup k L.
Proof. exact lookup_ins_other. Qed.
Theorem c03_delete_removes : forall k L, s_lookup k (s_del k L) = None.
Proof. exact lookup_del_same. Qed.
Theorem c03_delete_other_keys : forall k k' L, k' <> k -> s_lookup k' (s_del k L) = s_lookup k' L.
Proof. exact lookup_del_other. Qed.
Theorem c03_lookup_is_membership : forall k (L : list item), StronglySorted klt L ->
  forall x, s_lookup k L = Some x <-> (In x L /\ key x = k).
Proof. exact lookup_in. Qed.
Theorem c03_insert_keeps_sorted : forall (it : item) L, StronglySorted klt L -> StronglySorted klt (s_ins it L).
Proof. exact s_ins_sorted. Qed.

(* reads as functions of the sorted map *)
Theorem c03_get_spec : forall deg t L k, refines0 deg t L -> itree_get t k = s_lookup k L.
Proof. exact refines_get. Qed.
Theorem c03_min_spec : forall deg, (2 <= deg)%nat -> forall t L, refines0 deg t L -> itree_min t = hd_error L.
Proof. exact refines_min. Qed.
Theorem c03_max_spec : forall deg, (2 <= deg)%nat -> forall t L, refines0 deg t L -> itree_max t = last_error L.
Proof. exact refines_max. Qed.

(* ------------------------------------------------------------------------------------------------------------
   2. The tree stays ordered and balanced; length = item count
   ------------------------------------------------------------------------------------------------------------ *)
(* a tree that stands for L: L is strictly sorted, the length field is |L|, and the root (if any) has all leaves at
   one depth h, every node below it within degree-1 .. 2*degree-1 items, one more child than items in every
   internal node, and the root itself at most 2*degree-1 items *)
Theorem c03_ordered_balanced : forall deg t L, (2 <= deg)%nat -> refines0 deg t L ->
  StronglySorted klt L /\ ilen t = Z.of_nat (length L) /\ itree_list t = L /\
  match iroot t with
  | None => L = []
  | Some r => exists h, shaped h r /\ occ (deg - 1) h r /\ upper (deg - 1) h r /\
                        (length (iitems r) <= 2 * deg - 1)%nat /\ iflat (S h) r = L
  end.
Proof. exact refines_invariant. Qed.
(* the height is logarithmic: below 2^31 items it is at most 30, far inside the model's fuel *)
Theorem c03_height_bound : forall deg, (2 <= deg)%nat -> forall h t, tinv deg h t -> small (contents h t) -> (h <= 30)%nat.
Proof. exact height_small. Qed.

(* the executable predicates the driver evaluates on the implementation's actual nodes (read through VerifShape)
   are these invariants: what the monitor accepts is ordered and balanced, and every ordered, balanced tree passes *)
Theorem c03_monitor_ordered_sound : forall l : list item, sortedb l = true -> StronglySorted klt l.
Proof. exact sortedb_sound. Qed.
Theorem c03_monitor_ordered_complete : forall l : list item, StronglySorted klt l -> sortedb l = true.
Proof. exact sortedb_complete. Qed.
Theorem c03_monitor_balanced_sound : forall deg n, (1 <= deg)%nat -> balanced deg n = true ->
  exists h, shaped h n /\ occ (deg - 1) h n /\ upper (deg - 1) h n /\ (length (iitems n) <= 2 * deg - 1)%nat.
Proof. exact balanced_sound. Qed.
Theorem c03_monitor_balanced_complete : forall deg h n, (1 <= deg)%nat -> (h <= IFUEL)%nat ->
  shaped h n -> occ (deg - 1) h n -> upper (deg - 1) h n -> (length (iitems n) <= 2 * deg - 1)%nat -> balanced deg n = true.
Proof. exact balanced_complete. Qed.

(* ------------------------------------------------------------------------------------------------------------
   3. Scans
   ------------------------------------------------------------------------------------------------------------ *)
(* node.iterate ascending / descending, for every well-formed ordered tree, every optional start, every optional
   stop, includeStart or not, and every callback: the callback is run over exactly the selected part of the
   in-order list, in scan order, until it stops *)
Theorem c03_iterate_ascending : forall A (visit : A -> item -> A * bool) start stop incl f n a,
  iwf f n -> StronglySorted klt (iflat f n) ->
  scan_acc (asc A visit start stop incl f n false a)
  = fst (feed visit (filter (fun x => keep start incl x && stop_a stop x) (iflat f n)) a).
Proof. exact iterate_asc_spec. Qed.
Theorem c03_iterate_descending : forall A (visit : A -> item -> A * bool) start stop incl f n a,
  iwf f n -> StronglySorted klt (iflat f n) ->
  scan_acc (desc A visit start stop incl f n false a)
  = fst (feed visit (filter (fun x => keepd start incl x && stop_d stop x) (rev (iflat f n))) a).
Proof. exact iterate_desc_spec. Qed.
(* the ten entry points (the eight upstream ones and AscendGreater / DescendLess added by this repository) *)
Theorem c03_ten_scans : forall A (visit : A -> item -> A * bool) e p q t a,
  tree_wf t -> itree_scan visit e p q t a = fst (feed visit (s_scan e p q (itree_list t)) a).
Proof. exact itree_scan_spec. Qed.
Theorem c03_ten_scans_on_map : forall deg t L A (visit : A -> item -> A * bool) e p q a,
  refines0 deg t L -> itree_scan visit e p q t a = fst (feed visit (s_scan e p q L) a).
Proof. exact refines_scan. Qed.
(* the wrapper's four scans: exactly the first n matching items of the sorted map in scan order, for every pivot,
   every filter and every limit (0: nothing, negative: panic) *)
Theorem c03_bounded_scans : forall deg t L w k f n, refines0 deg t L -> iter_walk t w k f n = s_walk w k f n L.
Proof. exact refines_walk. Qed.
Theorem c03_bounded_scans_wf : forall t w k f n, tree_wf t -> iter_walk t w k f n = s_walk w k f n (itree_list t).
Proof. exact iter_walk_spec. Qed.

(* ------------------------------------------------------------------------------------------------------------
   4. Clone isolation (copy-on-write ownership)
   ------------------------------------------------------------------------------------------------------------ *)
(* under the ownership invariant a write through one handle (one that changes only fresh nodes and nodes owned by
   its context) leaves the tree seen through every other handle unchanged ... *)
Theorem c03_write_isolated : forall h h' hs i r c, Own h hs -> nth_error hs i = Some (r, c) -> write_by c h h' ->
  forall j r' c' f, nth_error hs j = Some (r', c') -> i <> j -> abs f h' r' = abs f h r'.
Proof. exact write_isolated. Qed.
(* ... keeps the invariant ... *)
Theorem c03_write_keeps_ownership : forall h h' hs i r c rnew,
  Own h hs -> nth_error hs i = Some (r, c) -> write_by c h h' ->
  (forall a, reach h' rnew a -> h' a <> None) ->
  (forall a, reach h' rnew a -> reach h r a \/ h' a <> h a) ->
  let hs' := firstn i hs ++ (rnew, c) :: skipn (S i) hs in
  (forall j, j <> i -> nth_error hs' j = nth_error hs j) -> nth_error hs' i = Some (rnew, c) ->
  Own h' hs'.
Proof. exact write_keeps_own. Qed.
(* ... and Clone (one root under two fresh contexts) establishes it for the pair *)
Theorem c03_clone_establishes_ownership : forall h hs i r c c1 c2,
  Own h hs -> nth_error hs i = Some (r, c) -> c1 <> c2 ->
  (forall a n, h a = Some n -> own n <> c1 /\ own n <> c2) ->
  (forall j r' c', nth_error hs j = Some (r', c') -> c' <> c1 /\ c' <> c2) ->
  Own h ((r, c2) :: firstn i hs ++ (r, c1) :: skipn (S i) hs).
Proof. exact clone_own. Qed.
(* the first heap-level write function, node.mutableFor: it writes only a fresh address, what it creates belongs to the
   writer's context, the node it returns stands for the same tree, and it is invisible through every other handle *)
Theorem c03_mutable_for_discipline : forall h c a fresh, h fresh = None -> write_by c h (fst (mutable_for h c a fresh)).
Proof. exact mutable_for_write_by. Qed.
Theorem c03_mutable_for_same_tree : forall f h c a fresh, h fresh = None -> (forall x, reach h a x -> h x <> None) ->
  abs f (fst (mutable_for h c a fresh)) (snd (mutable_for h c a fresh)) = abs f h a.
Proof. exact mutable_for_abs. Qed.
Theorem c03_mutable_for_isolated : forall h hs i r c a fresh, Own h hs -> nth_error hs i = Some (r, c) -> h fresh = None ->
  forall j r' c' f, nth_error hs j = Some (r', c') -> i <> j ->
  abs f (fst (mutable_for h c a fresh)) r' = abs f h r'.
Proof. exact mutable_for_isolated. Qed.
(* ---- layer H: the write path on a store of nodes, as btree.go does it (C03_Heap.v): mutableFor, mutableChild, split,
   insert with maybeSplitChild, growChildAndRemove (steal left / steal right / merge), remove, root split and root
   collapse, Clone (two fresh contexts), the shared free list (freeNode recycles only nodes owned by the context;
   newNode may hand out a recycled node).  `habs h hd` is the functional tree the handle hd stands for in store h,
   `hfp h hd` its footprint, `winv deg w ts` the invariant of a family w of handles standing for the functional
   trees ts, `step_ok c A h h' A'`: every address either keeps its content or was free or a node of A owned by c,
   what is written is owned by c, and A' consists of nodes of A and formerly free addresses. ---- *)

(* abstraction, node level: node.insert / node.remove on the store do what iinsert / iremove do on the value *)
Theorem c03_heap_node_insert : forall minI, (1 <= minI)%nat -> forall c fuel hh s a na n (it : item) n' r,
  good_alloc s -> hp s a = Some na -> own na = c ->
  abs (S hh) (hp s) a = Some n -> wf minI hh n -> StronglySorted klt (iflat (S hh) n) ->
  iinsert fuel (maxI_of minI) n it = Some (n', r) ->
  exists s', h_insert fuel (maxI_of minI) c s a it = Some (s', r) /\ ins_post c hh s a s' n'.
Proof. exact h_insert_sim. Qed.
Theorem c03_heap_node_remove : forall minI, (1 <= minI)%nat -> forall c fuel hh s a na n t n' out,
  good_alloc s -> hp s a = Some na -> own na = c -> abs (S hh) (hp s) a = Some n ->
  good minI hh n -> ok_rm minI n -> StronglySorted klt (iflat (S hh) n) -> pre_t hh n t ->
  iremove fuel minI n t = Some (n', out) ->
  exists s', h_remove fuel minI c s a t = Some (s', out) /\ node_post c hh s a s' n'.
Proof. exact h_remove_sim. Qed.
(* abstraction, tree level: ReplaceOrInsert / Delete / DeleteMin / DeleteMax through a handle *)
Theorem c03_heap_insert_abstraction : forall deg, (2 <= deg)%nat -> forall s hd (it : item) t h t' out,
  good_alloc s -> habs (hp s) hd = Some t -> tinv deg h t -> (S h < IFUEL)%nat ->
  itree_insert deg t it = Some (t', out) ->
  exists s' hd', h_replace_or_insert deg s hd it = Some (s', hd', out) /\ habs (hp s') hd' = Some t' /\
    hctx hd' = hctx hd /\ (exists r n, hroot hd' = Some r /\ hp s' r = Some n /\ own n = hctx hd) /\ good_alloc s' /\
    step_ok (hctx hd) (hfp (hp s) hd) (hp s) (hp s') (hfp (hp s') hd').
Proof. exact h_roi_sim. Qed.
Theorem c03_heap_delete_abstraction : forall deg, (2 <= deg)%nat -> forall s hd (r : irm) t h t' out,
  good_alloc s -> habs (hp s) hd = Some t -> tinv deg h t -> (2 * h + 2 <= IFUEL)%nat ->
  itree_delete deg t r = Some (t', out) ->
  exists s' hd', h_delete deg s hd r = Some (s', hd', out) /\ habs (hp s') hd' = Some t' /\
    hctx hd' = hctx hd /\ good_alloc s' /\
    step_ok (hctx hd) (hfp (hp s) hd) (hp s) (hp s') (hfp (hp s') hd').
Proof. exact h_delete_sim. Qed.

(* a call that never returned (the harness found it parked on the wrapper's own lock with nobody else using the
   wrapper) is recorded as OStuck; it equals no outcome of the model or of the sorted-map specification *)
Theorem c03_stuck_is_no_outcome : forall o, obs_eqb OStuck o = false /\ obs_eqb o OStuck = false.
Proof. intros o. destruct o; split; reflexivity. Qed.
(* Clear(true|false) through a handle: the store changes only by the removal of nodes of the handle's tree that the
   handle's context owns (step_ok ... []: everything else keeps its content); the handle then stands for the empty tree *)
Theorem c03_heap_clear : forall s hd b, good_alloc s ->
  good_alloc (fst (h_clear s hd b)) /\ habs (hp (fst (h_clear s hd b))) (snd (h_clear s hd b)) = Some iempty /\
  hctx (snd (h_clear s hd b)) = hctx hd /\
  step_ok (hctx hd) (hfp (hp s) hd) (hp s) (hp (fst (h_clear s hd b))) (hfp (hp (fst (h_clear s hd b))) (snd (h_clear s hd b))).
Proof. exact h_clear_sim. Qed.
(* node.reset releases only nodes of the subtree that the given context owns, whatever the fuel and the store *)
Theorem c03_heap_reset_owned_only : forall c f s a, good_alloc s ->
  good_alloc (fst (h_reset f c s a)) /\
  forall x, hp (fst (h_reset f c s a)) x = hp s x \/
            (hp (fst (h_reset f c s a)) x = None /\ In x (addrs f (hp s) a) /\ exists n, hp s x = Some n /\ own n = c).
Proof. intros c f s a Hg. apply (h_reset_spec c (hp s) f s a Hg). intros x n H. exact H. Qed.
(* one operation (Clone, ReplaceOrInsert, Delete, DeleteMin, DeleteMax, Clear, NewWithFreeList on the shared free list)
   on a family of handles: it returns what the functional family
   returns, the invariant is kept, and every handle other than the one operated on keeps its value *)
Theorem c03_heap_step : forall deg, (2 <= deg)%nat -> forall w ts o ts' out, winv deg w ts ->
  f_step deg ts o = Some (ts', out) -> (forall t', In t' ts' -> small_t t') ->
  exists w', w_step_h deg w o = Some (w', out) /\ winv deg w' ts' /\
    (forall j hj, target o <> Some j -> nth_error (whs w) j = Some hj ->
       nth_error (whs w') j = Some hj /\ habs (hp (wst w')) hj = habs (hp (wst w)) hj).
Proof. exact w_step_sim. Qed.
(* every history, from any family satisfying the invariant, and from the empty tree *)
Theorem c03_heap_history : forall deg, (2 <= deg)%nat -> forall ops w ts ts' outs, winv deg w ts ->
  f_run deg ts ops = Some (ts', outs) -> f_small deg ts ops ->
  exists w', h_run deg w ops = Some (w', outs) /\ winv deg w' ts'.
Proof. exact h_history. Qed.
Theorem c03_heap_history_from_empty : forall deg, (2 <= deg)%nat -> forall ops ts' outs,
  f_run deg [iempty] ops = Some (ts', outs) -> f_small deg [iempty] ops ->
  exists w', h_run deg world0 ops = Some (w', outs) /\ winv deg w' ts'.
Proof. exact h_history_from_empty. Qed.
Theorem c03_heap_invariant_initial : forall deg, winv deg world0 [iempty].
Proof. exact winv0. Qed.
(* the same for a free list of any size (NewFreeList(k)), e.g. one that is full most of the time *)
Theorem c03_heap_history_any_free_list : forall deg k, (2 <= deg)%nat -> forall ops ts' outs,
  f_run deg [iempty] ops = Some (ts', outs) -> f_small deg [iempty] ops ->
  exists w', h_run deg (world_init k) ops = Some (w', outs) /\ winv deg w' ts'.
Proof. exact h_history_from_init. Qed.
(* what the invariant gives: each handle stands for its functional tree, which stands for a sorted map *)
Theorem c03_heap_abstraction : forall deg w ts i hd, winv deg w ts -> nth_error (whs w) i = Some hd ->
  exists t L, nth_error ts i = Some t /\ habs (hp (wst w)) hd = Some t /\ refines deg t L.
Proof. exact winv_abs. Qed.

(* clone isolation at full strength, also across Clear: in every family reachable by Clone / ReplaceOrInsert / Delete /
   DeleteMin / DeleteMax / Clear(true|false) / NewWithFreeList on the shared free list (c03_heap_history), an operation through one handle leaves every other handle, and the functional tree
   it stands for, unchanged *)
Theorem c03_clone_isolation : forall deg, (2 <= deg)%nat -> forall w ts o ts' out w',
  winv deg w ts -> f_step deg ts o = Some (ts', out) -> (forall t', In t' ts' -> small_t t') ->
  w_step_h deg w o = Some (w', out) ->
  forall j hj, target o <> Some j -> nth_error (whs w) j = Some hj ->
    nth_error (whs w') j = Some hj /\ habs (hp (wst w')) hj = habs (hp (wst w)) hj.
Proof. exact h_write_isolated. Qed.
(* ownership: a node owned by the context of one handle occurs in (is reachable from) no other handle's tree; for a
   family in which every handle has a root this is the invariant Own of C03_Cow.v *)
Theorem c03_heap_ownership : forall deg w ts i j hi hj x n, winv deg w ts ->
  nth_error (whs w) i = Some hi -> nth_error (whs w) j = Some hj -> i <> j ->
  In x (hfp (hp (wst w)) hj) -> hp (wst w) x = Some n -> own n <> hctx hi.
Proof. exact winv_ownership. Qed.
Theorem c03_heap_ownership_reach : forall deg w ts i j hi hj r' a n, winv deg w ts ->
  nth_error (whs w) i = Some hi -> nth_error (whs w) j = Some hj -> i <> j -> hroot hj = Some r' ->
  reach (hp (wst w)) r' a -> hp (wst w) a = Some n -> own n <> hctx hi.
Proof. exact winv_owned_unreachable. Qed.
Theorem c03_heap_Own : forall deg w ts (hs : list handle), winv deg w ts ->
  Forall2 (fun hd p => hroot hd = Some (fst p) /\ hctx hd = snd p) (whs w) hs -> Own (hp (wst w)) hs.
Proof. exact winv_Own. Qed.
(* after ReplaceOrInsert the root belongs to the handle's context (see c03_heap_insert_abstraction); after Clone the two
   handles get the contexts wctx w and wctx w + 1, which own nothing - two consequences the correspondence check also
   reads off the implementation's nodes (ownership flags of VerifShape) *)
Theorem c03_heap_clone_owns_nothing : forall deg w ts x n, winv deg w ts -> hp (wst w) x = Some n ->
  own n <> wctx w /\ own n <> S (wctx w).
Proof. exact clone_owns_nothing. Qed.
(* the free list never hands out a node still in the tree of any handle *)
Theorem c03_free_list_sound : forall deg w ts j hj, winv deg w ts -> nth_error (whs w) j = Some hj ->
  ~ In (fst (new_addr (wst w))) (hfp (hp (wst w)) hj).
Proof. exact new_addr_unreachable. Qed.
Theorem c03_free_list_unreachable : forall deg w ts j hj a, winv deg w ts -> nth_error (whs w) j = Some hj ->
  In a (fl (wst w)) -> ~ In a (hfp (hp (wst w)) hj).
Proof. exact free_list_unreachable. Qed.
(* no sharing inside one tree comes for free: a store tree whose value is shaped, has no empty node below the top and a
   strictly sorted in-order list visits every address once *)
Theorem c03_footprint_nodup : forall m, (1 <= m)%nat -> forall hh h a t, abs (S hh) h a = Some t -> shaped hh t -> occ m hh t ->
  StronglySorted klt (iflat (S hh) t) -> NoDup (addrs (S hh) h a).
Proof. exact fp_nodup. Qed.
(* non-vacuity: Clone taken exactly when the root is full, then writes on both sides; released nodes are reused *)
Theorem c03_heap_demo_clone_at_full_root :
  match h_run 2 world0 prog1, f_run 2 [iempty] prog1 with
  | Some (w, outs), Some (ts, outs') =>
      map (habs (hp (wst w))) (whs w) = map Some ts /\ outs = outs' /\
      map itree_list ts = [[(25,125); (30,130); (40,140)]; [(5,105); (10,110); (15,115); (20,777)]]
  | _, _ => False
  end.
Proof. exact prog1_run. Qed.
Theorem c03_heap_demo_small : f_small 2 [iempty] prog1.
Proof. exact prog1_small. Qed.
Theorem c03_heap_demo_recycle :
  match h_run 2 world0 prog2a with
  | Some (w1, _) =>
      match h_run 2 w1 prog2b, f_run 2 [iempty] (prog2a ++ prog2b) with
      | Some (w2, _), Some (ts, _) =>
          (length (fl (wst w1)) = 6 /\ nxt (wst w2) = nxt (wst w1) /\ length (fl (wst w2)) = 1)%nat /\
          map (habs (hp (wst w2))) (whs w2) = map Some ts /\
          map itree_list ts = [[(10,110); (11,111); (12,112); (21,121); (22,122); (23,123); (24,124); (25,125); (26,126); (27,127)]]
      | _, _ => False
      end
  | None => False
  end.
Proof. exact prog2_recycles. Qed.
(* Clear: Clear(true) on the original right after Clone releases nothing and leaves the clone whole; Clear(true) on a
   handle that owns nodes releases them until the (small) free list is full; other trees on the list take them *)
Theorem c03_heap_demo_clear :
  match h_run 2 (world_init 2) prog3a with
  | Some (w1, _) =>
      match h_run 2 w1 prog3b with
      | Some (w2, _) =>
          match h_run 2 w2 prog3c, f_run 2 [iempty] (prog3a ++ prog3b ++ prog3c) with
          | Some (w3, _), Some (ts, _) =>
              fl (wst w1) = [] /\
              map (fun hd => option_map itree_list (habs (hp (wst w1)) hd)) (whs w1)
                = [Some []; Some [(1,101); (2,102); (3,103); (4,104); (5,105); (6,106); (7,107); (8,108)]] /\
              (length (fl (wst w2)) = 2 /\ nxt (wst w3) = nxt (wst w2) /\ fl (wst w3) = [])%nat /\
              map (habs (hp (wst w3))) (whs w3) = map Some ts /\
              map itree_list ts = [[(11,111)]; []; [(50,150); (51,151)]]
          | _, _ => False
          end
      | None => False
      end
  | None => False
  end.
Proof. exact prog3_clear. Qed.
(* Not modelled at layer H: the reads (they do not write the store), and the concurrent use of a tree and
   its clone from different goroutines (FreeList has its own mutex in btree.go; here the family is operated on one
   operation at a time). *)

(* ------------------------------------------------------------------------------------------------------------
   5. The correspondence check is sound: whatever the driver accepts satisfies the monitor
   ------------------------------------------------------------------------------------------------------------ *)
Theorem c03_case_sound : forall c, case_accept c = true -> case_holds c = true.
Proof. exact case_sound. Qed.

(* non-vacuity: a concrete history (splits, root split, steals, merges, root collapse, updates, scans) and the
   pivot classes of the bounded scans *)
Theorem c03_demo_history :
  option_map snd (w_hist iempty demo) = Some (snd (ws_hist [] demo)) /\
  fst (ws_hist [] demo) = [(0,11); (2,6); (6,9); (7,5); (8,7); (9,12)] /\
  skipn 15 (snd (ws_hist [] demo)) =
    [OItem (9,12); OList [(6,9); (7,5); (8,7)]; OList [(8,7); (6,9)]; OList []; OList []].
Proof. exact demo_run. Qed.
Theorem c03_demo_small : w_small [] demo.
Proof. exact demo_small. Qed.
Theorem c03_demo_pivots :
  iter_walk demo_tree WAscendGte 40 FAll 3 = Some [(40,140); (50,150); (60,160)] /\
  iter_walk demo_tree WAscendGt 40 FAll 3 = Some [(50,150); (60,160); (70,170)] /\
  iter_walk demo_tree WDescendLte 60 FAll 2 = Some [(60,160); (50,150)] /\
  iter_walk demo_tree WDescendLt 60 FAll 2 = Some [(50,150); (40,140)] /\
  iter_walk demo_tree WAscendGt 45 FAll 2 = Some [(50,150); (60,160)] /\
  iter_walk demo_tree WDescendLt 45 FAll 2 = Some [(40,140); (30,130)] /\
  iter_walk demo_tree WAscendGte 5 FAll 2 = Some [(10,110); (20,120)] /\
  iter_walk demo_tree WDescendLte 5 FAll 2 = Some [] /\
  iter_walk demo_tree WAscendGt 500 FAll 2 = Some [] /\
  iter_walk demo_tree WDescendLt 500 (FKeyMod 20 0) 3 = Some [(100,200); (80,180); (60,160)] /\
  iter_walk demo_tree WAscendGte 40 FAll 0 = Some [] /\
  iter_walk demo_tree WAscendGte 90 FAll 1000 = Some [(90,190); (100,200); (110,210)] /\
  iter_walk demo_tree WAscendGte 40 FAll (-1) = None /\
  iter_walk iempty WDescendLte 40 FAll 5 = Some [].
Proof. exact demo_pivots. Qed.

Print Assumptions c03_inner_history.
Print Assumptions c03_wrapper_history.
Print Assumptions c03_empty.
Print Assumptions c03_inner_step.
Print Assumptions c03_wrapper_step.
Print Assumptions c03_insert_spec.
Print Assumptions c03_delete_spec.
Print Assumptions c03_latest_item_wins.
Print Assumptions c03_insert_other_keys.
Print Assumptions c03_delete_removes.
Print Assumptions c03_delete_other_keys.
Print Assumptions c03_lookup_is_membership.
Print Assumptions c03_insert_keeps_sorted.
Print Assumptions c03_get_spec.
Print Assumptions c03_min_spec.
Print Assumptions c03_max_spec.
Print Assumptions c03_ordered_balanced.
Print Assumptions c03_height_bound.
Print Assumptions c03_monitor_ordered_sound.
Print Assumptions c03_monitor_ordered_complete.
Print Assumptions c03_monitor_balanced_sound.
Print Assumptions c03_monitor_balanced_complete.
Print Assumptions c03_iterate_ascending.
Print Assumptions c03_iterate_descending.
Print Assumptions c03_ten_scans.
Print Assumptions c03_ten_scans_on_map.
Print Assumptions c03_bounded_scans.
Print Assumptions c03_bounded_scans_wf.
Print Assumptions c03_write_isolated.
Print Assumptions c03_write_keeps_ownership.
Print Assumptions c03_clone_establishes_ownership.
Print Assumptions c03_mutable_for_discipline.
Print Assumptions c03_mutable_for_same_tree.
Print Assumptions c03_mutable_for_isolated.
Print Assumptions c03_heap_node_insert.
Print Assumptions c03_heap_node_remove.
Print Assumptions c03_heap_insert_abstraction.
Print Assumptions c03_heap_delete_abstraction.
Print Assumptions c03_heap_step.
Print Assumptions c03_heap_history.
Print Assumptions c03_heap_history_from_empty.
Print Assumptions c03_heap_invariant_initial.
Print Assumptions c03_heap_abstraction.
Print Assumptions c03_clone_isolation.
Print Assumptions c03_heap_ownership.
Print Assumptions c03_heap_ownership_reach.
Print Assumptions c03_heap_Own.
Print Assumptions c03_heap_clone_owns_nothing.
Print Assumptions c03_free_list_sound.
Print Assumptions c03_free_list_unreachable.
Print Assumptions c03_footprint_nodup.
Print Assumptions c03_heap_demo_clone_at_full_root.
Print Assumptions c03_heap_demo_small.
Print Assumptions c03_heap_demo_recycle.
Print Assumptions c03_heap_clear.
Print Assumptions c03_heap_reset_owned_only.
Print Assumptions c03_heap_history_any_free_list.
Print Assumptions c03_heap_demo_clear.
Print Assumptions c03_stuck_is_no_outcome.
Print Assumptions c03_case_sound.
Print Assumptions c03_demo_history.
Print Assumptions c03_demo_small.
Print Assumptions c03_demo_pivots.
