(* C18: what the driver evaluates on every observed case *)
From Coq Require Import List Bool ZArith.
Require Export C18 C18_More.
Import ListNotations.

(* (combined, cfg, observed trace): combined = the steps were passed as ONE step built by gormx.Combine *)
Definition case := (bool * cfg * trace)%type.

Definition trace_eqb (a b : trace) : bool := list_eqb event_eqb (fst a) (fst b) && result_eqb (snd a) (snd b).

Definition case_accept (c : case) : bool :=
  let '(comb, cf, t) := c in
  trace_eqb (if comb then transact_comb cf else transact cf) t.

(* the monitor of C18.v speaks of Transact with the steps given directly; a combined run with at least one
   sub-step must satisfy the very same clauses; an empty Combine is one succeeding step *)
Definition case_holds (c : case) : bool :=
  let '(comb, cf, t) := c in
  if comb then
    match steps cf with
    | [] => holds {| begin_ok := begin_ok cf; commit_ok := commit_ok cf; rollback_ok := rollback_ok cf; steps := [SOk] |}
                  (match fst t with EBegin :: rest => (EBegin :: EExec 0 :: rest, snd t) | _ => t end)
    | _ => holds cf t
    end
  else holds cf t.

Lemma trace_eqb_eq a b : trace_eqb a b = true -> a = b.
Proof.
  destruct a as [e r], b as [e' r']. unfold trace_eqb. cbn [fst snd]. intros H.
  apply andb_prop in H as [H1 H2].
  apply (list_eqb_eq event_eqb event_eqb_eq) in H1. apply result_eqb_eq in H2. now subst.
Qed.

Theorem case_sound : forall c, case_accept c = true -> case_holds c = true.
Proof.
  intros [[comb cf] t] H. unfold case_accept in H. apply trace_eqb_eq in H. subst t. unfold case_holds.
  destruct comb; [|apply model_holds].
  destruct (steps cf) eqn:E.
  - unfold transact_comb. rewrite E. destruct cf as [b cm rb st]. cbn [begin_ok commit_ok rollback_ok steps] in *.
    destruct b, cm; reflexivity.
  - rewrite combine_spec_lem by congruence. apply model_holds.
Qed.
