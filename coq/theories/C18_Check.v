(* C18: what the driver evaluates on every observed case *)
From Coq Require Import List Bool ZArith.
Require Export C18 C18_More C18_Stale.
Import ListNotations.

(* (mode, cfg, observed trace): MCombined = the steps were passed as ONE step built by gormx.Combine;
   MStale = steps passed directly, on a handle that already carries an error *)
Definition case := (mode * cfg * trace)%type.

Definition trace_eqb (a b : trace) : bool := list_eqb event_eqb (fst a) (fst b) && result_eqb (snd a) (snd b).

Definition case_accept (c : case) : bool :=
  let '(m, cf, t) := c in
  trace_eqb (match m with MCombined => transact_comb cf | MDirect => transact cf | MStale => transact_stale cf end) t.

(* the monitor of C18.v speaks of Transact with the steps given directly; a combined run with at least one
   sub-step must satisfy the very same clauses; an empty Combine is one succeeding step *)
Definition case_holds (c : case) : bool :=
  let '(m, cf, t) := c in
  match m with
  | MCombined =>
    match steps cf with
    | [] => holds {| begin_ok := begin_ok cf; commit_ok := commit_ok cf; rollback_ok := rollback_ok cf; steps := [SOk] |}
                  (match fst t with EBegin :: rest => (EBegin :: EExec 0 :: rest, snd t) | _ => t end)
    | _ => holds cf t
    end
  | MDirect => holds cf t
  | MStale => holds_stale cf t
  end.

Lemma trace_eqb_eq a b : trace_eqb a b = true -> a = b.
Proof.
  destruct a as [e r], b as [e' r']. unfold trace_eqb. cbn [fst snd]. intros H.
  apply andb_prop in H as [H1 H2].
  apply (list_eqb_eq event_eqb event_eqb_eq) in H1. apply result_eqb_eq in H2. now subst.
Qed.

Theorem case_sound : forall c, case_accept c = true -> case_holds c = true.
Proof.
  intros [[m cf] t] H. unfold case_accept in H. apply trace_eqb_eq in H. subst t. unfold case_holds.
  destruct m; [apply model_holds| |apply stale_model_holds].
  destruct (steps cf) eqn:E.
  - unfold transact_comb. rewrite E. destruct cf as [b cm rb st]. cbn [begin_ok commit_ok rollback_ok steps] in *.
    destruct b, cm; reflexivity.
  - rewrite combine_spec_lem by congruence. apply model_holds.
Qed.
