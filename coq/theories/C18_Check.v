(* C18: what the driver evaluates on every observed case *)
From Coq Require Import List Bool ZArith.
Require Export C18.
Import ListNotations.

Definition case := (cfg * trace)%type.
Definition case_accept (c : case) : bool := accept (fst c) (snd c).
Definition case_holds (c : case) : bool := holds (fst c) (snd c).

Theorem case_sound : forall c, case_accept c = true -> case_holds c = true.
Proof. intros [c t]. apply accept_sound. Qed.
