(* C13: proofs about the PriQueue token protocol of C13_Pri.v, over ALL label sequences, and soundness of its
   correspondence check *)
From Coq Require Import List Bool ZArith Arith Lia Permutation.
Require Import C13_Pri.
Import ListNotations.

(* ---------------- the consumer table ---------------- *)
Definition pcnt (p : pcst -> bool) (l : list pcst) : nat := length (filter p l).
Definition pb2n (b : bool) : nat := if b then 1 else 0.
Definition nparked (s : pst) : nat := pcnt is_parked (pcs s).
Definition nholding (s : pst) : nat := pcnt is_holding (pcs s).

Lemma pgetc_lt t l : pgetc t l <> PIdle -> t < length l.
Proof.
  unfold pgetc. intros H. destruct (Nat.lt_ge_cases t (length l)) as [L|G]; [exact L|].
  exfalso. apply H. apply nth_overflow. exact G.
Qed.

Lemma pupd_length t v l : length (pupd t v l) = length l.
Proof. revert t; induction l as [|a l IH]; intros [|t]; cbn; auto. Qed.

Lemma pgetc_upd_same t v l : t < length l -> pgetc t (pupd t v l) = v.
Proof.
  unfold pgetc. revert t; induction l as [|a l IH]; intros [|t] H; cbn in *; try lia; auto. apply IH. lia.
Qed.

Lemma pgetc_upd_other t u v l : t <> u -> pgetc u (pupd t v l) = pgetc u l.
Proof.
  unfold pgetc. revert t u; induction l as [|a l IH]; intros [|t] [|u] H; cbn; auto; try congruence.
Qed.

Lemma pcnt_upd p t v l : t < length l -> pcnt p (pupd t v l) + pb2n (p (pgetc t l)) = pcnt p l + pb2n (p v).
Proof.
  unfold pcnt, pgetc. revert t; induction l as [|a l IH]; intros [|t] H; cbn in *; try lia.
  - destruct (p v), (p a); cbn; lia.
  - specialize (IH t ltac:(lia)). destruct (p a); cbn; lia.
Qed.

Lemma pexistsb_cnt p l : existsb p l = false <-> pcnt p l = 0.
Proof.
  unfold pcnt. induction l as [|a l IH]; cbn; [tauto|]. destruct (p a); cbn; [split; [discriminate|lia]|exact IH].
Qed.

Lemma pcnt_pos_ex p l : 0 < pcnt p l -> exists t, p (pgetc t l) = true.
Proof.
  unfold pcnt, pgetc. induction l as [|a l IH]; cbn; [lia|]. destruct (p a) eqn:E.
  - intros _. exists 0. exact E.
  - intros H. destruct (IH H) as [t Ht]. exists (S t). exact Ht.
Qed.

Lemma pex_cnt_pos p l t : p (pgetc t l) = true -> p PIdle = false -> 0 < pcnt p l.
Proof.
  unfold pcnt, pgetc. revert t; induction l as [|a l IH]; intros t H Hi.
  - destruct t; cbn in H; congruence.
  - destruct t; cbn in *; [rewrite H; cbn; lia|]. destruct (p a); cbn; [lia|]. eapply IH; eauto.
Qed.

Lemma ptids_from_cnt0 i p l : length (filter p l) = 0 -> ptids_from i p l = [].
Proof.
  revert i; induction l as [|a l IH]; intros i; cbn; auto. destruct (p a); cbn; [discriminate|]. apply IH.
Qed.

Lemma ptids_from_nil i p l : ptids_from i p l = [] -> pcnt p l = 0.
Proof.
  unfold pcnt. revert i; induction l as [|a l IH]; intros i; cbn; auto. destruct (p a); [discriminate|]. apply IH.
Qed.

(* ---------------- heap.Pop ---------------- *)
Lemma pop_best_none l : pop_best l = None -> l = [].
Proof. destruct l as [|e r]; cbn; auto. destruct (pop_best r) as [[b r']|]; [destruct (better b e)|]; discriminate. Qed.

Lemma pop_best_perm : forall l b r, pop_best l = Some (b, r) -> Permutation l (b :: r).
Proof.
  induction l as [|e l IH]; intros b r H; cbn in H; [discriminate|].
  destruct (pop_best l) as [[b' r']|] eqn:E.
  - destruct (better b' e); inversion H; subst.
    + eapply perm_trans; [apply perm_skip; apply (IH _ _ eq_refl)|]. apply perm_swap.
    + apply Permutation_refl.
  - inversion H; subst. apply pop_best_none in E. subst. apply Permutation_refl.
Qed.

(* ---------------- 1. the token invariant ---------------- *)
(* items remain => the token is in the channel, or a call is about to put it, or a consumer holding it is about to pop;
   and nobody sleeps on the channel while the token is in it *)
Definition PInv (s : pst) : Prop :=
  (0 < length (ents s) -> token s = true \/ 0 < pend s \/ 0 < nholding s) /\ (token s = true -> nparked s = 0).

Lemma pop_locked_spec s s1 r : pop_locked s = (s1, r) ->
  pcs s1 = pcs s /\ token s1 = token s /\ pcap s1 = pcap s /\ padded s1 = padded s /\ ptaken s1 = ptaken s /\
  ((ents s = [] /\ s1 = s /\ r = None) \/
   (exists b, r = Some (e_val b) /\ Permutation (ents s) (b :: ents s1) /\
              ((ents s1 = [] /\ pend s1 = pend s) \/ (ents s1 <> [] /\ pend s1 = S (pend s))))).
Proof.
  unfold pop_locked. destruct (pop_best (ents s)) as [[b r']|] eqn:E; intros H; inversion H; subst; cbn.
  - repeat split; auto. right. exists b. split; auto. split; [now apply pop_best_perm|].
    destruct r'; [left; auto|right; split; [discriminate|auto]].
  - repeat split; auto. left. split; auto. now apply pop_best_none.
Qed.

Theorem pstep_inv s l s' o : PInv s -> pstep s l = Some (s', o) -> PInv s'.
Proof.
  intros [H1 H2] H. unfold PInv, nholding, nparked in *. destruct l; cbn [pstep] in H.
  - (* PPushLocked *)
    destruct (Z.leb (pcap s) (Z.of_nat (length (ents s)))); inversion H; subst; [split; auto|]. cbn. split; [intros _; right; left; lia|exact H2].
  - (* PSignal *)
    destruct (pend s) as [|p] eqn:Ep; [discriminate|]. destruct w as [t|].
    + destruct (pgetc t (pcs s)) eqn:Eg; try discriminate. inversion H; subst. cbn.
      assert (Ht : t < length (pcs s)) by (apply pgetc_lt; congruence).
      pose proof (pcnt_upd is_holding t PHolding (pcs s) Ht) as Eh. pose proof (pcnt_upd is_parked t PHolding (pcs s) Ht) as Epk.
      unfold pcnt in *. rewrite Eg in Eh, Epk. cbn [pb2n is_holding is_parked] in Eh, Epk. split; [intros _; right; right; lia|]. intros Ht'. specialize (H2 Ht'). lia.
    + destruct (existsb is_parked (pcs s)) eqn:Ee; [discriminate|]. inversion H; subst. cbn.
      split; [auto|]. intros _. now apply pexistsb_cnt in Ee.
  - (* PRecv *)
    destruct (Nat.ltb t (length (pcs s))) eqn:Et; [|discriminate]. apply Nat.ltb_lt in Et.
    destruct (pgetc t (pcs s)) eqn:Eg; try discriminate.
    pose proof (pcnt_upd is_holding t PHolding (pcs s) Et) as Eh. pose proof (pcnt_upd is_parked t PHolding (pcs s) Et) as Epk.
    pose proof (pcnt_upd is_holding t PParked (pcs s) Et) as Eh2. pose proof (pcnt_upd is_parked t PParked (pcs s) Et) as Epk2.
    unfold pcnt in *. rewrite Eg in *. cbn [pb2n is_holding is_parked] in Eh, Epk, Eh2, Epk2.
    destruct (token s) eqn:Etk; inversion H; subst; cbn.
    + split; [intros _; right; right; lia|discriminate].
    + split; [|congruence]. intros Hl. destruct (H1 Hl) as [Q|[Q|Q]]; [discriminate|auto|right; right; lia].
  - (* PTryRecv *)
    destruct (Nat.ltb t (length (pcs s))) eqn:Et; [|discriminate]. apply Nat.ltb_lt in Et.
    destruct (pgetc t (pcs s)) eqn:Eg; try discriminate.
    pose proof (pcnt_upd is_holding t PHolding (pcs s) Et) as Eh. pose proof (pcnt_upd is_parked t PHolding (pcs s) Et) as Epk.
    unfold pcnt in *. rewrite Eg in *. cbn [pb2n is_holding is_parked] in Eh, Epk.
    destruct (token s) eqn:Etk; inversion H; subst; cbn.
    + split; [intros _; right; right; lia|discriminate].
    + split; [|congruence]. rewrite Etk. exact H1.
  - (* PPopHeld *)
    destruct (pgetc t (pcs s)) eqn:Eg; try discriminate.
    assert (Ht : t < length (pcs s)) by (apply pgetc_lt; congruence).
    destruct (pop_locked s) as [s1 r] eqn:Ep. inversion H; subst. cbn.
    destruct (pop_locked_spec s s1 r Ep) as (Ec & Etk & _ & _ & _ & Hcase).
    pose proof (pcnt_upd is_holding t (PDone r) (pcs s) Ht) as Eh. pose proof (pcnt_upd is_parked t (PDone r) (pcs s) Ht) as Epk.
    unfold pcnt in *. rewrite Eg in Eh, Epk. cbn [pb2n is_holding is_parked] in Eh, Epk. rewrite Etk. split; [|intros Q; specialize (H2 Q); lia].
    destruct Hcase as [(He & -> & _)|(b & _ & _ & [(He & _)|(He & Hp)])].
    + rewrite He. cbn. lia.
    + rewrite He. cbn. lia.
    + intros _. right. left. lia.
  - (* PPopDirect *)
    destruct (pop_locked s) as [s1 r] eqn:Ep. inversion H; subst.
    destruct (pop_locked_spec s s1 r Ep) as (Ec & Etk & _ & _ & _ & Hcase).
    assert (G : (0 < length (ents s1) -> token s1 = true \/ 0 < pend s1 \/ 0 < pcnt is_holding (pcs s1)) /\
                (token s1 = true -> pcnt is_parked (pcs s1) = 0)).
    { rewrite Ec, Etk. split; [|exact H2].
      destruct Hcase as [(He & -> & _)|(b & _ & _ & [(He & _)|(He & Hp)])]; [exact H1|rewrite He; cbn; lia|intros _; right; left; lia]. }
    destruct r; cbn; exact G.
Qed.

Lemma pcnt_repeat_idle p n : p PIdle = false -> pcnt p (repeat PIdle n) = 0.
Proof. intros H. unfold pcnt. induction n; cbn; auto. now rewrite H. Qed.

Lemma pinit_inv cap n : PInv (pinit cap n).
Proof. unfold PInv, pinit, nparked. cbn. split; [lia|discriminate]. Qed.

Theorem prun_inv : forall ls s s', PInv s -> prun s ls = Some s' -> PInv s'.
Proof.
  induction ls as [|l ls IH]; intros s s' HI H; cbn in H; [inversion H; subst; exact HI|].
  destruct (pstep s l) as [[s1 o]|] eqn:E; [|discriminate]. eapply IH; [eapply pstep_inv; eauto|exact H].
Qed.

Theorem pri_token_invariant cap n ls s : prun (pinit cap n) ls = Some s ->
  (0 < length (ents s) -> token s = true \/ 0 < pend s \/ 0 < nholding s) /\ (token s = true -> nparked s = 0).
Proof. intros H. exact (prun_inv ls _ _ (pinit_inv cap n) H). Qed.

(* the property's PriQueue clause, for every label sequence: at every moment when the queue is non-empty, no Push or
   Pop call is in progress (nothing pending) and no consumer holds a signal it has not yet followed by a Pop, the wait
   channel is readable - and nobody is sleeping on it *)
Theorem pri_no_lost_wakeup cap n ls s :
  prun (pinit cap n) ls = Some s -> 0 < length (ents s) -> pend s = 0 -> nholding s = 0 ->
  token s = true /\ nparked s = 0.
Proof.
  intros H Hl Hp Hh. destruct (prun_inv ls _ _ (pinit_inv cap n) H) as [H1 H2].
  destruct (H1 Hl) as [Q|[Q|Q]]; [|lia|lia]. split; auto.
Qed.

(* progress: while items remain, the protocol's own next step is enabled - a pending signal can be delivered, a consumer
   holding the token can pop, or the token is there for the next consumer to take at once *)
Theorem pri_progress cap n ls s : prun (pinit cap n) ls = Some s -> 0 < length (ents s) ->
  (exists w s' o, pstep s (PSignal w) = Some (s', o)) \/
  (exists t s' o, pstep s (PPopHeld t) = Some (s', o)) \/
  token s = true.
Proof.
  intros H Hl. destruct (prun_inv ls _ _ (pinit_inv cap n) H) as [H1 H2]. destruct (H1 Hl) as [Q|[Q|Q]]; auto.
  - left. cbn [pstep]. destruct (pend s) as [|p]; [lia|].
    destruct (existsb is_parked (pcs s)) eqn:Ee.
    + assert (P : 0 < pcnt is_parked (pcs s)).
      { destruct (pcnt is_parked (pcs s)) eqn:Ec; [|lia]. apply pexistsb_cnt in Ec. congruence. }
      destruct (pcnt_pos_ex _ _ P) as [t Ht]. exists (Some t). destruct (pgetc t (pcs s)); try discriminate. eauto.
    + exists None. eauto.
  - right. left. destruct (pcnt_pos_ex _ _ Q) as [t Ht]. exists t. cbn [pstep].
    destruct (pgetc t (pcs s)); try discriminate. destruct (pop_locked s). eauto.
Qed.

(* each Pop of a token holder on a non-empty queue removes exactly one item: the number of items is the measure *)
Theorem pop_held_decreases s t s' o : pstep s (PPopHeld t) = Some (s', o) -> 0 < length (ents s) ->
  S (length (ents s')) = length (ents s) /\ exists v, pgetc t (pcs s') = PDone (Some v).
Proof.
  cbn [pstep]. destruct (pgetc t (pcs s)) eqn:Eg; try discriminate.
  assert (Ht : t < length (pcs s)) by (apply pgetc_lt; congruence).
  destruct (pop_locked s) as [s1 r] eqn:Ep. intros H Hl. inversion H; subst. cbn [pcs ents with_pcs].
  destruct (pop_locked_spec s s1 r Ep) as (Ec & _ & _ & _ & _ & Hcase).
  destruct Hcase as [(He & _)|(b & -> & Hperm & _)]; [rewrite He in Hl; cbn in Hl; lia|].
  split; [apply Permutation_length in Hperm; cbn in Hperm; lia|].
  exists (e_val b). now rewrite pgetc_upd_same.
Qed.

(* ---------------- 2. conservation ---------------- *)
Definition pritem (c : pcst) : list Z := match c with PDone (Some x) => [x] | _ => [] end.
Definition pritems (l : list pcst) : list Z := flat_map pritem l.

Lemma pritems_upd t v l : t < length l -> Permutation (pritems (pupd t v l) ++ pritem (pgetc t l)) (pritem v ++ pritems l).
Proof.
  unfold pritems, pgetc. revert t; induction l as [|a l IH]; intros [|t] H; cbn in *; try lia.
  - rewrite <- app_assoc. apply Permutation_app_head. apply Permutation_app_comm.
  - specialize (IH t ltac:(lia)). rewrite <- app_assoc.
    eapply perm_trans; [apply Permutation_app_head; exact IH|].
    rewrite !app_assoc. apply Permutation_app_tail. apply Permutation_app_comm.
Qed.

Lemma pritems_upd_fresh t v l : t < length l -> pritem (pgetc t l) = [] -> Permutation (pritems (pupd t v l)) (pritem v ++ pritems l).
Proof. intros Ht Hn. pose proof (pritems_upd t v l Ht) as P. rewrite Hn, app_nil_r in P. exact P. Qed.

Lemma pres_items_dones i l : pres_items (pdones_from i l) = pritems l.
Proof.
  unfold pres_items, pritems. revert i; induction l as [|a l IH]; intros i; cbn; auto.
  destruct a as [| | |r]; cbn; rewrite ?IH; auto.
Qed.

Definition vals (l : list ent) : list Z := map e_val l.
Definition PCons (s : pst) : Prop := Permutation (pritems (pcs s) ++ ptaken s ++ vals (ents s)) (padded s).

Ltac pperm_hyp z H := let P := fresh "P" in
  pose proof (proj1 (Permutation_count_occ Z.eq_dec _ _) H z) as P; cbn [pritem app vals map e_val] in P;
  repeat first [rewrite count_occ_app in P | progress cbn [count_occ] in P].
Ltac pperm_goal z := apply (Permutation_count_occ Z.eq_dec); intros z; cbn [pritem app vals map e_val];
  repeat first [rewrite count_occ_app | progress cbn [count_occ]].
Ltac pperm_fin := repeat match goal with
                        | H : context [Z.eq_dec ?a ?b] |- _ => destruct (Z.eq_dec a b)
                        | |- context [Z.eq_dec ?a ?b] => destruct (Z.eq_dec a b)
                        end; lia.

Lemma vals_app a b : vals (a ++ b) = vals a ++ vals b.
Proof. apply map_app. Qed.

Theorem pstep_cons s l s' o : PCons s -> pstep s l = Some (s', o) -> PCons s'.
Proof.
  intros HC H. unfold PCons in *. destruct l; cbn [pstep] in H.
  - destruct (Z.leb (pcap s) (Z.of_nat (length (ents s)))); inversion H; subst; [exact HC|]. cbn [pcs ptaken ents padded].
    rewrite vals_app. pperm_goal z. pperm_hyp z HC. pperm_fin.
  - destruct (pend s) as [|p]; [discriminate|]. destruct w as [t|].
    + destruct (pgetc t (pcs s)) eqn:Eg; try discriminate. inversion H; subst. cbn [pcs with_pcs with_token ptaken ents padded].
      assert (Ht : t < length (pcs s)) by (apply pgetc_lt; congruence).
      pose proof (pritems_upd_fresh t PHolding (pcs s) Ht) as Q. rewrite Eg in Q. specialize (Q eq_refl).
      pperm_goal z. pperm_hyp z HC. pperm_hyp z Q. pperm_fin.
    + destruct (existsb is_parked (pcs s)); [discriminate|]. inversion H; subst. exact HC.
  - destruct (Nat.ltb t (length (pcs s))) eqn:Et; [|discriminate]. apply Nat.ltb_lt in Et.
    destruct (pgetc t (pcs s)) eqn:Eg; try discriminate.
    pose proof (pritems_upd_fresh t PHolding (pcs s) Et) as Q1. pose proof (pritems_upd_fresh t PParked (pcs s) Et) as Q2.
    rewrite Eg in Q1, Q2. specialize (Q1 eq_refl). specialize (Q2 eq_refl).
    destruct (token s); inversion H; subst; cbn [pcs with_pcs with_token ptaken ents padded].
    + pperm_goal z. pperm_hyp z HC. pperm_hyp z Q1. pperm_fin.
    + pperm_goal z. pperm_hyp z HC. pperm_hyp z Q2. pperm_fin.
  - destruct (Nat.ltb t (length (pcs s))) eqn:Et; [|discriminate]. apply Nat.ltb_lt in Et.
    destruct (pgetc t (pcs s)) eqn:Eg; try discriminate.
    pose proof (pritems_upd_fresh t PHolding (pcs s) Et) as Q1. rewrite Eg in Q1. specialize (Q1 eq_refl).
    destruct (token s); inversion H; subst; cbn [pcs with_pcs with_token ptaken ents padded]; [|exact HC].
    pperm_goal z. pperm_hyp z HC. pperm_hyp z Q1. pperm_fin.
  - destruct (pgetc t (pcs s)) eqn:Eg; try discriminate.
    assert (Ht : t < length (pcs s)) by (apply pgetc_lt; congruence).
    destruct (pop_locked s) as [s1 r] eqn:Ep. inversion H; subst. cbn [pcs with_pcs ptaken ents padded].
    destruct (pop_locked_spec s s1 r Ep) as (Ec & _ & _ & Ea & Etk & Hcase).
    pose proof (pritems_upd_fresh t (PDone r) (pcs s) Ht) as Q. rewrite Eg in Q. specialize (Q eq_refl).
    rewrite Ea, Etk.
    destruct Hcase as [(He & -> & ->)|(b & -> & Hperm & _)].
    + pperm_goal z. pperm_hyp z HC. pperm_hyp z Q. pperm_fin.
    + assert (Hv : Permutation (vals (ents s)) (e_val b :: vals (ents s1))) by (apply (Permutation_map e_val) in Hperm; exact Hperm).
      pperm_goal z. pperm_hyp z HC. pperm_hyp z Q. pperm_hyp z Hv. pperm_fin.
  - destruct (pop_locked s) as [s1 r] eqn:Ep. inversion H; subst.
    destruct (pop_locked_spec s s1 r Ep) as (Ec & _ & _ & Ea & Etk & Hcase).
    destruct Hcase as [(He & -> & ->)|(b & -> & Hperm & _)]; cbn [note_ptaken pcs ptaken ents padded]; [exact HC|].
    assert (Hv : Permutation (vals (ents s)) (e_val b :: vals (ents s1))) by (apply (Permutation_map e_val) in Hperm; exact Hperm).
    rewrite Ec, Ea, Etk. pperm_goal z. pperm_hyp z HC. pperm_hyp z Hv. pperm_fin.
Qed.

Lemma pritems_repeat_idle n : pritems (repeat PIdle n) = [].
Proof. induction n; cbn; auto. Qed.

Lemma pinit_cons cap n : PCons (pinit cap n).
Proof. unfold PCons, pinit. cbn. rewrite pritems_repeat_idle. constructor. Qed.

Theorem prun_cons : forall ls s s', PCons s -> prun s ls = Some s' -> PCons s'.
Proof.
  induction ls as [|l ls IH]; intros s s' HI H; cbn in H; [inversion H; subst; exact HI|].
  destruct (pstep s l) as [[s1 o]|] eqn:E; [|discriminate]. eapply IH; [eapply pstep_cons; eauto|exact H].
Qed.

(* k items reach k consumers as k distinct items: what consumers and direct callers popped and what is still queued
   is exactly what was pushed *)
Theorem pri_conservation cap n ls s : prun (pinit cap n) ls = Some s ->
  Permutation (pritems (pcs s) ++ ptaken s ++ vals (ents s)) (padded s).
Proof. intros H. exact (prun_cons ls _ _ (pinit_cons cap n) H). Qed.

(* ---------------- 3. soundness of the correspondence check ---------------- *)
Lemma pzmem_in x l : pzmem x l = true <-> In x l.
Proof.
  induction l as [|y l IH]; cbn; [split; [discriminate|tauto]|].
  rewrite orb_true_iff, IH, Z.eqb_eq. split; intros [H|H]; auto.
Qed.

Lemma pznodup_iff l : pznodup l = true <-> NoDup l.
Proof.
  induction l as [|x l IH]; cbn; [split; [constructor|auto]|].
  rewrite andb_true_iff, negb_true_iff, IH. split.
  - intros [H1 H2]. constructor; auto. intros Hin. apply pzmem_in in Hin. congruence.
  - intros H. inversion H; subst. split; auto. destruct (pzmem x l) eqn:E; auto. apply pzmem_in in E. contradiction.
Qed.

Lemma pzincl_iff a b : pzincl a b = true <-> incl a b.
Proof.
  unfold pzincl, incl. rewrite forallb_forall. split; intros H x Hx; [apply pzmem_in|apply pzmem_in]; auto.
Qed.

Lemma oz_eqb_eq a b : oz_eqb a b = true -> a = b.
Proof. destruct a, b; cbn; try discriminate; auto. intros H. apply Z.eqb_eq in H. now subst. Qed.

Lemma prets_eqb_eq x y : prets_eqb x y = true -> x = y.
Proof.
  revert y; induction x as [|[a r] x IH]; destruct y as [|[b q] y]; cbn; try discriminate; auto.
  intros H. apply andb_prop in H as [H H3]. apply andb_prop in H as [H1 H2].
  apply Nat.eqb_eq in H1. apply oz_eqb_eq in H2. subst. f_equal. auto.
Qed.

Lemma pnats_eqb_eq x y : pnats_eqb x y = true -> x = y.
Proof.
  revert y; induction x as [|a x IH]; destruct y as [|b y]; cbn; try discriminate; auto.
  intros H. apply andb_prop in H as [H1 H2]. apply Nat.eqb_eq in H1. subst. f_equal. auto.
Qed.

Lemma pout_eqb_eq a b : pout_eqb a b = true -> a = b.
Proof.
  destruct a, b; cbn; try discriminate; auto; intros H.
  - apply Bool.eqb_prop in H. now subst.
  - apply Bool.eqb_prop in H. now subst.
  - apply oz_eqb_eq in H. now subst.
Qed.

Record PRel (s : pst) (m : pmon) : Prop := {
  pr_inv : PInv s;
  pr_cons : PCons s;
  pr_added : pm_added m = padded s;
  pr_taken : pm_taken m = ptaken s }.

Lemma prel_init cap n : PRel (pinit cap n) pmon0.
Proof. constructor; auto using pinit_inv, pinit_cons. Qed.

Definition plab_item (l : plabel) : list Z := match l with PPushLocked _ v => [v] | _ => [] end.
Lemma plab_items_cons l o r : plab_items (PELab l o :: r) = plab_item l ++ plab_items r.
Proof. destruct l; reflexivity. Qed.

(* how one step moves the ghost history *)
Lemma pstep_ghost s l s' o : pstep s l = Some (s', o) ->
  match l, o with
  | PPushLocked _ v, POPush true => padded s' = padded s ++ [v] /\ ptaken s' = ptaken s
  | PPopDirect, POPop (Some v) => padded s' = padded s /\ ptaken s' = ptaken s ++ [v]
  | _, _ => padded s' = padded s /\ ptaken s' = ptaken s
  end.
Proof.
  intros H. destruct l; cbn [pstep] in H.
  - destruct (Z.leb (pcap s) (Z.of_nat (length (ents s)))); inversion H; subst; cbn; auto.
  - destruct (pend s); [discriminate|]. destruct w as [t|].
    + destruct (pgetc t (pcs s)); try discriminate. inversion H; subst. cbn. auto.
    + destruct (existsb is_parked (pcs s)); [discriminate|]. inversion H; subst. cbn. auto.
  - destruct (Nat.ltb t (length (pcs s))); [|discriminate]. destruct (pgetc t (pcs s)); try discriminate.
    destruct (token s); inversion H; subst; cbn; auto.
  - destruct (Nat.ltb t (length (pcs s))); [|discriminate]. destruct (pgetc t (pcs s)); try discriminate.
    destruct (token s); inversion H; subst; cbn; auto.
  - destruct (pgetc t (pcs s)); try discriminate. destruct (pop_locked s) as [s1 r] eqn:Ep. inversion H; subst.
    destruct (pop_locked_spec s s1 r Ep) as (_ & _ & _ & Ea & Etk & _). cbn. auto.
  - destruct (pop_locked s) as [s1 r] eqn:Ep. inversion H; subst.
    destruct (pop_locked_spec s s1 r Ep) as (_ & _ & _ & Ea & Etk & _).
    destruct r; cbn; rewrite ?Ea, ?Etk; auto.
Qed.

Lemma prel_step s m l s' o : PRel s m -> pstep s l = Some (s', o) -> PRel s' (pmon_lab m l o).
Proof.
  intros [HI HC Ha Ht] H.
  pose proof (pstep_ghost s l s' o H) as G.
  constructor; [eapply pstep_inv; eauto|eapply pstep_cons; eauto| |].
  - destruct l; try (destruct G as [G1 G2]; cbn [pmon_lab]; destruct o; congruence).
    + destruct o as [|[|]| |]; cbn [pmon_lab pm_added] in *; destruct G as [G1 G2]; congruence.
    + destruct o as [| | |[v|]]; cbn [pmon_lab pm_added] in *; destruct G as [G1 G2]; congruence.
  - destruct l; try (destruct G as [G1 G2]; cbn [pmon_lab]; destruct o; congruence).
    + destruct o as [|[|]| |]; cbn [pmon_lab pm_taken] in *; destruct G as [G1 G2]; congruence.
    + destruct o as [| | |[v|]]; cbn [pmon_lab pm_taken] in *; destruct G as [G1 G2]; congruence.
Qed.

Lemma pnodup_app_l (a b : list Z) : NoDup (a ++ b) -> NoDup a.
Proof.
  induction a as [|x a IH]; cbn; intros H; [constructor|]. inversion H; subst. constructor; auto.
  intros Hin. apply H2. apply in_or_app. now left.
Qed.

Lemma prel_obs s m ob : PRel s m -> NoDup (padded s) -> pobs_ok s ob = true -> pmon_obs m ob = true.
Proof.
  intros [[H1 H2] HC Ha Ht] Hnd H. unfold pobs_ok in H.
  repeat (apply andb_prop in H as [H ?]).
  match goal with Q : prets_eqb _ _ = true |- _ => apply prets_eqb_eq in Q; rename Q into Eret end.
  match goal with Q : pnats_eqb (pparked_of s) _ = true |- _ => apply pnats_eqb_eq in Q; rename Q into Epark end.
  match goal with Q : pnats_eqb (pholding_of s) _ = true |- _ => apply pnats_eqb_eq in Q; rename Q into Ehold end.
  match goal with Q : Bool.eqb _ _ = true |- _ => apply Bool.eqb_prop in Q; rename Q into Etok end.
  match goal with Q : Nat.eqb (length _) _ = true |- _ => apply Nat.eqb_eq in Q; rename Q into Elen end.
  apply Nat.eqb_eq in H. rename H into Epend.
  unfold pmon_obs. rewrite <- Eret, <- Epark, <- Ehold, <- Etok, <- Elen, Ht, Ha. unfold pdones_of. rewrite pres_items_dones.
  unfold PCons in HC.
  assert (Hperm : Permutation ((pritems (pcs s) ++ ptaken s) ++ vals (ents s)) (padded s)) by (rewrite <- app_assoc; exact HC).
  assert (Hnd2 : NoDup (pritems (pcs s) ++ ptaken s)).
  { apply (pnodup_app_l _ (vals (ents s))). eapply Permutation_NoDup; [apply Permutation_sym; exact Hperm|exact Hnd]. }
  repeat (apply andb_true_intro; split); auto.
  - apply pznodup_iff. exact Hnd2.
  - apply pzincl_iff. intros x Hx. eapply Permutation_in; [exact Hperm|]. apply in_or_app. left. exact Hx.
  - apply Nat.eqb_eq. rewrite <- (Permutation_length Hperm). rewrite !app_length. unfold vals. rewrite map_length. lia.
  - destruct (length (ents s)) as [|k] eqn:El; [reflexivity|]. cbn [Nat.eqb orb].
    destruct (pholding_of s) eqn:Eh; [|reflexivity]. cbn [pis_nil negb orb].
    unfold pholding_of in Eh. apply ptids_from_nil in Eh.
    destruct (H1 ltac:(lia)) as [Q|[Q|Q]]; [|lia|unfold nholding in Q; lia].
    rewrite Q. cbn [andb]. unfold pparked_of. rewrite ptids_from_cnt0; [reflexivity|]. apply (H2 Q).
Qed.

Theorem preplay_monitor : forall tr s m, PRel s m -> NoDup (padded s ++ plab_items tr) ->
  preplay s tr = true -> pmonitor m tr = true.
Proof.
  induction tr as [|e tr IH]; intros s m HR Hnd H; [reflexivity|].
  destruct e as [l o|ob|tok]; cbn [preplay pmonitor] in *.
  - destruct (pstep s l) as [[s' o']|] eqn:E; [|discriminate]. apply andb_prop in H as [Ho H].
    apply pout_eqb_eq in Ho. subst o'. apply (IH s'); auto; [eapply prel_step; eauto|].
    rewrite plab_items_cons in Hnd. pose proof (pstep_ghost s l s' o E) as G.
    destruct l; cbn [plab_item app] in Hnd; try (destruct o; destruct G as [G1 _]; rewrite G1; exact Hnd).
    + destruct o as [|[|]| |]; destruct G as [G1 _]; rewrite G1; try (eapply NoDup_remove_1; exact Hnd).
      rewrite <- app_assoc. exact Hnd.
    + destruct o as [| | |[x|]]; destruct G as [G1 _]; rewrite G1; exact Hnd.
  - apply andb_prop in H as [Ho H]. apply andb_true_intro. split.
    + eapply prel_obs; eauto. eapply pnodup_app_l; eauto.
    + eapply IH; eauto.
  - apply andb_prop in H as [_ H]. eapply IH; eauto.
Qed.

Theorem pri_accept_sound cap n tr : pri_accept cap n tr = true -> pri_holds tr = true.
Proof.
  unfold pri_accept, pri_holds. intros H. apply andb_prop in H as [H1 H2]. apply pznodup_iff in H1.
  eapply preplay_monitor; [apply prel_init| |exact H2]. exact H1.
Qed.
