(* C03: the specification side.  The abstract value of a tree is a list of items strictly increasing by key
   (a sorted map key -> most recently stored item); every operation of the inner tree and of the wrapper is given
   its meaning on that list.  Also: the structural predicates (ordered / balanced / length) in executable form,
   as they are evaluated on the implementation's actual nodes. *)
From Coq Require Import ZArith List Bool Lia.
Require Export C03_Model.
Import ListNotations.
Open Scope Z_scope.

(* ---------------- the sorted map ---------------- *)
Definition s_lookup (k : Z) (L : list item) : option item := find (fun y => key y =? k) L.
Definition s_ins (it : item) (L : list item) : list item :=
  filter (fun y => key y <? key it) L ++ it :: filter (fun y => key it <? key y) L.
Definition s_del (k : Z) (L : list item) : list item := filter (fun y => negb (key y =? k)) L.

(* which items a scan entry point selects, and in which order it delivers them *)
Definition entry_desc (e : entry) : bool :=
  match e with EDescend | EDescendRange | EDescendLessOrEqual | EDescendGreaterThan | EDescendLess => true | _ => false end.
Definition entry_sel (e : entry) (p q : Z) (x : item) : bool :=
  let k := key x in
  match e with
  | EAscend | EDescend => true
  | EAscendRange => (p <=? k) && (k <? q)
  | EAscendLessThan => k <? p
  | EAscendGreaterOrEqual => p <=? k
  | EAscendGreater => p <? k
  | EDescendRange => (q <? k) && (k <=? p)
  | EDescendLessOrEqual => k <=? p
  | EDescendGreaterThan => p <? k
  | EDescendLess => k <? p
  end.
(* everything the entry point would deliver to a callback that never stops *)
Definition s_scan (e : entry) (p q : Z) (L : list item) : list item :=
  filter (entry_sel e p q) (if entry_desc e then rev L else L).
(* a callback that stops after m items (m <= 0: never) *)
Definition s_collect (m : Z) (l : list item) : list item := if m <=? 0 then l else firstn (Z.to_nat m) l.
(* the wrapper's bounded, filtered scans: the first n matching items; None = panic (negative n) *)
Definition s_walk (w : wscan) (k : Z) (f : filt) (n : Z) (L : list item) : option (list item) :=
  if n =? 0 then Some [] else if n <? 0 then None else
  Some (firstn (Z.to_nat n) (filter (filt_fn f) (s_scan (wentry w) k 0 L))).

(* ---------------- structure of a concrete tree ---------------- *)
Fixpoint sortedb (l : list item) : bool :=
  match l with
  | x :: ((y :: _) as r) => (key x <? key y) && sortedb r
  | _ => true
  end.
Fixpoint iheight (f : nat) (n : inode) : nat :=
  match f with O => O | S f' => match ichildren n with [] => O | c :: _ => S (iheight f' c) end end.
(* every node within its bounds (the root is exempt from the lower bound), children = items + 1 or none,
   all leaves at depth h *)
Fixpoint balb (minI maxI : nat) (h : nat) (isroot : bool) (n : inode) : bool :=
  (isroot || Nat.leb minI (length (iitems n))) && Nat.leb (length (iitems n)) maxI &&
  match h with
  | O => is_nil (ichildren n)
  | S h' => Nat.eqb (length (ichildren n)) (S (length (iitems n))) && forallb (balb minI maxI h' false) (ichildren n)
  end.
Definition balanced (deg : nat) (n : inode) : bool := balb (deg - 1) (2 * deg - 1) (iheight IFUEL n) true n.

Definition item_eqb (a b : item) : bool := (fst a =? fst b) && (snd a =? snd b).
Fixpoint ilist_eqb (x y : list item) : bool :=
  match x, y with [], [] => true | a :: x', b :: y' => item_eqb a b && ilist_eqb x' y' | _, _ => false end.
Definition oitem_eqb (a b : option item) : bool :=
  match a, b with None, None => true | Some x, Some y => item_eqb x y | _, _ => false end.

Lemma item_eqb_eq a b : item_eqb a b = true -> a = b.
Proof. destruct a, b. unfold item_eqb. cbn. intros H. apply andb_prop in H as [H1 H2]. apply Z.eqb_eq in H1, H2. now subst. Qed.
Lemma item_eqb_refl a : item_eqb a a = true.
Proof. destruct a. unfold item_eqb. cbn. now rewrite !Z.eqb_refl. Qed.
Lemma ilist_eqb_eq x : forall y, ilist_eqb x y = true -> x = y.
Proof.
  induction x as [|a x IH]; destruct y as [|b y]; cbn; try discriminate; auto.
  intros H. apply andb_prop in H as [H1 H2]. apply item_eqb_eq in H1. f_equal; auto.
Qed.
Lemma ilist_eqb_refl x : ilist_eqb x x = true.
Proof. induction x as [|a x IH]; cbn; auto. now rewrite item_eqb_refl, IH. Qed.
