(* C18 gormx.Transact: the property, clause by clause, for every step list and every fault vector.
   This file contains statements closed by `exact` only. *)
From Coq Require Import List Bool ZArith.
Require Import C18 C18_Check.
Import ListNotations.

(* the model satisfies the monitor on every configuration *)
Theorem c18_model_holds : forall c, holds c (transact c) = true.
Proof. exact model_holds. Qed.

(* whatever the driver accepts satisfies the monitor *)
Theorem c18_accept_sound : forall c, case_accept c = true -> case_holds c = true.
Proof. exact case_sound. Qed.

(* a begun transaction is finished exactly once *)
Theorem c18_transact_finished_once : forall c, steps c <> [] -> begin_ok c = true ->
  count is_commit (fst (transact c)) + count is_rollback (fst (transact c)) = 1.
Proof. exact transact_finished_once. Qed.

(* committed iff every step returned nil without panicking *)
Theorem c18_commit_iff_all_ok : forall c, steps c <> [] -> begin_ok c = true ->
  (count is_commit (fst (transact c)) = 1 <-> all_ok (steps c) = true).
Proof. exact commit_iff_all_ok. Qed.

(* with no steps nothing is begun *)
Theorem c18_empty_begins_nothing : forall c, steps c = [] -> transact c = ([], RNil).
Proof. exact empty_begins_nothing. Qed.

(* a failure to begin runs no step *)
Theorem c18_begin_failure_runs_nothing : forall c, steps c <> [] -> begin_ok c = false ->
  transact c = ([EBeginFail], RBeginErr).
Proof. exact begin_failure_runs_nothing. Qed.

Print Assumptions c18_model_holds.
Print Assumptions c18_accept_sound.
Print Assumptions c18_transact_finished_once.
Print Assumptions c18_commit_iff_all_ok.
Print Assumptions c18_empty_begins_nothing.
Print Assumptions c18_begin_failure_runs_nothing.
