(* C18 gormx.Transact: the property, clause by clause, for every step list and every fault vector.
   This file contains statements closed by `exact` only. *)
From Coq Require Import List Bool ZArith.
Require Import C18 C18_More C18_Check.
Import ListNotations.

(* the model satisfies the monitor on every configuration *)
Theorem c18_model_holds : forall c, holds c (transact c) = true.
Proof. exact model_holds. Qed.

(* whatever the driver accepts satisfies the monitor *)
Theorem c18_accept_sound : forall c, case_accept c = true -> case_holds c = true.
Proof. exact case_sound. Qed.

(* a begun transaction is finished exactly once *)
Theorem c18_transact_finished_once : forall c, steps c <> [] -> begin_ok c = true ->
  count is_commit (fst (transact c)) + count is_rollback (fst (transact c)) = 1.
Proof. exact transact_finished_once. Qed.

(* committed iff every step returned nil without panicking *)
Theorem c18_commit_iff_all_ok : forall c, steps c <> [] -> begin_ok c = true ->
  (count is_commit (fst (transact c)) = 1 <-> all_ok (steps c) = true).
Proof. exact commit_iff_all_ok. Qed.

(* no later step runs after the first failing or panicking one *)
Theorem c18_no_step_after_failure : forall c i s, begin_ok c = true -> first_bad 0 (steps c) = Some (i, s) ->
  count is_exec (fst (transact c)) = S i.
Proof. exact no_step_after_failure_lem. Qed.

Theorem c18_all_steps_run_when_ok : forall c, begin_ok c = true -> steps c <> [] -> first_bad 0 (steps c) = None ->
  count is_exec (fst (transact c)) = length (steps c).
Proof. exact all_steps_run_when_ok_lem. Qed.

(* the caller's result: nil / first failing step's error / panic error / begin error / commit error *)
Theorem c18_result_spec : forall c, snd (transact c) = expected_result c.
Proof. exact result_spec_lem. Qed.

(* the caller gets nil only if everything, the commit included, succeeded *)
Theorem c18_nil_only_if_committed : forall c, steps c <> [] -> snd (transact c) = RNil ->
  begin_ok c = true /\ all_ok (steps c) = true /\ commit_ok c = true.
Proof. exact nil_only_if_committed_lem. Qed.

(* with no steps nothing is begun *)
Theorem c18_empty_begins_nothing : forall c, steps c = [] -> transact c = ([], RNil).
Proof. exact empty_begins_nothing. Qed.

(* a failure to begin runs no step *)
Theorem c18_begin_failure_runs_nothing : forall c, steps c <> [] -> begin_ok c = false ->
  transact c = ([EBeginFail], RBeginErr).
Proof. exact begin_failure_runs_nothing. Qed.

(* Combine: one combined step behaves as the steps given directly *)
Theorem c18_combine_spec : forall c, steps c <> [] -> transact_comb c = transact c.
Proof. exact combine_spec_lem. Qed.

Theorem c18_combine_empty : forall c, steps c = [] -> begin_ok c = true ->
  transact_comb c = ([EBegin; ECommit], if commit_ok c then RNil else RCommitErr).
Proof. exact combine_empty_lem. Qed.

(* a step that finished the transaction itself (and returned nil): nothing is committed and the caller gets an error *)
Theorem c18_finished_tx_is_reported : forall c, begin_ok c = true -> (exists i, first_bad 0 (steps c) = Some (i, SDoneRb)) ->
  snd (transact c) = RTxDone /\ count is_commit (fst (transact c)) = 0.
Proof. exact finished_tx_is_reported_lem. Qed.

(* a handle that already carries an error: nothing is begun, no step runs, the caller gets an error *)
Theorem c18_stale_handle_begins_nothing : forall c, steps c <> [] -> transact_stale c = ([], RBeginErr).
Proof. exact stale_begins_nothing. Qed.

Theorem c18_stale_handle_holds : forall c, holds_stale c (transact_stale c) = true.
Proof. exact stale_model_holds. Qed.

(* the behaviour before /repo commit 9f4b88c (Begin reached the driver, nothing finished the transaction) is refuted *)
Theorem c18_stale_prefix_refuted : forall c, steps c <> [] -> begin_ok c = true ->
  holds_stale c (transact_stale_prefix c) = false.
Proof. exact stale_prefix_violates. Qed.

Print Assumptions c18_model_holds.
Print Assumptions c18_accept_sound.
Print Assumptions c18_transact_finished_once.
Print Assumptions c18_commit_iff_all_ok.
Print Assumptions c18_no_step_after_failure.
Print Assumptions c18_all_steps_run_when_ok.
Print Assumptions c18_result_spec.
Print Assumptions c18_nil_only_if_committed.
Print Assumptions c18_empty_begins_nothing.
Print Assumptions c18_begin_failure_runs_nothing.
Print Assumptions c18_combine_spec.
Print Assumptions c18_combine_empty.
Print Assumptions c18_finished_tx_is_reported.
Print Assumptions c18_stale_handle_begins_nothing.
Print Assumptions c18_stale_handle_holds.
Print Assumptions c18_stale_prefix_refuted.
