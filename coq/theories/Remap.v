(* C17 core: sort.Search finds the first true of a monotone predicate; the hash partition is total and in range *)
From Coq Require Import ZArith Lia Bool.
Open Scope Z_scope.

(* i, j := 0, n; for i < j { h := (i+j)/2; if !f(h) { i = h+1 } else { j = h } }; return i *)
Fixpoint search (fuel : nat) (f : Z -> bool) (i j : Z) : Z :=
  match fuel with
  | O => i
  | S k => if i <? j then let h := (i + j) / 2 in if f h then search k f i h else search k f (h + 1) j else i
  end.

Definition monotone (f : Z -> bool) := forall a b, a <= b -> f a = true -> f b = true.

Lemma search_spec : forall fuel f i j,
  monotone f -> 0 <= i <= j -> j - i < 2 ^ Z.of_nat fuel ->
  (forall a, 0 <= a < i -> f a = false) -> (forall a, j <= a -> f a = true) ->
  let r := search fuel f i j in
  i <= r <= j /\ (forall a, 0 <= a < r -> f a = false) /\ (forall a, r <= a -> f a = true).
Proof.
  induction fuel as [|k IH]; intros f i j Hm Hij Hf Hlo Hhi; cbn [search].
  - cbn in Hf. assert (i = j) by lia. subst. repeat split; auto; lia.
  - destruct (i <? j) eqn:E; [apply Z.ltb_lt in E | apply Z.ltb_ge in E].
    + set (h := (i + j) / 2).
      assert (Hh : i <= h < j) by (unfold h; split; [apply Z.div_le_lower_bound | apply Z.div_lt_upper_bound]; lia).
      rewrite Nat2Z.inj_succ, Z.pow_succ_r in Hf by lia.
      destruct (f h) eqn:Efh.
      * destruct (IH f i h Hm ltac:(lia)) as (A & B & C); auto.
        { unfold h. assert ((i + j) / 2 - i <= (j - i) / 2) by (apply Z.div_le_lower_bound; [lia|]; pose proof (Z.div_mod (i + j) 2 ltac:(lia)); pose proof (Z.mod_pos_bound (i + j) 2 ltac:(lia)); lia).
          pose proof (Z.div_lt_upper_bound (j - i) 2 (2 ^ Z.of_nat k) ltac:(lia) ltac:(lia)). lia. }
        { intros a Ha. apply (Hm h a); [lia|exact Efh]. }
        repeat split; auto; lia.
      * destruct (IH f (h + 1) j Hm ltac:(lia)) as (A & B & C); auto.
        { unfold h. pose proof (Z.div_mod (i + j) 2 ltac:(lia)). pose proof (Z.mod_pos_bound (i + j) 2 ltac:(lia)). lia. }
        { intros a Ha. destruct (f a) eqn:Efa; auto.
          destruct (Z.lt_ge_cases a i); [now rewrite Hlo in Efa by lia|].
          rewrite (Hm a h) in Efh; [discriminate | lia | exact Efa]. }
        repeat split; auto; lia.
    + assert (i = j) by lia. subst. repeat split; auto; lia.
Qed.

(* NewReMap: boundaries y*(i+1) with y = Max / n, the last one forced to Max; SearchIndex = first boundary >= x *)
Definition MaxU64 := 2 ^ 64 - 1.
Definition bound (n i : Z) : Z := if i =? n - 1 then MaxU64 else (MaxU64 / n) * (i + 1).
Definition search_index (n x : Z) : Z := search 64 (fun i => x <=? bound n i) 0 n.

Lemma bound_monotone n : 1 <= n -> forall a b, 0 <= a <= b -> b <= n - 1 -> bound n a <= bound n b.
Proof.
  intros Hn a b Hab Hb. unfold bound.
  assert (Hy : 0 <= MaxU64 / n) by (apply Z.div_pos; unfold MaxU64; lia).
  assert (Hyn : (MaxU64 / n) * n <= MaxU64) by (rewrite Z.mul_comm; apply Z.mul_div_le; lia).
  destruct (Z.eqb_spec a (n - 1)) as [Ea|Ea]; destruct (Z.eqb_spec b (n - 1)) as [Eb|Eb]; try lia.
  - assert (H1 : a + 1 <= n) by lia.
    pose proof (Z.mul_le_mono_nonneg_l (a + 1) n (MaxU64 / n) Hy H1) as H2.
    eapply Z.le_trans; [exact H2 | exact Hyn].
  - assert (H1 : a + 1 <= b + 1) by lia.
    exact (Z.mul_le_mono_nonneg_l (a + 1) (b + 1) (MaxU64 / n) Hy H1).
Qed.

Theorem search_index_range n x : 1 <= n < 2 ^ 63 -> 0 <= x <= MaxU64 -> 0 <= search_index n x <= n - 1 /\
  x <= bound n (search_index n x) /\ (forall a, 0 <= a < search_index n x -> bound n a < x).
Proof.
  intros Hn Hx. unfold search_index.
  set (f := fun i => x <=? bound n i).
  (* the last boundary is Max, so f (n-1) holds: search on [0, n-1] suffices for the range claim *)
  assert (Hlast : f (n - 1) = true) by (unfold f, bound; rewrite Z.eqb_refl; apply Z.leb_le; lia).
  (* f is monotone on [0, n-1]; extend it by true beyond to use search_spec *)
  set (g := fun i => if i <=? n - 1 then f i else true).
  assert (Hg : monotone g).
  { intros a b Hab Ha. unfold g in *. destruct (b <=? n - 1) eqn:Eb; auto. apply Z.leb_le in Eb.
    replace (a <=? n - 1) with true in Ha by (symmetry; apply Z.leb_le; lia).
    unfold f in *. apply Z.leb_le in Ha. apply Z.leb_le.
    destruct (Z.lt_ge_cases a 0).
    - (* negative indices are never produced by search; bound is still monotone enough *) 
      unfold bound in *. destruct (a =? n - 1) eqn:E1; [apply Z.eqb_eq in E1; lia|].
      destruct (b =? n - 1) eqn:E2; [lia|]. assert (0 <= MaxU64 / n) by (apply Z.div_pos; unfold MaxU64; lia). 
      destruct (Z.lt_ge_cases b 0); nia.
    - pose proof (bound_monotone n ltac:(lia) a b ltac:(lia) Eb). lia. }
  assert (Hsame : forall fuel i j, 0 <= i -> j <= n -> search fuel f i j = search fuel g i j).
  { induction fuel as [|k IHk]; intros i j Hi Hj; cbn [search]; auto.
    destruct (i <? j) eqn:E; auto. apply Z.ltb_lt in E.
    assert (Hh : i <= (i + j) / 2 < j) by (split; [apply Z.div_le_lower_bound | apply Z.div_lt_upper_bound]; lia).
    unfold g at 1. replace ((i + j) / 2 <=? n - 1) with true by (symmetry; apply Z.leb_le; lia).
    destruct (f ((i + j) / 2)); apply IHk; lia. }
  rewrite Hsame by lia.
  destruct (search_spec 64 g 0 n Hg ltac:(lia)) as (A & B & C).
  - change (Z.of_nat 64) with 64. assert (2 ^ 63 < 2 ^ 64) by (apply Z.pow_lt_mono_r; lia). lia.
  - intros a Ha. lia.
  - intros a Ha. unfold g. replace (a <=? n - 1) with false by (symmetry; apply Z.leb_gt; lia). reflexivity.
  - set (r := search 64 g 0 n) in *.
    assert (Hr : r <= n - 1).
    { destruct (Z.le_gt_cases r (n - 1)); auto. exfalso.
      assert (g (n - 1) = false) by (apply B; lia).
      unfold g in H0. replace (n - 1 <=? n - 1) with true in H0 by (symmetry; apply Z.leb_le; lia). congruence. }
    repeat split; try lia.
    + specialize (C r ltac:(lia)). unfold g in C. replace (r <=? n - 1) with true in C by (symmetry; apply Z.leb_le; lia).
      unfold f in C. now apply Z.leb_le in C.
    + intros a Ha. specialize (B a Ha). unfold g in B. replace (a <=? n - 1) with true in B by (symmetry; apply Z.leb_le; lia).
      unfold f in B. now apply Z.leb_gt in B.
Qed.
Print Assumptions search_index_range.
