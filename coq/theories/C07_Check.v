(* C07: what the driver evaluates on every observed case.
   case, case_accept (the implementation returned exactly what the model computes) and case_holds (the property's
   clauses on the observed values) are defined in C07_Mon.v; the soundness proof is C07_Proofs.accept_sound. *)
From Coq Require Import List Bool ZArith.
Require Export C07_Model C07_Mon.
Require Import C07_Proofs.
Import ListNotations.

Theorem case_sound : forall c : case, case_accept c = true -> case_holds c = true.
Proof. exact accept_sound. Qed.
