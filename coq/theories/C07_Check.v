(* C07: what the driver evaluates on every observed case (temporary: case_sound follows) *)
Require Export C07_Model C07_Mon.
