(* C06: further corollaries: schedules of UnixNanoID callers, termination of MonoNode's spin, the monotonic-clock
   premise in its usual form *)
From Coq Require Import ZArith List Lia Bool Sorted RelationClasses.
Require Import BitField Gen C06_Model C06_Hist.
Import ListNotations.
Open Scope Z_scope.

(* ---------------------------------------------------------------- UnixNanoID under any schedule *)
(* GenIDByTS is one critical section (lint): a concurrent execution is the list of (caller, supplied ts) in lock order *)
Definition nano_sched (cur : Z) (labels : list (nat * Z)) : list (nat * Z) :=
  combine (map fst labels) (nano_run cur (map snd labels)).

Lemma nano_run_length : forall tss cur, length (nano_run cur tss) = length tss.
Proof. induction tss as [|t r IH]; intros cur; cbn [nano_run length]; auto. Qed.

Theorem nano_any_schedule cur labels : nano_dom cur (map snd labels) = true ->
  let out := nano_sched cur labels in
  map fst out = map fst labels
  /\ StronglySorted Z.lt (cur :: map snd out)
  /\ NoDup (map snd out)
  /\ forall g, StronglySorted Z.lt (ids_of g out).
Proof.
  intros Hd out. destruct (nano_strictly_increasing cur (map snd labels) Hd) as [HS _].
  assert (Hlen : length (map fst labels) = length (nano_run cur (map snd labels))).
  { rewrite nano_run_length, !map_length. reflexivity. }
  assert (E2 : map snd out = nano_run cur (map snd labels)) by (apply combine_snd, Hlen).
  assert (E1 : map fst out = map fst labels) by (apply combine_fst, Hlen).
  inversion HS as [|? ? HS' _]; subst.
  split; [exact E1|]. split; [now rewrite E2|]. split; [rewrite E2; now apply SS_lt_NoDup|].
  intros g. unfold ids_of.
  eapply (SS_map_impl (fun a b => snd a < snd b) Z.lt (fun _ => True)); [intros; assumption| |apply Forall_forall; auto].
  apply SS_filter. unfold out, nano_sched. now apply SS_map_snd_combine.
Qed.

(* ---------------------------------------------------------------- the spin terminates once the clock has advanced *)
Lemma spin_some t rs : (exists r, In r rs /\ t < r) -> exists r', spin t rs = Some r'.
Proof.
  induction rs as [|x rs IH]; intros (r & Hin & Hr); [destruct Hin|]. cbn [spin].
  destruct (x <=? t) eqn:E; [apply Z.leb_le in E|eauto].
  destruct Hin as [->|Hin]; [lia|]. apply IH. eauto.
Qed.

Theorem mono_generate_total s now sp : (exists r, In r sp /\ time s < r) -> exists s', mono_generate s now sp = Some s'.
Proof.
  intros H. unfold mono_generate. destruct (now =? time s); [|eauto].
  destruct (Z.land (step s + 1) 4095 =? 0); [|eauto].
  destruct (spin_some _ _ H) as (r' & ->). eauto.
Qed.

(* ---------------------------------------------------------------- `Sorted` form of the monotonic-clock premise *)
Theorem mono_strictly_increasing_sorted c node ins s l : cfg_ok c -> node_ok c node -> wf s -> time_ok c s ->
  Sorted Z.le (time s :: flat ins) -> Forall (fun r => r < 2 ^ (51 - nb c)) (flat ins) ->
  mono_states s ins = Some l ->
  StronglySorted Z.lt (map (id_x c node) (s :: l)).
Proof.
  intros Hc Hn Hw Ht HS HB Hm.
  apply (mono_strictly_increasing c node ins s l Hc Hn Hw Ht); auto.
  apply Sorted_StronglySorted; [|exact HS]. intros x y z' Hxy Hyz. lia.
Qed.

Print Assumptions nano_any_schedule.
Print Assumptions mono_generate_total.
Print Assumptions mono_strictly_increasing_sorted.
