(* C15: every schedule of the machine of C15_LTS.v.

   - [winv]: what holds of one worker between any two labels; preserved by every label, hence ([sched_inv]) true in
     every state any schedule reaches;
   - coherence at every point of every schedule ([sched_coherent], [sched_coherent_idle], [sched_fast_get]);
   - the store callbacks for one key are made job by job in the order the jobs were queued ([sched_same_key_serial]). *)
From Coq Require Import ZArith List Bool Lia.
Require Import C15_Model C15_Proofs C15_LTS.
Import ListNotations.
Open Scope Z_scope.

Definition rkey (r : running) : Z := key_of (j_op (r_job r)).

Definition winv (s : wrk) : Prop :=
  match k_cur s with
  | None => wcoh (k_st s) /\ (forall x, k_committed s x = sview (k_st s) x) /\ k_queue s = []
  | Some r =>
      safe (rkey r) (r_sv0 r) (k_committed s (rkey r)) (r_prog r) (r_touched r) (cview (k_st s) (rkey r)) (sview (k_st s) (rkey r))
      /\ done_res (r_prog r) = None
      /\ (forall x, x <> rkey r -> k_committed s x = sview (k_st s) x
                                   /\ forall v, cview (k_st s) x = Some v -> sview (k_st s) x = v)
  end.

Lemma handler_not_done o : done_res (handler o) = None.
Proof. destruct o; reflexivity. Qed.

Lemma start_inv st q cl cm gn j : wcoh st -> (forall x, cm x = sview st x) ->
  winv (mkWrk st q (Some (start st j)) cl cm gn).
Proof.
  intros Hc Hcm. unfold winv, start, rkey. cbn [k_cur k_st k_committed r_job r_prog r_sv0 r_touched r_started].
  split; [|split; [apply handler_not_done|]].
  - rewrite Hcm. apply handler_safe. apply Hc.
  - intros x _. split; [apply Hcm | apply Hc].
Qed.

Lemma winv_enqueue deep s j : winv s -> winv (fst (enqueue deep s j)).
Proof.
  intros H. unfold enqueue. destruct (k_closed s); [exact H|]. destruct (full deep (k_queue s)); [exact H|].
  unfold winv in *. destruct (k_cur s) as [r|] eqn:E; cbn [fst].
  - cbn [k_cur k_st k_committed k_queue]. exact H.
  - destruct H as (Hc & Hcm & _). apply start_inv; assumption.
Qed.

(* a change of the cache that changes no answer of Peek (the LRU order) is invisible to the invariant *)
Lemma winv_ext st st' q cur cl cm gn : (forall x, cview st' x = cview st x) -> wsr st' = wsr st ->
  winv (mkWrk st q cur cl cm gn) -> winv (mkWrk st' q cur cl cm gn).
Proof.
  intros Hv Hs. unfold winv. cbn [k_cur k_st k_committed k_queue].
  assert (Hsv : forall x, sview st' x = sview st x) by (intros x; unfold sview; rewrite Hs; reflexivity).
  destruct cur as [r|].
  - intros (H1 & H2 & H3). rewrite Hv, Hsv. split; [exact H1|]. split; [exact H2|].
    intros x Hx. rewrite Hv, Hsv. apply H3. exact Hx.
  - intros (H1 & H2 & H3). split; [|split; [intros x; rewrite Hsv; apply H2 | exact H3]].
    intros x v. rewrite Hv, Hsv. apply H1.
Qed.

Lemma winv_wcall deep s j : winv s -> winv (fst (wcall deep s j)).
Proof.
  intros H. unfold wcall. destruct (j_op j) as [k|k d|k d|k|k d|k d|k d]; try apply winv_enqueue; try exact H.
  pose proof (peek_get (wc (k_st s)) k) as Hp. destruct (c_get (wc (k_st s)) k) as [c' r] eqn:Eg. cbn [fst] in Hp.
  destruct r as [v|]; [|apply winv_enqueue; exact H]. cbn [fst].
  destruct s as [st q cur cl cm gn]. cbn [k_st k_queue k_cur k_closed k_committed k_gone] in *.
  apply (winv_ext st); [intros x; unfold cview; cbn [wc]; apply Hp | reflexivity | exact H].
Qed.

Lemma done_res_some p x : done_res p = Some x -> p = Done x.
Proof. destruct p; cbn; intros H; inversion H; reflexivity. Qed.

Lemma winv_wstep s s' a : winv s -> wstep s = Some (s', a) -> winv s'.
Proof.
  intros H Hs. unfold wstep in Hs. unfold winv in H. destruct (k_cur s) as [r|] eqn:Ec; [|discriminate].
  destruct H as (Hsafe & Hnd & Hoth).
  destruct (mstep (r_prog r) (k_st s) (r_fs r)) as [[[[p' st'] fs'] e]|] eqn:Em; [|discriminate].
  destruct (safe_mstep _ _ _ _ _ _ _ _ _ _ _ Hsafe Em) as (Hs1 & Hk & _ & Hf & Hsh & _).
  assert (Hoth' : forall x, x <> rkey r -> k_committed s x = sview st' x /\ forall v, cview st' x = Some v -> sview st' x = v).
  { intros x Hx. destruct (Hoth x Hx) as [A B]. unfold sview in *. rewrite (Hf x Hx). split; [exact A|].
    intros v Hv. apply B. apply (Hsh x v Hx Hv). }
  destruct (done_res p') as [x|] eqn:Ed.
  - apply done_res_some in Ed. subst p'. cbn [safe] in Hs1. destruct Hs1 as (_ & Hcoh & _).
    assert (Hw : wcoh st').
    { intros y v Hy. destruct (Z.eq_dec y (rkey r)) as [->|Hne]; [apply Hcoh; exact Hy | apply (Hoth' y Hne); exact Hy]. }
    assert (Hcm : forall y, upd (k_committed s) (key_of (j_op (r_job r))) (smap (wsr st') (key_of (j_op (r_job r)))) y = sview st' y).
    { intros y. fold (rkey r). destruct (Z.eq_dec y (rkey r)) as [->|Hne]; [rewrite upd_same; reflexivity | rewrite upd_other by exact Hne; apply (Hoth' y Hne)]. }
    unfold next_job in Hs. destruct (k_queue s) as [|j2 q']; inversion Hs; subst; clear Hs.
    + unfold winv. cbn [k_cur k_st k_committed k_queue]. split; [exact Hw|]. split; [exact Hcm | reflexivity].
    + apply start_inv; assumption.
  - inversion Hs; subst; clear Hs. unfold winv. cbn [k_cur k_st k_committed k_queue r_job r_prog r_sv0 r_touched rkey].
    fold (rkey r). split; [exact Hs1|]. split; [exact Ed | exact Hoth'].
Qed.

Lemma winv_wstop s : winv s -> winv (wstop s).
Proof. unfold winv, wstop. cbn [k_cur k_st k_committed k_queue]. auto. Qed.

(* ------------------------------------------------------------------ the group *)
Definition minv (g : mach) : Prop := forall w, winv (g w).

Lemma updm_same g w s : updm g w s w = s.
Proof. unfold updm. rewrite Z.eqb_refl. reflexivity. Qed.
Lemma updm_other g w s x : x <> w -> updm g w s x = g x.
Proof. intros H. unfold updm. replace (x =? w) with false by (symmetry; apply Z.eqb_neq; exact H). reflexivity. Qed.
Lemma minv_updm g w s : minv g -> winv s -> minv (updm g w s).
Proof. intros Hg Hs x. destruct (Z.eq_dec x w) as [->|Hne]; [rewrite updm_same; exact Hs | rewrite updm_other by exact Hne; apply Hg]. Qed.

Lemma minit_inv c : minv (minit c).
Proof.
  intros w. unfold winv, minit. cbn [k_cur k_st k_committed k_queue].
  split; [intros k v H; discriminate|]. split; [intros x; reflexivity | reflexivity].
Qed.

(* a caller that gives up changes nothing but the flag *)
Lemma wabandon_spec s s' : wabandon s = Some s' ->
  k_st s' = k_st s /\ k_queue s' = k_queue s /\ k_cur s' = k_cur s /\ k_committed s' = k_committed s.
Proof.
  unfold wabandon. destruct (k_cur s); [|discriminate]. destruct (k_gone s); [discriminate|].
  intros H. inversion H; subst. cbn. repeat split.
Qed.
Lemma gstep_abandon c deep g w g' a : gstep c deep g (GAbandon w) = Some (g', a) ->
  exists s', wabandon (g w) = Some s' /\ g' = updm g w s' /\ a = ARefused ECtx.
Proof.
  cbn [gstep]. destruct ((w <? 0) || (g_n c <=? w)); [discriminate|]. destruct (wabandon (g w)) as [s'|]; [|discriminate].
  intros H. inversion H; subst. exists s'. repeat split.
Qed.
Lemma winv_abandon s s' : wabandon s = Some s' -> winv s -> winv s'.
Proof.
  intros H Hw. destruct (wabandon_spec _ _ H) as (E1 & E2 & E3 & E4). unfold winv in *. rewrite E1, E2, E3, E4. exact Hw.
Qed.

Lemma minv_gstep c deep g l g' a : minv g -> gstep c deep g l = Some (g', a) -> minv g'.
Proof.
  intros Hg Hs. destruct l as [j|w| |cid|wa]; [| | |cbn [gstep] in Hs; discriminate|]; [cbn [gstep] in Hs | cbn [gstep] in Hs | cbn [gstep] in Hs |].
  - destruct (loc_of c (key_of (j_op j)) <? 0); [inversion Hs; subst; exact Hg|].
    pose proof (winv_wcall deep (g (loc_of c (key_of (j_op j)))) j (Hg _)) as Hw.
    destruct (wcall deep (g (loc_of c (key_of (j_op j)))) j) as [s' a']. inversion Hs; subst. apply minv_updm; assumption.
  - destruct ((w <? 0) || (g_n c <=? w)); [discriminate|]. destruct (wstep (g w)) as [[s' a']|] eqn:Ew; [|discriminate].
    inversion Hs; subst. apply minv_updm; [exact Hg | eapply winv_wstep; eauto].
  - inversion Hs; subst. intros w. apply winv_wstop. apply Hg.
  - destruct (gstep_abandon _ _ _ _ _ _ Hs) as (s' & Ha & -> & _). apply minv_updm; [exact Hg | eapply winv_abandon; eauto].
Qed.

Theorem sched_inv c deep : forall ls g g' tr, minv g -> grun c deep g ls = Some (g', tr) -> minv g'.
Proof.
  induction ls as [|l ls IH]; intros g g' tr Hg Hr; cbn [grun] in Hr; [inversion Hr; subst; exact Hg|].
  destruct (gstep c deep g l) as [[g1 a]|] eqn:Es; [|discriminate].
  destruct (grun c deep g1 ls) as [[g2 tr2]|] eqn:Er; [|discriminate]. inversion Hr; subst.
  eapply IH; [eapply minv_gstep; eauto | eauto].
Qed.

(* ------------------------------------------------------------------ coherence in every reachable state *)
(* is worker w in the middle of an operation on key k ? *)
Definition in_progress (s : wrk) (k : Z) : Prop := exists r, k_cur s = Some r /\ rkey r = k.

Lemma winv_coherent s k v : winv s -> cview (k_st s) k = Some v ->
  sview (k_st s) k = v \/ (in_progress s k /\ k_committed s k = v).
Proof.
  unfold winv. intros H Hc. destruct (k_cur s) as [r|] eqn:E.
  - destruct H as (Hs & _ & Ho). destruct (Z.eq_dec k (rkey r)) as [->|Hne].
    + apply safe_I3 in Hs. destruct (Hs v Hc) as [A|A]; [left; exact A | right; split; [exists r; split; [exact E | reflexivity] | exact A]].
    + left. apply (Ho k Hne). exact Hc.
  - left. destruct H as (Hw & _). apply Hw. exact Hc.
Qed.

(* whenever the group's cache holds a value for a key, it is the store's value, or - only while an operation on
   that key is in progress - the value the store held after the last completed operation on the key *)
Theorem sched_coherent c deep ls g tr k v : grun c deep (minit c) ls = Some (g, tr) ->
  mcache_at c g k = Some v ->
  mstore_at c g k = v \/ (in_progress (g (loc_of c k)) k /\ mcommitted_at c g k = v).
Proof.
  intros Hr Hc. pose proof (sched_inv c deep ls _ _ _ (minit_inv c) Hr (loc_of c k)) as Hw.
  apply (winv_coherent _ k v Hw). exact Hc.
Qed.

(* between operations on the key the two agree outright, and the store is what the last completed operation left *)
Theorem sched_coherent_idle c deep ls g tr k : grun c deep (minit c) ls = Some (g, tr) ->
  ~ in_progress (g (loc_of c k)) k ->
  mcommitted_at c g k = mstore_at c g k /\ (forall v, mcache_at c g k = Some v -> mstore_at c g k = v).
Proof.
  intros Hr Hn. pose proof (sched_inv c deep ls _ _ _ (minit_inv c) Hr (loc_of c k)) as Hw.
  unfold mcommitted_at, mstore_at, mcache_at. unfold winv in Hw. destruct (k_cur (g (loc_of c k))) as [r|] eqn:E.
  - destruct Hw as (_ & _ & Ho). destruct (Z.eq_dec k (rkey r)) as [->|Hne].
    + exfalso. apply Hn. exists r. split; [exact E | reflexivity].
    + apply (Ho k Hne).
  - destruct Hw as (Hw & Hcm & _). split; [apply Hcm | intros v Hv; apply Hw; exact Hv].
Qed.

(* the caller-side fast path of DoGet: whatever it answers is coherent in the same sense, at any point of any schedule *)
Theorem sched_fast_get c deep ls g tr j g' v : grun c deep (minit c) ls = Some (g, tr) ->
  gstep c deep g (GCall j) = Some (g', AFast v) ->
  exists k, j_op j = OGet k /\
    (mstore_at c g k = v \/ (in_progress (g (loc_of c k)) k /\ mcommitted_at c g k = v)).
Proof.
  intros Hr Hs. cbn [gstep] in Hs. destruct (loc_of c (key_of (j_op j)) <? 0); [inversion Hs|].
  destruct (wcall deep (g (loc_of c (key_of (j_op j)))) j) as [s' a'] eqn:Ew. inversion Hs; subst; clear Hs.
  unfold wcall in Ew.
  assert (Henq : forall s0 j0 s1 v0, enqueue deep s0 j0 = (s1, AFast v0) -> False).
  { intros s0 j0 s1 v0. unfold enqueue. destruct (k_closed s0); [intros H; inversion H|]. destruct (full deep (k_queue s0)); [intros H; inversion H|].
    destruct (k_cur s0); intros H; inversion H. }
  destruct (j_op j) as [k|k d|k d|k|k d|k d|k d] eqn:Eo; try (exfalso; eapply Henq; eauto; fail).
  cbn [key_of] in *. exists k. split; [reflexivity|].
  pose proof (get_result (wc (k_st (g (loc_of c k)))) k) as Hres.
  destruct (c_get (wc (k_st (g (loc_of c k)))) k) as [c' r]. cbn [snd] in Hres.
  destruct r as [v0|]; [|exfalso; eapply Henq; eauto]. inversion Ew; subst.
  eapply sched_coherent; [exact Hr|]. unfold mcache_at. symmetry. exact Hres.
Qed.

(* ------------------------------------------------------------------ order of application *)
(* [follows o l]: l reads o from left to right, repeating an element any number of times and never going back *)
Inductive follows {A : Type} : list A -> list A -> Prop :=
  | fo_nil o : follows o []
  | fo_same a o l : follows (a :: o) l -> follows (a :: o) (a :: l)
  | fo_skip a o l : follows o l -> follows (a :: o) l.

Lemma follows_nil_inv {A} (l : list A) : follows [] l -> l = [].
Proof. intros H. inversion H; reflexivity. Qed.

Lemma follows_app_order {A} (o o' l : list A) : follows o l -> follows (o ++ o') l.
Proof.
  intros H. induction H as [o|a o l H IH|a o l H IH].
  - constructor.
  - cbn [app] in *. apply fo_same. exact IH.
  - cbn [app]. apply fo_skip. exact IH.
Qed.

Lemma follows_last {A} (o : list A) a : follows (o ++ [a]) [a].
Proof. induction o as [|x o IH]; cbn [app]; [apply fo_same; constructor | apply fo_skip; exact IH]. Qed.

Lemma follows_snoc {A} (o l : list A) a : follows (o ++ [a]) l -> follows (o ++ [a]) (l ++ [a]).
Proof.
  intros H. remember (o ++ [a]) as O eqn:EO. revert o EO.
  induction H as [O|x O' l H IH|x O' l H IH]; intros o EO.
  - subst. cbn [app]. apply follows_last.
  - cbn [app]. apply fo_same. apply (IH o). exact EO.
  - destruct o as [|y o'].
    + cbn [app] in EO. inversion EO; subst. apply follows_nil_inv in H. subst l. cbn [app]. apply fo_same. constructor.
    + cbn [app] in EO. inversion EO; subst. apply fo_skip. apply (IH o'). reflexivity.
Qed.

Lemma follows_filter {A} (p : A -> bool) (o l : list A) : follows o l -> follows (filter p o) (filter p l).
Proof.
  intros H. induction H as [o|a o l H IH|a o l H IH].
  - constructor.
  - cbn [filter] in *. destruct (p a); [apply fo_same; exact IH | exact IH].
  - cbn [filter]. destruct (p a); [apply fo_skip; exact IH | exact IH].
Qed.
Lemma follows_filter_r {A} (p : A -> bool) (o l : list A) : follows o l -> follows o (filter p l).
Proof.
  intros H. induction H as [o|a o l H IH|a o l H IH].
  - constructor.
  - cbn [filter]. destruct (p a); [apply fo_same; exact IH | exact IH].
  - apply fo_skip. exact IH.
Qed.
Lemma follows_map {A B} (f : A -> B) (o l : list A) : follows o l -> follows (map f o) (map f l).
Proof.
  intros H. induction H as [o|a o l H IH|a o l H IH]; cbn [map] in *; [constructor | apply fo_same; exact IH | apply fo_skip; exact IH].
Qed.

(* what a trace shows of one worker: the jobs queued at it, and the calls it made *)
Definition jp (j : job) : Z * Z := (j_id j, key_of (j_op j)).
Definition wq1 (c : gcfg) (w : Z) (la : glabel * answer) : list (Z * Z) :=
  match la with (GCall j, AQueued) => if loc_of c (key_of (j_op j)) =? w then [jp j] else [] | _ => [] end.
Definition ws1 (w : Z) (la : glabel * answer) : list (Z * event) :=
  match la with (GStep w', AStep id e _) => if w' =? w then [(id, e)] else [] | _ => [] end.
Definition wq (c : gcfg) (w : Z) (tr : list (glabel * answer)) := flat_map (wq1 c w) tr.
Definition ws (w : Z) (tr : list (glabel * answer)) := flat_map (ws1 w) tr.
Definition sk (p : Z * event) : Z * Z := (fst p, ev_key (snd p)).

Definition curp (s : wrk) : list (Z * Z) := match k_cur s with Some r => [jp (r_job r)] | None => [] end.

Definition oinv (c : gcfg) (g : mach) (tr : list (glabel * answer)) : Prop :=
  forall w, exists done, wq c w tr = done ++ curp (g w) ++ map jp (k_queue (g w))
                         /\ follows (done ++ curp (g w)) (map sk (ws w tr)).

Lemma flat_map_snoc {A B} (f : A -> list B) l a : flat_map f (l ++ [a]) = flat_map f l ++ f a.
Proof. rewrite flat_map_app. cbn [flat_map]. rewrite app_nil_r. reflexivity. Qed.

Lemma oinv_init c : oinv c (minit c) [].
Proof. intros w. exists []. split; [reflexivity | constructor]. Qed.

Lemma enqueue_cases deep s j s' a : enqueue deep s j = (s', a) ->
  (s' = s /\ exists e, a = ARefused e)
  \/ (a = AQueued /\ k_cur s = None /\ k_cur s' = Some (start (k_st s) j) /\ k_queue s' = k_queue s)
  \/ (a = AQueued /\ k_cur s <> None /\ k_cur s' = k_cur s /\ k_queue s' = k_queue s ++ [j]).
Proof.
  unfold enqueue. destruct (k_closed s); [intros H; inversion H; left; split; [reflexivity | eexists; reflexivity]|].
  destruct (full deep (k_queue s)); [intros H; inversion H; left; split; [reflexivity | eexists; reflexivity]|].
  destruct (k_cur s) as [r|] eqn:E; intros H; inversion H; subst; cbn [k_cur k_queue].
  - right. right. split; [reflexivity|]. split; [discriminate|]. split; reflexivity.
  - right. left. split; [reflexivity|]. split; [reflexivity|]. split; reflexivity.
Qed.

Lemma wcall_cases deep s j s' a : wcall deep s j = (s', a) ->
  (k_cur s' = k_cur s /\ k_queue s' = k_queue s /\ a <> AQueued)
  \/ (a = AQueued /\ k_cur s = None /\ k_cur s' = Some (start (k_st s) j) /\ k_queue s' = k_queue s)
  \/ (a = AQueued /\ k_cur s <> None /\ k_cur s' = k_cur s /\ k_queue s' = k_queue s ++ [j]).
Proof.
  assert (Henq : forall s' a, enqueue deep s j = (s', a) ->
    (k_cur s' = k_cur s /\ k_queue s' = k_queue s /\ a <> AQueued)
    \/ (a = AQueued /\ k_cur s = None /\ k_cur s' = Some (start (k_st s) j) /\ k_queue s' = k_queue s)
    \/ (a = AQueued /\ k_cur s <> None /\ k_cur s' = k_cur s /\ k_queue s' = k_queue s ++ [j])).
  { intros s1 a1 H. destruct (enqueue_cases _ _ _ _ _ H) as [[-> [e ->]]|[H1|H1]]; [left; split; [reflexivity|split; [reflexivity|discriminate]] | right; left; exact H1 | right; right; exact H1]. }
  unfold wcall. destruct (j_op j); try apply Henq.
  destruct (c_get (wc (k_st s)) k) as [c' r]. destruct r as [v|]; [|apply Henq].
  intros H. inversion H; subst. left. cbn [k_cur k_queue]. split; [reflexivity|]. split; [reflexivity | discriminate].
Qed.

Lemma oinv_gstep c deep g tr l g' a : minv g -> oinv c g tr -> gstep c deep g l = Some (g', a) -> oinv c g' (tr ++ [(l, a)]).
Proof.
  intros Hm Ho Hs w. destruct (Ho w) as (done & Hq & Hf). unfold wq, ws in *. rewrite !flat_map_snoc.
  destruct l as [j|w0| |cid|wa]; [| | |cbn [gstep] in Hs; discriminate|]; [cbn [gstep] in Hs | cbn [gstep] in Hs | cbn [gstep] in Hs |].
  - (* call *) cbn [ws1]. rewrite app_nil_r. set (wj := loc_of c (key_of (j_op j))) in *.
    destruct (wj <? 0) eqn:En.
    { inversion Hs; subst. cbn [wq1]. rewrite app_nil_r. exists done. split; assumption. }
    destruct (wcall deep (g wj) j) as [s' a'] eqn:Ew. inversion Hs; subst g' a'; clear Hs.
    destruct (Z.eq_dec w wj) as [->|Hne].
    + rewrite updm_same. cbn [wq1]. fold wj. rewrite Z.eqb_refl.
      destruct (wcall_cases _ _ _ _ _ Ew) as [(Hc & Hqq & Ha)|[(-> & Hc & Hc' & Hqq)|(-> & Hc & Hc' & Hqq)]].
      * exists done. unfold curp. rewrite Hc, Hqq. split; [|exact Hf].
        destruct a; try (rewrite app_nil_r; exact Hq). congruence.
      * (* idle worker: the job starts at once; an idle worker has nothing queued *)
        pose proof (Hm wj) as Hw. unfold winv in Hw. rewrite Hc in Hw. destruct Hw as (_ & _ & Hqe).
        exists done. unfold curp in *. rewrite Hc', Hqq, Hqe. rewrite Hc, Hqe in Hq. cbn [r_job start map app] in *.
        rewrite Hq. rewrite !app_nil_r. split; [reflexivity|]. rewrite Hc in Hf. rewrite app_nil_r in Hf. apply follows_app_order. exact Hf.
      * exists done. unfold curp in *. rewrite Hc', Hqq. rewrite Hq. rewrite map_app. cbn [map]. rewrite !app_assoc. split; [reflexivity | exact Hf].
    + rewrite updm_other by exact Hne. exists done. split; [|exact Hf].
      destruct a; cbn [wq1]; try (rewrite app_nil_r; exact Hq).
      fold wj. replace (wj =? w) with false by (symmetry; apply Z.eqb_neq; congruence). rewrite app_nil_r. exact Hq.
  - (* step *) cbn [wq1]. rewrite app_nil_r.
    destruct ((w0 <? 0) || (g_n c <=? w0)); [discriminate|]. destruct (wstep (g w0)) as [[s' a']|] eqn:Ew; [|discriminate].
    inversion Hs; subst g' a'; clear Hs.
    destruct (Z.eq_dec w w0) as [->|Hne].
    2:{ rewrite updm_other by exact Hne. exists done. split; [exact Hq|].
        destruct a; cbn [ws1]; try (rewrite app_nil_r; exact Hf).
        replace (w0 =? w) with false by (symmetry; apply Z.eqb_neq; congruence). rewrite app_nil_r. exact Hf. }
    rewrite updm_same. unfold wstep in Ew. pose proof (Hm w0) as Hw. unfold winv in Hw.
    destruct (k_cur (g w0)) as [r|] eqn:Ec; [|discriminate]. destruct Hw as (Hsafe & _ & _).
    destruct (mstep (r_prog r) (k_st (g w0)) (r_fs r)) as [[[[p' st'] fs'] e]|] eqn:Em; [|discriminate].
    destruct (safe_mstep _ _ _ _ _ _ _ _ _ _ _ Hsafe Em) as (_ & Hk & _).
    unfold curp in Hq, Hf. rewrite Ec in Hq, Hf.
    assert (Hstep : sk (j_id (r_job r), e) = jp (r_job r)) by (unfold sk, jp; cbn [fst snd]; rewrite Hk; reflexivity).
    destruct (done_res p') as [x|] eqn:Ed.
    + unfold next_job in Ew. destruct (k_queue (g w0)) as [|j2 q'] eqn:Eq; inversion Ew; subst s' a; clear Ew;
        cbn [ws1]; rewrite Z.eqb_refl, map_app; cbn [map]; rewrite Hstep; unfold curp; cbn [k_cur k_queue].
      * exists (done ++ [jp (r_job r)]). cbn [map app] in *. rewrite ?app_nil_r in *. split; [exact Hq | apply follows_snoc; exact Hf].
      * exists (done ++ [jp (r_job r)]). cbn [map r_job start] in *. split; [rewrite Hq, <- !app_assoc; reflexivity|].
        apply follows_app_order. apply follows_snoc. exact Hf.
    + inversion Ew; subst s' a; clear Ew. cbn [ws1]. rewrite Z.eqb_refl, map_app. cbn [map]. rewrite Hstep.
      unfold curp. cbn [k_cur k_queue r_job]. exists done. split; [exact Hq | apply follows_snoc; exact Hf].
  - (* stop *) inversion Hs; subst. cbn [wq1 ws1]. rewrite !app_nil_r. exists done. unfold curp, wstop. cbn [k_cur k_queue]. split; assumption.
  - (* a caller gives up *) destruct (gstep_abandon _ _ _ _ _ _ Hs) as (s' & Ha & -> & ->). cbn [wq1 ws1]. rewrite !app_nil_r.
    destruct (wabandon_spec _ _ Ha) as (_ & E2 & E3 & _). exists done. unfold curp in *.
    destruct (Z.eq_dec w wa) as [->|Hne]; [rewrite updm_same, E2, E3 | rewrite updm_other by exact Hne]; split; assumption.
Qed.

Lemma oinv_grun c deep : forall ls g tr0 g' tr, minv g -> oinv c g tr0 -> grun c deep g ls = Some (g', tr) -> oinv c g' (tr0 ++ tr).
Proof.
  induction ls as [|l ls IH]; intros g tr0 g' tr Hm Ho Hr; cbn [grun] in Hr.
  - inversion Hr; subst. rewrite app_nil_r. exact Ho.
  - destruct (gstep c deep g l) as [[g1 a]|] eqn:Es; [|discriminate].
    destruct (grun c deep g1 ls) as [[g2 tr2]|] eqn:Er; [|discriminate]. inversion Hr; subst.
    replace (tr0 ++ (l, a) :: tr2) with ((tr0 ++ [(l, a)]) ++ tr2) by (rewrite <- app_assoc; reflexivity).
    eapply IH; [eapply minv_gstep; eauto | eapply oinv_gstep; eauto | exact Er].
Qed.

(* every job sits at the worker its key is routed to, so every call a worker makes is about a key routed to it *)
Definition rinv (c : gcfg) (g : mach) : Prop :=
  forall w, (forall r, k_cur (g w) = Some r -> loc_of c (rkey r) = w)
            /\ Forall (fun j => loc_of c (key_of (j_op j)) = w) (k_queue (g w)).

Definition step_routed (c : gcfg) (la : glabel * answer) : Prop :=
  match la with (GStep w, AStep _ e _) => loc_of c (ev_key e) = w | _ => True end.

Lemma rinv_init c : rinv c (minit c).
Proof. intros w. split; [intros r H; discriminate | constructor]. Qed.

Lemma rinv_gstep c deep g l g' a : minv g -> rinv c g -> gstep c deep g l = Some (g', a) -> rinv c g' /\ step_routed c (l, a).
Proof.
  intros Hm Hr Hs. destruct l as [j|w0| |cid|wa]; [| | |cbn [gstep] in Hs; discriminate|]; [cbn [gstep] in Hs | cbn [gstep] in Hs | cbn [gstep] in Hs |].
  - split; [|exact I]. set (wj := loc_of c (key_of (j_op j))) in *. destruct (wj <? 0); [inversion Hs; subst; exact Hr|].
    destruct (wcall deep (g wj) j) as [s' a'] eqn:Ew. inversion Hs; subst g' a'; clear Hs. intros w.
    destruct (Z.eq_dec w wj) as [->|Hne]; [|rewrite updm_other by exact Hne; apply Hr].
    rewrite updm_same. destruct (Hr wj) as [Hc Hq].
    destruct (wcall_cases _ _ _ _ _ Ew) as [(Hc' & Hq' & _)|[(_ & _ & Hc' & Hq')|(_ & _ & Hc' & Hq')]]; rewrite Hc', Hq'.
    + split; assumption.
    + split; [|exact Hq]. intros r Hr0. inversion Hr0; subst. reflexivity.
    + split; [exact Hc|]. apply Forall_app. split; [exact Hq | constructor; [reflexivity | constructor]].
  - destruct ((w0 <? 0) || (g_n c <=? w0)); [discriminate|]. destruct (wstep (g w0)) as [[s' a']|] eqn:Ew; [|discriminate].
    inversion Hs; subst g' a'; clear Hs. unfold wstep in Ew. pose proof (Hm w0) as Hw. unfold winv in Hw.
    destruct (Hr w0) as [Hc Hq]. destruct (k_cur (g w0)) as [r|] eqn:Ec; [|discriminate]. destruct Hw as (Hsafe & _ & _).
    destruct (mstep (r_prog r) (k_st (g w0)) (r_fs r)) as [[[[p' st'] fs'] e]|] eqn:Em; [|discriminate].
    destruct (safe_mstep _ _ _ _ _ _ _ _ _ _ _ Hsafe Em) as (_ & Hk & _).
    assert (Hroute : loc_of c (ev_key e) = w0) by (rewrite Hk; apply Hc; reflexivity).
    destruct (done_res p') as [x|] eqn:Ed.
    + unfold next_job in Ew. destruct (k_queue (g w0)) as [|j2 q'] eqn:Eq; inversion Ew; subst s' a; clear Ew; (split; [|exact Hroute]);
        intros w; (destruct (Z.eq_dec w w0) as [->|Hne]; [rewrite updm_same|rewrite updm_other by exact Hne; apply Hr]); cbn [k_cur k_queue].
      * split; [intros r0 H0; discriminate | constructor].
      * inversion Hq; subst. split; [intros r0 H0; inversion H0; subst; unfold rkey, start; cbn [r_job]; assumption | assumption].
    + inversion Ew; subst s' a; clear Ew. split; [|exact Hroute]. intros w.
      destruct (Z.eq_dec w w0) as [->|Hne]; [rewrite updm_same|rewrite updm_other by exact Hne; apply Hr]. cbn [k_cur k_queue].
      split; [intros r0 H0; inversion H0; subst; unfold rkey; cbn [r_job]; apply Hc; reflexivity | exact Hq].
  - inversion Hs; subst. split; [|exact I]. intros w. unfold wstop. cbn [k_cur k_queue]. apply Hr.
  - destruct (gstep_abandon _ _ _ _ _ _ Hs) as (s' & Ha & -> & ->). split; [|exact I]. intros w.
    destruct (wabandon_spec _ _ Ha) as (_ & E2 & E3 & _).
    destruct (Z.eq_dec w wa) as [->|Hne]; [rewrite updm_same, E2, E3 | rewrite updm_other by exact Hne]; apply Hr.
Qed.

Lemma rinv_grun c deep : forall ls g g' tr, minv g -> rinv c g -> grun c deep g ls = Some (g', tr) -> Forall (step_routed c) tr.
Proof.
  induction ls as [|l ls IH]; intros g g' tr Hm Hr Hrun; cbn [grun] in Hrun.
  - inversion Hrun; subst. constructor.
  - destruct (gstep c deep g l) as [[g1 a]|] eqn:Es; [|discriminate].
    destruct (grun c deep g1 ls) as [[g2 tr2]|] eqn:Er; [|discriminate]. inversion Hrun; subst.
    destruct (rinv_gstep _ _ _ _ _ _ Hm Hr Es) as [Hr1 Hst]. constructor; [exact Hst|].
    eapply IH; [eapply minv_gstep; eauto | exact Hr1 | exact Er].
Qed.

(* the observable statement: for one key, the ids of the store callbacks, in the order they were made, against the
   ids of the jobs on that key in the order their requests were queued *)
Definition queued_of (k : Z) (tr : list (glabel * answer)) : list Z :=
  flat_map (fun la => match la with (GCall j, AQueued) => if key_of (j_op j) =? k then [j_id j] else [] | _ => [] end) tr.
Definition store_calls_of (k : Z) (tr : list (glabel * answer)) : list Z :=
  flat_map (fun la => match la with (GStep _, AStep id e _) => if is_store_ev e && (ev_key e =? k) then [id] else [] | _ => [] end) tr.

Lemma queued_of_wq c k tr : queued_of k tr = map fst (filter (fun p => snd p =? k) (wq c (loc_of c k) tr)).
Proof.
  unfold queued_of, wq. induction tr as [|[l a] tr IH]; [reflexivity|]. cbn [flat_map]. rewrite filter_app, map_app, <- IH. f_equal.
  destruct l as [j| | | |]; try reflexivity. destruct a; try reflexivity. cbn [wq1].
  destruct (key_of (j_op j) =? k) eqn:E.
  - apply Z.eqb_eq in E. rewrite E, Z.eqb_refl. cbn [filter jp snd]. rewrite E, Z.eqb_refl. reflexivity.
  - destruct (loc_of c (key_of (j_op j)) =? loc_of c k); [|reflexivity]. cbn [filter jp snd]. rewrite E. reflexivity.
Qed.

Lemma store_calls_of_ws c k tr : Forall (step_routed c) tr ->
  store_calls_of k tr = map fst (filter (fun p => snd p =? k) (map sk (filter (fun p => is_store_ev (snd p)) (ws (loc_of c k) tr)))).
Proof.
  unfold store_calls_of, ws. induction tr as [|[l a] tr IH]; intros HF; [reflexivity|]. inversion HF; subst.
  cbn [flat_map]. rewrite filter_app, map_app, filter_app, map_app, <- (IH H2). f_equal.
  destruct l as [|w| | |]; try reflexivity. destruct a; try reflexivity. cbn [ws1]. cbn [step_routed] in H1.
  destruct (w =? loc_of c k) eqn:Ew.
  - cbn [filter snd]. destruct (is_store_ev e); [|reflexivity]. cbn [map sk fst snd filter andb]. destruct (ev_key e =? k); reflexivity.
  - cbn [filter map]. destruct (ev_key e =? k) eqn:Ek; [|rewrite andb_false_r; reflexivity].
    apply Z.eqb_eq in Ek. rewrite Ek in H1. apply Z.eqb_neq in Ew. congruence.
Qed.

(* operations on one key are applied to the store one at a time, in the order they were accepted: in every schedule,
   the store callbacks about key k are made job after job - never alternating between two jobs - and the jobs come in
   the order in which their requests were queued *)
Theorem sched_same_key_serial c deep ls g tr k : grun c deep (minit c) ls = Some (g, tr) ->
  follows (queued_of k tr) (store_calls_of k tr).
Proof.
  intros Hr.
  pose proof (oinv_grun c deep ls _ [] _ _ (minit_inv c) (oinv_init c) Hr (loc_of c k)) as (done & Hq & Hf).
  pose proof (rinv_grun c deep ls _ _ _ (minit_inv c) (rinv_init c) Hr) as Hrt.
  cbn [app] in *. rewrite (queued_of_wq c), (store_calls_of_ws c k tr Hrt).
  apply follows_map. apply follows_filter.
  assert (Hf2 : follows (wq c (loc_of c k) tr) (map sk (ws (loc_of c k) tr))).
  { rewrite Hq. rewrite app_assoc. apply follows_app_order. exact Hf. }
  (* dropping the cache calls on the right keeps the order *)
  clear - Hf2. set (o := wq c (loc_of c k) tr) in *. set (l := ws (loc_of c k) tr) in *. clearbody o l.
  remember (map sk l) as ml eqn:E. revert l E. induction Hf2 as [o|a o m H IH|a o m H IH]; intros l E.
  - destruct l; [constructor | discriminate].
  - destruct l as [|p l]; [discriminate|]. cbn [map] in E. inversion E; subst. cbn [filter].
    destruct (is_store_ev (snd p)); [cbn [map]; apply fo_same; apply IH; reflexivity | apply IH; reflexivity].
  - apply fo_skip. apply IH. exact E.
Qed.

(* the routing invariant holds in every reachable state *)
Lemma rinv_reach c deep : forall ls g g' tr, minv g -> rinv c g -> grun c deep g ls = Some (g', tr) -> rinv c g'.
Proof.
  induction ls as [|l ls IH]; intros g g' tr Hm Hr Hrun; cbn [grun] in Hrun.
  - inversion Hrun; subst. exact Hr.
  - destruct (gstep c deep g l) as [[g1 a]|] eqn:Es; [|discriminate].
    destruct (grun c deep g1 ls) as [[g2 tr2]|] eqn:Er; [|discriminate]. inversion Hrun; subst.
    eapply IH; [eapply minv_gstep; eauto | eapply rinv_gstep; eauto | exact Er].
Qed.

(* a delete that completes successfully leaves neither a cached entry nor a stored value, at that point of any schedule *)
Theorem sched_delete_evicts c deep ls g tr w g' id e :
  grun c deep (minit c) ls = Some (g, tr) ->
  gstep c deep g (GStep w) = Some (g', AStep id e (Some RNil)) ->
  mcache_at c g' (ev_key e) = None /\ mstore_at c g' (ev_key e) = None.
Proof.
  intros Hr Hs.
  pose proof (sched_inv c deep ls _ _ _ (minit_inv c) Hr) as Hm.
  pose proof (rinv_reach c deep ls _ _ _ (minit_inv c) (rinv_init c) Hr) as Hri.
  cbn [gstep] in Hs. destruct ((w <? 0) || (g_n c <=? w)); [discriminate|].
  destruct (wstep (g w)) as [[s' a']|] eqn:Ew; [|discriminate]. inversion Hs; subst g' a'; clear Hs.
  unfold wstep in Ew. pose proof (Hm w) as Hw. unfold winv in Hw. destruct (Hri w) as [Hc _].
  destruct (k_cur (g w)) as [r|] eqn:Ec; [|discriminate]. destruct Hw as (Hsafe & _ & _).
  destruct (mstep (r_prog r) (k_st (g w)) (r_fs r)) as [[[[p' st'] fs'] e0]|] eqn:Em; [|discriminate].
  destruct (safe_mstep _ _ _ _ _ _ _ _ _ _ _ Hsafe Em) as (Hs1 & Hk & _).
  destruct (done_res p') as [x|] eqn:Ed; [|inversion Ew].
  apply done_res_some in Ed. subst p'.
  assert (Hx : x = RNil /\ e0 = e /\ k_st s' = st').
  { unfold next_job in Ew. destruct (k_gone (g w)); destruct (k_queue (g w)); inversion Ew; subst; auto. }
  destruct Hx as (-> & -> & Hst). cbn [safe] in Hs1. destruct Hs1 as (_ & _ & _ & Hnil & _). destruct (Hnil eq_refl) as [A B].
  unfold mcache_at, mstore_at. rewrite Hk, (Hc r eq_refl), updm_same, Hst. split; [exact A | exact B].
Qed.

(* a caller that gives up while its request is being handled changes neither the caches, nor the store, nor what was
   committed: the handlers never look at the context *)
Theorem sched_abandon_keeps_state c deep g w g' a : gstep c deep g (GAbandon w) = Some (g', a) ->
  a = ARefused ECtx /\ forall k, mcache_at c g' k = mcache_at c g k /\ mstore_at c g' k = mstore_at c g k
                                 /\ mcommitted_at c g' k = mcommitted_at c g k.
Proof.
  intros H. destruct (gstep_abandon _ _ _ _ _ _ H) as (s' & Ha & -> & ->). split; [reflexivity|].
  destruct (wabandon_spec _ _ Ha) as (E1 & _ & _ & E4). intros k. unfold mcache_at, mstore_at, mcommitted_at.
  destruct (Z.eq_dec (loc_of c k) w) as [E|E]; [rewrite E, updm_same, E1, E4 | rewrite updm_other by exact E]; repeat split.
Qed.
