(* C17, routing half: remap.NewReMap / SimpleIndex / XHashIndex / SearchIndex / ToBytes, branch for branch.
   The hash (xxhash.Sum64) is an oracle: every function takes the hash value of the key's bytes as an argument,
   every theorem holds for every value in [0, 2^64).  Built on Remap.v (sort.Search and the partition cell). *)
From Coq Require Import ZArith Lia Bool List.
Require Import Remap.
Import ListNotations.
Open Scope Z_scope.

(* ---------------- keys ---------------- *)
(* the dynamic type of the interface value and the Go value (signed types carry the signed value) *)
Inductive key :=
| KU8 (v : Z) | KI8 (v : Z) | KI16 (v : Z) | KU16 (v : Z) | KI32 (v : Z) | KU32 (v : Z)
| KI64 (v : Z) | KU64 (v : Z) | KInt (v : Z) | KUint (v : Z)
| KStr (b : list Z)                 (* string, as its bytes *)
| KBytes (b : list Z)               (* []byte *)
| KHit (h : Z)                      (* implements HitGroup only; h = Hit() *)
| KBs (b : list Z)                  (* implements Bs only; b = ToBytes() *)
| KHitBs (h : Z) (b : list Z)       (* implements both *)
| KOther (tag : Z).                 (* anything else: float64, named integer types, structs, nil *)

Definition uwrap (w x : Z) : Z := x mod 2 ^ w.

(* binary.LittleEndian.PutUintN of the value converted to the unsigned type of that width *)
Fixpoint le_bytes (n : nat) (w : Z) : list Z :=
  match n with O => [] | S n' => w mod 256 :: le_bytes n' (w / 256) end.

(* remap.ToBytes; None = panic("unsupported.type.for.slot") *)
Definition to_bytes (k : key) : option (list Z) :=
  match k with
  | KU8 v | KI8 v => Some (le_bytes 1 (uwrap 8 v))
  | KI16 v | KU16 v => Some (le_bytes 2 (uwrap 16 v))
  | KI32 v | KU32 v => Some (le_bytes 4 (uwrap 32 v))
  | KI64 v | KU64 v | KInt v | KUint v => Some (le_bytes 8 (uwrap 64 v))
  | KStr b | KBytes b | KBs b | KHitBs _ b => Some b
  | KHit _ | KOther _ => None
  end.

(* the `it` of SimpleIndex: uint64(v) for every integer width, Hit() for a HitGroup; None = default branch *)
Definition simple_u64 (k : key) : option Z :=
  match k with
  | KU8 v | KI8 v | KI16 v | KU16 v | KI32 v | KU32 v | KI64 v | KU64 v | KInt v | KUint v => Some (uwrap 64 v)
  | KHit h | KHitBs h _ => Some (uwrap 64 h)
  | KStr _ | KBytes _ | KBs _ | KOther _ => None
  end.

(* ---------------- NewReMap ---------------- *)
Definition DefaultPrime := 73.
(* option.go: the last WithPrime wins, no option = DefaultPrime *)
Definition numbs_of (opt : option Z) : Z := match opt with Some p => p | None => DefaultPrime end.

(* r.nps[i]: y * (i+1) in uint64 arithmetic with y = MaxUint64 / numbs, the last one overwritten by MaxUint64 *)
Definition nps (n i : Z) : Z := if i =? n - 1 then MaxU64 else uwrap 64 ((MaxU64 / n) * (i + 1)).

(* NewReMap panics (integer divide by zero) for numbs = 0 *)
Definition new_remap_ok (n : Z) : bool := negb (n =? 0).

(* SearchIndex: sort.Search(len(nps), nps[i] >= x), clamped to 0 outside [0, numbs) *)
Definition search_index_c (n x : Z) : Z :=
  let i := search 64 (fun i => x <=? nps n i) 0 n in
  if (i <? 0) || (n <=? i) then 0 else i.

(* XHashIndex: SearchIndex(XXHash(key)); XXHash panics where ToBytes panics. h = the hash of the key's bytes *)
Definition xhash_index (n : Z) (k : key) (h : Z) : option Z :=
  match to_bytes k with None => None | Some _ => Some (search_index_c n h) end.

(* SimpleIndex: int(it % numbs), other types fall through to XHashIndex *)
Definition simple_index (n : Z) (k : key) (h : Z) : option Z :=
  match simple_u64 k with
  | Some it => Some (Z.rem it n)
  | None => xhash_index n k h
  end.

Definition index (xh : bool) := if xh then xhash_index else simple_index.

(* which keys each entry point supports *)
Definition xhash_supported (k : key) : bool := match to_bytes k with Some _ => true | None => false end.
Definition simple_supported (k : key) : bool :=
  match simple_u64 k with Some _ => true | None => xhash_supported k end.
Definition supported (xh : bool) := if xh then xhash_supported else simple_supported.

(* ---------------- decidable equality on keys ---------------- *)
Fixpoint zl_eqb (a b : list Z) : bool :=
  match a, b with [], [] => true | x :: a', y :: b' => (x =? y) && zl_eqb a' b' | _, _ => false end.
Lemma zl_eqb_spec a : forall b, zl_eqb a b = true <-> a = b.
Proof.
  induction a as [|x a IH]; destruct b as [|y b]; cbn; split; try discriminate; auto.
  - intros H. apply andb_prop in H as [H1 H2]. apply Z.eqb_eq in H1. apply IH in H2. now subst.
  - intros H. inversion H; subst. rewrite Z.eqb_refl. cbn. now apply IH.
Qed.

Definition key_eqb (a b : key) : bool :=
  match a, b with
  | KU8 x, KU8 y | KI8 x, KI8 y | KI16 x, KI16 y | KU16 x, KU16 y | KI32 x, KI32 y | KU32 x, KU32 y
  | KI64 x, KI64 y | KU64 x, KU64 y | KInt x, KInt y | KUint x, KUint y | KHit x, KHit y | KOther x, KOther y => x =? y
  | KStr x, KStr y | KBytes x, KBytes y | KBs x, KBs y => zl_eqb x y
  | KHitBs h x, KHitBs g y => (h =? g) && zl_eqb x y
  | _, _ => false
  end.
Lemma key_eqb_spec a b : key_eqb a b = true <-> a = b.
Proof.
  split.
  - destruct a, b; cbn; intros H; try discriminate;
      try (apply Z.eqb_eq in H; now subst); try (apply zl_eqb_spec in H; now subst).
    apply andb_prop in H as [Ha Hb]. apply Z.eqb_eq in Ha. apply zl_eqb_spec in Hb. now subst.
  - intros <-. destruct a; cbn; try apply Z.eqb_refl; try (now apply zl_eqb_spec).
    rewrite Z.eqb_refl. cbn. now apply zl_eqb_spec.
Qed.

(* ---------------- proofs ---------------- *)
Lemma MaxU64_val : MaxU64 = 18446744073709551615.
Proof. reflexivity. Qed.

Lemma uwrap_range w x : 0 <= w -> 0 <= uwrap w x < 2 ^ w.
Proof. intros Hw. unfold uwrap. apply Z.mod_pos_bound. apply Z.pow_pos_nonneg; lia. Qed.

Lemma uwrap_small w x : 0 <= x < 2 ^ w -> uwrap w x = x.
Proof. intros H. unfold uwrap. now apply Z.mod_small. Qed.

(* Go's uint64(v) of a negative signed value: two's complement *)
Lemma uwrap64_neg v : - 2 ^ 63 <= v < 0 -> uwrap 64 v = v + 2 ^ 64.
Proof. intros H. unfold uwrap. symmetry. apply (Z.mod_unique v (2 ^ 64) (-1)); lia. Qed.
Lemma uwrap64_nonneg v : 0 <= v < 2 ^ 64 -> uwrap 64 v = v.
Proof. apply uwrap_small. Qed.

(* the products of NewReMap never wrap: nps is Remap.bound on the index range *)
Lemma mul_no_wrap n i : 1 <= n -> 0 <= i < n -> 0 <= (MaxU64 / n) * (i + 1) <= MaxU64.
Proof.
  intros Hn Hi.
  assert (Hy : 0 <= MaxU64 / n) by (apply Z.div_pos; [rewrite MaxU64_val|]; lia).
  assert (Hyn : (MaxU64 / n) * n <= MaxU64) by (rewrite Z.mul_comm; apply Z.mul_div_le; lia).
  split; [apply Z.mul_nonneg_nonneg; lia|].
  eapply Z.le_trans; [|exact Hyn]. apply Z.mul_le_mono_nonneg_l; lia.
Qed.

Lemma nps_bound n i : 1 <= n -> 0 <= i < n -> nps n i = bound n i.
Proof.
  intros Hn Hi. unfold nps, bound. destruct (i =? n - 1); [reflexivity|].
  apply uwrap_small. pose proof (mul_no_wrap n i Hn Hi) as H. change (2 ^ 64) with (MaxU64 + 1). lia.
Qed.

Lemma search_ext : forall fuel f g i j, (forall a, i <= a < j -> f a = g a) -> search fuel f i j = search fuel g i j.
Proof.
  induction fuel as [|k IH]; intros f g i j H; cbn [search]; [reflexivity|].
  destruct (i <? j) eqn:E; [|reflexivity]. apply Z.ltb_lt in E.
  assert (Hh : i <= (i + j) / 2 < j) by (split; [apply Z.div_le_lower_bound | apply Z.div_lt_upper_bound]; lia).
  rewrite <- (H ((i + j) / 2) Hh).
  destruct (f ((i + j) / 2)); apply IH; intros a Ha; apply H; lia.
Qed.

Lemma search_nps_bound n x : 1 <= n ->
  search 64 (fun i => x <=? nps n i) 0 n = Remap.search_index n x.
Proof.
  intros Hn. unfold Remap.search_index. apply search_ext. intros a Ha. now rewrite nps_bound by lia.
Qed.

(* the clamp of SearchIndex never fires *)
Theorem search_index_no_clamp n x : 1 <= n < 2 ^ 63 -> 0 <= x <= MaxU64 ->
  search_index_c n x = search 64 (fun i => x <=? nps n i) 0 n.
Proof.
  intros Hn Hx. unfold search_index_c. rewrite search_nps_bound by lia.
  destruct (search_index_range n x Hn Hx) as (R & _).
  replace (Remap.search_index n x <? 0) with false by (symmetry; apply Z.ltb_ge; lia).
  replace (n <=? Remap.search_index n x) with false by (symmetry; apply Z.leb_gt; lia).
  reflexivity.
Qed.

(* SearchIndex is in range and returns the partition cell of the hash: nps[i-1] < x <= nps[i] *)
Theorem search_index_c_spec n x : 1 <= n < 2 ^ 63 -> 0 <= x <= MaxU64 ->
  0 <= search_index_c n x < n /\ x <= nps n (search_index_c n x) /\
  (forall a, 0 <= a < search_index_c n x -> nps n a < x).
Proof.
  intros Hn Hx. rewrite search_index_no_clamp, search_nps_bound by lia.
  destruct (search_index_range n x Hn Hx) as (R & B & C).
  split; [lia|]. split.
  - rewrite nps_bound by lia. exact B.
  - intros a Ha. rewrite nps_bound by lia. now apply C.
Qed.

(* without any hypothesis on the hash the clamped result is still a legal slice index *)
Theorem search_index_c_total n x : 1 <= n -> 0 <= search_index_c n x < n.
Proof.
  intros Hn. unfold search_index_c.
  destruct (search 64 (fun i => x <=? nps n i) 0 n <? 0) eqn:E1; cbn [orb]; [lia|].
  destruct (n <=? search 64 (fun i => x <=? nps n i) 0 n) eqn:E2; [lia|].
  apply Z.ltb_ge in E1. apply Z.leb_gt in E2. lia.
Qed.

(* boundaries: ascending, the last one is the top of the 64-bit range *)
Theorem nps_monotone n a b : 1 <= n -> 0 <= a <= b -> b < n -> nps n a <= nps n b.
Proof. intros Hn Hab Hb. rewrite !nps_bound by lia. apply bound_monotone; lia. Qed.

Theorem nps_last n : nps n (n - 1) = MaxU64.
Proof. unfold nps. now rewrite Z.eqb_refl. Qed.

Lemma nps_strict n a : 1 <= n <= MaxU64 -> 0 <= a -> a + 1 < n -> nps n a < nps n (a + 1).
Proof.
  intros Hn Ha Hb. rewrite !nps_bound by lia. unfold bound.
  assert (Hy : 1 <= MaxU64 / n) by (apply Z.div_le_lower_bound; lia).
  assert (Hyn : (MaxU64 / n) * n <= MaxU64) by (rewrite Z.mul_comm; apply Z.mul_div_le; lia).
  replace (a =? n - 1) with false by (symmetry; apply Z.eqb_neq; lia).
  destruct (Z.eqb_spec (a + 1) (n - 1)) as [E|E].
  - assert ((MaxU64 / n) * (a + 1) < (MaxU64 / n) * n) by (apply Z.mul_lt_mono_pos_l; lia). lia.
  - apply Z.mul_lt_mono_pos_l; lia.
Qed.

(* exactly one cell: the cell condition determines the index *)
Theorem cell_unique n x i j : 1 <= n -> 0 <= i < n -> 0 <= j < n ->
  x <= nps n i -> (forall a, 0 <= a < i -> nps n a < x) ->
  x <= nps n j -> (forall a, 0 <= a < j -> nps n a < x) -> i = j.
Proof.
  intros Hn Hi Hj Hi1 Hi2 Hj1 Hj2.
  destruct (Z.lt_trichotomy i j) as [L|[E|L]]; [|exact E|].
  - specialize (Hj2 i ltac:(lia)). lia.
  - specialize (Hi2 j ltac:(lia)). lia.
Qed.

Theorem search_index_c_unique n x j : 1 <= n < 2 ^ 63 -> 0 <= x <= MaxU64 -> 0 <= j < n ->
  x <= nps n j -> (forall a, 0 <= a < j -> nps n a < x) -> search_index_c n x = j.
Proof.
  intros Hn Hx Hj H1 H2. destruct (search_index_c_spec n x Hn Hx) as (R & B & C).
  apply (cell_unique n x); auto; lia.
Qed.

(* the partition is monotone in the hash *)
Theorem search_index_c_monotone n x x' : 1 <= n < 2 ^ 63 -> 0 <= x <= x' -> x' <= MaxU64 ->
  search_index_c n x <= search_index_c n x'.
Proof.
  intros Hn Hx Hx'.
  destruct (search_index_c_spec n x Hn ltac:(lia)) as (R & B & C).
  destruct (search_index_c_spec n x' Hn ltac:(lia)) as (R' & B' & C').
  destruct (Z.le_gt_cases (search_index_c n x) (search_index_c n x')) as [L|L]; [exact L|].
  specialize (C (search_index_c n x') ltac:(lia)). lia.
Qed.

(* every shard owns at least its own upper boundary: the routing is onto [0, numbs) *)
Theorem search_index_c_onto n i : 1 <= n < 2 ^ 63 -> 0 <= i < n -> search_index_c n (nps n i) = i.
Proof.
  intros Hn Hi.
  assert (Hr : 0 <= nps n i <= MaxU64).
  { rewrite nps_bound by lia. unfold bound. destruct (i =? n - 1); [rewrite MaxU64_val; lia|]. apply mul_no_wrap; lia. }
  apply search_index_c_unique; auto; [lia|].
  intros a Ha.
  assert (Hn' : 1 <= n <= MaxU64) by (rewrite MaxU64_val; lia).
  assert (Hs : forall d, 0 <= d -> a + 1 + d < n -> nps n a < nps n (a + 1 + d)).
  { intros d Hd. pattern d. apply natlike_ind; [| |exact Hd].
    - intros H. rewrite Z.add_0_r. apply nps_strict; lia.
    - intros d' Hd' IH H. specialize (IH ltac:(lia)).
      pose proof (nps_strict n (a + 1 + d') Hn' ltac:(lia) ltac:(lia)) as S.
      replace (a + 1 + Z.succ d') with (a + 1 + d' + 1) by lia. lia. }
  specialize (Hs (i - a - 1) ltac:(lia) ltac:(lia)). replace (a + 1 + (i - a - 1)) with i in Hs by lia. exact Hs.
Qed.

Theorem search_index_c_zero n : 1 <= n < 2 ^ 63 -> search_index_c n 0 = 0.
Proof.
  intros Hn. apply search_index_c_unique.
  - exact Hn.
  - rewrite MaxU64_val; lia.
  - lia.
  - rewrite nps_bound by lia. unfold bound. destruct (0 =? n - 1); [rewrite MaxU64_val; lia|]. apply mul_no_wrap; lia.
  - intros a Ha; lia.
Qed.

Theorem search_index_c_max n : 1 <= n < 2 ^ 63 -> search_index_c n MaxU64 = n - 1.
Proof. intros Hn. rewrite <- (nps_last n). apply search_index_c_onto; lia. Qed.

(* SimpleIndex / XHashIndex: total on the supported keys and in range *)
Theorem xhash_index_range n k h : 1 <= n -> xhash_supported k = true ->
  exists i, xhash_index n k h = Some i /\ 0 <= i < n.
Proof.
  intros Hn Hs. unfold xhash_index, xhash_supported in *. destruct (to_bytes k); [|discriminate].
  eexists. split; [reflexivity|]. now apply search_index_c_total.
Qed.

Lemma simple_u64_range k it : simple_u64 k = Some it -> 0 <= it < 2 ^ 64.
Proof. destruct k; cbn; intros H; inversion H; apply uwrap_range; lia. Qed.

Theorem simple_index_range n k h : 1 <= n -> simple_supported k = true ->
  exists i, simple_index n k h = Some i /\ 0 <= i < n.
Proof.
  intros Hn Hs. unfold simple_index, simple_supported in *. destruct (simple_u64 k) as [it|] eqn:E.
  - eexists. split; [reflexivity|]. pose proof (simple_u64_range k it E). apply Z.rem_bound_pos; lia.
  - now apply xhash_index_range.
Qed.

Theorem index_range xh n k h : 1 <= n -> supported xh k = true ->
  exists i, index xh n k h = Some i /\ 0 <= i < n.
Proof. destruct xh; [apply xhash_index_range | apply simple_index_range]. Qed.

(* unsupported keys are rejected (panic), never mapped to a default shard *)
Theorem index_unsupported xh n k h : supported xh k = false -> index xh n k h = None.
Proof.
  destruct xh; cbn [supported index]; unfold simple_supported, simple_index, xhash_supported, xhash_index.
  - destruct (to_bytes k); [discriminate|reflexivity].
  - destruct (simple_u64 k); [discriminate|]. destruct (to_bytes k); [discriminate|reflexivity].
Qed.

(* integer keys: the index is the value reduced modulo the shard count, negative values as two's complement *)
Theorem simple_index_int n k it h : 1 <= n -> simple_u64 k = Some it -> simple_index n k h = Some (it mod n).
Proof.
  intros Hn E. unfold simple_index. rewrite E. pose proof (simple_u64_range k it E).
  rewrite Z.rem_mod_nonneg by lia. reflexivity.
Qed.

(* signed integer keys of every width: non-negative values route by the value, negative ones by value + 2^64 *)
Definition signed_val (k : key) : option Z :=
  match k with KI8 v | KI16 v | KI32 v | KI64 v | KInt v => Some v | _ => None end.
Theorem simple_index_signed n k v h : 1 <= n -> signed_val k = Some v -> - 2 ^ 63 <= v < 2 ^ 63 ->
  simple_index n k h = Some ((if v <? 0 then v + 2 ^ 64 else v) mod n).
Proof.
  intros Hn Hk Hv.
  assert (E : simple_u64 k = Some (uwrap 64 v)) by (destruct k; cbn in Hk; inversion Hk; subst; reflexivity).
  rewrite (simple_index_int n k _ h Hn E). f_equal. f_equal.
  destruct (v <? 0) eqn:L; [apply Z.ltb_lt in L; apply uwrap64_neg; lia | apply Z.ltb_ge in L; apply uwrap64_nonneg; lia].
Qed.

(* the hash route depends on the key only through its bytes (stability across key types with equal bytes) *)
Theorem xhash_index_bytes n k k' h : xhash_supported k = true -> xhash_supported k' = true ->
  xhash_index n k h = xhash_index n k' h.
Proof. unfold xhash_supported, xhash_index. destruct (to_bytes k), (to_bytes k'); try discriminate. reflexivity. Qed.

(* ToBytes of an integer has the width of its type, every byte in range *)
Lemma le_bytes_length n : forall w, length (le_bytes n w) = n.
Proof. induction n as [|n IH]; intros w; cbn; [reflexivity|]. now rewrite IH. Qed.
Lemma le_bytes_range n : forall w, Forall (fun b => 0 <= b < 256) (le_bytes n w).
Proof. induction n as [|n IH]; intros w; cbn; constructor; [apply Z.mod_pos_bound; lia|apply IH]. Qed.

(* non-vacuity *)
Example ex_neg_int8 : simple_index 73 (KI8 (-1)) 0 = Some 1.
Proof. vm_compute. reflexivity. Qed.
Example ex_minint : simple_index 73 (KI64 (- 2 ^ 63)) 0 = Some 1.
Proof. vm_compute. reflexivity. Qed.
Example ex_search_73 : search_index_c 73 (252695124297391118 + 1) = 1 /\ search_index_c 73 252695124297391118 = 0
  /\ search_index_c 73 MaxU64 = 72.
Proof. vm_compute. repeat split. Qed.
Example ex_bytes : to_bytes (KI16 (-2)) = Some [254; 255].
Proof. vm_compute. reflexivity. Qed.

(* what goes wrong without the repairs the code contains (kept as named variants) *)
(* a remap whose last boundary is not forced to MaxUint64 sends the top of the range to shard 0 through the clamp *)
Definition nps_unforced (n i : Z) : Z := uwrap 64 ((MaxU64 / n) * (i + 1)).
Definition search_index_unforced (n x : Z) : Z :=
  let i := search 64 (fun i => x <=? nps_unforced n i) 0 n in if (i <? 0) || (n <=? i) then 0 else i.
Example unforced_not_monotone : search_index_unforced 73 (MaxU64 - 1) = 72 /\ search_index_unforced 73 MaxU64 = 0.
Proof. vm_compute. split; reflexivity. Qed.

Print Assumptions search_index_c_spec.
Print Assumptions search_index_c_onto.
Print Assumptions simple_index_range.
