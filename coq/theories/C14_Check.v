(* C14: what the driver evaluates on every observed case.
   case_accept c = the observed trace is a complete run of the lane-family LTS and every observation (what each submitting
                   caller was told, which callee was entered with which lane index, what each caller received, that the
                   lane goroutines returned) is what the model state says (C14_Case.case_matches);
   case_holds c  = the monitor of the property's clauses over the observed items only (C14_Case.case_holds);
   case_sound    = C14_Sound.case_matches_holds: a simulation between the replayed family and the monitor state. *)
From Coq Require Import List Bool Arith ZArith.
Require Export C14_Case.
Require Import C14_Sound.
Import ListNotations.
Close Scope Z_scope.

Definition case_accept (c : case) : bool := case_matches c.

Theorem case_sound : forall c, case_accept c = true -> case_holds c = true.
Proof. exact case_matches_holds. Qed.

(* non-vacuity: a MultiLine run with 2 lanes: calls 1 and 2 on lane 1 (hashes 3 and -5), call 3 on lane 0 *)
Example demo_case_accepts :
  case_accept (CRun XMulti 2 1 true [(1, 3%Z, false, 1%Z); (2, (-5)%Z, true, 1%Z); (3, 4%Z, false, 0%Z); (4, 1%Z, false, 1%Z)]
    [ISub 1 SAcc; IStart 1 1; ISub 2 SAcc; ISub 4 SFull; ISub 3 SAcc; IStart 0 3; ICancel 2; IGot 2 FromCtx (CtxErr 2);
     IStop; IEnd 1 1; IGot 1 FromSlot (Val 2); IStart 1 2; IEnd 0 3; IGot 3 FromSlot (Val 6); IExit 0; IEnd 1 2; IExit 1; IWait]) = true.
Proof. vm_compute. reflexivity. Qed.
(* the same observation with the two calls of lane 1 overlapping is rejected by the monitor *)
Example demo_case_overlap_rejected :
  case_holds (CRun XMulti 2 1 true [(1, 3%Z, false, 1%Z); (2, (-5)%Z, true, 1%Z)]
    [ISub 1 SAcc; IStart 1 1; ISub 2 SAcc; IStart 1 2; IEnd 1 1; IEnd 1 2; IGot 1 FromSlot (Val 2); IGot 2 FromSlot (Val 5); IStop; IWait]) = false.
Proof. vm_compute. reflexivity. Qed.
Example demo_slot_minint : case_accept (CSlot MinInt 509 (Some 151%Z)) = true /\ case_holds (CSlot MinInt 509 (Some (-151)%Z)) = false.
Proof. split; vm_compute; reflexivity. Qed.
