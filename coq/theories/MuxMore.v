(* C15: the two remaining clauses: an add for a cached key is rejected as duplicate without touching anything,
   and a successful delete removes the cached entry *)
From Coq Require Import ZArith List Bool Lia.
Require Import Mux.
Import ListNotations.
Open Scope Z_scope.

Section More.
Variable cset : fmap -> Z -> Z -> fmap.
Variable cdel : fmap -> Z -> fmap.
Hypothesis cdel_law : forall c k k' v', cdel c k k' = Some v' -> k' <> k /\ c k' = Some v'.
Variable mix : Z -> Z -> Z.
Notation handle := (handle cset cdel mix).

Theorem add_dup s k d v : cache s k = Some v -> handle s (Add k d) = (s, Dup).
Proof. intros H. cbn [Mux.handle]. rewrite H. reflexivity. Qed.

Theorem delete_removes s k : snd (handle s (Delete k)) = OkNil ->
  cache (fst (handle s (Delete k))) k = None /\ store (fst (handle s (Delete k))) k = None.
Proof.
  cbn [Mux.handle]. unfold cb_del, fails. destruct (faults s) as [|[] r]; cbn [fst snd]; try discriminate; intros _.
  - cbn [cache store with_cache with_store]. split.
    + destruct (cdel (cache s) k k) as [v|] eqn:E; [|reflexivity]. destruct (cdel_law _ _ _ _ E) as [Hne _]. congruence.
    + unfold upd. rewrite Z.eqb_refl. reflexivity.
  - cbn [cache store with_cache with_store]. split.
    + destruct (cdel (cache s) k k) as [v|] eqn:E; [|reflexivity]. destruct (cdel_law _ _ _ _ E) as [Hne _]. congruence.
    + unfold upd. rewrite Z.eqb_refl. reflexivity.
Qed.

(* a failed delete changes neither the cache nor the store *)
Theorem delete_failed s k : snd (handle s (Delete k)) = Err ->
  cache (fst (handle s (Delete k))) = cache s /\ store (fst (handle s (Delete k))) = store s.
Proof.
  cbn [Mux.handle]. unfold cb_del, fails. destruct (faults s) as [|[] r]; cbn [fst snd]; try discriminate; intros _; cbn; auto.
Qed.
End More.
Print Assumptions add_dup.
Print Assumptions delete_removes.
