(* C02: the reference-counted table of lock objects (two counts per entry, fresh object per created entry):
   registration and unregistration keep "count = number of registrations", "one object per key", "every
   registration points at the table's current object"; hence no entry is freed while in use and none is kept. *)
From Coq Require Import List Lia Bool Arith.
Require Import C02_Model.
Import ListNotations.

Definition cntk (k : nat) (w : bool) (l : list reg) : nat :=
  length (filter (fun r => Nat.eqb (gk r) k && Bool.eqb (gw r) w) l).
Definition rpair (r : reg) : nat * nat := (gt r, gk r).

Definition TInv (b : tbl) : Prop :=
  (forall k, match tmap b k with
             | Some e => eobj e < tnext b /\ erc e = cntk k false (tregs b) /\ ewc e = cntk k true (tregs b) /\
                         1 <= erc e + ewc e /\ (forall r, In r (tregs b) -> gk r = k -> go r = eobj e)
             | None => forall r, In r (tregs b) -> gk r <> k
             end) /\
  (forall k1 k2 e1 e2, tmap b k1 = Some e1 -> tmap b k2 = Some e2 -> eobj e1 = eobj e2 -> k1 = k2) /\
  NoDup (map rpair (tregs b)).

Lemma cntk_cons k w r l : cntk k w (r :: l) = (if Nat.eqb (gk r) k && Bool.eqb (gw r) w then 1 else 0) + cntk k w l.
Proof. unfold cntk. cbn [filter]. destruct (Nat.eqb (gk r) k && Bool.eqb (gw r) w); reflexivity. Qed.
Lemma cntk_zero k w l : (forall r, In r l -> gk r <> k) -> cntk k w l = 0.
Proof.
  induction l as [|r l IH]; intros H; [reflexivity|]. rewrite cntk_cons, IH by (intros r' Hr'; apply H; right; exact Hr').
  assert (E : Nat.eqb (gk r) k = false) by (apply Nat.eqb_neq, H; left; reflexivity). rewrite E. reflexivity.
Qed.
Lemma cntk_pos k w r l : In r l -> gk r = k -> gw r = w -> 1 <= cntk k w l.
Proof.
  induction l as [|r0 l IH]; intros Hin Hk Hw; [destruct Hin|]. rewrite cntk_cons. destruct Hin as [->|Hin].
  - rewrite Hk, Hw, Nat.eqb_refl, eqb_reflx. cbn [andb]. lia.
  - specialize (IH Hin Hk Hw). lia.
Qed.
Lemma cntk_zero_inv k l : cntk k false l = 0 -> cntk k true l = 0 -> forall r, In r l -> gk r <> k.
Proof.
  intros H0 H1 r Hin Hk. destruct (gw r) eqn:Ew.
  - pose proof (cntk_pos k true r l Hin Hk Ew). lia.
  - pose proof (cntk_pos k false r l Hin Hk Ew). lia.
Qed.

Lemma tinv_init : TInv {| tmap := fun _ => None; tnext := 0; tregs := [] |}.
Proof. split; [|split]; cbn; [intros k r []|intros; discriminate|constructor]. Qed.

(* ---------------- registration of one key ---------------- *)
Lemma reg_key_inv t w b k b' o :
  TInv b -> (forall r, In r (tregs b) -> gt r = t -> gk r <> k) -> reg_key t w b k = (b', o) ->
  TInv b' /\ tregs b' = {| gt := t; gk := k; go := o; gw := w |} :: tregs b /\ tnext b <= tnext b' /\
  (forall x, x <> k -> tmap b' x = tmap b x) /\ (exists e, tmap b' k = Some e /\ eobj e = o).
Proof.
  intros (HT & HJ & HN) Hfresh H. unfold reg_key in H. pose proof (HT k) as Hk.
  destruct (tmap b k) as [e|] eqn:Ek; inversion H; subst b' o; clear H; unfold TInv; cbn [tmap tnext tregs].
  - (* the entry exists *)
    destruct Hk as (K1 & K2 & K3 & K4 & K5).
    split; [|split; [reflexivity|split; [lia|split; [intros x Hx; apply upd_other, Hx|exists (bump w e); split; [apply upd_same|destruct w; reflexivity]]]]].
    split; [|split].
    + intros x. destruct (Nat.eq_dec x k) as [->|Hne].
      * rewrite upd_same. rewrite !cntk_cons. cbn [gk gw]. rewrite Nat.eqb_refl. cbn [andb].
        destruct w; cbn [bump eobj erc ewc Bool.eqb];
          (split; [exact K1|split; [lia|split; [lia|split; [lia|]]]]);
          intros r [<-|Hr] Hrk; cbn [go]; auto.
      * rewrite upd_other by exact Hne. pose proof (HT x) as Hx. destruct (tmap b x) as [e'|].
        -- destruct Hx as (X1 & X2 & X3 & X4 & X5). rewrite !cntk_cons. cbn [gk gw].
           assert (E : Nat.eqb k x = false) by (apply Nat.eqb_neq; congruence). rewrite E. cbn [andb].
           split; [exact X1|split; [exact X2|split; [exact X3|split; [exact X4|]]]].
           intros r [<-|Hr] Hrk; [cbn [gk] in Hrk; congruence|apply X5; assumption].
        -- intros r [<-|Hr]; [cbn [gk]; congruence|apply Hx, Hr].
    + intros k1 k2 e1 e2 H1 H2 He.
      assert (G : forall x ex, upd (tmap b) k (Some (bump w e)) x = Some ex -> exists e0, tmap b x = Some e0 /\ eobj e0 = eobj ex).
      { intros x ex Hx. destruct (Nat.eq_dec x k) as [->|Hne].
        - rewrite upd_same in Hx. inversion Hx; subst ex. exists e. split; [exact Ek|destruct w; reflexivity].
        - rewrite upd_other in Hx by exact Hne. exists ex. auto. }
      destruct (G k1 e1 H1) as (a1 & A1 & A2). destruct (G k2 e2 H2) as (a2 & B1 & B2).
      apply (HJ k1 k2 a1 a2 A1 B1). congruence.
    + cbn [map]. constructor; [|exact HN]. intros Hin. apply in_map_iff in Hin. destruct Hin as (r & Hr & Hin).
      unfold rpair in Hr. cbn [gt gk] in Hr. inversion Hr. apply (Hfresh r Hin); assumption.
  - (* a new entry with a fresh object *)
    split; [|split; [reflexivity|split; [lia|split; [intros x Hx; apply upd_other, Hx|eexists; split; [apply upd_same|destruct w; reflexivity]]]]].
    split; [|split].
    + intros x. destruct (Nat.eq_dec x k) as [->|Hne].
      * rewrite upd_same. rewrite !cntk_cons. cbn [gk gw]. rewrite Nat.eqb_refl. cbn [andb].
        rewrite (cntk_zero k false _ Hk), (cntk_zero k true _ Hk).
        destruct w; cbn [bump eobj erc ewc Bool.eqb];
          (split; [lia|split; [lia|split; [lia|split; [lia|]]]]);
          (intros r [<-|Hr] Hrk; cbn [go]; [reflexivity|exfalso; exact (Hk r Hr Hrk)]).
      * rewrite upd_other by exact Hne. pose proof (HT x) as Hx. destruct (tmap b x) as [e'|].
        -- destruct Hx as (X1 & X2 & X3 & X4 & X5). rewrite !cntk_cons. cbn [gk gw].
           assert (E : Nat.eqb k x = false) by (apply Nat.eqb_neq; congruence). rewrite E. cbn [andb].
           split; [lia|split; [exact X2|split; [exact X3|split; [exact X4|]]]].
           intros r [<-|Hr] Hrk; [cbn [gk] in Hrk; congruence|apply X5; assumption].
        -- intros r [<-|Hr]; [cbn [gk]; congruence|apply Hx, Hr].
    + intros k1 k2 e1 e2 H1 H2 He.
      destruct (Nat.eq_dec k1 k) as [->|N1]; destruct (Nat.eq_dec k2 k) as [->|N2]; [reflexivity| | |].
      * exfalso. rewrite upd_same in H1. rewrite upd_other in H2 by exact N2. inversion H1; subst e1.
        pose proof (HT k2) as X. rewrite H2 in X. destruct X as (X1 & _). destruct w; cbn [bump eobj] in He; lia.
      * exfalso. rewrite upd_same in H2. rewrite upd_other in H1 by exact N1. inversion H2; subst e2.
        pose proof (HT k1) as X. rewrite H1 in X. destruct X as (X1 & _). destruct w; cbn [bump eobj] in He; lia.
      * rewrite upd_other in H1 by exact N1. rewrite upd_other in H2 by exact N2. apply (HJ k1 k2 e1 e2 H1 H2 He).
    + cbn [map]. constructor; [|exact HN]. intros Hin. apply in_map_iff in Hin. destruct Hin as (r & Hr & Hin).
      unfold rpair in Hr. cbn [gt gk] in Hr. inversion Hr. apply (Hfresh r Hin); assumption.
Qed.

(* ---------------- one table section of getWriteLocks / getReadLocks ---------------- *)
Lemma reg_keys_spec t w : forall c b b' os,
  TInv b -> NoDup c -> (forall r, In r (tregs b) -> gt r = t -> ~ In (gk r) c) -> reg_keys t w b c = (b', os) ->
  TInv b' /\ length os = length c /\ tnext b <= tnext b' /\
  (forall x, ~ In x c -> tmap b' x = tmap b x) /\
  exists news, tregs b' = news ++ tregs b /\
               (forall r, In r news -> gt r = t /\ gw r = w /\ In (gk r, go r) (combine c os)) /\
               (forall k o, In (k, o) (combine c os) -> In {| gt := t; gk := k; go := o; gw := w |} news).
Proof.
  induction c as [|k c IH]; intros b b' os HT Hnd Hfresh H; cbn [reg_keys] in H.
  - inversion H; subst. split; [exact HT|split; [reflexivity|split; [lia|split; [reflexivity|]]]]. exists []. cbn. split; [reflexivity|split; intros; contradiction].
  - destruct (reg_key t w b k) as [b1 o] eqn:E1. destruct (reg_keys t w b1 c) as [b2 os'] eqn:E2. inversion H; subst b' os; clear H.
    inversion Hnd as [|? ? Hk Hc]; subst.
    destruct (reg_key_inv t w b k b1 o HT) as (HT1 & R1 & N1 & M1 & (e1 & Me & Oe)); [intros r Hr Ht Hrk; apply (Hfresh r Hr Ht); left; congruence|exact E1|].
    destruct (IH b1 b2 os' HT1 Hc) as (HT2 & L2 & N2 & M2 & (news & R2 & A2 & B2)); [|exact E2|].
    { rewrite R1. intros r [<-|Hr] Ht; cbn [gk]; [exact Hk|]. intros Hin. apply (Hfresh r Hr Ht). right. exact Hin. }
    split; [exact HT2|split; [cbn [length]; lia|split; [lia|split]]].
    + intros x Hx. rewrite M2 by (intros Hin; apply Hx; right; exact Hin). apply M1. intros ->. apply Hx. left. reflexivity.
    + exists (news ++ [{| gt := t; gk := k; go := o; gw := w |}]). split; [rewrite R2, R1, <- app_assoc; reflexivity|split].
      * intros r Hin. apply in_app_or in Hin. destruct Hin as [Hin|[<-|[]]].
        -- destruct (A2 r Hin) as (P1 & P2 & P3). split; [exact P1|split; [exact P2|right; exact P3]].
        -- cbn [gt gw gk go combine]. split; [reflexivity|split; [reflexivity|left; reflexivity]].
      * intros k' o' [E|Hin]; apply in_or_app; [right; left; inversion E; reflexivity|left; apply B2, Hin].
Qed.

(* ---------------- unregistration of one key ---------------- *)
Lemma remove_reg_spec t k r0 : forall l, NoDup (map rpair l) -> In r0 l -> gt r0 = t -> gk r0 = k ->
  (forall r, In r (remove_reg t k l) <-> In r l /\ (gt r <> t \/ gk r <> k)) /\
  (forall x w', cntk x w' l = cntk x w' (remove_reg t k l) + (if Nat.eqb k x && Bool.eqb (gw r0) w' then 1 else 0)) /\
  NoDup (map rpair (remove_reg t k l)).
Proof.
  induction l as [|r l IH]; intros Hnd Hin Ht Hk; [destruct Hin|]. cbn [map] in Hnd. inversion Hnd as [|? ? Hnot Hnd']; subst.
  cbn [remove_reg]. destruct (Nat.eqb (gt r) (gt r0) && Nat.eqb (gk r) (gk r0)) eqn:E.
  - apply andb_prop in E. destruct E as [E1 E2]. apply Nat.eqb_eq in E1. apply Nat.eqb_eq in E2.
    assert (Hr : r = r0).
    { destruct Hin as [H|H]; [exact H|]. exfalso. apply Hnot. apply in_map_iff. exists r0. split; [unfold rpair; congruence|exact H]. }
    subst r. split; [|split; [|exact Hnd']].
    + intros r. split.
      * intros H. split; [right; exact H|]. destruct (Nat.eq_dec (gt r) (gt r0)) as [Et|]; [|left; assumption].
        destruct (Nat.eq_dec (gk r) (gk r0)) as [Ek|]; [|right; assumption]. exfalso. apply Hnot. apply in_map_iff.
        exists r. split; [unfold rpair; congruence|exact H].
      * intros [[<-|H] Hne]; [destruct Hne as [Hne|Hne]; congruence|exact H].
    + intros x w'. rewrite cntk_cons. lia.
  - assert (Hne : r <> r0) by (intros ->; rewrite !Nat.eqb_refl in E; discriminate).
    destruct Hin as [H|H]; [congruence|]. destruct (IH Hnd' H eq_refl eq_refl) as (A & B & C).
    split; [|split].
    + intros r'. cbn [In]. rewrite A. split.
      * intros [<-|[H1 H2]]; [split; [left; reflexivity|]|split; [right; exact H1|exact H2]].
        apply andb_false_iff in E. destruct E as [E|E]; apply Nat.eqb_neq in E; auto.
      * intros [[<-|H1] H2]; [left; reflexivity|right; split; assumption].
    + intros x w'. rewrite !cntk_cons, (B x w'). lia.
    + cbn [map]. constructor; [|exact C]. intros Hin. apply Hnot. apply in_map_iff in Hin. destruct Hin as (r' & Hr' & Hin).
      apply in_map_iff. exists r'. split; [exact Hr'|]. apply A in Hin. apply Hin.
Qed.

Lemma unreg_key_inv t w b k o0 :
  TInv b -> In {| gt := t; gk := k; go := o0; gw := w |} (tregs b) ->
  exists b', unreg_key t w b k = Some (b', o0) /\ TInv b' /\ tregs b' = remove_reg t k (tregs b) /\ tnext b' = tnext b /\
             (forall x, x <> k -> tmap b' x = tmap b x) /\
             (forall r, In r (tregs b') <-> In r (tregs b) /\ (gt r <> t \/ gk r <> k)).
Proof.
  intros (HT & HJ & HN) Hin. set (r0 := {| gt := t; gk := k; go := o0; gw := w |}) in *.
  pose proof (HT k) as Hk. unfold unreg_key. destruct (tmap b k) as [e|] eqn:Ek; [|exfalso; exact (Hk r0 Hin eq_refl)].
  destruct Hk as (K1 & K2 & K3 & K4 & K5).
  assert (Ho : eobj e = o0) by (symmetry; apply (K5 r0 Hin eq_refl)).
  assert (Hc : 1 <= cnt w e).
  { unfold cnt. destruct w; [rewrite K3|rewrite K2]; apply (cntk_pos k _ r0 _ Hin eq_refl eq_refl). }
  destruct (Nat.eqb (cnt w e) 0) eqn:Ez; [apply Nat.eqb_eq in Ez; lia|].
  destruct (remove_reg_spec t k r0 (tregs b) HN Hin eq_refl eq_refl) as (A & B & C).
  eexists. split; [rewrite Ho; reflexivity|]. unfold TInv. cbn [tregs tnext tmap].
  split; [|split; [reflexivity|split; [reflexivity|split; [intros x Hx; apply upd_other, Hx|exact A]]]].
  assert (Crc : erc (drop w e) = cntk k false (remove_reg t k (tregs b))).
  { pose proof (B k false) as Bk. rewrite Nat.eqb_refl in Bk. cbn [r0 gw andb] in Bk. unfold cnt in Hc.
    destruct w; cbn [drop erc Bool.eqb] in *; lia. }
  assert (Cwc : ewc (drop w e) = cntk k true (remove_reg t k (tregs b))).
  { pose proof (B k true) as Bk. rewrite Nat.eqb_refl in Bk. cbn [r0 gw andb] in Bk. unfold cnt in Hc.
    destruct w; cbn [drop ewc Bool.eqb] in *; lia. }
  split; [|split; [|exact C]].
  - intros x. destruct (Nat.eq_dec x k) as [->|Hne].
    + rewrite upd_same. destruct (Nat.eqb (erc (drop w e)) 0 && Nat.eqb (ewc (drop w e)) 0) eqn:Ezz.
      * apply andb_prop in Ezz. destruct Ezz as [Z1 Z2]. apply Nat.eqb_eq in Z1. apply Nat.eqb_eq in Z2.
        apply cntk_zero_inv; congruence.
      * split; [destruct w; exact K1|split; [exact Crc|split; [exact Cwc|split]]].
        -- apply andb_false_iff in Ezz. destruct Ezz as [Z|Z]; apply Nat.eqb_neq in Z; lia.
        -- intros r Hr Hrk. apply A in Hr. destruct Hr as [Hr _]. replace (eobj (drop w e)) with (eobj e) by (destruct w; reflexivity). apply K5; assumption.
    + rewrite upd_other by exact Hne. pose proof (HT x) as Hx. destruct (tmap b x) as [e'|].
      * destruct Hx as (X1 & X2 & X3 & X4 & X5).
        assert (E : Nat.eqb k x = false) by (apply Nat.eqb_neq; congruence).
        pose proof (B x false) as Bf. pose proof (B x true) as Bt. rewrite E in Bf, Bt. cbn [andb] in Bf, Bt.
        split; [exact X1|split; [lia|split; [lia|split; [exact X4|]]]].
        intros r Hr Hrk. apply A in Hr. apply X5; [apply Hr|exact Hrk].
      * intros r Hr. apply A in Hr. apply Hx, Hr.
  - intros k1 k2 e1 e2 H1 H2 He.
    assert (G : forall x ex, upd (tmap b) k (if Nat.eqb (erc (drop w e)) 0 && Nat.eqb (ewc (drop w e)) 0 then None else Some (drop w e)) x = Some ex ->
                exists e0, tmap b x = Some e0 /\ eobj e0 = eobj ex).
    { intros x ex Hx. destruct (Nat.eq_dec x k) as [->|Hne].
      - rewrite upd_same in Hx. destruct (Nat.eqb (erc (drop w e)) 0 && Nat.eqb (ewc (drop w e)) 0); [discriminate|].
        inversion Hx; subst ex. exists e. split; [exact Ek|destruct w; reflexivity].
      - rewrite upd_other in Hx by exact Hne. exists ex. auto. }
    destruct (G k1 e1 H1) as (a1 & A1 & A2). destruct (G k2 e2 H2) as (a2 & B1 & B2).
    apply (HJ k1 k2 a1 a2 A1 B1). congruence.
Qed.

(* reclaim at table level: with no registration left the table is empty *)
Lemma tinv_empty b : TInv b -> tregs b = [] -> forall k, tmap b k = None.
Proof.
  intros (HT & _) Hr k. pose proof (HT k) as Hk. destruct (tmap b k) as [e|]; [|reflexivity].
  destruct Hk as (_ & K2 & K3 & K4 & _). rewrite Hr in K2, K3. cbn in K2, K3. lia.
Qed.
