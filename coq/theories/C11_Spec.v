(* C11: the abstract contract of bytes.Buffer, reduced to what a caller can observe, extended by the two
   additions of tex.Buffer (ReWrite, NewSizedBuffer).

   un     the unread contents;
   lastk  what the most recent operation was, as far as Unread* care: None = not a successful read;
          Some (false, [c]) = a read that consumed c last; Some (true, bs) = ReadRune consumed exactly bs;
   pre    the bytes already consumed that are still addressable by ReWrite in front of the unread ones
          (ReWrite addresses the storage from its start).  Some l = they are exactly l;  None = the contract
          does not say (a write or Grow after reads may or may not have moved the data: that is the
          capacity policy, which is not part of the contract). *)
From Coq Require Import ZArith List Lia Bool Arith.
Import ListNotations.
Require Import ReWrite C11_Utf8 TexModel.

Record spec := { un : list Z; lastk : option (bool * list Z); pre : option (list Z) }.
Definition mk (u : list Z) (l : option (bool * list Z)) (p : option (list Z)) : spec := {| un := u; lastk := l; pre := p |}.

(* after something that may move the data: still known only when nothing was in front *)
Definition pre_w (p : option (list Z)) : option (list Z) := match p with Some [] => Some [] | _ => None end.
Definition pre_app (p : option (list Z)) (c : list Z) : option (list Z) := option_map (fun l => l ++ c) p.
(* a read that consumed c (non-empty iff it read anything) *)
Definition last_read (c : list Z) : option (bool * list Z) :=
  match c with [] => None | _ => Some (false, [last c 0%Z]) end.

Fixpoint sread_from (u : list Z) (sc : list (list Z * Z)) (n : Z) : list Z * obs :=
  match sc with
  | [] => (u, (st_ok, [n]))
  | (chunk, e) :: sc' =>
    if (e =? -1)%Z then (u, (st_neg_read, []))
    else
      let u' := u ++ chunk in
      let n' := (n + zn (length chunk))%Z in
      if (e =? 1)%Z then (u', (st_ok, [n']))
      else if (e =? 0)%Z then sread_from u' sc' n'
      else (u', (st_user e, [n']))
  end.

Definition consume (s : spec) (k : nat) (lk : option (bool * list Z)) : spec :=
  mk (skipn k (un s)) lk (pre_app (pre s) (firstn k (un s))).
Definition emptied : spec := mk [] None (Some []).

Definition sstep (s : spec) (o : op) : spec * obs :=
  match o with
  | Write p | WriteString p => (mk (un s ++ p) None (pre_w (pre s)), (st_ok, [zn (length p)]))
  | WriteByte c => (mk (un s ++ [c]) None (pre_w (pre s)), (st_ok, []))
  | WriteRune r => let enc := encode_rune r in (mk (un s ++ enc) None (pre_w (pre s)), (st_ok, [zn (length enc)]))
  | Read n =>
      if Nat.eqb (length (un s)) 0 then (emptied, (if Nat.eqb n 0 then st_ok else st_eof, [0%Z]))
      else let k := Nat.min n (length (un s)) in
           (consume s k (last_read (firstn k (un s))), (st_ok, zn k :: firstn k (un s)))
  | ReadByte =>
      if Nat.eqb (length (un s)) 0 then (emptied, (st_eof, [0%Z]))
      else (consume s 1 (last_read (firstn 1 (un s))), (st_ok, firstn 1 (un s)))
  | ReadRune =>
      if Nat.eqb (length (un s)) 0 then (emptied, (st_eof, [0%Z; 0%Z]))
      else
        let c := hd 0%Z (un s) in
        if (c <? 128)%Z then (consume s 1 (Some (true, firstn 1 (un s))), (st_ok, [c; 1%Z]))
        else let '(r, n) := decode_rune (un s) in
             (consume s n (Some (true, firstn n (un s))), (st_ok, [r; zn n]))
  | UnreadByte =>
      match lastk s with
      | None => (s, (st_unread, []))
      | Some (_, bs) => (mk (last bs 0%Z :: un s) None (option_map (@removelast Z) (pre s)), (st_ok, []))
      end
  | UnreadRune =>
      match lastk s with
      | Some (true, bs) =>
          (mk (bs ++ un s) None (option_map (fun l => firstn (length l - length bs) l) (pre s)), (st_ok, []))
      | _ => (s, (st_unread, []))
      end
  | Next n =>
      if (n <? 0)%Z then (mk (un s) None (pre s), (st_panic, []))
      else let k := Nat.min (Z.to_nat n) (length (un s)) in
           (consume s k (last_read (firstn k (un s))), (st_ok, firstn k (un s)))
  | Truncate n =>
      if (n =? 0)%Z then (emptied, (st_ok, []))
      else if (n <? 0)%Z || (zn (length (un s)) <? n)%Z then (mk (un s) None (pre s), (st_trunc, []))
      else (mk (firstn (Z.to_nat n) (un s)) None (pre s), (st_ok, []))
  | Reset => (emptied, (st_ok, []))
  | Grow n =>
      if (n <? 0)%Z then (s, (st_neg_count, []))
      else (mk (un s) (lastk s) (pre_w (pre s)), (if (max_alloc <? n)%Z then st_too_large else st_ok, []))
  | ReadFrom sc =>
      let '(u', ob) := sread_from (un s) sc 0%Z in (mk u' None (pre_w (pre s)), ob)
  | WriteTo m e =>
      let nb := length (un s) in
      if Nat.eqb nb 0 then (emptied, (st_ok, [0%Z]))
      else if (zn nb <? m)%Z then (mk (un s) None (pre s), (st_bad_write, (-1)%Z :: un s))
      else
        let s' := consume s (Z.to_nat m) None in
        if negb (e =? 0)%Z then (s', (st_user e, m :: un s))
        else if negb (m =? zn nb)%Z then (s', (st_short, m :: un s))
        else (emptied, (st_ok, m :: un s))
  | OLen => (s, (st_ok, [zn (length (un s))]))
  | OBytes | OString => (s, (st_ok, un s))
  | OCap => (s, (st_ok, []))
  | ReWrite pos p =>
      match pre s with
      | None => (s, (st_ok, []))                 (* not determined by the contract: excluded by op_ok *)
      | Some l =>
        match rewrite_at (l ++ un s) pos p with
        | Panic => (s, (st_panic, []))
        | Done sto =>
            let k := length l in
            (mk (skipn k sto)
                (option_map (fun ib : bool * list Z => (fst ib, skipn (k - length (snd ib)) (firstn k sto))) (lastk s))
                (Some (firstn k sto)), (st_ok, []))
        end
      end
  | ONil m => (s, if (m =? 0)%Z then (st_ok, nil_string) else (st_runtime, []))
  end.

Fixpoint srun (s : spec) (l : list op) : list view :=
  match l with [] => [] | o :: r => let '(s', ob) := sstep s o in (ob, (length (un s'), un s')) :: srun s' r end.

(* ---- which histories the property speaks about ---- *)
(* g = the nearest preceding operation that is not a query (Len, Bytes, String, Cap; ReWrite and a refused Grow
   change neither the layout nor the last-read kind and count as queries here) was a Grow *)
Definition next_g (g : bool) (o : op) : bool :=
  match o with
  | OLen | OBytes | OString | OCap | ReWrite _ _ | ONil _ => g
  | Grow n => if (n <? 0)%Z then g else true
  | _ => false
  end.
Definition chunk_ok (ce : list Z * Z) : bool := Nat.leb (length (fst ce)) min_read.

(* k bounds the capacity the buffer can have reached: it only serves to say which Grow sizes the contract decides.
   Grow n beyond max_alloc certainly fails with ErrTooLarge (as long as the capacity itself is below max_alloc);
   Grow n certainly succeeds when even the worst-case reallocation 2k+n stays allocatable; sizes in between
   depend on the memory actually available and are outside the property.
   The bound does not double with every write: grow reallocates to 2c+n only when n > c/2 - m (m unread bytes),
   i.e. c < 2(m+n), so the new capacity is below 5(m+n)+2 - a bound in terms of the unread length alone. *)
Definition grow_k (k m n : Z) : Z := Z.max k (Z.max (Z.of_nat small_buffer_size) (5 * (m + n) + 2)).
Fixpoint rf_k (k m : Z) (sc : list (list Z * Z)) : Z :=
  match sc with
  | [] => grow_k k m (Z.of_nat min_read)
  | ce :: sc' => rf_k (grow_k k m (Z.of_nat min_read)) (m + zn (length (fst ce))) sc'
  end.
Definition next_k (k : Z) (s : spec) (o : op) : Z :=
  let m := zn (length (un s)) in
  match o with
  | Write p | WriteString p => grow_k k m (zn (length p))
  | WriteByte _ => grow_k k m 1
  | WriteRune _ => grow_k k m 4
  | Grow n => if (n <? 0)%Z || (max_alloc <? n)%Z then k else grow_k k m n
  | ReadFrom sc => rf_k k m sc
  | _ => k
  end.
Definition op_ok (g : bool) (k : Z) (s : spec) (o : op) : bool :=
  match o with
  | Grow n => (n <? 0)%Z || (if (max_alloc <? n)%Z then (k <=? max_alloc)%Z else (2 * k + n <=? max_alloc)%Z)
  | UnreadByte | UnreadRune => negb g                   (* the property's exception: Unread* directly after Grow *)
  | ReadFrom sc => forallb chunk_ok sc                  (* a reader never returns more than it was offered, and at
                                                           least MinRead bytes are offered *)
  | WriteTo m _ => (0 <=? m)%Z                          (* a writer never returns a negative count *)
  | ReWrite _ _ => match pre s with Some _ => true | None => false end
  | _ => true
  end.
Fixpoint ok_seq (g : bool) (k : Z) (s : spec) (l : list op) : bool :=
  match l with
  | [] => true
  | o :: r => op_ok g k s o && ok_seq (next_g g o) (next_k k s o) (fst (sstep s o)) r
  end.

Definition init_spec (i : init) : spec := mk (init_data i) None (Some []).
Definition init_k (i : init) : Z := zn (cap (init_buf i)).
