(* C16: the accept loop and the manager's connection count.  One goroutine accepts; it compares the count with the
   maximum and either closes the surplus connection or starts a session, whose Start increments the count before
   the loop accepts again; a session's single exit (Session.v) decrements it *)
From Coq Require Import List Bool Arith Lia.
Import ListNotations.

Record srv := { maxc : nat; count : nat; live : list nat; closed_on_accept : list nat }.
Inductive label := Accept (id : nat) | Exit (id : nat).

Definition mem (x : nat) (l : list nat) : bool := existsb (Nat.eqb x) l.
Definition remove1 (x : nat) (l : list nat) : list nat := filter (fun y => negb (Nat.eqb y x)) l.

Definition step (s : srv) (l : label) : option srv :=
  match l with
  | Accept id =>
      if mem id (live s) || mem id (closed_on_accept s) then None            (* connection ids are fresh *)
      else if Nat.leb (maxc s) (count s)
           then Some {| maxc := maxc s; count := count s; live := live s; closed_on_accept := id :: closed_on_accept s |}
           else Some {| maxc := maxc s; count := S (count s); live := id :: live s; closed_on_accept := closed_on_accept s |}
  | Exit id =>
      if mem id (live s)                                                      (* the exit callback of a started session, once *)
      then Some {| maxc := maxc s; count := pred (count s); live := remove1 id (live s); closed_on_accept := closed_on_accept s |}
      else None
  end.
Definition run (s : srv) (ls : list label) : option srv :=
  fold_left (fun o l => match o with Some s => step s l | None => None end) ls (Some s).
Definition init (m : nat) : srv := {| maxc := m; count := 0; live := []; closed_on_accept := [] |}.

Definition Inv (m : nat) (s : srv) : Prop := maxc s = m /\ count s = length (live s) /\ count s <= m /\ NoDup (live s).

Lemma mem_In x l : mem x l = true <-> In x l.
Proof. unfold mem. rewrite existsb_exists. split; [intros (y & Hy & E); apply Nat.eqb_eq in E; subst; exact Hy|intros H; exists x; split; [exact H|apply Nat.eqb_refl]]. Qed.
Lemma remove1_len x l : NoDup l -> In x l -> S (length (remove1 x l)) = length l.
Proof.
  induction l as [|y l IH]; intros Hnd Hin; [destruct Hin|]. inversion Hnd as [|? ? Hn Hd]; subst. cbn [remove1 filter].
  destruct (Nat.eqb y x) eqn:E; cbn [negb].
  - apply Nat.eqb_eq in E. subst y. cbn [length]. f_equal.
    assert (F : filter (fun y => negb (Nat.eqb y x)) l = l).
    { clear IH Hnd Hd Hin. induction l as [|z l IHl]; [reflexivity|]. cbn [filter].
      destruct (Nat.eqb z x) eqn:Ez; [apply Nat.eqb_eq in Ez; subst z; exfalso; apply Hn; left; reflexivity|].
      cbn [negb]. f_equal. apply IHl. intros Hin. apply Hn. right. exact Hin. }
    rewrite F. reflexivity.
  - cbn [length]. f_equal. apply IH; [exact Hd|]. destruct Hin as [->|Hin]; [rewrite Nat.eqb_refl in E; discriminate|exact Hin].
Qed.
Lemma remove1_nodup x l : NoDup l -> NoDup (remove1 x l).
Proof. intros H. unfold remove1. apply NoDup_filter, H. Qed.

Theorem inv_step m s l s' : Inv m s -> step s l = Some s' -> Inv m s'.
Proof.
  intros (Hmx & Hc & Hm & Hnd) H. destruct l as [id|id]; cbn [step] in H.
  - destruct (mem id (live s) || mem id (closed_on_accept s)) eqn:Ef; [discriminate|]. apply orb_false_elim in Ef. destruct Ef as [Ef _].
    destruct (Nat.leb (maxc s) (count s)) eqn:E; inversion H; subst s'; clear H; unfold Inv; cbn [count live maxc].
    + auto.
    + apply Nat.leb_gt in E. split; [exact Hmx|]. split; [cbn [length]; lia|]. split; [lia|]. constructor; [|exact Hnd].
      intros Hin. apply mem_In in Hin. congruence.
  - destruct (mem id (live s)) eqn:E; [|discriminate]. apply mem_In in E. inversion H; subst s'; clear H; unfold Inv; cbn [count live maxc].
    pose proof (remove1_len id (live s) Hnd E) as Hl. split; [exact Hmx|]. split; [lia|]. split; [lia|apply remove1_nodup, Hnd].
Qed.

Lemma init_inv m : Inv m (init m).
Proof. unfold Inv, init; cbn. split; [reflexivity|]. split; [reflexivity|]. split; [lia|constructor]. Qed.

Theorem run_inv m ls : forall s s', Inv m s -> run s ls = Some s' -> Inv m s'.
Proof.
  unfold run. induction ls as [|l ls IH]; intros s s' HI H; cbn [fold_left] in H.
  - inversion H; subst. exact HI.
  - destruct (step s l) as [s1|] eqn:E; [apply (IH s1 s' (inv_step m s l s1 HI E) H)|].
    exfalso. clear -H. induction ls as [|l' ls IH]; cbn [fold_left] in H; [discriminate|auto].
Qed.

(* the count never exceeds the maximum, and it is the number of live sessions, in every reachable state *)
Corollary count_bounded m ls s : run (init m) ls = Some s -> count s <= m /\ count s = length (live s).
Proof. intros H. destruct (run_inv m ls (init m) s (init_inv m) H) as (_ & A & B & _). auto. Qed.

(* a surplus connection is closed and never counted; a session's exit gives its unit back *)
Theorem surplus_closed s id s' : maxc s <= count s -> step s (Accept id) = Some s' -> count s' = count s /\ In id (closed_on_accept s') /\ live s' = live s.
Proof.
  intros Hfull H. cbn [step] in H. destruct (mem id (live s) || mem id (closed_on_accept s)); [discriminate|].
  replace (Nat.leb (maxc s) (count s)) with true in H by (symmetry; apply Nat.leb_le; exact Hfull). inversion H; subst. cbn. auto.
Qed.
Theorem accept_then_exit s id s1 s2 : step s (Accept id) = Some s1 -> In id (live s1) -> step s1 (Exit id) = Some s2 -> count s2 = count s.
Proof.
  intros H1 Hin H2. cbn [step] in H1. destruct (mem id (live s) || mem id (closed_on_accept s)) eqn:Ef; [discriminate|].
  apply orb_false_elim in Ef. destruct Ef as [Ef _].
  destruct (Nat.leb (maxc s) (count s)) eqn:E; inversion H1; subst s1; clear H1; cbn [live] in Hin.
  - apply mem_In in Hin. congruence.
  - cbn [step live count] in H2. cbn [mem existsb] in H2. rewrite Nat.eqb_refl in H2. cbn [orb] in H2. inversion H2; subst. reflexivity.
Qed.

Example demo : exists s, run (init 2) [Accept 1; Accept 2; Accept 3; Exit 1; Accept 4; Exit 2; Exit 4] = Some s
  /\ count s = 0 /\ closed_on_accept s = [3].
Proof. eexists. split; [vm_compute; reflexivity|]. vm_compute. auto. Qed.

Print Assumptions count_bounded.
