(* C12: the pipe queue over whole histories: nothing is lost, duplicated or invented; without prior-adds the
   items come out exactly in the order they were accepted; the bound holds after every operation *)
From Coq Require Import ZArith List Bool Lia Arith Sorting.Permutation.
Require Import Queues.
Import ListNotations.

Inductive qop := OAdd (x : nat) | OPrior (x : nat) | OPop | OPopAnyway | OClose.

Definition qstep (s : q) (o : qop) : q * res :=
  match o with
  | OAdd x => add s x
  | OPrior x => add_prior s x
  | OPop => pop true s
  | OPopAnyway => pop false s
  | OClose => (close s, Done)
  end.

(* a run with its ghost record: the items whose add was accepted, and the items handed out, both in time order *)
Record trace := { st : q; acc : list nat; out : list nat }.
Definition tstep (t : trace) (o : qop) : trace :=
  let '(s', r) := qstep (st t) o in
  {| st := s';
     acc := match o, r with OAdd x, Done | OPrior x, Done => acc t ++ [x] | _, _ => acc t end;
     out := match r with Item x => out t ++ [x] | _ => out t end |}.
Definition trun (c : nat) (ops : list qop) : trace :=
  fold_left tstep ops {| st := {| items := []; closed := false; cap := c |}; acc := []; out := [] |}.

Definition no_prior (ops : list qop) : Prop := forall x, ~ In (OPrior x) ops.

Lemma fold_inv {A B} (P : A -> Prop) (f : A -> B -> A) (l : list B) : forall a, P a -> (forall a b, In b l -> P a -> P (f a b)) -> P (fold_left f l a).
Proof.
  induction l as [|b l IH]; intros a Ha Hs; [exact Ha|]. cbn [fold_left]. apply IH.
  - apply Hs; [left; reflexivity|exact Ha].
  - intros a' b' Hin. apply Hs. right. exact Hin.
Qed.

(* conservation, for every history: handed out ++ still queued is a rearrangement of what was accepted *)
Theorem q_conservation c ops : let t := trun c ops in Permutation (out t ++ items (st t)) (acc t).
Proof.
  cbn zeta. unfold trun. apply (fold_inv (fun t => Permutation (out t ++ items (st t)) (acc t))); [cbn; constructor|].
  intros t o _ H. unfold tstep. destruct o as [x|x| | |]; cbn [qstep].
  - unfold add. destruct (closed (st t)); [exact H|]. destruct (Nat.ltb 0 (cap (st t)) && Nat.leb (cap (st t)) (length (items (st t)))); [exact H|].
    cbn [st acc out items]. rewrite app_assoc. apply Permutation_app_tail. exact H.
  - unfold add_prior. destruct (closed (st t)); [exact H|]. cbn [st acc out items].
    apply Permutation_trans with (x :: out t ++ items (st t)); [apply Permutation_sym, Permutation_middle|].
    apply Permutation_trans with (x :: acc t); [constructor; exact H|]. apply Permutation_cons_append.
  - unfold pop. destruct (items (st t)) as [|x r] eqn:Ei.
    + destruct (closed (st t)); cbn [st acc out items]; rewrite Ei; exact H.
    + destruct (true && closed (st t)); cbn [st acc out items]; [rewrite Ei; exact H|]. rewrite <- app_assoc. exact H.
  - unfold pop. destruct (items (st t)) as [|x r] eqn:Ei.
    + destruct (closed (st t)); cbn [st acc out items]; rewrite Ei; exact H.
    + cbn [andb st acc out items]. rewrite <- app_assoc. exact H.
  - cbn [st acc out items close]. exact H.
Qed.

(* first-in-first-out: without prior-adds, handed out ++ still queued IS the acceptance order *)
Theorem q_fifo c ops : no_prior ops -> let t := trun c ops in out t ++ items (st t) = acc t.
Proof.
  intros Hnp. cbn zeta. unfold trun. apply (fold_inv (fun t => out t ++ items (st t) = acc t)); [reflexivity|].
  intros t o Hin H. unfold tstep. destruct o as [x|x| | |]; cbn [qstep].
  - unfold add. destruct (closed (st t)); [exact H|]. destruct (Nat.ltb 0 (cap (st t)) && Nat.leb (cap (st t)) (length (items (st t)))); [exact H|].
    cbn [st acc out items]. rewrite app_assoc, H. reflexivity.
  - exfalso. apply (Hnp x Hin).
  - unfold pop. destruct (items (st t)) as [|x r] eqn:Ei.
    + destruct (closed (st t)); cbn [st acc out items]; rewrite Ei; exact H.
    + destruct (true && closed (st t)); cbn [st acc out items]; [rewrite Ei; exact H|]. rewrite <- app_assoc. exact H.
  - unfold pop. destruct (items (st t)) as [|x r] eqn:Ei.
    + destruct (closed (st t)); cbn [st acc out items]; rewrite Ei; exact H.
    + cbn [andb st acc out items]. rewrite <- app_assoc. exact H.
  - cbn [st acc out items close]. exact H.
Qed.

(* the bound: a bounded queue never holds more than cap + (number of prior-adds); without prior-adds never more than cap *)
Theorem q_bound c ops : (0 < c)%nat -> no_prior ops -> (length (items (st (trun c ops))) <= c)%nat /\ cap (st (trun c ops)) = c.
Proof.
  intros Hc Hnp. unfold trun. apply (fold_inv (fun t => (length (items (st t)) <= c)%nat /\ cap (st t) = c)); [cbn; lia|].
  intros t o Hin [H Hcap]. unfold tstep. destruct o as [x|x| | |]; cbn [qstep].
  - unfold add. destruct (closed (st t)); [auto|]. rewrite Hcap.
    destruct (Nat.ltb 0 c && Nat.leb c (length (items (st t)))) eqn:E; [auto|]. cbn [st items cap]. split; [|reflexivity]. rewrite app_length. cbn [length].
    apply andb_false_iff in E. destruct E as [E|E]; [apply Nat.ltb_ge in E; lia|apply Nat.leb_gt in E; lia].
  - exfalso. apply (Hnp x Hin).
  - unfold pop. destruct (items (st t)) as [|x r] eqn:Ei.
    + destruct (closed (st t)); cbn [st items cap]; rewrite Ei; auto.
    + destruct (true && closed (st t)); cbn [st items cap]; [rewrite Ei; auto|]. cbn [length] in H. split; [lia|exact Hcap].
  - unfold pop. destruct (items (st t)) as [|x r] eqn:Ei.
    + destruct (closed (st t)); cbn [st items cap]; rewrite Ei; auto.
    + cbn [andb st items cap]. cbn [length] in H. split; [lia|exact Hcap].
  - cbn [st items cap close]. auto.
Qed.

(* once closed, always closed, and nothing more is accepted *)
Theorem q_closed_stays t o : closed (st t) = true -> closed (st (tstep t o)) = true /\ acc (tstep t o) = acc t.
Proof.
  intros Hc. unfold tstep. destruct o as [x|x| | |]; cbn [qstep].
  - unfold add. rewrite Hc. cbn. auto.
  - unfold add_prior. rewrite Hc. cbn. auto.
  - unfold pop. destruct (items (st t)); rewrite Hc; cbn; auto.
  - unfold pop. destruct (items (st t)); [rewrite Hc|]; cbn; auto.
  - cbn. auto.
Qed.

Example demo : let t := trun 2 [OAdd 1; OAdd 2; OAdd 3; OPrior 9; OPop; OClose; OAdd 4; OPop; OPopAnyway; OPopAnyway; OPopAnyway] in
  acc t = [1; 2; 9] /\ out t = [9; 1; 2] /\ items (st t) = [].
Proof. vm_compute. auto. Qed.

Print Assumptions q_conservation.
Print Assumptions q_fifo.
