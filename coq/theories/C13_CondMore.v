(* C13: k items added, k blocked consumers return with k distinct items - as a theorem over all interleavings *)
From Coq Require Import List Bool ZArith Arith Lia Permutation.
Require Import C13_Cond C13_CondProofs C13_CondSound.
Import ListNotations.

(* labels of producers and of woken consumers: no new consumer arrives, nobody closes *)
Definition add_or_resume (l : label) : bool :=
  match l with LAdd _ _ | LAddPrior _ | LAddCtrl _ | LAddPriorCtrl _ | LResume _ => true | _ => false end.

(* consumers inside a pop call *)
Definition ncall (s : st) : nat := nwaiting s + nwoken s.

Lemma ritems_upd_len t v l : t < length l ->
  length (ritems (upd t v l)) + length (ritem (getc t l)) = length (ritem v) + length (ritems l).
Proof.
  intros H. pose proof (Permutation_length (ritems_upd t v l H)) as P. rewrite !app_length in P. exact P.
Qed.

Lemma wake_counts l : cnt is_waiting (map wake1 l) + cnt is_woken (map wake1 l) = cnt is_waiting l + cnt is_woken l.
Proof. rewrite cnt_wake_waiting, cnt_wake_woken. lia. Qed.

(* the balance kept by every producer / resume step on an open queue *)
Definition balance (s s' : st) : Prop :=
  closed s' = false /\ taken s' = taken s /\
  ncall s' + length (ritems (cs s')) = ncall s + length (ritems (cs s)).

Lemma wake_all_balance s s0 : closed s0 = false -> taken s0 = taken s -> cs s0 = cs s -> balance s (wake_all s0).
Proof.
  intros Hc Ht Hcs. unfold balance, ncall, nwaiting, nwoken, wake_all. cbn [closed taken cs set_cs].
  rewrite Hcs, ritems_wake. pose proof (wake_counts (cs s)) as W. unfold cnt in W. repeat split; auto; lia.
Qed.

Lemma step_balance c s l s' o : add_or_resume l = true -> closed s = false -> step c s l = Some (s', o) -> balance s s'.
Proof.
  intros Hl Hc H. destruct l; cbn in Hl; try discriminate; cbn [step] in H; rewrite ?Hc in H.
  - (* LResume *)
    destruct (getc t (cs s)) eqn:Eg; try discriminate. inversion H; subst; clear H.
    assert (Ht : t < length (cs s)) by (apply getc_lt; congruence).
    assert (W : forall v, length (filter is_waiting (upd t v (cs s))) = length (filter is_waiting (cs s)) + b2n (is_waiting v)).
    { intros v. pose proof (cnt_upd is_waiting t v (cs s) Ht) as E. unfold cnt in E. rewrite Eg in E. cbn in E. lia. }
    assert (K : forall v, length (filter is_woken (upd t v (cs s))) + 1 = length (filter is_woken (cs s)) + b2n (is_woken v)).
    { intros v. pose proof (cnt_upd is_woken t v (cs s) Ht) as E. unfold cnt in E. rewrite Eg in E. cbn in E. lia. }
    assert (R : forall v, length (ritems (upd t v (cs s))) = length (ritem v) + length (ritems (cs s))).
    { intros v. pose proof (ritems_upd_len t v (cs s) Ht) as E. rewrite Eg in E. cbn in E. lia. }
    unfold balance, ncall, nwaiting, nwoken, pop_body, take_ok. rewrite Hc. cbn [negb orb].
    destruct (ctrl s); [destruct (req s)|]; cbn [closed taken cs set_cs set_lists];
      rewrite W, R; (repeat split; auto); [pose proof (K (Waiting a))|pose proof (K (Done (RItem z)))|pose proof (K (Done (RItem z)))];
      cbn in *; lia.
  - (* LAdd *)
    destruct (is_sync (knd c)).
    + destruct w as [t|].
      * destruct (getc t (cs s)) eqn:Eg; try discriminate. inversion H; subst; clear H.
        assert (Ht : t < length (cs s)) by (apply getc_lt; congruence).
        pose proof (cnt_upd is_waiting t (Woken a) (cs s) Ht) as E1. pose proof (cnt_upd is_woken t (Woken a) (cs s) Ht) as E2.
        pose proof (ritems_upd_len t (Woken a) (cs s) Ht) as E3. unfold cnt in *. rewrite Eg in *. cbn in E1, E2, E3.
        unfold balance, ncall, nwaiting, nwoken. cbn [closed taken cs set_cs note_added set_lists]. repeat split; auto. lia.
      * destruct (existsb is_waiting (cs s)); [discriminate|]. inversion H; subst. unfold balance, ncall, nwaiting, nwoken. cbn. auto.
    + destruct w; [discriminate|]. destruct (full (reqmax c) (req s)); inversion H; subst.
      * unfold balance. auto.
      * apply wake_all_balance; auto.
  - destruct (is_sync (knd c)); [discriminate|]. inversion H; subst. apply wake_all_balance; auto.
  - destruct (negb (is_mq (knd c))); [discriminate|]. destruct (full (ctrlmax c) (ctrl s)); inversion H; subst.
    + unfold balance. auto.
    + apply wake_all_balance; auto.
  - destruct (negb (is_mq (knd c))); [discriminate|]. inversion H; subst. apply wake_all_balance; auto.
Qed.

Lemma run_balance c : forall ls s s', forallb add_or_resume ls = true -> closed s = false -> run c s ls = Some s' -> balance s s'.
Proof.
  induction ls as [|l ls IH]; intros s s' Hl Hc H; cbn in H.
  - inversion H; subst. unfold balance. auto.
  - cbn in Hl. apply andb_prop in Hl as [Hl1 Hl2]. destruct (step c s l) as [[s1 o]|] eqn:E; [|discriminate].
    destruct (step_balance c s l s1 o Hl1 Hc E) as (B1 & B2 & B3).
    destruct (IH s1 s' Hl2 B1 H) as (C1 & C2 & C3). unfold balance. repeat split; auto; [congruence|lia].
Qed.

(* a thread that has started its call never becomes idle again *)
Lemma step_started c s l s' o u : step c s l = Some (s', o) -> getc u (cs s) <> Idle -> getc u (cs s') <> Idle.
Proof.
  intros H Hu. destruct (step_thread c s l s' o u H) as [Q|[Q|Q]].
  - now rewrite Q.
  - rewrite Q. destruct (getc u (cs s)); cbn; congruence.
  - destruct l; cbn in Q; try discriminate; cbn [step] in H.
    + inversion Q; subst. destruct (Nat.ltb u (length (cs s))); [|discriminate]. destruct (getc u (cs s)); try discriminate. congruence.
    + inversion Q; subst. destruct (getc u (cs s)) eqn:Eg; try discriminate. inversion H; subst.
      assert (Ht : u < length (cs s)) by (apply getc_lt; congruence).
      unfold pop_body. destruct (ctrl s); [destruct (req s)|]; [destruct (closed s)| |]; try destruct (take_ok (knd c) a s);
        cbn [cs set_cs set_lists]; rewrite getc_upd_same by exact Ht; discriminate.
    + destruct w as [t|]; [|discriminate]. inversion Q; subst.
      destruct (is_sync (knd c)); [|discriminate]. destruct (closed s); [discriminate|].
      destruct (getc u (cs s)) eqn:Eg; try discriminate. inversion H; subst. cbn [cs set_cs].
      rewrite getc_upd_same by (apply getc_lt; congruence). discriminate.
Qed.

Lemma run_started c u : forall ls s s', run c s ls = Some s' -> getc u (cs s) <> Idle -> getc u (cs s') <> Idle.
Proof.
  induction ls as [|l ls IH]; intros s s' H Hu; cbn in H; [inversion H; subst; exact Hu|].
  destruct (step c s l) as [[s1 o]|] eqn:E; [|discriminate]. eapply IH; eauto. eapply step_started; eauto.
Qed.

Theorem run_dc c : forall ls s s', DC s -> run c s ls = Some s' -> DC s'.
Proof.
  induction ls as [|l ls IH]; intros s s' HI H; cbn in H; [inversion H; subst; exact HI|].
  destruct (step c s l) as [[s1 o]|] eqn:E; [|discriminate]. eapply IH; [eapply step_dc; eauto|exact H].
Qed.

Lemma run_app c : forall l1 l2 s, run c s (l1 ++ l2) = match run c s l1 with Some s1 => run c s1 l2 | None => None end.
Proof. induction l1 as [|l l1 IH]; intros l2 s; cbn; auto. destruct (step c s l) as [[s1 o]|]; auto. Qed.

(* k consumers are blocked (so the queue is open and empty); producers add exactly k items, in any number of calls from
   any number of goroutines, interleaved in any way with the woken consumers' passes through the loop; when everything
   has settled, nobody is parked, nothing is left in the queue, every one of the k consumers has returned with an item,
   and the items returned are exactly the items accepted (pairwise distinct when the added items are) *)
Theorem k_items_k_consumers c ls0 s ls s' :
  run c (init c) ls0 = Some s -> quiescent s = true -> closed s = false -> items s = [] ->
  forallb add_or_resume ls = true -> run c s ls = Some s' -> quiescent s' = true ->
  length (added s') = length (added s) + nwaiting s ->
  nwaiting s' = 0 /\ items s' = [] /\
  (forall u, is_waiting (getc u (cs s)) = true -> exists x, getc u (cs s') = Done (RItem x)) /\
  Permutation (ritems (cs s') ++ taken s') (added s').
Proof.
  intros Hr Hq Hc Hi Hl Hr' Hq' Hk.
  assert (Hreach : run c (init c) (ls0 ++ ls) = Some s') by (rewrite run_app, Hr; exact Hr').
  pose proof (conservation c ls0 s Hr) as C0. pose proof (conservation c _ s' Hreach) as C1.
  destruct (run_balance c ls s s' Hl Hc Hr') as (B1 & B2 & B3).
  apply Permutation_length in C0. apply Permutation_length in C1. rewrite !app_length in C0, C1. rewrite Hi in C0. cbn in C0.
  unfold ncall in B3. rewrite (quiescent_nwoken s Hq), (quiescent_nwoken s' Hq') in B3. rewrite B2 in C1.
  assert (Hw : nwaiting s' = 0).
  { destruct (Nat.eq_dec (nwaiting s') 0) as [Z|N]; [exact Z|].
    destruct (quiescent_parked_means_open_empty c _ s' Hreach Hq' ltac:(lia)) as [_ Hit]. rewrite Hit in C1. cbn in C1. lia. }
  assert (Hit : items s' = []) by (destruct (items s'); [reflexivity|cbn in C1; lia]).
  repeat split; auto.
  - intros u Hu.
    assert (Hs : getc u (cs s') <> Idle) by (eapply run_started; [exact Hr'|]; destruct (getc u (cs s)); cbn in Hu; congruence).
    pose proof (run_dc c _ _ _ (init_dc c) Hreach u) as [D1 D2].
    destruct (getc u (cs s')) as [|a|a|r] eqn:Eg; [congruence| | |].
    + exfalso. pose proof (ex_cnt_pos is_waiting (cs s') u) as P. rewrite Eg in P. specialize (P eq_refl eq_refl).
      unfold nwaiting in Hw. unfold cnt in P. lia.
    + exfalso. pose proof (ex_cnt_pos is_woken (cs s') u) as P. rewrite Eg in P. specialize (P eq_refl eq_refl).
      pose proof (quiescent_nwoken s' Hq') as Z. unfold nwoken in Z. unfold cnt in P. lia.
    + destruct r as [x| |]; [eauto|specialize (D1 eq_refl); congruence|congruence].
  - pose proof (conservation c _ s' Hreach) as C. rewrite Hit, app_nil_r in C. exact C.
Qed.

(* Close leaves nobody parked, in every reachable state *)
Theorem close_leaves_nobody_waiting_reach c ls s s' o :
  run c (init c) ls = Some s -> step c s LClose = Some (s', o) -> closed s' = true /\ nwaiting s' = 0.
Proof. intros H. exact (close_leaves_nobody_waiting c s s' o (run_inv c ls _ _ (init_inv c) H)). Qed.

(* the items handed out are pairwise distinct whenever the items added are: nothing is delivered twice *)
Theorem delivered_distinct c ls s : run c (init c) ls = Some s -> NoDup (added s) -> NoDup (ritems (cs s) ++ taken s).
Proof.
  intros H Hnd. pose proof (conservation c ls s H) as C. rewrite app_assoc in C.
  apply (nodup_app_l _ (items s)). eapply Permutation_NoDup; [apply Permutation_sym; exact C|exact Hnd].
Qed.

(* AddReqAnyway / AddAnyway / AddCtrlAnyway retry an add until it is not answered "full": an attempt answered "full"
   (or "closed") changes nothing and wakes nobody, so only the last attempt of such a call matters *)
Theorem full_add_is_noop c s l s' r : (exists x, l = LAdd x None \/ l = LAddCtrl x) ->
  step c s l = Some (s', OAdd r) -> r <> AOk -> s' = s.
Proof.
  intros [x [-> | ->]] H Hr; cbn [step] in H.
  - destruct (is_sync (knd c)).
    + destruct (closed s); [inversion H|]. destruct (existsb is_waiting (cs s)); inversion H.
    + destruct (closed s); [inversion H; auto|]. destruct (full (reqmax c) (req s)); inversion H; subst; auto. congruence.
  - destruct (negb (is_mq (knd c))); [discriminate|]. destruct (closed s); [inversion H; auto|].
    destruct (full (ctrlmax c) (ctrl s)); inversion H; subst; auto. congruence.
Qed.

(* an accepted add - the last attempt of an ...Anyway call included - leaves no consumer waiting: all are woken
   (pipe queues, MQ) *)
Theorem accepted_add_wakes_all c s l s' : knd c <> KSync ->
  (exists x, l = LAdd x None \/ l = LAddPrior x \/ l = LAddCtrl x \/ l = LAddPriorCtrl x) ->
  step c s l = Some (s', OAdd AOk) -> nwaiting s' = 0.
Proof.
  intros Hk [x Hl] H.
  assert (W : forall s0, nwaiting (wake_all s0) = 0) by (intros s0; unfold nwaiting, wake_all; cbn; apply cnt_wake_waiting).
  destruct Hl as [-> | [-> | [-> | ->]]]; cbn [step] in H.
  - destruct (knd c); cbn in *; try congruence;
      (destruct (closed s); [discriminate|]; destruct (full (reqmax c) (req s)); inversion H; apply W).
  - destruct (knd c); cbn in *; try congruence; (destruct (closed s); inversion H; apply W).
  - destruct (knd c); cbn in *; try congruence; try discriminate.
    destruct (closed s); [discriminate|]. destruct (full (ctrlmax c) (ctrl s)); inversion H; apply W.
  - destruct (knd c); cbn in *; try congruence; try discriminate. destruct (closed s); inversion H; apply W.
Qed.

(* MQ.TryClear answers true exactly on a closed, drained queue and never touches what consumers see *)
Theorem tryclear_spec c s s' o : step c s LTryClear = Some (s', o) ->
  s' = s /\ o = OBool (closed s && is_nil (items s)).
Proof.
  cbn [step]. destruct (negb (is_mq (knd c))); [discriminate|]. intros H. injection H as Hs Ho. subst s' o. split; auto.
  unfold items. destruct (ctrl s); [destruct (req s)|]; reflexivity.
Qed.

(* non-vacuity: two consumers blocked on a SyncQueue, two pushes in a burst (each Signal wakes one of them), both return *)
Example two_items_two_consumers :
  let c := {| knd := KSync; reqmax := 0; ctrlmax := 0; nthr := 2 |} in
  exists s, run c (init c) [LPop 0 true; LPop 1 true; LAdd 7 (Some 0); LAdd 8 (Some 1); LResume 1; LResume 0] = Some s
            /\ cs s = [Done (RItem 8%Z); Done (RItem 7%Z)] /\ items s = [].
Proof. eexists. split; [vm_compute; reflexivity|]. split; reflexivity. Qed.

(* non-vacuity: three consumers blocked on a pipe queue (Pop and PopAnyway), Close, all three return "closed" *)
Example three_blocked_close_all_return :
  let c := {| knd := KPipe; reqmax := 0; ctrlmax := 0; nthr := 3 |} in
  exists s, run c (init c) [LPop 0 false; LPop 1 true; LPop 2 false; LClose; LResume 2; LResume 0; LResume 1] = Some s
            /\ cs s = [Done RClosed; Done RClosed; Done RClosed].
Proof. eexists. split; [vm_compute; reflexivity|reflexivity]. Qed.

(* the defect repaired by fix 9, on this model: were SyncQueue.Close to Signal, the label sequence below (two consumers
   blocked, Close waking only consumer 0) would be a run - it is not a run of the repaired model, whose Close wakes
   both; the count model CondQ.v keeps the refuted variant (syncq_close_signal_refuted) *)
Example close_wakes_both :
  let c := {| knd := KSync; reqmax := 0; ctrlmax := 0; nthr := 2 |} in
  exists s, run c (init c) [LPop 0 true; LPop 1 true; LClose] = Some s /\ cs s = [Woken true; Woken true] /\ nwaiting s = 0.
Proof. eexists. split; [vm_compute; reflexivity|]. split; reflexivity. Qed.
