(* C07: the observed cases, the correspondence test (accept) and the monitor (holds).  Definitions only. *)
From Coq Require Import ZArith List Lia Bool.
Require Import Cases_Common C07_Model.
Import ListNotations.
Open Scope Z_scope.

(* ---- the domain the property quantifies over ---- *)
Definition Y2000 : Z := 946656000000.               (* 2000-01-01 00:00 in the zone, ms since 1970 *)
Definition Y10K : Z := 253402300800000.             (* 10000-01-01 00:00 local, as ms of the local clock since 1970 *)

(* node widths 8/9/10 (what Setup can configure), epoch from year 2000 on; the upper bound 2^62 ms only keeps
   `timeMs += _epoch` away from the int64 wrap *)
Definition valid_cfg (c : cfg) : bool :=
  ((node_bits c =? 8) || (node_bits c =? 9) || (node_bits c =? 10)) && (Y2000 <=? epoch c) && (epoch c <? 2 ^ 62).

(* non-negative ids whose timestamp field fits the configured width = all non-negative int64 *)
Definition in_dom (id : Z) : bool := (0 <=? id) && (id <? 2 ^ 63).

(* a millisecond offset from the epoch that fits the timestamp width (signed: instants before the epoch are allowed
   as interval ends as long as the shift does not overflow) *)
Definition fits (c : cfg) (off : Z) : bool := (- 2 ^ (63 - time_shift c) <=? off) && (off <? 2 ^ (63 - time_shift c)).

(* the reading the monitor uses for "fits the timestamp width": the offset is a value of the unsigned timestamp field *)
Definition fits_u (c : cfg) (off : Z) : bool := (0 <=? off) && (off <? 2 ^ (63 - time_shift c)).

Definition z3_eqb (a b : Z * Z * Z) : bool :=
  let '(a1, a2, a3) := a in let '(b1, b2, b3) := b in (a1 =? b1) && (a2 =? b2) && (a3 =? b3).
Definition res_eqb (a b : res) : bool :=
  match a, b with
  | Ok x, Ok y => x =? y
  | ErrLen, ErrLen => true
  | ErrSyntax, ErrSyntax => true
  | _, _ => false
  end.

(* ---- observed cases ---- *)
Inductive case :=
| CFields (c : cfg) (id : Z) (f p x : Z * Z * Z)          (* IDFields id, IDParse id, IDParseEx id (time as UnixMilli) *)
| COrder (c : cfg) (id1 id2 : Z) (f1 f2 : Z * Z * Z)      (* IDFields of two ids *)
| CCn (c : cfg) (id : Z) (s : list Z) (r : res)           (* s = CnStyle id (bytes), r = FromChStyle s *)
| CFrom (c : cfg) (s : list Z) (r : res)                  (* r = FromChStyle s, s arbitrary *)
| CRange (c : cfg) (t : Z) (mn mx : Z) (probes : list (Z * Z))        (* TimeIDRange t; probes (id, IDParse id time) *)
| CBetween (c : cfg) (b e : Z) (mn mx : Z) (probes : list (Z * Z))    (* TimeBetweenID b e *)
| CSetup (cur : cfg) (opts : list opt) (p0 fm f1 : Z * Z * Z)  (* globals cur, Setup(opts...), then IDParse 0, IDFields (-1), IDFields 1 *)
| CZone (ms off : Z).                                     (* zone offset in seconds Go reports for the instant ms *)

(* ---- correspondence: the implementation returned exactly what the model computes ---- *)
Definition probes_match (c : cfg) (ps : list (Z * Z)) : bool :=
  forallb (fun p => let '(t, _, _) := id_parse c (fst p) in snd p =? t) ps.

Definition case_accept (k : case) : bool :=
  match k with
  | CFields c id f p x => z3_eqb f (id_fields c id) && z3_eqb p (id_parse c id) && z3_eqb x (id_parse_ex c id)
  | COrder c id1 id2 f1 f2 => z3_eqb f1 (id_fields c id1) && z3_eqb f2 (id_fields c id2)
  | CCn c id s r => zlist_eqb s (cn_style c id) && res_eqb r (from_ch c s)
  | CFrom c s r => res_eqb r (from_ch c s)
  | CRange c t mn mx ps =>
      let '(a, b) := time_id_range c t in (mn =? a) && (mx =? b) && probes_match c ps
  | CBetween c b e mn mx ps =>
      let '(a, b') := time_between_id c b e in (mn =? a) && (mx =? b') && probes_match c ps
  | CSetup cur opts p0 fm f1 =>
      let c := setup_from cur opts in
      z3_eqb p0 (id_parse c 0) && z3_eqb fm (id_fields c (-1)) && z3_eqb f1 (id_fields c 1)
  | CZone ms off => if ZONE_FROM <=? ms then off * 1000 =? OFF else true
  end.

(* ---- monitor: the property's clauses on what was observed ---- *)

(* split then recombine gives the id back; every field within its width; the three splitters agree *)
Definition holds_fields (c : cfg) (id : Z) (f p x : Z * Z * Z) : bool :=
  let '(t, n, s) := f in let '(pt, pn, ps) := p in let '(xt, xn, xs) := x in
  (compose c t n s =? id)
  && (0 <=? t) && (t <? 2 ^ (63 - time_shift c))
  && (0 <=? n) && (n <? 2 ^ node_bits c) && (0 <=? s) && (s <? 2 ^ STEP_BITS)
  && (pt =? t + epoch c) && (pn =? n) && (ps =? s)
  && (xt =? pt) && (xn =? n) && (xs =? s).

(* the bits below the timestamp, rebuilt from the node and step fields *)
Definition rest_of (c : cfg) (f : Z * Z * Z) : Z :=
  let '(_, n, s) := f in n * 2 ^ node_shift c + s * 2 ^ step_shift c.
Definition lex_ltb (a b : Z * Z) : bool := (fst a <? fst b) || ((fst a =? fst b) && (snd a <? snd b)).

Definition holds_order (c : cfg) (id1 id2 : Z) (f1 f2 : Z * Z * Z) : bool :=
  Bool.eqb (id1 <? id2) (lex_ltb (fst (fst f1), rest_of c f1) (fst (fst f2), rest_of c f2)).

(* the date form has 24 characters and converts back to the identical id *)
Definition holds_cn (id : Z) (s : list Z) (r : res) : bool :=
  (Z.of_nat (length s) =? 24) && res_eqb r (Ok id).

(* the id interval [mn, mx] against the second-truncated endpoints bs, es (ms since 1970), read literally and over
   the ids the property speaks of (non-negative int64): every id stamped bs..es is inside, every id stamped before bs
   or from es + 1000 on (after the last endpoint's second) is outside; ids stamped es+1 .. es+999 are left open by
   the statement.  The extreme ids decide the clause for every id (C07_Proofs.range_monitor_adequate) ... *)
Definition holds_bounds (c : cfg) (bs es mn mx : Z) : bool :=
  let k := 2 ^ time_shift c in
  let first_in := (bs - epoch c) * k in            (* timestamp bs, low bits 0 *)
  let last_in := (es - epoch c) * k + (k - 1) in   (* timestamp es, low bits all ones *)
  let last_before := first_in - 1 in               (* timestamp bs - 1, low bits all ones *)
  let first_after := (es + 1000 - epoch c) * k in  (* timestamp es + 1000, low bits 0 *)
  (mn <=? first_in) && (first_in <=? mx) && (mn <=? last_in) && (last_in <=? mx)
  && (if in_dom last_before then last_before <? mn else true)
  && (if in_dom first_after then mx <? first_after else true).
(* ... and the ids probed on the implementation, with the timestamp IDParse reported for them *)
Definition holds_probes (bs es mn mx : Z) (ps : list (Z * Z)) : bool :=
  forallb (fun p => let '(id, ts) := p in
     if in_dom id then
       let inside := (mn <=? id) && (id <=? mx) in
       (if (bs <=? ts) && (ts <=? es) then inside else true)
       && (if (ts <? bs) || (es + 1000 <=? ts) then negb inside else true)
     else true) ps.

Definition holds_between (c : cfg) (b e mn mx : Z) (ps : list (Z * Z)) : bool :=
  let bs := unix_s b * 1000 in let es := unix_s e * 1000 in
  if (b <=? e) && fits_u c (bs - epoch c) && fits_u c (es - epoch c)
  then holds_bounds c bs es mn mx && holds_probes bs es mn mx ps else true.

(* Setup leaves a layout of the property's quantifier behind: read back through the all-ones id, the node field
   is 2^8-1, 2^9-1 or 2^10-1 whenever the globals were such a layout before *)
Definition layout_okb (c : cfg) : bool := (node_bits c =? 8) || (node_bits c =? 9) || (node_bits c =? 10).
Definition holds_setup (fm : Z * Z * Z) : bool :=
  let n := snd (fst fm) in (n =? 255) || (n =? 511) || (n =? 1023).

Definition case_holds (k : case) : bool :=
  match k with
  | CFields c id f p x => if valid_cfg c && in_dom id then holds_fields c id f p x else true
  | COrder c id1 id2 f1 f2 => if valid_cfg c && in_dom id1 && in_dom id2 then holds_order c id1 id2 f1 f2 else true
  | CCn c id s r =>
      if valid_cfg c && in_dom id && (Z.shiftr id (time_shift c) + epoch c + OFF <? Y10K) then holds_cn id s r else true
  | CFrom _ _ _ => true
  | CRange c t mn mx ps => if valid_cfg c then holds_between c t t mn mx ps else true
  | CBetween c b e mn mx ps => if valid_cfg c then holds_between c b e mn mx ps else true
  | CSetup cur _ _ fm _ => if layout_okb cur then holds_setup fm else true
  | CZone _ _ => true
  end.
