(* C01 semap: per-key reader/writer exclusion, FIFO hand-off, no residue.
   The property, clause by clause, for EVERY rwRatio >= 1 and EVERY label sequence (= every interleaving of the
   critical sections of AcquireRead / AcquireWrite / Release* / context-cancel issued by any number of callers over any
   keys) of the keyed machine of C01_Model.v, and for the sharded containers with ANY routing function.
   `reachable size S` = S is the state after some label sequence from the empty map.
   This file contains statements closed by `exact` only. *)
From Coq Require Import ZArith List Bool.
Require Import Semap Product C01_Model C01_Check C01_Theorems C01_Race C01_Int64 C01_Options.
Import ListNotations.
Open Scope Z_scope.

(* whatever the driver accepts satisfies the monitor *)
Theorem c01_case_sound : forall c, case_accept c = true -> case_holds c = true.
Proof. exact case_sound. Qed.

(* the invariant of the per-key machine (holder weights sum to cur, 0 < cur <= rwRatio while the entry exists, the head
   of the queue never fits) holds for every key after every label sequence *)
Theorem c01_reachable_inv : forall size, 1 <= size -> forall ls S, krun size kinit ls = Some S -> forall k, Inv size (S k).
Proof. exact reachable_inv. Qed.

(* accounting: cur = sum of the holders' tokens, 0 < cur <= rwRatio; no entry = nobody holds, nobody waits *)
Theorem c01_accounting : forall size, 1 <= size -> forall S k, reachable size S ->
  match ent (S k) with
  | Some e => cur e = sumw (held (S k)) /\ 0 < cur e <= size
  | None => held (S k) = [] /\ qof (S k) = []
  end.
Proof. exact semap_accounting. Qed.

(* exclusion: at every instant the callers that have acquired a key and not yet released it are exactly one writer
   (rwRatio tokens) or at most rwRatio readers (one token each) *)
Theorem c01_exclusion : forall size, 1 <= size -> forall S k, reachable size S ->
  (exists t, held (S k) = [(t, size)]) \/
  (Forall (fun p => snd p = 1) (held (S k)) /\ Z.of_nat (length (held (S k))) <= size).
Proof. exact semap_exclusion. Qed.

Theorem c01_writer_alone : forall size, 1 <= size -> forall S k t, reachable size S ->
  In (t, size) (held (S k)) -> held (S k) = [(t, size)].
Proof. exact semap_writer_alone. Qed.

(* arrival order, one step: an arriving caller is admitted at once only when nobody waits and its tokens are free,
   otherwise it is appended at the tail of the queue *)
Theorem c01_fifo_arrival : forall size, 1 <= size -> forall S t k w S' g c, reachable size S ->
  kstep size S (LAcq t k w) = Some (S', g, c) ->
  c = [] /\
  ((g = [t] /\ qof (S k) = [] /\ wt size w <= size - sumw (held (S k)) /\
      held (S' k) = held (S k) ++ [(t, wt size w)] /\ qof (S' k) = [])
   \/ (g = [] /\ (qof (S k) <> [] \/ size - sumw (held (S k)) < wt size w) /\
      held (S' k) = held (S k) /\ qof (S' k) = qof (S k) ++ [(t, wt size w)])).
Proof. exact semap_fifo_arrival. Qed.

(* whoever arrives while someone is waiting queues behind them - readers cannot starve a waiting writer *)
Theorem c01_arrival_behind_waiter_queues : forall size, 1 <= size -> forall S t k w S' g c, reachable size S ->
  qof (S k) <> [] -> kstep size S (LAcq t k w) = Some (S', g, c) ->
  g = [] /\ qof (S' k) = qof (S k) ++ [(t, wt size w)] /\ held (S' k) = held (S k).
Proof. exact semap_arrival_behind_waiter_queues. Qed.

(* release hands over to a prefix of the queue, in queue order *)
Theorem c01_fifo_release : forall size, 1 <= size -> forall S t k S' g c, reachable size S ->
  kstep size S (LRel t k) = Some (S', g, c) ->
  c = [] /\ exists n gw, lookup t (held (S k)) = Some n /\ g = map fst gw /\
     qof (S k) = gw ++ qof (S' k) /\ held (S' k) = remove_first t (held (S k)) ++ gw.
Proof. exact semap_fifo_release. Qed.

(* the context of a queued caller ends: it leaves with the context error and the callers admitted in that step are a
   prefix of the remaining queue; the context of a caller that already holds ends: nothing changes (the race of the
   cancel path: `case <-ready` wins, Acquire* returns nil) *)
Theorem c01_fifo_cancel : forall size, 1 <= size -> forall S t k S' g c, reachable size S ->
  kstep size S (LCancel t k) = Some (S', g, c) ->
  (exists n, lookup t (qof (S k)) = Some n /\ c = [t] /\ exists gw, g = map fst gw /\
       remove_t t (qof (S k)) = gw ++ qof (S' k) /\ held (S' k) = held (S k) ++ gw)
  \/ (lookup t (qof (S k)) = None /\ (exists n, lookup t (held (S k)) = Some n) /\ S' k = S k /\ g = [] /\ c = []).
Proof. exact semap_fifo_cancel. Qed.

(* no missed hand-off at rest: the first in line never fits beside the holders; in particular after the head of the
   queue left (cancel) every waiter that now fits has been admitted in that same step *)
Theorem c01_head_blocked_only_if_unfit : forall size, 1 <= size -> forall S k t n r, reachable size S ->
  qof (S k) = (t, n) :: r -> size - sumw (held (S k)) < n.
Proof. exact semap_head_blocked_only_if_unfit. Qed.

(* nobody overtakes: if t2 is admitted in a step while t1 stands in front of it, t1 is admitted in the same step
   (or it is t1 whose context ended in this step) *)
Theorem c01_no_overtaking : forall size, 1 <= size -> forall S l S' g c k t1 t2, reachable size S ->
  before t1 t2 (qof (S k)) -> kstep size S l = Some (S', g, c) -> lab_key l = k -> In t2 g -> In t1 g \/ In t1 c.
Proof. exact semap_no_overtaking. Qed.

Theorem c01_order_kept : forall size, 1 <= size -> forall S l S' g c k t1 t2, reachable size S ->
  before t1 t2 (qof (S k)) -> kstep size S l = Some (S', g, c) -> l <> LCancel t1 k -> l <> LCancel t2 k ->
  before t1 t2 (qof (S' k)) \/ In t1 g.
Proof. exact semap_order_kept. Qed.

(* arrival order over whole histories: from any reachable state in which t1 is queued in front of t2 on key k, along
   every continuation in which t2 is admitted (and its context did not end), t1 was admitted or left with the context
   error at that step or earlier *)
Theorem c01_fifo_history : forall size, 1 <= size -> forall k t1 t2 ls S S' tr, reachable size S ->
  ktrace size S ls = Some (S', tr) -> before t1 t2 (qof (S k)) -> ~ In (LCancel t2 k) ls ->
  granted_on k t2 tr -> served_first k t1 t2 tr.
Proof. exact semap_fifo_history. Qed.

(* an acquire that fails because its context ended holds nothing, waits no longer and is not among the admitted *)
Theorem c01_cancel_holds_nothing : forall size, 1 <= size -> forall S t k S' g c, reachable size S ->
  kstep size S (LCancel t k) = Some (S', g, c) -> In t c ->
  ~ In t (map fst (held (S' k))) /\ ~ In t (map fst (qof (S' k))) /\ ~ In t g.
Proof. exact semap_cancel_holds_nothing. Qed.

(* a successful acquire holds until its own release *)
Theorem c01_success_holds_until_release : forall size, 1 <= size -> forall S l S' g c t n k, reachable size S ->
  In (t, n) (held (S k)) -> kstep size S l = Some (S', g, c) -> l <> LRel t k -> In (t, n) (held (S' k)).
Proof. exact semap_success_holds_until_release. Qed.

Theorem c01_granted_holds : forall size, 1 <= size -> forall S l S' g c t, reachable size S ->
  kstep size S l = Some (S', g, c) -> In t g -> In t (map fst (held (S' (lab_key l)))).
Proof. exact semap_granted_holds. Qed.

(* no residue: the container has an entry for a key exactly while somebody holds it or waits for it *)
Theorem c01_no_residue : forall size, 1 <= size -> forall S k, reachable size S ->
  (ent (S k) <> None <-> held (S k) <> [] \/ qof (S k) <> []).
Proof. exact semap_no_residue. Qed.

Theorem c01_waiters_imply_holder : forall size, 1 <= size -> forall S k, reachable size S ->
  qof (S k) <> [] -> held (S k) <> [].
Proof. exact semap_waiters_imply_holder. Qed.

(* once every holder has released and nobody waits, the container keeps no entry *)
Theorem c01_quiescent_empty : forall size, 1 <= size -> forall S, reachable size S ->
  (forall k, held (S k) = [] /\ qof (S k) = []) -> forall k, ent (S k) = None.
Proof. exact semap_quiescent_empty. Qed.

Theorem c01_untouched_absent : forall size ls S k, krun size kinit ls = Some S ->
  (forall l, In l ls -> lab_key l <> k) -> S k = init.
Proof. exact semap_untouched_absent. Qed.

(* tids are unique among the holders and waiters of a key *)
Theorem c01_tids_unique : forall size, 1 <= size -> forall S, reachable size S -> forall k, NoDup (tids (S k)).
Proof. exact reachable_nodup. Qed.

(* the doomed-request branch of Weighted.acquire (n > size) is unreachable *)
Theorem c01_doomed_unreachable : forall size, 1 <= size -> forall w, 1 <= wt size w <= size.
Proof. exact semap_doomed_unreachable. Qed.

(* the keyed machine is the product of Appendix AH: each key sees the per-key machine run on the labels addressed to it *)
Theorem c01_projection : forall size ls S k, krun size kinit ls = Some S ->
  run1 st label (step1 size) init (sub label k (map (to_p size) ls)) = Some (S k).
Proof. exact semap_projection. Qed.

(* the sharded containers (modulo / xxhash / any routing, any shard count): for every label sequence the sharded
   container is enabled exactly when the single map is, returns exactly the same admissions and cancellations at
   every step, and its state is the single map's state spread over the shards *)
Theorem c01_wide : forall size (route : nat -> nat) ls W S, wrel route W S ->
  match wruno size route W ls, kruno size S ls with
  | Some (W', o), Some (S', o') => o = o' /\ wrel route W' S'
  | None, None => True
  | _, _ => False
  end.
Proof. exact semap_wide. Qed.

Theorem c01_wide_init : forall route, wrel route winit kinit.
Proof. exact winit_rel. Qed.

Theorem c01_wide_inv : forall size (route : nat -> nat) ls W o, 1 <= size -> wruno size route winit ls = Some (W, o) ->
  (forall i k, Inv size (W i k)) /\ (forall i k, ent (W i k) <> None -> i = route k).
Proof. exact semap_wide_inv. Qed.

(* the pinned tree's release rule (delete the entry whenever no waiter is left) violates exclusion:
   R(1) R(2) release(1) W(3) with rwRatio 3 ends with reader 2 and writer 3 holding together *)
Theorem c01_release_prefix_refuted :
  exists s, run 3 false init [Acq 1 1; Acq 2 1; Rel 1; Acq 3 3] = Some s /\ held s = [(2%nat, 1); (3%nat, 3)].
Proof. exact release_prefix_refuted. Qed.

(* non-vacuity *)
Theorem c01_writer_not_starved :
  exists X, krun 3 kinit [LAcq 1 0 false; LAcq 2 0 true; LAcq 3 0 false; LRel 1 0] = Some X /\
            held (X 0%nat) = [(2%nat, 3)] /\ qof (X 0%nat) = [(3%nat, 1)].
Proof. exact writer_not_starved. Qed.

Theorem c01_cancel_head_hands_over :
  option_map snd (ktrace 3 kinit [LAcq 1 0 false; LAcq 2 0 true; LAcq 3 0 false; LAcq 4 0 false; LCancel 2 0]) =
  Some [(LAcq 1 0 false, [1%nat], []); (LAcq 2 0 true, [], []); (LAcq 3 0 false, [], []); (LAcq 4 0 false, [], []);
        (LCancel 2 0, [3%nat; 4%nat], [2%nat])].
Proof. exact cancel_head_hands_over. Qed.

(* the critical sections of a ReleaseX and of the cancellation of a queued caller commute whenever the release does not
   let that caller in: same final state, same callers admitted.  Hence a release/cancel pair issued without waiting in
   between can be resolved from the waiter's return value alone (context error -> cancel section first) *)
Theorem c01_race_commutes : forall size, 1 <= size -> forall s h w s1 g1 c1 s2 g2,
  Inv size s -> NoDup (tids s) ->
  stepo size s (Rel h) = Some (s1, g1, c1) -> stepo size s1 (Cancel w) = Some (s2, g2, [w]) ->
  exists s1' g1' g2',
    stepo size s (Cancel w) = Some (s1', g1', [w]) /\ stepo size s1' (Rel h) = Some (s2, g2', []) /\
    g1' ++ g2' = g1 ++ g2.
Proof. exact race_commutes. Qed.

(* the code computes in Go's 64-bit int: with EVERY arithmetic operation of semaphore.go wrapped to int64 (stepG) and
   the fit test as coded (size-cur < n), the machine is the Z machine in every state satisfying the invariant, for every
   1 <= rwRatio <= MaxInt64: size-cur, cur+n (computed only when it fits) and cur-n stay inside [0, MaxInt64] *)
Theorem c01_int64_quantities_in_range : forall size, size <= max64 -> forall s, Inv size s ->
  match ent s with
  | Some e => 0 <= size - cur e <= max64 /\
              (forall n, 1 <= n <= size - cur e -> 0 <= cur e + n <= max64) /\
              (forall t n, lookup t (held s) = Some n -> 0 <= cur e - n <= max64)
  | None => True
  end.
Proof. exact quantities_in_range. Qed.

Theorem c01_int64_faithful : forall size, 1 <= size -> size <= max64 -> forall s l, Inv size s -> lab_ok size l ->
  stepG size (unfit_code size) s l = stepo size s l.
Proof. exact int64_faithful. Qed.

Theorem c01_int64_faithful_reachable : forall size ls S k l, 1 <= size <= max64 -> krun size kinit ls = Some S ->
  stepG size (unfit_code size) (S k) (lab_sem size l) = stepo size (S k) (lab_sem size l).
Proof. exact int64_faithful_reachable. Qed.

(* the algebraically equal fit test `cur+n > size` wraps at rwRatio = MaxInt64: two readers in, a writer queues, one
   reader releases - the writer is handed the semaphore beside the remaining reader *)
Theorem c01_notify_fit_overflow_refuted :
  exists s, runG max64 (unfit_sum max64) init [Acq 1 1; Acq 2 1; Acq 3 max64; Rel 1] = Some s /\
            held s = [(2%nat, 1); (3%nat, max64)].
Proof. exact notify_fit_overflow_refuted. Qed.

(* the configuration of a map is a function of the options of ITS OWN constructor call: without WithRwRatio the ratio
   is DefaultRWRatio = 10, the last WithRwRatio wins, and in a history of constructor calls the i-th map is configured
   by the i-th option list alone (the case terms of the constructor-history class compute their rwRatio with `options`);
   a shared default object written through a pointer is refuted *)
Theorem c01_options_default_ratio : forall l, forallb (fun o => negb (is_ratio o)) l = true -> o_ratio (options l) = 10.
Proof. exact options_default_ratio. Qed.

Theorem c01_options_last_ratio : forall l r l', forallb (fun o => negb (is_ratio o)) l' = true ->
  o_ratio (options (l ++ WithRwRatio r :: l')) = r.
Proof. exact options_last_ratio. Qed.

Theorem c01_ctor_independent_of_earlier : forall h1 h2 l,
  nth (length h1) (ctor_history (h1 ++ l :: h2)) default_cfg = options l.
Proof. exact ctor_independent_of_earlier. Qed.

Theorem c01_shared_default_refuted :
  map o_ratio (leaky_history default_cfg [[WithRwRatio 30]; []]) = [30; 30] /\
  map o_ratio (ctor_history [[WithRwRatio 30]; []]) = [30; 10].
Proof. exact shared_default_refuted. Qed.

(* non-vacuity of the monitor and of the correspondence: the pinned tree's observable behaviour on defect 1 is rejected
   (by the residue clause, and by the exclusion clause alone), the repaired tree's is accepted; both outcomes of the
   release/cancel race are accepted, a cancelled waiter that keeps its tokens is rejected *)
Theorem c01_defect1_rejected :
  case_holds (Sched 3 1 [Ev (LAcq 1 0 false) (ob [1]%nat [] [(1,0,true)]%Z 1);
                          Ev (LAcq 2 0 false) (ob [2]%nat [] [(2,0,true)]%Z 1);
                          Ev (LRel 1 0) (ob [] [] [(0,0,false)]%Z 0);
                          Ev (LAcq 3 0 true) (ob [3]%nat [] [(3,0,true)]%Z 1)]) = false.
Proof. exact defect1_rejected. Qed.

Theorem c01_repaired_accepted :
  case_accept (Sched 3 1 [Ev (LAcq 1 0 false) (ob [1]%nat [] [(1,0,true)]%Z 1);
                           Ev (LAcq 2 0 false) (ob [2]%nat [] [(2,0,true)]%Z 1);
                           Ev (LRel 1 0) (ob [] [] [(1,0,true)]%Z 1);
                           Ev (LAcq 3 0 true) (ob [] [] [(1,1,true)]%Z 1);
                           Ev (LRel 2 0) (ob [3]%nat [] [(3,0,true)]%Z 1);
                           Ev (LRel 3 0) (ob [] [] [(0,0,false)]%Z 0)]) = true.
Proof. exact repaired_accepted. Qed.

Theorem c01_race_both_outcomes_accepted :
  case_accept (Sched 3 1 [Ev (LAcq 1 0 true) (ob [1]%nat [] [(3,0,true)]%Z 1);
                           Ev (LAcq 2 0 true) (ob [] [] [(3,1,true)]%Z 1);
                           Race false 1 2 0 (ob [2]%nat [] [(3,0,true)]%Z 1);
                           Ev (LRel 2 0) (ob [] [] [(0,0,false)]%Z 0)]) = true /\
  case_accept (Sched 3 1 [Ev (LAcq 1 0 true) (ob [1]%nat [] [(3,0,true)]%Z 1);
                           Ev (LAcq 2 0 true) (ob [] [] [(3,1,true)]%Z 1);
                           Race true 1 2 0 (ob [] [2]%nat [(0,0,false)]%Z 0)]) = true.
Proof. exact race_both_outcomes_accepted. Qed.

Theorem c01_race_leak_rejected :
  case_holds (Sched 3 1 [Ev (LAcq 1 0 true) (ob [1]%nat [] [(3,0,true)]%Z 1);
                          Ev (LAcq 2 0 true) (ob [] [] [(3,1,true)]%Z 1);
                          Race true 1 2 0 (ob [] [2]%nat [(3,0,true)]%Z 1)]) = false.
Proof. exact race_leak_rejected. Qed.

Print Assumptions c01_race_commutes.
Print Assumptions c01_options_default_ratio.
Print Assumptions c01_options_last_ratio.
Print Assumptions c01_ctor_independent_of_earlier.
Print Assumptions c01_shared_default_refuted.
Print Assumptions c01_int64_quantities_in_range.
Print Assumptions c01_int64_faithful.
Print Assumptions c01_int64_faithful_reachable.
Print Assumptions c01_notify_fit_overflow_refuted.
Print Assumptions c01_defect1_rejected.
Print Assumptions c01_repaired_accepted.
Print Assumptions c01_race_both_outcomes_accepted.
Print Assumptions c01_race_leak_rejected.
Print Assumptions c01_case_sound.
Print Assumptions c01_reachable_inv.
Print Assumptions c01_accounting.
Print Assumptions c01_exclusion.
Print Assumptions c01_writer_alone.
Print Assumptions c01_fifo_arrival.
Print Assumptions c01_arrival_behind_waiter_queues.
Print Assumptions c01_fifo_release.
Print Assumptions c01_fifo_cancel.
Print Assumptions c01_head_blocked_only_if_unfit.
Print Assumptions c01_no_overtaking.
Print Assumptions c01_order_kept.
Print Assumptions c01_fifo_history.
Print Assumptions c01_cancel_holds_nothing.
Print Assumptions c01_success_holds_until_release.
Print Assumptions c01_granted_holds.
Print Assumptions c01_no_residue.
Print Assumptions c01_waiters_imply_holder.
Print Assumptions c01_quiescent_empty.
Print Assumptions c01_untouched_absent.
Print Assumptions c01_tids_unique.
Print Assumptions c01_doomed_unreachable.
Print Assumptions c01_projection.
Print Assumptions c01_wide.
Print Assumptions c01_wide_init.
Print Assumptions c01_wide_inv.
Print Assumptions c01_release_prefix_refuted.
Print Assumptions c01_writer_not_starved.
Print Assumptions c01_cancel_head_hands_over.
