(* C13, priq.PriQueue: the wake-up token protocol with consumer identities, priorities and values.
   A one-slot channel carries a token.  Push, and a Pop that leaves items behind, try to put the token after
   releasing the mutex (tyrSignal, a non-blocking send); a consumer selects on WaitCh(), takes the token and
   then pops.  Labels are the mutex sections (PPushLocked, PPopHeld, PPopDirect) and the channel operations
   (PSignal, PRecv, PTryRecv).  PriTok.v is the count shadow of this model. *)
From Coq Require Import List Bool ZArith Arith Lia.
Import ListNotations.

Record ent := { e_pri : Z; e_seq : Z; e_val : Z }.

(* a consumer: idle, parked in the receive on WaitCh(), holding a token it has not yet followed by Pop, done *)
Inductive pcst := PIdle | PParked | PHolding | PDone (r : option Z).

(* pend: calls past their mutex section which have not yet run tyrSignal; padded / ptaken: ghost history
   (values accepted by Push in order; values handed out by direct pops) *)
Record pst := { pcap : Z; ents : list ent; pseq : Z; token : bool; pend : nat; pcs : list pcst;
                padded : list Z; ptaken : list Z }.

Inductive pout := PONone | POPush (ok : bool) | POBool (b : bool) | POPop (r : option Z).

Inductive plabel :=
| PPushLocked (p v : Z)      (* Push's mutex section: ErrQueueIsFull, or the entry is in the heap and a signal is pending *)
| PSignal (w : option nat)   (* tyrSignal: hand the token to the parked receiver w, or buffer it, or drop it *)
| PRecv (t : nat)            (* consumer t starts receiving on WaitCh() *)
| PTryRecv (t : nat)         (* consumer t polls WaitCh() without blocking *)
| PPopHeld (t : nat)         (* consumer t, holding a token, runs Pop's mutex section *)
| PPopDirect.                (* Pop's mutex section by a caller that holds no token *)

Definition pgetc (t : nat) (l : list pcst) : pcst := nth t l PIdle.
Fixpoint pupd (t : nat) (v : pcst) (l : list pcst) : list pcst :=
  match l with
  | [] => []
  | a :: r => match t with O => v :: r | S t' => a :: pupd t' v r end
  end.
Definition is_parked (c : pcst) := match c with PParked => true | _ => false end.
Definition is_holding (c : pcst) := match c with PHolding => true | _ => false end.

(* EntryList.Less: higher priority first, then lower sequence number *)
Definition better (a b : ent) : bool :=
  Z.ltb (e_pri b) (e_pri a) || (Z.eqb (e_pri a) (e_pri b) && Z.ltb (e_seq a) (e_seq b)).

(* heap.Pop: the minimum of Less, and the rest (kept in insertion order) *)
Fixpoint pop_best (l : list ent) : option (ent * list ent) :=
  match l with
  | [] => None
  | e :: r => match pop_best r with
              | None => Some (e, [])
              | Some (b, r') => if better b e then Some (b, e :: r') else Some (e, r)
              end
  end.

Definition with_pcs (s : pst) (c : list pcst) : pst :=
  {| pcap := pcap s; ents := ents s; pseq := pseq s; token := token s; pend := pend s; pcs := c;
     padded := padded s; ptaken := ptaken s |}.
Definition with_token (s : pst) (b : bool) (p : nat) : pst :=
  {| pcap := pcap s; ents := ents s; pseq := pseq s; token := b; pend := p; pcs := pcs s;
     padded := padded s; ptaken := ptaken s |}.
Definition note_ptaken (s : pst) (r : option Z) : pst :=
  match r with
  | Some v => {| pcap := pcap s; ents := ents s; pseq := pseq s; token := token s; pend := pend s; pcs := pcs s;
                 padded := padded s; ptaken := ptaken s ++ [v] |}
  | None => s
  end.

(* Pop's mutex section: the state afterwards (a signal is pending when items remain) and the result *)
Definition pop_locked (s : pst) : pst * option Z :=
  match pop_best (ents s) with
  | None => (s, None)
  | Some (b, r) =>
      ({| pcap := pcap s; ents := r; pseq := pseq s; token := token s;
          pend := (match r with [] => pend s | _ => S (pend s) end); pcs := pcs s;
          padded := padded s; ptaken := ptaken s |}, Some (e_val b))
  end.

Definition pstep (s : pst) (l : plabel) : option (pst * pout) :=
  match l with
  | PPushLocked p v =>
      if Z.leb (pcap s) (Z.of_nat (length (ents s))) then Some (s, POPush false)
      else Some ({| pcap := pcap s; ents := ents s ++ [{| e_pri := p; e_seq := pseq s + 1; e_val := v |}];
                    pseq := pseq s + 1; token := token s; pend := S (pend s); pcs := pcs s;
                    padded := padded s ++ [v]; ptaken := ptaken s |}, POPush true)
  | PSignal w =>
      match pend s with
      | O => None
      | S p =>
          match w with
          | Some t => match pgetc t (pcs s) with
                      | PParked => Some (with_pcs (with_token s (token s) p) (pupd t PHolding (pcs s)), PONone)
                      | _ => None
                      end
          | None => if existsb is_parked (pcs s) then None else Some (with_token s true p, PONone)
          end
      end
  | PRecv t =>
      if Nat.ltb t (length (pcs s)) then
        match pgetc t (pcs s) with
        | PIdle => if token s then Some (with_pcs (with_token s false (pend s)) (pupd t PHolding (pcs s)), PONone)
                   else Some (with_pcs s (pupd t PParked (pcs s)), PONone)
        | _ => None
        end
      else None
  | PTryRecv t =>
      if Nat.ltb t (length (pcs s)) then
        match pgetc t (pcs s) with
        | PIdle => if token s then Some (with_pcs (with_token s false (pend s)) (pupd t PHolding (pcs s)), POBool true)
                   else Some (s, POBool false)
        | _ => None
        end
      else None
  | PPopHeld t =>
      match pgetc t (pcs s) with
      | PHolding => let '(s1, r) := pop_locked s in Some (with_pcs s1 (pupd t (PDone r) (pcs s)), PONone)
      | _ => None
      end
  | PPopDirect => let '(s1, r) := pop_locked s in Some (note_ptaken s1 r, POPop r)
  end.

Fixpoint prun (s : pst) (ls : list plabel) : option pst :=
  match ls with
  | [] => Some s
  | l :: r => match pstep s l with Some (s', _) => prun s' r | None => None end
  end.

Definition pinit (cap : Z) (n : nat) : pst :=
  {| pcap := cap; ents := []; pseq := 0; token := false; pend := 0; pcs := repeat PIdle n; padded := []; ptaken := [] |}.

(* ---------------- views ---------------- *)
Fixpoint ptids_from (i : nat) (p : pcst -> bool) (l : list pcst) : list nat :=
  match l with [] => [] | c :: r => if p c then i :: ptids_from (S i) p r else ptids_from (S i) p r end.
Fixpoint pdones_from (i : nat) (l : list pcst) : list (nat * option Z) :=
  match l with [] => [] | PDone r :: l' => (i, r) :: pdones_from (S i) l' | _ :: l' => pdones_from (S i) l' end.
Definition pparked_of (s : pst) := ptids_from 0 is_parked (pcs s).
Definition pholding_of (s : pst) := ptids_from 0 is_holding (pcs s).
Definition pdones_of (s : pst) := pdones_from 0 (pcs s).
Definition pres_items (l : list (nat * option Z)) : list Z :=
  flat_map (fun p => match snd p with Some x => [x] | None => [] end) l.

(* ---------------- traces ---------------- *)
Record pobs := { po_ret : list (nat * option Z);   (* consumers whose Pop has returned, with the result *)
                 po_parked : list nat;             (* consumers seen parked in the select on WaitCh() *)
                 po_holding : list nat;            (* consumers that reported a received token and have not popped yet *)
                 po_stuck : list nat;
                 po_token : bool;                  (* len(WaitCh()) = 1 *)
                 po_len : nat }.                   (* Len() *)
(* PEMid: len(WaitCh()) = 1 read while calls are parked at the entry of their critical section (the queue's mutex is
   held through the verif hook priq.VerifHold): nothing of those calls has happened yet *)
Inductive pevent := PELab (l : plabel) (o : pout) | PEObs (ob : pobs) | PEMid (tok : bool).

Definition oz_eqb (a b : option Z) : bool :=
  match a, b with Some x, Some y => Z.eqb x y | None, None => true | _, _ => false end.
Definition pout_eqb (a b : pout) : bool :=
  match a, b with
  | PONone, PONone => true
  | POPush x, POPush y => Bool.eqb x y
  | POBool x, POBool y => Bool.eqb x y
  | POPop x, POPop y => oz_eqb x y
  | _, _ => false
  end.
Fixpoint pnats_eqb (x y : list nat) : bool :=
  match x, y with [], [] => true | a :: x', b :: y' => Nat.eqb a b && pnats_eqb x' y' | _, _ => false end.
Fixpoint prets_eqb (x y : list (nat * option Z)) : bool :=
  match x, y with
  | [], [] => true
  | (a, r) :: x', (b, q) :: y' => Nat.eqb a b && oz_eqb r q && prets_eqb x' y'
  | _, _ => false
  end.
Definition pis_nil {A} (l : list A) : bool := match l with [] => true | _ => false end.

(* at a quiescent point no call is in progress: nothing is pending *)
Definition pobs_ok (s : pst) (ob : pobs) : bool :=
  Nat.eqb (pend s) 0
  && prets_eqb (pdones_of s) (po_ret ob)
  && pnats_eqb (pparked_of s) (po_parked ob)
  && pnats_eqb (pholding_of s) (po_holding ob)
  && pis_nil (po_stuck ob)
  && Bool.eqb (token s) (po_token ob)
  && Nat.eqb (length (ents s)) (po_len ob).

Fixpoint preplay (s : pst) (tr : list pevent) : bool :=
  match tr with
  | [] => true
  | PELab l o :: r => match pstep s l with
                      | Some (s', o') => pout_eqb o o' && preplay s' r
                      | None => false
                      end
  | PEObs ob :: r => pobs_ok s ob && preplay s r
  | PEMid tok :: r => Bool.eqb (token s) tok && preplay s r
  end.

(* ---------------- the monitor ---------------- *)
Record pmon := { pm_added : list Z; pm_taken : list Z }.
Definition pmon0 := {| pm_added := []; pm_taken := [] |}.
Definition pmon_lab (m : pmon) (l : plabel) (o : pout) : pmon :=
  match l, o with
  | PPushLocked _ v, POPush true => {| pm_added := pm_added m ++ [v]; pm_taken := pm_taken m |}
  | PPopDirect, POPop (Some v) => {| pm_added := pm_added m; pm_taken := pm_taken m ++ [v] |}
  | _, _ => m
  end.

Fixpoint pzmem (x : Z) (l : list Z) : bool := match l with [] => false | y :: r => Z.eqb x y || pzmem x r end.
Fixpoint pznodup (l : list Z) : bool := match l with [] => true | x :: r => negb (pzmem x r) && pznodup r end.
Definition pzincl (a b : list Z) : bool := forallb (fun x => pzmem x b) a.

(* at every moment when the queue is non-empty, no Push or Pop call is in progress (a quiescent point) and no
   consumer holds a wait-channel signal it has not yet followed by a Pop: the wait channel is readable, and no
   consumer is left sleeping on it; the items handed out are distinct, were pushed, and none is unaccounted for *)
Definition pmon_obs (m : pmon) (ob : pobs) : bool :=
  let got := pres_items (po_ret ob) ++ pm_taken m in
  pis_nil (po_stuck ob)
  && pznodup got
  && pzincl got (pm_added m)
  && Nat.eqb (length got + po_len ob) (length (pm_added m))
  && (Nat.eqb (po_len ob) 0 || negb (pis_nil (po_holding ob)) || (po_token ob && pis_nil (po_parked ob))).

Fixpoint pmonitor (m : pmon) (tr : list pevent) : bool :=
  match tr with
  | [] => true
  | PELab l o :: r => pmonitor (pmon_lab m l o) r
  | PEObs ob :: r => pmon_obs m ob && pmonitor m r
  | PEMid _ :: r => pmonitor m r        (* a call is in progress: the clause does not speak about this moment *)
  end.

Fixpoint plab_items (tr : list pevent) : list Z :=
  match tr with
  | [] => []
  | PELab (PPushLocked _ v) _ :: r => v :: plab_items r
  | _ :: r => plab_items r
  end.

Definition pri_accept (cap : Z) (n : nat) (tr : list pevent) : bool :=
  pznodup (plab_items tr) && preplay (pinit cap n) tr.
Definition pri_holds (tr : list pevent) : bool := pmonitor pmon0 tr.
