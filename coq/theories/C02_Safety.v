(* C02: consequences of the invariant for every label sequence of the complete locker: same object, the unlock
   section never faults, per-key exclusion among callers, a returned caller holds all its keys, per-key state
   exists exactly while somebody uses the key (reclaim), one lock object per step, group acquisition order. *)
From Coq Require Import List Lia Bool Arith Permutation Sorting.Sorted.
Require Import KeyLTS KeyAgree C02_Model C02_Table C02_Inv.
Import ListNotations.

(* ---------------- same object ---------------- *)
(* every (key, object) pair a caller works with is the table's CURRENT entry for that key, counted in its mode *)
Lemma same_object_inv s t q k o : FInv s -> thr s t = Some q -> In (k, o) (tregd q) ->
  exists e, tmap (tb s) k = Some e /\ eobj e = o /\ 1 <= cnt (tw q) e.
Proof.
  intros (_ & (HT & _ & _) & _ & HTh & _) Ht Hin. destruct (HTh t q Ht) as (_ & Hp & _).
  pose proof (Hp k o Hin) as Hr. pose proof (HT k) as Hk. destruct (tmap (tb s) k) as [e|].
  - destruct Hk as (_ & K2 & K3 & _ & K5). exists e. split; [reflexivity|split; [symmetry; apply (K5 _ Hr eq_refl)|]].
    unfold cnt. destruct (tw q) eqn:Ew; [rewrite K3|rewrite K2]; apply (cntk_pos k _ _ _ Hr eq_refl eq_refl).
  - exfalso. exact (Hk _ Hr eq_refl).
Qed.

(* two callers registered on the same key work with the same lock object *)
Lemma same_object_two s t1 q1 t2 q2 k o1 o2 : FInv s -> thr s t1 = Some q1 -> thr s t2 = Some q2 ->
  In (k, o1) (tregd q1) -> In (k, o2) (tregd q2) -> o1 = o2.
Proof.
  intros HF H1 H2 I1 I2. destruct (same_object_inv s t1 q1 k o1 HF H1 I1) as (e1 & A1 & B1 & _).
  destruct (same_object_inv s t2 q2 k o2 HF H2 I2) as (e2 & A2 & B2 & _). congruence.
Qed.

(* different keys, different objects *)
Lemma distinct_objects s t1 q1 t2 q2 k1 k2 o : FInv s -> thr s t1 = Some q1 -> thr s t2 = Some q2 ->
  In (k1, o) (tregd q1) -> In (k2, o) (tregd q2) -> k1 = k2.
Proof.
  intros HF H1 H2 I1 I2. destruct (same_object_inv s t1 q1 k1 o HF H1 I1) as (e1 & A1 & B1 & _).
  destruct (same_object_inv s t2 q2 k2 o HF H2 I2) as (e2 & A2 & B2 & _).
  destruct HF as (_ & (_ & HJ & _) & _). apply (HJ k1 k2 e1 e2 A1 A2). congruence.
Qed.

Section Steps.
Variable sh : nat -> nat.

(* the unlock section never faults: the entry is there, it is the object this caller locked, the count is positive *)
Theorem unlock_never_faults s t q : FInv s -> thr s t = Some q -> tstage q = SRel -> exists s', fstep sh s (FUnlock t) = Some s'.
Proof.
  intros HF Ht Hs. pose proof HF as (_ & HTb & _ & HTh & _). destruct (HTh t q Ht) as (_ & Hp & Hl).
  unfold link in Hl. rewrite Hs in Hl. destruct Hl as (r & L1 & L2 & L3 & L4).
  destruct (tregd q) as [|[k o] rem] eqn:Eq; [congruence|]. cbn [map snd] in L3.
  destruct (unreg_key_inv t (tw q) (tb s) k o HTb (Hp k o (or_introl eq_refl))) as (b' & U & _).
  cbn [fstep]. rewrite Ht, Hs, Eq, U. unfold next_rel_obj. rewrite L1, L3, Nat.eqb_refl. cbn [step]. rewrite L1, L3. eexists. reflexivity.
Qed.

(* ---------------- exclusion per KEY ---------------- *)
(* caller t has obtained key k in mode w and has not given it back *)
Definition holds_key (s : fstate) (t k : nat) (w : bool) : Prop :=
  exists q o r, thr s t = Some q /\ tw q = w /\ In (k, o) (tregd q) /\ reqs (base s) t = Some r /\ has_key r o.

Lemma link_mode s t q r : FInv s -> thr s t = Some q -> reqs (base s) t = Some r -> rwrite r = tw q.
Proof.
  intros (_ & _ & _ & HTh & _) Ht Hr. destruct (HTh t q Ht) as (_ & _ & Hl). unfold link in Hl. destruct (tstage q).
  - congruence.
  - destruct Hl as (r' & n & A & _ & B & _). congruence.
  - destruct Hl as (r' & A & B & _). congruence.
Qed.

Lemma exclusion_finv s t1 t2 k w1 w2 : FInv s -> t1 <> t2 -> holds_key s t1 k w1 -> holds_key s t2 k w2 -> w1 = false /\ w2 = false.
Proof.
  intros HF Hne (q1 & o1 & r1 & A1 & B1 & C1 & D1 & E1) (q2 & o2 & r2 & A2 & B2 & C2 & D2 & E2).
  assert (o1 = o2) by (apply (same_object_two s t1 q1 t2 q2 k o1 o2 HF A1 A2 C1 C2)). subst o2.
  pose proof (link_mode s t1 q1 r1 HF A1 D1) as M1. pose proof (link_mode s t2 q2 r2 HF A2 D2) as M2.
  destruct HF as (HI & _). destruct (exclusion_inv (base s) t1 t2 r1 r2 o1 HI Hne D1 D2 E1 E2). split; congruence.
Qed.

Theorem key_exclusion ls s t1 t2 k w1 w2 : frun sh finit ls = Some s -> t1 <> t2 ->
  holds_key s t1 k w1 -> holds_key s t2 k w2 -> w1 = false /\ w2 = false.
Proof. intros H. apply exclusion_finv, (reachable_finv sh ls s H). Qed.

(* a caller whose call has returned holds every key of its list, all at once *)
Lemma returned_spec s t : returned s t = true ->
  exists q r, thr s t = Some q /\ tstage q = SRun /\ reqs (base s) t = Some r /\ rphase r = Acq (length (rkeys r)) /\ running (base s) t = false.
Proof.
  unfold returned. destruct (thr s t) as [q|]; [|discriminate]. destruct (reqs (base s) t) as [r|]; [|discriminate].
  destruct (tstage q) eqn:Est; try discriminate. destruct (rphase r) as [n|] eqn:Ep; [|discriminate]. intros H. apply andb_prop in H.
  destruct H as [H1 H2]. apply Nat.eqb_eq in H1. apply negb_true_iff in H2. subst n. exists q, r.
  split; [reflexivity|split; [exact Est|split; [reflexivity|split; [exact Ep|exact H2]]]].
Qed.
Lemma returned_holds_key s t q k o : FInv s -> returned s t = true -> thr s t = Some q -> In (k, o) (tregd q) -> holds_key s t k (tw q).
Proof.
  intros HF Hret Ht Hin. destruct (returned_spec s t Hret) as (q' & r & A & B & C & D & _). rewrite Ht in A. inversion A; subst q'.
  exists q, o, r. split; [exact Ht|split; [reflexivity|split; [exact Hin|split; [exact C|]]]].
  destruct HF as (_ & _ & _ & HTh & _). destruct (HTh t q Ht) as (_ & _ & Hl). unfold link in Hl. rewrite B in Hl.
  destruct Hl as (r' & n & L1 & L2 & _). rewrite C in L1. inversion L1; subst r'.
  unfold has_key. rewrite D. assert (Ho : In o (rkeys r)) by (rewrite L2; apply in_map_iff; exists (k, o); auto).
  destruct (In_nth_error _ _ Ho) as [i Hi]. exists i. split; [apply nth_error_lt in Hi; exact Hi|exact Hi].
Qed.

Theorem returned_callers_exclude ls s t1 t2 q1 q2 k o1 o2 : frun sh finit ls = Some s -> t1 <> t2 ->
  returned s t1 = true -> returned s t2 = true -> thr s t1 = Some q1 -> thr s t2 = Some q2 ->
  In (k, o1) (tregd q1) -> In (k, o2) (tregd q2) -> tw q1 = false /\ tw q2 = false.
Proof.
  intros H Hne R1 R2 T1 T2 I1 I2. pose proof (reachable_finv sh ls s H) as HF.
  apply (exclusion_finv s t1 t2 k (tw q1) (tw q2) HF Hne); [apply (returned_holds_key s t1 q1 k o1)|apply (returned_holds_key s t2 q2 k o2)]; assumption.
Qed.

(* ---------------- reclaim: per-key state exists exactly while some caller is registered on the key ---------------- *)
Theorem entry_iff_registered ls s k : frun sh finit ls = Some s ->
  (tmap (tb s) k <> None <-> exists t q o, thr s t = Some q /\ In (k, o) (tregd q)).
Proof.
  intros H. pose proof (reachable_finv sh ls s H) as HF. split.
  - intros Hne. destruct HF as (_ & (HT & _ & _) & HR & _). pose proof (HT k) as Hk. destruct (tmap (tb s) k) as [e|]; [|congruence].
    destruct Hk as (_ & K2 & K3 & K4 & _).
    assert (Hex : exists r, In r (tregs (tb s)) /\ gk r = k).
    { destruct (tregs (tb s)) as [|r0 l] eqn:El; [cbn in K2, K3; lia|]. rewrite <- El in *. clear El r0 l.
      assert (Hc : 1 <= cntk k false (tregs (tb s)) \/ 1 <= cntk k true (tregs (tb s))) by lia. clear -Hc.
      unfold cntk in Hc. destruct Hc as [Hc|Hc];
        [destruct (filter (fun r => Nat.eqb (gk r) k && Bool.eqb (gw r) false) (tregs (tb s))) as [|r l] eqn:Ef
        |destruct (filter (fun r => Nat.eqb (gk r) k && Bool.eqb (gw r) true) (tregs (tb s))) as [|r l] eqn:Ef]; try (cbn in Hc; lia);
        (assert (Hin : In r (r :: l)) by (left; reflexivity); rewrite <- Ef in Hin; apply filter_In in Hin; destruct Hin as [Hin Hp];
         apply andb_prop in Hp; destruct Hp as [Hp _]; apply Nat.eqb_eq in Hp; exists r; auto). }
    destruct Hex as (r & Hin & Hk). destruct (HR r Hin) as (q & A & _ & B). exists (gt r), q, (go r). rewrite <- Hk. auto.
  - intros (t & q & o & Ht & Hin) Hn. destruct (same_object_inv s t q k o HF Ht Hin) as (e & A & _). congruence.
Qed.

Theorem reclaim ls s : frun sh finit ls = Some s -> (forall t, thr s t = None) -> forall k, tmap (tb s) k = None.
Proof.
  intros H Hnone k. destruct (tmap (tb s) k) as [e|] eqn:E; [|reflexivity]. exfalso.
  destruct (proj1 (entry_iff_registered ls s k H)) as (t & q & o & Ht & _); [congruence|]. rewrite Hnone in Ht. discriminate.
Qed.

(* ---------------- key independence: a step touches one lock object, and only the actor's table entries ---------------- *)
Theorem one_object_per_step s l s' : fstep sh s l = Some s' -> exists o0, forall o, o <> o0 -> locks (base s') o = locks (base s) o.
Proof.
  assert (G : forall b bl b', step b bl = Some b' -> exists o0, forall o, o <> o0 -> locks b' o = locks b o) by (intros; eapply one_lock_per_step; eauto).
  intros H. destruct l as [t ks w|t|t|o i|o|o i|t|t]; cbn [fstep] in H;
    try (unfold lift in H; match type of H with context [step ?b ?bl] => destruct (step b bl) as [b'|] eqn:Es; [|discriminate] end;
         inversion H; subst; cbn [base]; apply (G _ _ _ Es)).
  - destruct (thr s t); [discriminate|]. destruct (nodupb ks); [|discriminate].
    destruct (start_if_done_spec _ _ _ _ H) as (_ & [(_ & E & _)|(_ & E & _)]); [exists 0; intros; rewrite E; reflexivity|apply (G _ _ _ E)].
  - destruct (thr s t) as [q|]; [|discriminate]. destruct (tstage q) as [[|c todo]| |]; try discriminate.
    destruct (reg_keys t (tw q) (tb s) c) as [b' os].
    destruct (start_if_done_spec _ _ _ _ H) as (_ & [(_ & E & _)|(_ & E & _)]); cbn [base] in E; [exists 0; intros; rewrite E; reflexivity|apply (G _ _ _ E)].
  - destruct (thr s t) as [q|]; [|discriminate]. destruct (tstage q); try discriminate.
    destruct (step (base s) (Release t)) as [b|] eqn:Es; [|discriminate]. inversion H; subst. cbn [base]. apply (G _ _ _ Es).
  - destruct (thr s t) as [q|]; [|discriminate]. destruct (tstage q); try discriminate. destruct (tregd q) as [|[k o_s] rem]; [discriminate|].
    destruct (unreg_key t (tw q) (tb s) k) as [[b' o]|]; [|discriminate]. destruct (next_rel_obj s t); [|discriminate].
    destruct (Nat.eqb n o); [|discriminate]. destruct (step (base s) (UnlockKey t)) as [bs|] eqn:Es; [|discriminate].
    inversion H; subst. cbn [base]. apply (G _ _ _ Es).
Qed.

End Steps.

(* ---------------- the group's acquisition order ---------------- *)
Section GroupOrder.
Variable sh : nat -> nat.
(* the order induced on keys by (shard index, key) *)
Definition lexlt (a b : nat) : Prop := sh a < sh b \/ (sh a = sh b /\ a < b).

Lemma lexlt_sh a b : lexlt a b -> sh a <= sh b.
Proof. intros [H|[H _]]; lia. Qed.

Lemma ins_sorted x l : StronglySorted lexlt l -> Forall (fun y => x < y) l -> StronglySorted lexlt (ins sh x l).
Proof.
  induction l as [|y r IH]; intros Hs Hx; cbn [ins]; [constructor; constructor|].
  inversion Hs as [|? ? Hr Hy]; subst. inversion Hx as [|? ? Hxy Hxr]; subst.
  destruct (sh x <=? sh y) eqn:E.
  - apply Nat.leb_le in E. constructor; [exact Hs|]. constructor.
    + unfold lexlt. destruct (Nat.eq_dec (sh x) (sh y)); [right; split; assumption|left; lia].
    + rewrite Forall_forall in *. intros z Hz. pose proof (lexlt_sh _ _ (Hy z Hz)) as Hyz. pose proof (Hxr z Hz) as Hxz.
      unfold lexlt. destruct (Nat.eq_dec (sh x) (sh z)); [right; split; assumption|left; lia].
  - apply Nat.leb_gt in E. constructor; [apply IH; assumption|].
    assert (Hperm : Permutation (x :: r) (ins sh x r)) by apply ins_perm.
    rewrite Forall_forall in *. intros z Hz. apply (Permutation_in _ (Permutation_sym Hperm)) in Hz. destruct Hz as [<-|Hz].
    + left. exact E.
    + apply Hy, Hz.
Qed.

(* caller lists increasing in the key order are acquired in an order increasing in (shard, key): ONE global order
   for all callers of the group, whatever the routing function *)
Theorem acq_order_sorted l : StronglySorted lt l -> StronglySorted lexlt (acq_order sh l).
Proof.
  induction l as [|x r IH]; intros Hs; cbn [acq_order]; [constructor|]. inversion Hs as [|? ? Hr Hx]; subst.
  apply ins_sorted; [apply IH, Hr|]. rewrite Forall_forall in *. intros y Hy.
  apply Hx. apply (Permutation_in _ (Permutation_sym (acq_order_perm sh r))). exact Hy.
Qed.
(* with one shard (the single lockers) the acquisition order is the caller's list *)
Lemma ins_const x l : (forall a b, sh a = sh b) -> ins sh x l = x :: l.
Proof. intros H. destruct l as [|y r]; cbn [ins]; [reflexivity|]. rewrite (H x y), Nat.leb_refl. reflexivity. Qed.
Theorem acq_order_single l : (forall a b, sh a = sh b) -> acq_order sh l = l.
Proof. intros H. induction l as [|x r IH]; cbn [acq_order]; [reflexivity|]. rewrite IH. apply ins_const, H. Qed.
End GroupOrder.

(* ---------------- the same facts stated for every label sequence from the empty locker ---------------- *)
Section Runs.
Variable sh : nat -> nat.
Theorem same_object ls s t q k o : frun sh finit ls = Some s -> thr s t = Some q -> In (k, o) (tregd q) ->
  exists e, tmap (tb s) k = Some e /\ eobj e = o /\ 1 <= cnt (tw q) e.
Proof. intros H. apply same_object_inv, (reachable_finv sh ls s H). Qed.
Theorem unlock_enabled ls s t q : frun sh finit ls = Some s -> thr s t = Some q -> tstage q = SRel ->
  exists s', fstep sh s (FUnlock t) = Some s'.
Proof. intros H. apply unlock_never_faults, (reachable_finv sh ls s H). Qed.
Theorem keys_have_distinct_objects ls s t1 q1 t2 q2 k1 k2 o : frun sh finit ls = Some s ->
  thr s t1 = Some q1 -> thr s t2 = Some q2 -> In (k1, o) (tregd q1) -> In (k2, o) (tregd q2) -> k1 = k2.
Proof. intros H. apply distinct_objects, (reachable_finv sh ls s H). Qed.
(* the RWMutex invariants of KeyLTS hold of the objects of the complete locker *)
Theorem base_inv ls s : frun sh finit ls = Some s -> Inv (base s).
Proof. intros H. apply (reachable_finv sh ls s H). Qed.
End Runs.

(* non-vacuity: two shards, key 0 in shard 1 and key 1 in shard 0.  Caller 1 write-locks [0;1] (acquired as 1 then 0),
   caller 2 asks for key 1 and waits, caller 3 reads key 0 and waits; caller 1 unlocks; both get their keys; all
   unlock; the table is empty again. *)
Definition demo_sh (k : nat) : nat := match k with 0 => 1 | _ => 0 end.
Example demo_full : exists s, frun demo_sh finit
  [FCall 1 [0; 1] true; FReg 1; FReg 1; FArrive 1; FGrant 0; FArrive 1; FGrant 1; FArrive 1;
   FCall 2 [1] true; FReg 2; FArrive 2; FCall 3 [0] false; FReg 3; FArrive 3;
   FRelease 1; FUnlock 1; FAnnounce 0 0; FGrant 0; FArrive 2; FUnlock 1; FToken 1 0; FArrive 3;
   FRelease 2; FUnlock 2; FRelease 3; FUnlock 3] = Some s
  /\ (forall k, k < 4 -> tmap (tb s) k = None) /\ tregs (tb s) = [] /\ tnext (tb s) = 2.
Proof.
  eexists. split; [vm_compute; reflexivity|]. split; [|split; vm_compute; reflexivity].
  intros k Hk. do 4 (destruct k as [|k]; [vm_compute; reflexivity|]). lia.
Qed.
