(* C05: what a caller can retrieve.  view c k now = the value Get would return for k at time now.
   Get reports exactly the view; remove-after-get consumes; Set makes the new value retrievable;
   operations on one key leave every other key's view alone, except for the single entry evicted from the cold end *)
From Coq Require Import ZArith List Lia Bool.
Require Import TTL.
Import ListNotations.
Open Scope Z_scope.

Definition view (c : cache) (k now : Z) : option Z :=
  match find_k k (l c) with Some n => if dl n <? now then None else Some (val n) | None => None end.

Lemma find_cons_same k n r : key n = k -> find_k k (n :: r) = Some n.
Proof. intros E. unfold find_k. cbn [find]. rewrite E, Z.eqb_refl. reflexivity. Qed.
Lemma find_cons_other k n r : key n <> k -> find_k k (n :: r) = find_k k r.
Proof. intros E. unfold find_k. cbn [find]. apply Z.eqb_neq in E. rewrite E. reflexivity. Qed.
Lemma find_erase_other k k' : forall l0, k' <> k -> find_k k' (erase k l0) = find_k k' l0.
Proof.
  intros l0 Hne. unfold find_k, erase. induction l0 as [|n r IH]; [reflexivity|]. cbn [filter find].
  destruct (key n =? k) eqn:E; cbn [negb].
  - apply Z.eqb_eq in E. replace (key n =? k') with false by (symmetry; apply Z.eqb_neq; lia). exact IH.
  - cbn [find]. destruct (key n =? k'); [reflexivity|exact IH].
Qed.

(* Get answers exactly the view *)
Theorem get_spec c k o now : snd (get c k o now) = match view c k now with Some v => Ok v | None => NotFound end.
Proof.
  unfold get, view. destruct (find_k k (l c)) as [n|]; [|reflexivity]. destruct (dl n <? now); [reflexivity|].
  destruct (rag o); reflexivity.
Qed.

(* remove-after-get consumes the entry: no later Get can return it *)
Theorem get_consumes c k o now now' : rag o = true -> view (fst (get c k o now)) k now' = None.
Proof.
  intros Hr. unfold get, view. destruct (find_k k (l c)) as [n|] eqn:Hf; cbn [fst l].
  - destruct (dl n <? now); cbn [fst l]; [rewrite find_erase; reflexivity|]. rewrite Hr. cbn [fst l]. rewrite find_erase. reflexivity.
  - rewrite Hf. reflexivity.
Qed.

(* a plain Get of a live key keeps it retrievable (and refreshes it) *)
Theorem get_keeps c k o now v : rag o = false -> upd o = None -> view c k now = Some v -> view (fst (get c k o now)) k now = Some v.
Proof.
  intros Hr Hu. unfold get, view. destruct (find_k k (l c)) as [n|] eqn:Hf; [|discriminate].
  destruct (dl n <? now) eqn:Ed; [discriminate|]. intros Hv. rewrite Hr, Hu. cbn [fst l].
  rewrite find_cons_same by reflexivity. cbn [dl val]. rewrite Ed. exact Hv.
Qed.

(* Get on k never changes what is retrievable under another key *)
Theorem get_frame c k k' o now now' : k' <> k -> view (fst (get c k o now)) k' now' = view c k' now'.
Proof.
  intros Hne. unfold get, view. destruct (find_k k (l c)) as [n|] eqn:Hf; cbn [fst l]; [|reflexivity].
  destruct (dl n <? now); cbn [fst l]; [rewrite find_erase_other by exact Hne; reflexivity|].
  destruct (rag o); cbn [fst l]; [rewrite find_erase_other by exact Hne; reflexivity|].
  rewrite find_cons_other by (cbn [key]; lia). rewrite find_erase_other by exact Hne. reflexivity.
Qed.

Lemma removelast_head {A} (x : A) (r : list A) : r <> [] -> removelast (x :: r) = x :: removelast r.
Proof. destruct r; [congruence|reflexivity]. Qed.
Lemma deadline_live t now : fits t now -> (deadline t now <? now) = false.
Proof. intros H. rewrite (deadline_fits t now H). destruct H as [Hn Ht]. destruct (t <=? 0) eqn:E; apply Z.ltb_ge; [lia|apply Z.leb_gt in E; lia]. Qed.

(* inserting a fresh head into a cache of size >= 1 keeps that head, whether or not the cold end is evicted *)
Lemma head_survives (x : node) (l0 : list node) sz : 1 <= sz ->
  find_k (key x) (if sz <? Z.of_nat (length (x :: l0)) then removelast (x :: l0) else x :: l0) = Some x.
Proof.
  intros Hs. destruct (sz <? Z.of_nat (length (x :: l0))) eqn:E; [|apply find_cons_same; reflexivity].
  apply Z.ltb_lt in E. cbn [length] in E. destruct l0 as [|y r]; [cbn in E; lia|].
  rewrite removelast_head by discriminate. apply find_cons_same. reflexivity.
Qed.

(* a Set that reports success makes the value retrievable at once (size >= 1; the clock is a 63-bit reading) *)
Theorem set_then_get c k v o now : 1 <= size c -> fits (set_ttl c o) now ->
  snd (set c k v o now) = Done -> view (fst (set c k v o now)) k now = Some v.
Proof.
  intros Hs Hnow. unfold set, view.
  set (ttl := set_ttl c o) in *.
  destruct (find_k k (l c)) as [n|] eqn:Hf.
  - destruct (dl n <? now) eqn:Ed.
    + intros _. cbn [fst l]. set (x := {| key := k; val := v; dl := deadline ttl now |}).
      change k with (key x) at 1. rewrite head_survives by exact Hs. cbn [dl val x]. rewrite deadline_live by exact Hnow. reflexivity.
    + destruct (mne o); cbn [fst snd l]; [discriminate|]. intros _.
      rewrite find_cons_same by reflexivity. cbn [dl val]. destruct (keep o); [rewrite Ed|rewrite deadline_live by exact Hnow]; reflexivity.
  - intros _. cbn [fst l]. set (x := {| key := k; val := v; dl := deadline ttl now |}).
    change k with (key x) at 1. rewrite head_survives by exact Hs. cbn [dl val x]. rewrite deadline_live by exact Hnow. reflexivity.
Qed.

(* set-if-absent on a live key changes nothing retrievable and reports already-exists *)
Theorem set_mne_live c k v o now w : mne o = true -> view c k now = Some w ->
  snd (set c k v o now) = Exists /\ forall k' now', view (fst (set c k v o now)) k' now' = view c k' now'.
Proof.
  intros Hm. unfold view at 1. destruct (find_k k (l c)) as [n|] eqn:Hf; [|discriminate]. destruct (dl n <? now) eqn:Ed; [discriminate|]. intros _.
  unfold set. rewrite Hf, Ed, Hm. cbn [fst snd]. split; [reflexivity|]. intros k' now'. unfold view. cbn [l]. reflexivity.
Qed.

(* the latest successful Set wins: a second Set of the same key replaces the value *)
Corollary latest_set_wins c k v1 v2 o1 o2 now : 1 <= size c -> fits (set_ttl c o2) now -> mne o2 = false ->
  let c1 := fst (set c k v1 o1 now) in view (fst (set c1 k v2 o2 now)) k now = Some v2.
Proof.
  intros Hs Hnow Hm. cbn zeta. destruct (set_cfg c k v1 o1 now) as [Hsz Hdt]. apply set_then_get; [| |].
  - rewrite Hsz. exact Hs.
  - unfold set_ttl in *. rewrite Hdt. exact Hnow.
  - unfold set at 1. set (c1 := fst (set c k v1 o1 now)).
    destruct (find_k k (l c1)) as [n|]; [destruct (dl n <? now); [reflexivity|rewrite Hm; reflexivity]|reflexivity].
Qed.

Print Assumptions get_spec.
Print Assumptions set_then_get.
