(* C08 proofs, part 3: the set half on 16-word lists (on top of BitSet.v), Len / NLen as numbers of members,
   Bit64's own methods. *)
From Coq Require Import List Bool ZArith NArith Lia.
Require Import BitSet C08_Model C08_Spec C08_Word C08_Iter.
Import ListNotations.
Open Scope Z_scope.

(* ---------------- membership: the fast form is BitSet.member ---------------- *)
Lemma mem1024_member ws j : mem1024 ws j = member (of_list ws) j.
Proof.
  unfold mem1024, member, of_list. rewrite Z.shiftr_div_pow2 by lia.
  change (Z.land j 63) with (Z.land j (Z.ones 6)). rewrite Z.land_ones by lia. reflexivity.
Qed.

Lemma member_ext a b j : (forall k, a k = b k) -> member a j = member b j.
Proof. intros H. unfold member. now rewrite H. Qed.

Lemma to_list_nth b k : (k < 16)%nat -> of_list (to_list b) k = b k.
Proof. intros H. unfold of_list, to_list. do 16 (destruct k as [|k]; [reflexivity|]). lia. Qed.
Lemma to_list_length b : length (to_list b) = 16%nat.
Proof. reflexivity. Qed.

Lemma member_to_list b j : member (of_list (to_list b)) j = member b j.
Proof.
  unfold member. destruct ((0 <=? j) && (j <? 1024)) eqn:E; cbn [andb]; [|reflexivity].
  apply andb_prop in E. destruct E as [E1 E2]. apply Z.leb_le in E1. apply Z.ltb_lt in E2.
  rewrite to_list_nth; [reflexivity|].
  assert (0 <= j / 64 < 16) by (split; [apply Z.div_pos; lia|apply Z.div_lt_upper_bound; lia]). lia.
Qed.

Lemma same_set_intro p q dom : (forall j, In j dom -> p j = q j) -> same_set p q dom = true.
Proof. intros H. unfold same_set. apply forallb_forall. intros j Hj. rewrite (H j Hj). apply Bool.eqb_reflx. Qed.
Lemma same_set_iff p q dom : same_set p q dom = true <-> (forall j, In j dom -> p j = q j).
Proof.
  split; [|apply same_set_intro]. unfold same_set. rewrite forallb_forall. intros H j Hj. apply Bool.eqb_prop. now apply H.
Qed.
Lemma in_dom1024 j : In j dom1024 <-> 0 <= j < 1024.
Proof. unfold dom1024. rewrite in_zseq. lia. Qed.
Lemma in_dom64 j : In j dom64 <-> 0 <= j < 64.
Proof. unfold dom64. rewrite in_zseq. lia. Qed.
Lemma in1024_true i : in1024 i = true <-> 0 <= i < 1024.
Proof. unfold in1024. rewrite andb_true_iff, Z.leb_le, Z.ltb_lt. tauto. Qed.

(* ---------------- Set / Unset ---------------- *)
Lemma point_length k ws i : length (point k ws i) = 16%nat.
Proof. destruct k; reflexivity. Qed.

Theorem point_spec k ws i : same_set (mem1024 (point k ws i)) (point_expect k ws i) dom1024 = true.
Proof.
  apply same_set_intro. intros j _. unfold point_expect. rewrite !mem1024_member.
  destruct (in1024 i) eqn:Ei.
  - apply in1024_true in Ei. cbn [andb].
    destruct k; unfold point; rewrite member_to_list.
    + apply set_in_range; exact Ei.
    + apply unset_in_range; exact Ei.
    + apply set_in_range; exact Ei.
    + apply unset_in_range; exact Ei.
  - assert (Hi : ~ (0 <= i < 1024)) by (intros H; apply in1024_true in H; congruence).
    cbn [andb orb negb].
    destruct k; unfold point; rewrite member_to_list; apply member_ext.
    + now apply set_out_of_range.
    + now apply unset_out_of_range.
    + now apply set_out_of_range.
    + now apply unset_out_of_range.
Qed.

(* ---------------- Reverse / And / Or / OrThenReverse ---------------- *)
Theorem reverse_set a : same_set (mem1024 (reverse1024 a)) (fun j => negb (mem1024 a j)) dom1024 = true.
Proof.
  apply same_set_intro. intros j Hj. apply in_dom1024 in Hj. rewrite !mem1024_member. unfold reverse1024.
  rewrite member_to_list. now apply reverse_spec.
Qed.
Theorem binop_set k a b : same_set (mem1024 (binop k a b)) (bin_expect k a b) dom1024 = true.
Proof.
  apply same_set_intro. intros j Hj. apply in_dom1024 in Hj. unfold bin_expect. rewrite !mem1024_member.
  destruct k; unfold binop; rewrite member_to_list.
  - apply and_spec.
  - apply or_spec.
  - now apply or_then_reverse_spec.
Qed.
Lemma binop_length k a b : length (binop k a b) = 16%nat.
Proof. destruct k; reflexivity. Qed.

(* ---------------- Equal ---------------- *)
Lemma wfws_wf ws : wfws ws = true -> wf (of_list ws).
Proof.
  intros H k _. unfold of_list. unfold wfws in H. apply andb_prop in H. destruct H as [_ H]. rewrite forallb_forall in H.
  destruct (nth_in_or_default k ws 0%N) as [Hin | ->]; [apply N.ltb_lt; now apply H|reflexivity].
Qed.

Theorem equal1024_spec a b : wfws a = true -> wfws b = true ->
  equal1024 a b = same_set (mem1024 a) (mem1024 b) dom1024.
Proof.
  intros Ha Hb. apply Bool.eq_true_iff_eq. unfold equal1024.
  rewrite (equal_spec (of_list a) (of_list b) (wfws_wf a Ha) (wfws_wf b Hb)), same_set_iff.
  split; intros H j Hj.
  - apply in_dom1024 in Hj. rewrite !mem1024_member. now apply H.
  - rewrite <- !mem1024_member. apply H. now apply in_dom1024.
Qed.

(* ---------------- Len / NLen ---------------- *)
Lemma filter_compl {A} (p : A -> bool) l : (length (filter p l) + length (filter (fun x => negb (p x)) l) = length l)%nat.
Proof. induction l as [|x r IH]; cbn [filter length]; [reflexivity|]. destruct (p x); cbn [negb length]; lia. Qed.

Lemma len_fold ws : forall l a, (forall k, In k l -> wfw (word ws k) = true) ->
  fold_left (fun c k => c + len64 (word ws k)) l a =
  a + Z.of_nat (length (flat_map (fun k => map (glob k) (members64 (word ws k))) l)).
Proof.
  induction l as [|k l IH]; intros a H; cbn [fold_left flat_map length]; [lia|].
  rewrite IH by (intros k' Hk'; apply H; now right).
  rewrite app_length, map_length, (len64_members (word ws k)) by (apply H; now left). lia.
Qed.

Theorem len1024_members ws : wfws ws = true -> len1024 ws = Z.of_nat (length (members1024 ws)).
Proof.
  intros H. unfold len1024. rewrite len_fold by (intros k _; now apply wfws_word).
  rewrite <- members1024_words. lia.
Qed.
Lemma dom1024_length : length dom1024 = 1024%nat.
Proof. reflexivity. Qed.
Theorem nlen1024_nonmembers ws : wfws ws = true ->
  nlen1024 ws = Z.of_nat (length (filter (fun j => negb (mem1024 ws j)) dom1024)).
Proof.
  intros H. unfold nlen1024. rewrite (len1024_members ws H). unfold members1024. fold dom1024.
  pose proof (filter_compl (mem1024 ws) dom1024) as Hc. rewrite dom1024_length in Hc. lia.
Qed.

(* ---------------- Bit64's own methods ---------------- *)
Lemma mem64_bit w j : 0 <= j < 64 -> mem64 w j = N.testbit w (Z.to_N j).
Proof.
  intros H. unfold mem64. replace (0 <=? j) with true by (symmetry; apply Z.leb_le; lia).
  replace (j <? 64) with true by (symmetry; apply Z.ltb_lt; lia). reflexivity.
Qed.
Lemma toN_eqb a j : 0 <= a -> 0 <= j -> N.eqb (Z.to_N a) (Z.to_N j) = Z.eqb j a.
Proof.
  intros Ha Hj. destruct (Z.eqb j a) eqn:E.
  - apply Z.eqb_eq in E. subst. apply N.eqb_refl.
  - apply Z.eqb_neq in E. apply N.eqb_neq. lia.
Qed.

Theorem wordop_spec k w arg : 0 <= arg -> same_set (mem64 (wordop k w arg)) (word_expect k w arg) dom64 = true.
Proof.
  intros Harg. apply same_set_intro. intros j Hj. apply in_dom64 in Hj. unfold word_expect.
  rewrite !(mem64_bit _ j Hj).
  destruct k; unfold wordop.
  - unfold set64. destruct (arg <=? 63); cbn [andb orb]; [|reflexivity].
    rewrite N.lor_spec, N.pow2_bits_eqb, toN_eqb by lia. apply orb_comm.
  - unfold unset64. destruct (arg <=? 63); cbn [andb negb]; [|reflexivity].
    rewrite N.ldiff_spec, N.pow2_bits_eqb, toN_eqb by lia. apply andb_comm.
  - apply N.land_spec.
  - apply N.lor_spec.
  - rewrite N.lxor_spec, ones_bit by lia. apply xorb_true_r.
Qed.

Lemma dom64_length : length dom64 = 64%nat.
Proof. reflexivity. Qed.
Lemma len64_count w : wfw w = true -> len64 w = count_if (mem64 w) dom64.
Proof. intros H. rewrite (len64_members w H). unfold count_if, members64, dom64. reflexivity. Qed.
Lemma nlen64_count w : wfw w = true -> nlen64 w = count_if (fun j => negb (mem64 w j)) dom64.
Proof.
  intros H. unfold nlen64, count_if. rewrite (len64_count w H). unfold count_if.
  pose proof (filter_compl (mem64 w) dom64) as Hc. rewrite dom64_length in Hc. lia.
Qed.

Lemma filter_all {A} (p : A -> bool) l : length (filter p l) = length l -> forall x, In x l -> p x = true.
Proof.
  induction l as [|y r IH]; cbn [filter length In]; intros H x Hx; [contradiction|].
  pose proof (filter_len_le p r) as Hle.
  destruct (p y) eqn:E; cbn [length] in H; [|lia].
  destruct Hx as [<-|Hx]; [exact E|]. apply IH; [lia|exact Hx].
Qed.
Lemma in_asc_iff : forall k i x, In x (asc i k) <-> (i <= x < i + N.of_nat k)%N.
Proof.
  induction k as [|k IH]; intros i x; cbn [asc In]; [lia|]. rewrite IH. lia.
Qed.

Theorem full64_count w : wfw w = true -> full64 w = Z.eqb (count_if (mem64 w) dom64) 64.
Proof.
  intros H. rewrite <- (len64_count w H). apply Bool.eq_true_iff_eq. unfold full64. rewrite N.eqb_eq, Z.eqb_eq. split.
  - intros ->. vm_compute. reflexivity.
  - intros Hl. rewrite len64_pop, (popcount_filter w (wfw_wfb w H)) in Hl.
    assert (Hall : forall i, (i < 64)%N -> N.testbit w i = true).
    { intros i Hi. apply (filter_all (N.testbit w) (asc 0 64)); [change (length (asc 0 64)) with 64%nat; lia|apply in_asc_iff; lia]. }
    apply N.bits_inj. intros i. destruct (N.lt_ge_cases i 64) as [Hi|Hi].
    + rewrite Hall by exact Hi. symmetry. now apply ones_bit.
    + rewrite (wfw_wfb w H i Hi). unfold ones. symmetry. now apply N.ones_spec_high.
Qed.
