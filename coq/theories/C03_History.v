(* C03: every history.  From any tree that stands for a sorted map, any sequence of operations of the inner tree
   (any degree >= 2) or of the wrapper returns exactly what the sorted map returns, operation by operation, and
   ends in a tree that again stands for the resulting map (ordered, balanced, length = item count) - as long as
   the map stays below 2^31 items.  Also: what "stands for" means, spelled out, and the meaning of the sorted
   map's own operations (most recently stored item wins). *)
From Coq Require Import ZArith List Lia Bool Sorting.Sorted.
Require Import C03_Model C03_Spec C03_D C03_Ins C03_InsInv C03_Tree C03_Scan C03_ScanSpec C03_Hist C03_Steps C03_Refine.
Import ListNotations.
Open Scope Z_scope.

(* ---- histories of the inner tree ---- *)
Fixpoint i_hist (deg : nat) (t : itree) (ops : list iop) : option (itree * list obs) :=
  match ops with
  | [] => Some (t, [])
  | o :: r => match i_step deg t o with
              | Some (t', x) => match i_hist deg t' r with Some (t2, xs) => Some (t2, x :: xs) | None => None end
              | None => None end
  end.
Fixpoint is_hist (L : list item) (ops : list iop) : list item * list obs :=
  match ops with
  | [] => (L, [])
  | o :: r => let '(L2, xs) := is_hist (fst (is_step L o)) r in (L2, snd (is_step L o) :: xs)
  end.
(* the sorted map stays below 2^31 items at every step *)
Fixpoint i_small (L : list item) (ops : list iop) : Prop :=
  small L /\ match ops with [] => True | o :: r => i_small (fst (is_step L o)) r end.

Theorem inner_history deg : (2 <= deg)%nat -> forall ops t L, refines0 deg t L -> i_small L ops ->
  exists t', i_hist deg t ops = Some (t', snd (is_hist L ops)) /\ refines deg t' (fst (is_hist L ops)).
Proof.
  intros Hd. induction ops as [|o ops IH]; intros t L HR Hsm.
  - exists t. split; [reflexivity|]. split; [exact HR|exact (proj1 Hsm)].
  - destruct Hsm as [Hs0 Hsm]. cbn [i_hist is_hist].
    destruct (i_step_refines deg Hd t L o (conj HR Hs0)) as (t1 & E & R1). rewrite E.
    destruct (IH t1 _ R1 Hsm) as (t2 & E2 & R2). rewrite E2.
    destruct (is_hist (fst (is_step L o)) ops) as [L2 xs]. exists t2. split; [reflexivity|exact R2].
Qed.

(* ---- histories of the wrapper ---- *)
Fixpoint w_hist (t : itree) (ops : list wop) : option (itree * list obs) :=
  match ops with
  | [] => Some (t, [])
  | o :: r => match w_step t o with
              | Some (t', x) => match w_hist t' r with Some (t2, xs) => Some (t2, x :: xs) | None => None end
              | None => None end
  end.
Fixpoint ws_hist (L : list item) (ops : list wop) : list item * list obs :=
  match ops with
  | [] => (L, [])
  | o :: r => let '(L2, xs) := ws_hist (fst (ws_step L o)) r in (L2, snd (ws_step L o) :: xs)
  end.
Fixpoint w_small (L : list item) (ops : list wop) : Prop :=
  small L /\ match ops with [] => True | o :: r => w_small (fst (ws_step L o)) r end.

Theorem wrapper_history : forall ops t L, refines0 WDEG t L -> w_small L ops ->
  exists t', w_hist t ops = Some (t', snd (ws_hist L ops)) /\ refines WDEG t' (fst (ws_hist L ops)).
Proof.
  induction ops as [|o ops IH]; intros t L HR Hsm.
  - exists t. split; [reflexivity|]. split; [exact HR|exact (proj1 Hsm)].
  - destruct Hsm as [Hs0 Hsm]. cbn [w_hist ws_hist].
    destruct (w_step_refines t L o (conj HR Hs0)) as (t1 & E & R1). rewrite E.
    destruct (IH t1 _ R1 Hsm) as (t2 & E2 & R2). rewrite E2.
    destruct (ws_hist (fst (ws_step L o)) ops) as [L2 xs]. exists t2. split; [reflexivity|exact R2].
Qed.

(* ---- what `refines` says about the tree, spelled out ---- *)
(* shaped h n : all leaves at depth h, every internal node has one more child than items
   occ m h n  : every node below n holds at least m items        (m = degree - 1)
   upper m h n: every node below n holds at most 2m+1 items      (= 2 degree - 1) *)
Theorem refines_invariant deg t L : (2 <= deg)%nat -> refines0 deg t L ->
  StronglySorted klt L /\ ilen t = Z.of_nat (length L) /\ itree_list t = L /\
  match iroot t with
  | None => L = []
  | Some r => exists h, shaped h r /\ occ (deg - 1) h r /\ upper (deg - 1) h r /\
                        (length (iitems r) <= 2 * deg - 1)%nat /\ iflat (S h) r = L
  end.
Proof.
  intros Hd H. split; [eapply refines_sorted, H|]. split; [eapply refines_len, H|]. split; [eapply refines_list, H|].
  destruct H as (h & [Hi _] & Hc & _). unfold contents in Hc. destruct (iroot t) as [r|]; [|symmetry; exact Hc].
  destruct Hi as ((Hs & Ho & Hu) & Hl & _). exists h. unfold minI_of in *. unfold maxI_of in Hl.
  split; [exact Hs|]. split; [exact Ho|]. split; [exact Hu|]. split; [lia|exact Hc].
Qed.

(* ---- the meaning of the sorted map: the most recently stored item wins, other keys are untouched ---- *)
Lemma lookup_filter_other (f : item -> bool) k L : (forall y, key y = k -> f y = true) -> s_lookup k (filter f L) = s_lookup k L.
Proof.
  intros Hf. unfold s_lookup. induction L as [|x L IH]; [reflexivity|]. cbn [filter find].
  destruct (key x =? k) eqn:E.
  - rewrite (Hf x (proj1 (Z.eqb_eq _ _) E)). cbn [find]. rewrite E. reflexivity.
  - destruct (f x); [cbn [find]; rewrite E|]; exact IH.
Qed.
Lemma lookup_filter_none (f : item -> bool) k L : (forall y, key y = k -> f y = false) -> s_lookup k (filter f L) = None.
Proof.
  intros Hf. unfold s_lookup. induction L as [|x L IH]; [reflexivity|]. cbn [filter].
  destruct (f x) eqn:Efx; [|exact IH]. cbn [find]. destruct (key x =? k) eqn:E; [|exact IH].
  rewrite (Hf x (proj1 (Z.eqb_eq _ _) E)) in Efx. discriminate.
Qed.
Theorem lookup_ins_same (it : item) L : s_lookup (key it) (s_ins it L) = Some it.
Proof.
  unfold s_ins. rewrite lookup_app. rewrite lookup_filter_none.
  - unfold s_lookup. cbn [find]. rewrite Z.eqb_refl. reflexivity.
  - intros y Hy. rewrite Hy. apply Z.ltb_irrefl.
Qed.
Theorem lookup_ins_other (it : item) k L : k <> key it -> s_lookup k (s_ins it L) = s_lookup k L.
Proof.
  intros Hne. unfold s_ins. rewrite lookup_app.
  assert (Hk : s_lookup k (it :: filter (fun y : item => key it <? key y) L) = s_lookup k (filter (fun y : item => key it <? key y) L)).
  { unfold s_lookup. cbn [find]. destruct (key it =? k) eqn:E; [apply Z.eqb_eq in E; congruence|reflexivity]. }
  rewrite Hk. destruct (Z.lt_trichotomy k (key it)) as [Hlt|[Heq|Hgt]]; [|congruence|].
  - rewrite (lookup_filter_other _ k L) by (intros y Hy; apply Z.ltb_lt; lia).
    rewrite (lookup_filter_none (fun y : item => key it <? key y) k L) by (intros y Hy; apply Z.ltb_ge; lia).
    destruct (s_lookup k L); reflexivity.
  - rewrite (lookup_filter_none (fun y : item => key y <? key it) k L) by (intros y Hy; apply Z.ltb_ge; lia).
    apply lookup_filter_other. intros y Hy. apply Z.ltb_lt. lia.
Qed.
Theorem lookup_del_same k L : s_lookup k (s_del k L) = None.
Proof. unfold s_del. apply lookup_filter_none. intros y Hy. rewrite Hy, Z.eqb_refl. reflexivity. Qed.
Theorem lookup_del_other k k' L : k' <> k -> s_lookup k' (s_del k L) = s_lookup k' L.
Proof.
  intros Hne. unfold s_del. apply lookup_filter_other. intros y Hy. rewrite Hy.
  destruct (k' =? k) eqn:E; [apply Z.eqb_eq in E; congruence|reflexivity].
Qed.
(* membership in the map is membership in the sorted set of keys *)
Theorem lookup_in k (L : list item) : StronglySorted klt L -> forall x, s_lookup k L = Some x <-> (In x L /\ key x = k).
Proof.
  intros Hs x. unfold s_lookup. induction Hs as [|y L Hs IH Hf]; cbn [find In]; [split; [discriminate|intros [[] _]]|].
  destruct (key y =? k) eqn:E.
  - apply Z.eqb_eq in E. split; [intros H; inversion H; subst; auto|].
    intros [[->|Hin] Hk]; [reflexivity|]. rewrite Forall_forall in Hf. specialize (Hf x Hin). unfold klt in Hf. lia.
  - apply Z.eqb_neq in E. rewrite IH. split; [intros [H1 H2]; auto|]. intros [[->|Hin] Hk]; [congruence|auto].
Qed.

(* non-vacuity: a history with splits, a root split, steals, merges, a root collapse, an update and scans *)
Definition demo : list wop :=
  [WInsert (5,1); WInsert (1,2); WInsert (9,3); WInsert (3,4); WInsert (7,5); WInsert (2,6); WInsert (8,7); WInsert (4,8); WInsert (6,9);
   WInsert (5,10); WUpdate 5 (0,11); WUpdateOrInsert 12 (9,12); WDelete 1; WDelete 3; WDelete 4; WGet 9;
   WScan WAscendGt 2 FAll 3; WScan WDescendLte 100 (FKeyMod 2 0) 2; WScan WAscendGte (-5) FAll 0; WScan WDescendLt 0 FAll 5].
Example demo_small : w_small [] demo.
Proof. unfold demo, small; cbn; repeat split; lia. Qed.
Example demo_run :
  option_map snd (w_hist iempty demo) = Some (snd (ws_hist [] demo)) /\
  fst (ws_hist [] demo) = [(0,11); (2,6); (6,9); (7,5); (8,7); (9,12)] /\
  skipn 15 (snd (ws_hist [] demo)) =
    [OItem (9,12); OList [(6,9); (7,5); (8,7)]; OList [(8,7); (6,9)]; OList []; OList []].
Proof. vm_compute. repeat split; reflexivity. Qed.

(* the pivot classes of the bounded scans, on a three-level tree of degree 2: pivot present / absent between two
   keys / below the minimum / above the maximum, limit 0, limit larger than the tree, the empty tree *)
Definition demo_tree : itree :=
  match w_hist iempty (map (fun k => WInsert (k, k + 100)) [10; 20; 30; 40; 50; 60; 70; 80; 90; 100; 110]) with
  | Some (t, _) => t | None => iempty end.
Example demo_tree_shape : iroot demo_tree =
  Some (INode [(40,140)] [INode [(20,120)] [INode [(10,110)] []; INode [(30,130)] []];
                         INode [(60,160); (80,180)] [INode [(50,150)] []; INode [(70,170)] []; INode [(90,190); (100,200); (110,210)] []]]).
Proof. vm_compute. reflexivity. Qed.
Example demo_pivots :
  iter_walk demo_tree WAscendGte 40 FAll 3 = Some [(40,140); (50,150); (60,160)] /\     (* present, at the root *)
  iter_walk demo_tree WAscendGt 40 FAll 3 = Some [(50,150); (60,160); (70,170)] /\
  iter_walk demo_tree WDescendLte 60 FAll 2 = Some [(60,160); (50,150)] /\
  iter_walk demo_tree WDescendLt 60 FAll 2 = Some [(50,150); (40,140)] /\
  iter_walk demo_tree WAscendGt 45 FAll 2 = Some [(50,150); (60,160)] /\                (* absent, between two keys *)
  iter_walk demo_tree WDescendLt 45 FAll 2 = Some [(40,140); (30,130)] /\
  iter_walk demo_tree WAscendGte 5 FAll 2 = Some [(10,110); (20,120)] /\                (* below the minimum *)
  iter_walk demo_tree WDescendLte 5 FAll 2 = Some [] /\
  iter_walk demo_tree WAscendGt 500 FAll 2 = Some [] /\                                 (* above the maximum *)
  iter_walk demo_tree WDescendLt 500 (FKeyMod 20 0) 3 = Some [(100,200); (80,180); (60,160)] /\
  iter_walk demo_tree WAscendGte 40 FAll 0 = Some [] /\                                 (* limit 0 *)
  iter_walk demo_tree WAscendGte 90 FAll 1000 = Some [(90,190); (100,200); (110,210)] /\ (* limit beyond the end *)
  iter_walk demo_tree WAscendGte 40 FAll (-1) = None /\                                 (* negative limit: panic *)
  iter_walk iempty WDescendLte 40 FAll 5 = Some [].                                     (* empty tree *)
Proof. vm_compute. repeat split; reflexivity. Qed.
