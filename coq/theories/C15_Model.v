(* C15  syncx/pipe/mux: executable model of the worker group.

   - cache facade: MRU-first association list with an optional capacity (None = FacadeMap, Some n = FacadeLRU with
     every value of size 1), operations Peek / Get (moves to front) / Set (moves to front, evicts from the back) / Delete;
   - the backing store the callbacks talk to (environment): a finite map plus a per-key write counter that makes every
     value the store hands out unique for its key; a callback that fails (injected fault, or the store's own
     not-found / already-exists / missing) leaves the store unchanged;
   - the seven handlers of worker.go written as small programs in continuation style, one constructor per
     instrumentable call (cache call or store callback), mirroring the Go code branch for branch;
   - big-step execution [exec] (one handler run to completion, used for sequential histories) and the micro-step
     [mstep] (one call at a time, used by the scheduled machine in C15_LTS.v);
   - locHash and the group as a family of workers. *)
From Coq Require Import ZArith List Bool Lia.
Import ListNotations.
Open Scope Z_scope.

(* ------------------------------------------------------------------ values *)
(* what the callbacks return and the caches hold: an integer or Go's nil (a callback may answer (nil, nil), e.g. a load
   that reports a missing row without an error; the handlers cache that nil like any other value) *)
Notation val := (option Z) (only parsing).

(* ------------------------------------------------------------------ cache facade *)
Definition ents := list (Z * val).

Fixpoint lookup {A} (k : Z) (l : list (Z * A)) : option A :=
  match l with [] => None | (k', v) :: r => if k' =? k then Some v else lookup k r end.
Fixpoint remove {A} (k : Z) (l : list (Z * A)) : list (Z * A) :=
  match l with [] => [] | (k', v) :: r => if k' =? k then remove k r else (k', v) :: remove k r end.

Record cache := mkCache { c_ents : ents; c_cap : option nat }.

(* what an entry weighs in the LRU facade (cacheex.go, _wrapper.Size): a value that implements cache.Value reports its
   own size, anything else - nil included - counts 1.  The harness encodes this in the number itself: the hundreds
   digits c = (v mod 10000) / 100 are 0 for a plain value and s + 1 for a cache.Value of Size() = s *)
Definition vsize (v : val) : nat :=
  match v with
  | None => 1%nat
  | Some z => let c := (z mod 10000) / 100 in if c =? 0 then 1%nat else Z.to_nat (c - 1)
  end.

(* checkCapacity: evict from the back while the total size exceeds the capacity.  Sizes are not negative, so what is
   left is the longest front part whose total fits - possibly nothing, when the entry just written is itself too big *)
Fixpoint fit (budget : nat) (l : ents) : ents :=
  match l with
  | [] => []
  | (k, v) :: r => if Nat.leb (vsize v) budget then (k, v) :: fit (budget - vsize v) r else []
  end.

Definition trim (c : option nat) (l : ents) : ents := match c with None => l | Some n => fit n l end.

(* Peek: no change of order *)
Definition c_peek (c : cache) (k : Z) : option val := lookup k (c_ents c).
(* Get: a hit moves the entry to the front *)
Definition c_get (c : cache) (k : Z) : cache * option val :=
  match lookup k (c_ents c) with
  | Some v => (mkCache ((k, v) :: remove k (c_ents c)) (c_cap c), Some v)
  | None => (c, None)
  end.
(* Set: update in place or add, move to front, then evict from the back while over capacity *)
Definition c_set (c : cache) (k : Z) (v : val) : cache := mkCache (trim (c_cap c) ((k, v) :: remove k (c_ents c))) (c_cap c).
Definition c_del (c : cache) (k : Z) : cache := mkCache (remove k (c_ents c)) (c_cap c).
Definition c_empty (cap : option nat) : cache := mkCache [] cap.

(* ------------------------------------------------------------------ the store behind the callbacks *)
(* what the store holds for a key: a value, or nil when there is no row (Go's m[k] of a missing key) *)
Definition fmap := Z -> val.
Definition upd (m : fmap) (k : Z) (v : option Z) : fmap := fun x => if x =? k then v else m x.
Definition updz (m : Z -> Z) (k : Z) (v : Z) : Z -> Z := fun x => if x =? k then v else m x.

Record store := mkStore { smap : fmap; sver : Z -> Z }.

(* scripted behaviour of one callback: normal / an error / an error that reads as "not found" / "nil, no error":
   a load of a missing row answers (nil, nil); an add stores nothing, an update / upsert leaves no row, and answer nil;
   FErrV / FNFV: the callback fails like FErr / FNF and hands back a non-nil value TOGETHER with its error (ORM style
   `return &row, err`): the handlers look at the error first, so this is a failed callback like any other - the
   value goes nowhere (c15_value_with_error_is_an_error) *)
Inductive fault := FOk | FErr | FNF | FNil | FErrV | FNFV.
Inductive err := EInj | ENotFound | EExists | EMissing | EDupKey | EClosed | EFull | ECtx.
Inductive sres := SOk (v : val) | SErr (e : err).    (* answer of a value-returning callback *)

Definition ferr (f : fault) : option err :=
  match f with FOk | FNil => None | FErr | FErrV => Some EInj | FNF | FNFV => Some ENotFound end.
Definition is_fnil (f : fault) : bool := match f with FNil => true | _ => false end.
Definition s_unrow (s : store) (k : Z) : store := mkStore (upd (smap s) k None) (sver s).

(* the value a successful write of datum d under key k stores and returns *)
(* The value a successful write of datum d under key k produces: 10000 * (the key's write count) + d, plus - in the
   millions - a mark of the row it was computed FROM: 0 for "no row", 1 + that row's own write count otherwise.
   The store merges: the row it keeps is computed from its actual current row.  An update / upsert callback answers
   with the value computed from the `existing` argument it was handed.  The two coincide exactly when the handler
   passed the store's current row; on a cache miss upsert is handed nil, and for an existing row its answer is then
   not the stored row - which is why handleMixUpsertThenLoad reloads instead of caching that answer. *)
Definition vmark (base : val) : Z := match base with None => 0 | Some z => 1 + (z / 10000) mod 100 end.
Definition newval (s : store) (k d : Z) (base : val) : Z := 1000000 * vmark base + 10000 * (sver s k + 1) + d.
Definition s_write (s : store) (k v : Z) : store := mkStore (upd (smap s) k (Some v)) (updz (sver s) k (sver s k + 1)).

Definition s_load (s : store) (f : fault) (k : Z) : store * sres :=
  match ferr f with Some e => (s, SErr e) | None =>
    match smap s k with
    | Some v => (s, SOk (Some v))
    | None => if is_fnil f then (s, SOk None) else (s, SErr ENotFound) end end.
Definition s_add (s : store) (f : fault) (k d : Z) : store * sres :=
  match ferr f with Some e => (s, SErr e) | None =>
    match smap s k with
    | Some _ => (s, SErr EExists)
    | None => if is_fnil f then (s, SOk None) else let v := newval s k d None in (s_write s k v, SOk (Some v)) end end.
Definition s_upd (s : store) (f : fault) (k d : Z) (pre : val) : store * sres :=
  match ferr f with Some e => (s, SErr e) | None =>
    match smap s k with
    | None => (s, SErr EMissing)
    | Some _ => if is_fnil f then (s_unrow s k, SOk None)
                else (s_write s k (newval s k d (smap s k)), SOk (Some (newval s k d pre))) end end.
Definition s_upsert (s : store) (f : fault) (k d : Z) (pre : val) : store * sres :=
  match ferr f with Some e => (s, SErr e) | None =>
    if is_fnil f then (s_unrow s k, SOk None)
    else (s_write s k (newval s k d (smap s k)), SOk (Some (newval s k d pre))) end.
Definition s_delete (s : store) (f : fault) (k : Z) : store * option err :=
  match ferr f with Some e => (s, Some e) | None => (s_unrow s k, None) end.

(* ------------------------------------------------------------------ operations, results, events *)
Inductive op := OGet (k : Z) | OAdd (k d : Z) | OUpdate (k d : Z) | ODelete (k : Z)
              | OUpdOrAdd (k d : Z) | OUpsertLoad (k d : Z) | OUpsertRenew (k d : Z).
Definition key_of (o : op) : Z :=
  match o with OGet k | OAdd k _ | OUpdate k _ | ODelete k | OUpdOrAdd k _ | OUpsertLoad k _ | OUpsertRenew k _ => k end.

(* what a caller gets: a value (possibly nil), the (nil, nil) of a successful delete, an error, a panic, no answer *)
Inductive res := ROk (v : val) | RNil | RErr (e : err) | RPanic | RHang.

Inductive event :=
  | EvGet (k : Z) (r : option val)           (* ca.Get: miss, or hit with a value that may be nil *)
  | EvPeek (k : Z) (r : option val)          (* ca.Peek *)
  | EvSet (k : Z) (v : val)                  (* ca.Set *)
  | EvDel (k : Z)                            (* ca.Delete *)
  | EvLoad (k : Z) (r : sres)                (* loadFn *)
  | EvAdd (k d : Z) (r : sres)               (* addFn *)
  | EvUpd (k d : Z) (pre : val) (r : sres)   (* updFn(data, existing) *)
  | EvUpsert (k d : Z) (pre : val) (r : sres)        (* upsertFn(data, existing, or nil when nothing is cached) *)
  | EvDelete (k : Z) (r : option err).       (* deleteFn *)

Definition ev_key (e : event) : Z :=
  match e with EvGet k _ | EvPeek k _ | EvSet k _ | EvDel k | EvLoad k _ | EvAdd k _ _ | EvUpd k _ _ _ | EvUpsert k _ _ _ | EvDelete k _ => k end.
Definition is_store_ev (e : event) : bool :=
  match e with EvLoad _ _ | EvAdd _ _ _ | EvUpd _ _ _ _ | EvUpsert _ _ _ _ | EvDelete _ _ => true | _ => false end.
Definition is_read_ev (e : event) : bool := match e with EvGet _ _ | EvPeek _ _ => true | _ => false end.
Definition no_store_ev (evs : list event) : bool := forallb (fun e => negb (is_store_ev e)) evs.

(* ------------------------------------------------------------------ handlers as programs *)
Inductive prog :=
  | Done (r : res)
  | PGet (k : Z) (c : option val -> prog)
  | PPeek (k : Z) (c : option val -> prog)
  | PSet (k : Z) (v : val) (c : prog)
  | PDel (k : Z) (c : prog)
  | PLoad (k : Z) (c : sres -> prog)
  | PAdd (k d : Z) (c : sres -> prog)
  | PUpd (k d : Z) (pre : val) (c : sres -> prog)
  | PUpsert (k d : Z) (pre : val) (c : sres -> prog)
  | PDelete (k : Z) (c : option err -> prog).

(* "renew cache; set result" / "set error" : the common tail of the handlers *)
Definition finish (k : Z) (r : sres) : prog :=
  match r with SOk v => PSet k v (Done (ROk v)) | SErr e => Done (RErr e) end.
Definition fail_or (r : sres) (ok : val -> prog) : prog :=
  match r with SOk v => ok v | SErr e => Done (RErr e) end.
Definition is_nf (e : err) : bool := match e with ENotFound => true | _ => false end.

Definition handler (o : op) : prog :=
  match o with
  | OGet k =>                                                        (* handleLoad *)
      PGet k (fun r => match r with Some v => Done (ROk v) | None => PLoad k (finish k) end)
  | OAdd k d =>                                                      (* handleAdd *)
      PPeek k (fun r => match r with Some _ => Done (RErr EDupKey) | None => PAdd k d (finish k) end)
  | OUpdate k d =>                                                   (* handleUpdate *)
      PPeek k (fun r => match r with
        | Some pre => PUpd k d pre (finish k)
        | None => PLoad k (fun l => fail_or l (fun v => PUpd k d v (finish k))) end)
  | ODelete k =>                                                     (* handleDelete *)
      PDelete k (fun r => match r with Some e => Done (RErr e) | None => PDel k (Done RNil) end)
  | OUpdOrAdd k d =>                                                 (* handleMixUpdOrAddIfNull *)
      PPeek k (fun r => match r with
        | Some pre => PUpd k d pre (finish k)
        | None => PLoad k (fun l => match l with
            | SErr e => if is_nf e then PAdd k d (finish k) else Done (RErr e)
            | SOk v => PUpd k d v (finish k) end) end)
  | OUpsertLoad k d =>                                               (* handleMixUpsertThenLoad *)
      PPeek k (fun r => match r with
        | Some pre => PUpsert k d pre (finish k)
        | None => PUpsert k d None (fun u => fail_or u (fun _ => PLoad k (finish k))) end)
  | OUpsertRenew k d =>                                              (* handleMixUpsertThenRenewInCache *)
      PPeek k (fun r => match r with
        | Some pre => PUpsert k d pre (finish k)
        | None => PUpsert k d None (fun u => fail_or u (fun v => Done (ROk v))) end)
  end.

(* ------------------------------------------------------------------ one worker: cache + its part of the store *)
Record wst := mkW { wc : cache; wsr : store }.

Definition nextf (fs : list fault) : fault * list fault := match fs with [] => (FOk, []) | f :: r => (f, r) end.

(* one instrumentable call *)
Definition mstep (p : prog) (s : wst) (fs : list fault) : option (prog * wst * list fault * event) :=
  match p with
  | Done _ => None
  | PGet k c => let '(c', r) := c_get (wc s) k in Some (c r, mkW c' (wsr s), fs, EvGet k r)
  | PPeek k c => let r := c_peek (wc s) k in Some (c r, s, fs, EvPeek k r)
  | PSet k v c => Some (c, mkW (c_set (wc s) k v) (wsr s), fs, EvSet k v)
  | PDel k c => Some (c, mkW (c_del (wc s) k) (wsr s), fs, EvDel k)
  | PLoad k c => let '(f, fs') := nextf fs in let '(st, r) := s_load (wsr s) f k in Some (c r, mkW (wc s) st, fs', EvLoad k r)
  | PAdd k d c => let '(f, fs') := nextf fs in let '(st, r) := s_add (wsr s) f k d in Some (c r, mkW (wc s) st, fs', EvAdd k d r)
  | PUpd k d pre c => let '(f, fs') := nextf fs in let '(st, r) := s_upd (wsr s) f k d pre in Some (c r, mkW (wc s) st, fs', EvUpd k d pre r)
  | PUpsert k d pre c => let '(f, fs') := nextf fs in let '(st, r) := s_upsert (wsr s) f k d pre in Some (c r, mkW (wc s) st, fs', EvUpsert k d pre r)
  | PDelete k c => let '(f, fs') := nextf fs in let '(st, r) := s_delete (wsr s) f k in Some (c r, mkW (wc s) st, fs', EvDelete k r)
  end.

(* a handler run to completion *)
Fixpoint exec (p : prog) (s : wst) (fs : list fault) : wst * list event * res :=
  match p with
  | Done r => (s, [], r)
  | PGet k c => let '(c', r) := c_get (wc s) k in
      let '(s', evs, x) := exec (c r) (mkW c' (wsr s)) fs in (s', EvGet k r :: evs, x)
  | PPeek k c => let r := c_peek (wc s) k in
      let '(s', evs, x) := exec (c r) s fs in (s', EvPeek k r :: evs, x)
  | PSet k v c => let '(s', evs, x) := exec c (mkW (c_set (wc s) k v) (wsr s)) fs in (s', EvSet k v :: evs, x)
  | PDel k c => let '(s', evs, x) := exec c (mkW (c_del (wc s) k) (wsr s)) fs in (s', EvDel k :: evs, x)
  | PLoad k c => let '(f, fs') := nextf fs in let '(st, r) := s_load (wsr s) f k in
      let '(s', evs, x) := exec (c r) (mkW (wc s) st) fs' in (s', EvLoad k r :: evs, x)
  | PAdd k d c => let '(f, fs') := nextf fs in let '(st, r) := s_add (wsr s) f k d in
      let '(s', evs, x) := exec (c r) (mkW (wc s) st) fs' in (s', EvAdd k d r :: evs, x)
  | PUpd k d pre c => let '(f, fs') := nextf fs in let '(st, r) := s_upd (wsr s) f k d pre in
      let '(s', evs, x) := exec (c r) (mkW (wc s) st) fs' in (s', EvUpd k d pre r :: evs, x)
  | PUpsert k d pre c => let '(f, fs') := nextf fs in let '(st, r) := s_upsert (wsr s) f k d pre in
      let '(s', evs, x) := exec (c r) (mkW (wc s) st) fs' in (s', EvUpsert k d pre r :: evs, x)
  | PDelete k c => let '(f, fs') := nextf fs in let '(st, r) := s_delete (wsr s) f k in
      let '(s', evs, x) := exec (c r) (mkW (wc s) st) fs' in (s', EvDelete k r :: evs, x)
  end.

(* ------------------------------------------------------------------ locHash *)
Definition two63 : Z := 9223372036854775808.
Definition wrap64 (x : Z) : Z := (x + two63) mod (2 * two63) - two63.
(* hashNum = k.HashedInt() % muxSize; if hashNum < 0 { hashNum = -hashNum }   (Go's % truncates toward zero) *)
Definition loc (h n : Z) : Z := Z.abs (Z.rem h n).
(* before repair 21: hashNum = k.HashedInt(); if hashNum < 0 { hashNum = -hashNum }; hashNum %= muxSize - the smallest
   int has no positive counterpart (the negation wraps to itself), its remainder stays negative and the caller panics *)
Definition loc_prefix (h n : Z) : Z := Z.rem (if h <? 0 then wrap64 (- h) else h) n.

(* ------------------------------------------------------------------ the group, sequential use *)
Record gcfg := mkCfg {
  g_n : Z;                       (* number of workers, > 0 *)
  g_cap : option nat;            (* None = map facade, Some n = LRU facade of capacity n *)
  g_hash : list (Z * Z);         (* HashedInt() of the keys whose hash is not the key itself (crc32 variants, strings) *)
  g_init : list (Z * Z)          (* contents of the store before the first operation *)
}.
Definition hash_of (c : gcfg) (k : Z) : Z := match lookup k (g_hash c) with Some h => h | None => k end.
Definition loc_of (c : gcfg) (k : Z) : Z := loc (hash_of c k) (g_n c).

Definition grp := Z -> wst.
Definition updw (g : grp) (w : Z) (s : wst) : grp := fun x => if x =? w then s else g x.

Definition init_store (l : list (Z * Z)) : store := mkStore (fun k => lookup k l) (fun _ => 0).
Definition ginit (c : gcfg) : grp := fun _ => mkW (c_empty (g_cap c)) (init_store (g_init c)).

(* WorkerGrp.DoXxx called from one goroutine, returning before the next call: the index, the caller-side fast path
   of DoGet, then the handler *)
Definition do_op (c : gcfg) (g : grp) (o : op) (fs : list fault) : grp * list event * res :=
  let w := loc_of c (key_of o) in
  if w <? 0 then (g, [], RPanic) else
  let s := g w in
  match o with
  | OGet k =>
      let '(c', r) := c_get (wc s) k in
      match r with
      | Some v => (updw g w (mkW c' (wsr s)), [EvGet k (Some v)], ROk v)
      | None => let '(s', evs, x) := exec (handler o) s fs in (updw g w s', EvGet k None :: evs, x)
      end
  | _ => let '(s', evs, x) := exec (handler o) s fs in (updw g w s', evs, x)
  end.

(* what the group holds for a key *)
Definition cache_at (c : gcfg) (g : grp) (k : Z) : option val := c_peek (wc (g (loc_of c k))) k.
Definition store_at (c : gcfg) (g : grp) (k : Z) : val := smap (wsr (g (loc_of c k))) k.
