(* C03: observations, operations, and one step of the model and of the sorted map (no proofs).
   Used by the case evaluation (C03_Check.v) and by the refinement proof (C03_Refine.v). *)
From Coq Require Import ZArith List Bool.
Require Export C03_Model C03_Spec.
Import ListNotations.
Open Scope Z_scope.

(* ---------------- observations ---------------- *)
(* the implementation's tree as VerifShape returns it: per node the ownership flag, items, children *)
Inductive snode := SNode (owned : bool) (items : list item) (children : list snode).
Fixpoint strip (s : snode) : inode :=
  match s with SNode _ its ch => INode its (map strip ch) end.
(* a node owned by the handle's context hangs below owned nodes only *)
Fixpoint cow_ok (parent_owned : bool) (s : snode) : bool :=
  match s with SNode o _ ch => (implb o parent_owned) && forallb (cow_ok o) ch end.
Definition shape := (option snode * Z)%type.            (* root (nil = None), the length field *)

Inductive obs :=
| OUnit                                   (* no result (Insert, Clone) *)
| ONil                                    (* a nil Item *)
| OItem (x : item)
| OBool (b : bool)
| OList (l : list item)
| OLen (n : Z)
| OPanic
| OStuck                                  (* the call never returned: it was found parked on the wrapper's own lock with no
                                             other call in flight; equal to no outcome, not even to itself: no model step gives it *)
| OSnap (l : list (option (list item * Z))).   (* per handle: nil, or (everything Ascend delivers, Len) *)

Fixpoint snap_eqb (x y : list (option (list item * Z))) : bool :=
  match x, y with
  | [], [] => true
  | None :: x', None :: y' => snap_eqb x' y'
  | Some (a, n) :: x', Some (b, m) :: y' => ilist_eqb a b && (n =? m) && snap_eqb x' y'
  | _, _ => false
  end.
Definition obs_eqb (a b : obs) : bool :=
  match a, b with
  | OUnit, OUnit | ONil, ONil | OPanic, OPanic => true
  | OItem x, OItem y => item_eqb x y
  | OBool x, OBool y => Bool.eqb x y
  | OList x, OList y => ilist_eqb x y
  | OLen x, OLen y => x =? y
  | OSnap x, OSnap y => snap_eqb x y
  | _, _ => false
  end.
Definition oi (o : option item) : obs := match o with Some x => OItem x | None => ONil end.

(* ---------------- operations ---------------- *)
Inductive wop :=
| WInsert (x : item) | WUpdate (old : Z) (new : item) | WUpdateOrInsert (old : Z) (new : item)
| WDelete (k : Z) | WGet (k : Z) | WScan (w : wscan) (k : Z) (f : filt) (n : Z).
Inductive iop :=
| IIns (x : item) | IDel (k : Z) | IDelMin | IDelMax
| IGet (k : Z) | IHas (k : Z) | IMin | IMax | ILen
| IScan (e : entry) (p q : Z) (m : Z).
(* CClear h b = handle h's Clear(b); CNew d = slot d becomes a new empty tree made with NewWithFreeList on the free
   list all trees of the program share *)
Inductive cop := CClone (src dst : nat) | COn (h : nat) (o : iop) | CSnap | CClear (h : nat) (tofl : bool) | CNew (dst : nat).

(* ---------------- the model's step ---------------- *)
Definition w_step (t : itree) (o : wop) : option (itree * obs) :=
  match o with
  | WInsert x => match itree_insert WDEG t x with Some (t', _) => Some (t', OUnit) | None => None end
  | WUpdate k n => match w_update t (k, 0) n with Some (t', b) => Some (t', OBool b) | None => None end
  | WUpdateOrInsert k n => match w_update_or_insert t (k, 0) n with Some (t', b) => Some (t', OBool b) | None => None end
  | WDelete k => match itree_delete WDEG t (IRmItem k) with
                 | Some (t', e) => Some (t', OBool (match e with Some _ => true | None => false end)) | None => None end
  | WGet k => Some (t, oi (itree_get t k))
  | WScan w k f n => Some (t, match iter_walk t w k f n with Some l => OList l | None => OPanic end)
  end.
Definition i_step (deg : nat) (t : itree) (o : iop) : option (itree * obs) :=
  match o with
  | IIns x => match itree_insert deg t x with Some (t', out) => Some (t', oi out) | None => None end
  | IDel k => match itree_delete deg t (IRmItem k) with Some (t', out) => Some (t', oi out) | None => None end
  | IDelMin => match itree_delete deg t IRmMin with Some (t', out) => Some (t', oi out) | None => None end
  | IDelMax => match itree_delete deg t IRmMax with Some (t', out) => Some (t', oi out) | None => None end
  | IGet k => Some (t, oi (itree_get t k))
  | IHas k => Some (t, OBool (match itree_get t k with Some _ => true | None => false end))
  | IMin => Some (t, oi (itree_min t))
  | IMax => Some (t, oi (itree_max t))
  | ILen => Some (t, OLen (ilen t))
  | IScan e p q m => Some (t, OList (itree_scan (collect_visit m) e p q t []))
  end.

(* ---------------- the sorted map's step ---------------- *)
Definition ob (b : bool) := OBool b.
Definition is_some {A} (o : option A) := match o with Some _ => true | None => false end.
Definition ws_step (L : list item) (o : wop) : list item * obs :=
  match o with
  | WInsert x => (s_ins x L, OUnit)
  | WUpdate k n => if is_some (s_lookup k L) then (s_ins n (s_del k L), OBool true) else (L, OBool false)
  | WUpdateOrInsert k n => (s_ins n (s_del k L), OBool (is_some (s_lookup k L)))
  | WDelete k => (s_del k L, OBool (is_some (s_lookup k L)))
  | WGet k => (L, oi (s_lookup k L))
  | WScan w k f n => (L, match s_walk w k f n L with Some l => OList l | None => OPanic end)
  end.
Definition is_step (L : list item) (o : iop) : list item * obs :=
  match o with
  | IIns x => (s_ins x L, oi (s_lookup (key x) L))
  | IDel k => (s_del k L, oi (s_lookup k L))
  | IDelMin => (tl L, oi (hd_error L))
  | IDelMax => (removelast L, oi (last_error L))
  | IGet k => (L, oi (s_lookup k L))
  | IHas k => (L, OBool (is_some (s_lookup k L)))
  | IMin => (L, oi (hd_error L))
  | IMax => (L, oi (last_error L))
  | ILen => (L, OLen (Z.of_nat (length L)))
  | IScan e p q m => (L, OList (s_collect m (s_scan e p q L)))
  end.

(* ---------------- structure of an observed tree against an abstract value ---------------- *)
Definition struct_ok (deg : nat) (sh : shape) : bool :=
  match fst sh with
  | None => snd sh =? 0
  | Some s => let n := strip s in
              balanced deg n && sortedb (iflat IFUEL n) && (snd sh =? Z.of_nat (length (iflat IFUEL n))) && cow_ok true s
  end.
Definition shape_list (sh : shape) : list item := match fst sh with None => [] | Some s => iflat IFUEL (strip s) end.
Definition shape_is (deg : nat) (L : list item) (osh : option shape) : bool :=
  match osh with None => true | Some sh => struct_ok deg sh && ilist_eqb (shape_list sh) L end.

