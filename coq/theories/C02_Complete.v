(* C02: every clause of the monitor (case_holds) follows from the model match (the replayed run of the LTS). *)
From Coq Require Import List Lia Bool Arith ZArith Permutation Sorting.Sorted.
Require Import KeyLTS KeyAgree KeyConv C02_Model C02_Table C02_Inv C02_Safety C02_Progress C02_Case C02_Sound.
Import ListNotations.
Local Open Scope nat_scope.

(* ---------------- A. whoever runs has a request in its acquiring phase ---------------- *)
Definition RunLive (s : st) : Prop := forall t, running s t = true -> exists r n, reqs s t = Some r /\ rphase r = Acq n.

Lemma runlive_init : RunLive init.
Proof. intros t H. cbn in H. discriminate. Qed.

Lemma runlive_step s l s' : RunLive s -> step s l = Some s' -> RunLive s'.
Proof.
  intros HR H. destruct l as [t ks w|t|k i|k|k i|t|t]; cbn [step] in H.
  - destruct (reqs s t); [discriminate|]. destruct (nodupb ks); [|discriminate]. inversion H; subst; clear H. intros x Hx.
    cbn [running reqs set_req set_run] in *. destruct (Nat.eq_dec x t) as [->|N].
    + rewrite upd_same. eexists. exists 0. split; reflexivity.
    + rewrite upd_other in Hx by exact N. rewrite upd_other by exact N. apply HR, Hx.
  - destruct (running s t) eqn:Erun; [|discriminate]. destruct (reqs s t) as [r|] eqn:Et; [|discriminate].
    destruct (rphase r) as [n|] eqn:Ep; [|discriminate].
    assert (Hoff : forall k0 m, RunLive (set_lock (set_run s t false) k0 m)).
    { intros k0 m x Hx. cbn [running reqs set_lock set_run] in *. destruct (Nat.eq_dec x t) as [->|N]; [rewrite upd_same in Hx; discriminate|].
      rewrite upd_other in Hx by exact N. apply HR, Hx. }
    destruct (nth_error (rkeys r) n) as [k|].
    + destruct (rwrite r); destruct (free (locks s k)); inversion H; subst; clear H;
        try apply Hoff.
      intros x Hx. cbn [running reqs set_lock set_req] in *. destruct (Nat.eq_dec x t) as [->|N].
      * rewrite upd_same. eexists. exists (S n). split; reflexivity.
      * rewrite upd_other by exact N. apply HR, Hx.
    + inversion H; subst; clear H. intros x Hx. cbn [running reqs set_run] in *. destruct (Nat.eq_dec x t) as [->|N]; [rewrite upd_same in Hx; discriminate|].
      rewrite upd_other in Hx by exact N. apply HR, Hx.
  - destruct (writer (locks s k)); [discriminate|]. destruct (pending (locks s k)); [discriminate|].
    destruct (nth_error (wwait (locks s k)) i); [|discriminate]. inversion H; subst. exact HR.
  - destruct (pending (locks s k)) as [w|]; [|discriminate]. destruct (writer (locks s k)); [discriminate|].
    destruct (readers (locks s k)); [|discriminate]. destruct (tokens (locks s k)); [|discriminate].
    destruct (waits_on s w k true) as [[r n]|]; [|discriminate]. inversion H; subst; clear H. intros x Hx.
    cbn [running reqs set_lock set_run set_req] in *. destruct (Nat.eq_dec x w) as [->|N].
    + rewrite upd_same. eexists. exists (S n). split; reflexivity.
    + rewrite upd_other in Hx by exact N. rewrite upd_other by exact N. apply HR, Hx.
  - destruct (tokens (locks s k)) as [|tk]; [discriminate|]. destruct (nth_error (rblocked (locks s k)) i) as [y|]; [|discriminate].
    destruct (waits_on s y k false) as [[r n]|]; [|discriminate]. inversion H; subst; clear H. intros x Hx.
    cbn [running reqs set_lock set_run set_req] in *. destruct (Nat.eq_dec x y) as [->|N].
    + rewrite upd_same. eexists. exists (S n). split; reflexivity.
    + rewrite upd_other in Hx by exact N. rewrite upd_other by exact N. apply HR, Hx.
  - destruct (reqs s t) as [r|] eqn:Et; [|discriminate]. destruct (rphase r) as [n|] eqn:Ep; [|discriminate].
    destruct (Nat.eqb n (length (rkeys r)) && negb (running s t)) eqn:Eg; [|discriminate]. inversion H; subst; clear H.
    apply andb_prop in Eg. destruct Eg as [_ Eg]. apply negb_true_iff in Eg. intros x Hx. cbn [running reqs set_req] in *.
    destruct (Nat.eq_dec x t) as [->|N]; [congruence|]. rewrite upd_other by exact N. apply HR, Hx.
  - destruct (reqs s t) as [r|] eqn:Et; [|discriminate]. destruct (rphase r) as [n|[|k rem]] eqn:Ep; try discriminate.
    inversion H; subst; clear H. intros x Hx. cbn [running reqs set_lock set_req] in *.
    destruct (Nat.eq_dec x t) as [->|N]; [destruct (HR t Hx) as (r' & n' & A & B); congruence|]. rewrite upd_other by exact N. apply HR, Hx.
Qed.

(* ---------------- B. lock objects at or above tnext have never been used ---------------- *)
Definition ObjB (s : fstate) : Prop := forall o, tnext (tb s) <= o -> locks (base s) o = idle.

Lemma step_lock_cases b l b' o : step b l = Some b' ->
  locks b' o = locks b o \/ locks b o <> idle \/
  (exists t r, reqs b t = Some r /\ ((exists n, rphase r = Acq n /\ nth_error (rkeys r) n = Some o) \/ (exists rem, rphase r = Rel (o :: rem)))).
Proof.
  intros H. destruct l as [t ks w|t|k i|k|k i|t|t]; cbn [step] in H.
  - destruct (reqs b t); [discriminate|]. destruct (nodupb ks); [|discriminate]. inversion H; subst. left. reflexivity.
  - destruct (running b t); [|discriminate]. destruct (reqs b t) as [r|] eqn:Et; [|discriminate]. destruct (rphase r) as [n|] eqn:Ep; [|discriminate].
    destruct (nth_error (rkeys r) n) as [k|] eqn:En; [|inversion H; subst; left; reflexivity].
    destruct (Nat.eq_dec o k) as [->|N]; [right; right; exists t, r; split; [exact Et|left; exists n; auto]|].
    left. destruct (rwrite r); destruct (free (locks b k)); inversion H; subst; cbn [locks set_lock set_run set_req]; apply upd_other, N.
  - destruct (writer (locks b k)); [discriminate|]. destruct (pending (locks b k)); [discriminate|].
    destruct (nth_error (wwait (locks b k)) i) eqn:En; [|discriminate]. inversion H; subst; clear H.
    destruct (Nat.eq_dec o k) as [->|N]; [|left; cbn [locks set_lock]; apply upd_other, N].
    right. left. intros E. rewrite E in En. cbn in En. destruct i; discriminate.
  - destruct (pending (locks b k)) as [w|] eqn:Epd; [|discriminate]. destruct (writer (locks b k)); [discriminate|].
    destruct (readers (locks b k)); [|discriminate]. destruct (tokens (locks b k)); [|discriminate].
    destruct (waits_on b w k true) as [[r n]|]; [|discriminate]. inversion H; subst; clear H.
    destruct (Nat.eq_dec o k) as [->|N]; [|left; cbn [locks set_lock set_run set_req]; apply upd_other, N].
    right. left. intros E. rewrite E in Epd. discriminate.
  - destruct (tokens (locks b k)) as [|tk] eqn:Etk; [discriminate|]. destruct (nth_error (rblocked (locks b k)) i) as [y|]; [|discriminate].
    destruct (waits_on b y k false) as [[r n]|]; [|discriminate]. inversion H; subst; clear H.
    destruct (Nat.eq_dec o k) as [->|N]; [|left; cbn [locks set_lock set_run set_req]; apply upd_other, N].
    right. left. intros E. rewrite E in Etk. discriminate.
  - destruct (reqs b t) as [r|]; [|discriminate]. destruct (rphase r) as [n|]; [|discriminate].
    destruct (Nat.eqb n (length (rkeys r)) && negb (running b t)); [|discriminate]. inversion H; subst. left. reflexivity.
  - destruct (reqs b t) as [r|] eqn:Et; [|discriminate]. destruct (rphase r) as [n|[|k rem]] eqn:Ep; try discriminate. inversion H; subst; clear H.
    destruct (Nat.eq_dec o k) as [->|N]; [right; right; exists t, r; split; [exact Et|right; exists rem; exact Ep]|].
    left. cbn [locks set_lock set_req]. apply upd_other, N.
Qed.

Lemma reg_keys_tnext t w : forall c b, tnext b <= tnext (fst (reg_keys t w b c)).
Proof.
  induction c as [|k c IH]; intros b; cbn [reg_keys fst]; [lia|].
  destruct (reg_key t w b k) as [b1 o] eqn:E1. specialize (IH b1). destruct (reg_keys t w b1 c) as [b2 os]. cbn [fst] in *.
  assert (tnext b <= tnext b1); [|lia]. unfold reg_key in E1. destruct (tmap b k); inversion E1; subst; cbn [tnext]; lia.
Qed.

Section ObjBound.
Variable sh : nat -> nat.

Lemma fstep_tnext s l s' : fstep sh s l = Some s' -> tnext (tb s) <= tnext (tb s').
Proof.
  intros H. destruct l as [t ks w|t|t|o i|o|o i|t|t]; cbn [fstep] in H;
    try (unfold lift in H; match type of H with context [step ?b ?bl] => destruct (step b bl); [|discriminate] end; inversion H; subst; cbn [tb]; lia).
  - destruct (thr s t); [discriminate|]. destruct (nodupb ks); [|discriminate]. destruct (start_if_done_spec _ _ _ _ H) as (E & _). rewrite E. lia.
  - destruct (thr s t) as [q|]; [|discriminate]. destruct (tstage q) as [[|c todo]| |]; try discriminate.
    pose proof (reg_keys_tnext t (tw q) c (tb s)) as Hn. destruct (reg_keys t (tw q) (tb s) c) as [b' os]. cbn [fst] in Hn.
    destruct (start_if_done_spec _ _ _ _ H) as (E & _). rewrite E. cbn [tb]. exact Hn.
  - destruct (thr s t) as [q|]; [|discriminate]. destruct (tstage q); try discriminate.
    destruct (step (base s) (Release t)); [|discriminate]. inversion H; subst. cbn [tb]. lia.
  - destruct (thr s t) as [q|]; [|discriminate]. destruct (tstage q); try discriminate. destruct (tregd q) as [|[k o_s] rem]; [discriminate|].
    destruct (unreg_key t (tw q) (tb s) k) as [[b' o]|] eqn:Eu; [|discriminate]. destruct (next_rel_obj s t); [|discriminate].
    destruct (Nat.eqb n o); [|discriminate]. destruct (step (base s) (UnlockKey t)); [|discriminate]. inversion H; subst. cbn [tb].
    unfold unreg_key in Eu. destruct (tmap (tb s) k); [|discriminate]. destruct (Nat.eqb (cnt (tw q) e) 0); [discriminate|]. inversion Eu; subst. cbn [tnext]. lia.
Qed.

(* the object a request is about to lock / unlock is one of its caller's registered objects *)
Lemma req_object_registered s t r o : FInv s -> reqs (base s) t = Some r ->
  ((exists n, rphase r = Acq n /\ nth_error (rkeys r) n = Some o) \/ (exists rem, rphase r = Rel (o :: rem))) ->
  exists q k, thr s t = Some q /\ In (k, o) (tregd q).
Proof.
  intros HF Hr Hc. destruct (req_live s t r HF Hr) as [q Hq]. exists q. pose proof HF as (_ & _ & _ & HTh & _).
  destruct (HTh t q Hq) as (_ & _ & Hl). unfold link in Hl. destruct (tstage q).
  - congruence.
  - destruct Hl as (r' & n & A & B & _ & D). rewrite Hr in A. inversion A; subst r'. destruct Hc as [(n' & E1 & E2)|(rem & E)]; [|congruence].
    pose proof (nth_error_In _ _ E2) as Hin. rewrite B in Hin. apply in_map_iff in Hin. destruct Hin as ([k o'] & E & Hin). cbn [snd] in E. subst o'. exists k. auto.
  - destruct Hl as (r' & A & _ & C & _). rewrite Hr in A. inversion A; subst r'. destruct Hc as [(n' & E1 & _)|(rem & E)]; [congruence|].
    rewrite C in E. inversion E as [E']. destruct (tregd q) as [|[k o'] rest]; [discriminate|]. cbn [map snd] in E'. inversion E'; subst. exists k. split; [exact Hq|left; reflexivity].
Qed.

Lemma objb_step s l s' : FInv s -> ObjB s -> fstep sh s l = Some s' -> ObjB s'.
Proof.
  intros HF HO H o Ho. pose proof (fstep_tnext s l s' H) as Hn. assert (Hidle : locks (base s) o = idle) by (apply HO; lia).
  destruct (fstep_base sh s l s' H) as [E|[bl E]]; [rewrite E; exact Hidle|].
  destruct (step_lock_cases _ _ _ o E) as [Es|[Hne|(t & r & Hr & Hc)]]; [rewrite Es; exact Hidle|congruence|]. exfalso.
  destruct (req_object_registered s t r o HF Hr Hc) as (q & k & Hq & Hin).
  destruct (same_object_inv s t q k o HF Hq Hin) as (e & Ek & Eo & _).
  destruct HF as (_ & (HT & _) & _). specialize (HT k). rewrite Ek in HT. destruct HT as (Hlt & _). lia.
Qed.
End ObjBound.

(* ---------------- C. the boolean quiescence test of the replay is quietness ---------------- *)
Lemma fquiet_of_bool nt s : FInv s -> RunLive (base s) -> ObjB s -> (forall t, nt <= t -> thr s t = None) ->
  quiescent nt s = true -> fquiet s.
Proof.
  intros HF HR HO HB H. unfold quiescent in H. apply andb_prop in H. destruct H as [H1 H2]. rewrite forallb_forall in H1, H2. split.
  - intros t. destruct (le_lt_dec nt t) as [Hge|Hlt]; [|apply H1, in_seq; lia].
    unfold thread_quiet. rewrite (HB t Hge). rewrite andb_true_r. apply negb_true_iff.
    destruct (running (base s) t) eqn:Er; [|reflexivity]. destruct (HR t Er) as (r & n & A & _).
    destruct HF as (_ & _ & _ & _ & HN). rewrite (HN t (HB t Hge)) in A. discriminate.
  - intros o. destruct (le_lt_dec (tnext (tb s)) o) as [Hge|Hlt]; [rewrite (HO o Hge); reflexivity|apply H2, in_seq; lia].
Qed.

(* ---------------- D. what obs_eqb says ---------------- *)
Lemma counts_eqb_eq a b : counts_eqb a b = true -> a = b.
Proof.
  revert b. induction a as [|[k [r w]] a IH]; intros [|[k' [r' w']] b] H; cbn [counts_eqb] in H; try discriminate; [reflexivity|].
  apply andb_prop in H. destruct H as [H1 H2]. unfold pair_eqb in H1. cbn [fst snd] in H1.
  apply andb_prop in H1. destruct H1 as [H1 Hw]. apply andb_prop in H1. destruct H1 as [Hk Hr].
  apply Nat.eqb_eq in Hk. apply Z.eqb_eq in Hr. apply Z.eqb_eq in Hw. subst. rewrite (IH b H2). reflexivity.
Qed.
Lemma counts_eqb_refl a : counts_eqb a a = true.
Proof.
  induction a as [|[k [r w]] a IH]; cbn [counts_eqb]; [reflexivity|]. unfold pair_eqb. cbn [fst snd].
  rewrite Nat.eqb_refl, !Z.eqb_refl, IH. reflexivity.
Qed.
Lemma obs_eqb_spec nt nk s o : obs_eqb (model_obs nt nk s) o = true ->
  o_ret o = filter (returned s) (seq 0 nt) /\ o_counts o = present_counts nk s /\ o_entries o = length (present_counts nk s) /\ o_blocked o = false.
Proof.
  unfold obs_eqb. cbn [model_obs o_ret o_counts o_entries o_blocked]. intros H. apply andb_prop in H. destruct H as [H Hb].
  apply andb_prop in H. destruct H as [H He]. apply andb_prop in H. destruct H as [Hr Hc].
  split; [symmetry; apply nlist_eqb_eq, Hr|split; [symmetry; apply counts_eqb_eq, Hc|split; [symmetry; apply Nat.eqb_eq, He|]]].
  apply Bool.eqb_prop in Hb. symmetry. exact Hb.
Qed.

(* ---------------- E. the hook's counts are the live callers ---------------- *)
Definition in_mode (w : bool) (k : nat) (c : caller) : bool := (if w then cw c else negb (cw c)) && mem k (cks c).

Lemma nodup_gt_filter k w : forall l, NoDup (map rpair l) ->
  NoDup (map gt (filter (fun r => Nat.eqb (gk r) k && Bool.eqb (gw r) w) l)).
Proof.
  induction l as [|r l IH]; cbn [map filter]; intros H; [constructor|]. inversion H as [|? ? Hn Hr]; subst.
  destruct (Nat.eqb (gk r) k && Bool.eqb (gw r) w) eqn:E; [|apply IH, Hr]. cbn [map]. constructor; [|apply IH, Hr].
  intros Hin. apply in_map_iff in Hin. destruct Hin as (r' & Eg & Hr'). apply filter_In in Hr'. destruct Hr' as [Hr' E'].
  apply Hn. apply in_map_iff. exists r'. split; [|exact Hr']. unfold rpair. apply andb_prop in E. apply andb_prop in E'.
  destruct E as [E _]. destruct E' as [E' _]. apply Nat.eqb_eq in E. apply Nat.eqb_eq in E'. congruence.
Qed.

Lemma counts_are_callers L s k w : FInv s -> Bk L s -> cntk k w (tregs (tb s)) = length (filter (in_mode w k) L).
Proof.
  intros HF HB. pose proof HF as (_ & (_ & _ & HN) & HR & HTh & _).
  set (A := map gt (filter (fun r => Nat.eqb (gk r) k && Bool.eqb (gw r) w) (tregs (tb s)))).
  set (B := map cid (filter (in_mode w k) L)).
  assert (LA : length A = cntk k w (tregs (tb s))) by (unfold A, cntk; apply map_length).
  assert (LB : length B = length (filter (in_mode w k) L)) by (unfold B; apply map_length).
  rewrite <- LA, <- LB. apply Permutation_length. apply NoDup_Permutation.
  - apply nodup_gt_filter, HN.
  - apply nodup_map_filter. apply HB.
  - intros t. unfold A, B. rewrite !in_map_iff. split.
    + intros (r & Et & Hr). apply filter_In in Hr. destruct Hr as [Hr E]. apply andb_prop in E. destruct E as [E1 E2].
      apply Nat.eqb_eq in E1. apply Bool.eqb_prop in E2. destruct (HR r Hr) as (q & Q1 & Q2 & Q3). rewrite Et in Q1.
      destruct HB as [_ Hb]. specialize (Hb t). rewrite Q1 in Hb. destruct Hb as (_ & ks & Hin & Hp).
      exists (t, (ks, tw q)). split; [reflexivity|]. apply filter_In. split; [exact Hin|]. unfold in_mode. cbn [cw cks snd fst].
      assert (Hm : mem k ks = true).
      { apply mem_in. apply (Permutation_in _ (Permutation_sym Hp)). apply in_map_iff. exists (gk r, go r). split; [cbn [fst]; exact E1|exact Q3]. }
      rewrite Hm, andb_true_r. rewrite <- Q2, E2. destruct w; reflexivity.
    + intros (c & Et & Hc). apply filter_In in Hc. destruct Hc as [Hc E]. unfold in_mode in E. apply andb_prop in E. destruct E as [E1 E2].
      apply mem_in in E2. destruct (bk_lookup L s c HB Hc) as (q & Q1 & Q2 & Q3). destruct (perm_key_pair _ _ k Q3 E2) as [o Ho].
      destruct (HTh (cid c) q Q1) as (_ & Hp & _). exists {| gt := cid c; gk := k; go := o; gw := tw q |}. split; [exact Et|].
      apply filter_In. split; [apply Hp, Ho|]. cbn [gk gw]. rewrite Nat.eqb_refl, Q2. cbn [andb]. destruct w; destruct (cw c); cbn in *; congruence.
Qed.

Lemma counts_ok_of_state nt nk L s o : FInv s -> Bk L s -> obs_eqb (model_obs nt nk s) o = true -> counts_ok nk L o = true.
Proof.
  intros HF HB Ho. destruct (obs_eqb_spec nt nk s o Ho) as (_ & Ec & Ee & _).
  assert (E : present_counts nk s = expect_counts nk L).
  { unfold present_counts, expect_counts. apply flat_map_ext. intros k.
    pose proof (counts_are_callers L s k false HF HB) as Cr. pose proof (counts_are_callers L s k true HF HB) as Cw.
    unfold in_mode in Cr, Cw. cbn [negb] in Cr, Cw.
    replace (length (filter (fun c => negb (cw c) && mem k (cks c)) L)) with (cntk k false (tregs (tb s))) by exact Cr.
    replace (length (filter (fun c => cw c && mem k (cks c)) L)) with (cntk k true (tregs (tb s))) by exact Cw.
    destruct HF as (_ & (HT & _) & _). specialize (HT k). unfold key_counts. destruct (tmap (tb s) k) as [e|].
    - destruct HT as (_ & K2 & K3 & K4 & _). rewrite <- K2, <- K3. cbn [fst snd].
      destruct (Nat.eqb (erc e + ewc e) 0) eqn:Ez; [apply Nat.eqb_eq in Ez; lia|reflexivity].
    - rewrite (cntk_zero k false _ HT), (cntk_zero k true _ HT). reflexivity. }
  unfold counts_ok. rewrite Ec, Ee, E, counts_eqb_refl, Nat.eqb_refl. reflexivity.
Qed.

(* ---------------- F. independence and progress clauses from a quiet related state ---------------- *)
Lemma live_below nt s t q : (forall x, nt <= x -> thr s x = None) -> thr s t = Some q -> t < nt.
Proof. intros HB Ht. destruct (le_lt_dec nt t) as [Hge|Hlt]; [rewrite (HB t Hge) in Ht; discriminate|exact Hlt]. Qed.

Lemma indep_of_state nt nk L s o : FInv s -> Conv (base s) -> fquiet s -> (forall x, nt <= x -> thr s x = None) -> Bk L s ->
  obs_eqb (model_obs nt nk s) o = true -> indep_ok L o = true.
Proof.
  intros HF HC Hq HBd HB Ho. destruct (obs_eqb_spec nt nk s o Ho) as (Er & _). unfold indep_ok. apply forallb_forall. intros c Hc.
  destruct (bk_lookup L s c HB Hc) as (q & Q1 & Q2 & Q3). destruct (returned s (cid c)) eqn:Eret.
  - assert (Hm : mem (cid c) (o_ret o) = true); [|rewrite Hm; reflexivity]. apply mem_in. rewrite Er. apply filter_In.
    split; [apply in_seq; pose proof (live_below nt s _ q HBd Q1); lia|exact Eret].
  - apply orb_true_iff. right. destruct (quiet_independence_inv s (cid c) q HF HC Hq Q1 Eret) as (t' & q' & k & o1 & o2 & Hne & Ht' & I1 & I2 & Hmode).
    destruct HB as [_ Hb]. specialize (Hb t'). rewrite Ht' in Hb. destruct Hb as (_ & ks' & Hin' & Hp').
    apply existsb_exists. exists (t', (ks', tw q')). split; [exact Hin'|]. cbn [cid fst].
    apply andb_true_intro. split; [apply negb_true_iff, Nat.eqb_neq; congruence|].
    unfold conflicts. cbn [cw cks snd fst]. apply andb_true_intro. split.
    + rewrite <- Q2. destruct Hmode as [M|M]; rewrite M; [reflexivity|apply orb_true_r].
    + unfold shares. cbn [cks snd fst]. apply existsb_exists. exists k. split.
      * apply (Permutation_in _ (Permutation_sym Q3)). apply in_map_iff. exists (k, o1). auto.
      * apply mem_in. apply (Permutation_in _ (Permutation_sym Hp')). apply in_map_iff. exists (k, o2). auto.
Qed.

Section ProgressClause.
Variable sh : nat -> nat.
Lemma progress_of_state nt nk L s o : FInv s -> Conv (base s) -> SortedInv sh s -> fquiet s -> (forall x, nt <= x -> thr s x = None) -> Bk L s ->
  obs_eqb (model_obs nt nk s) o = true -> progress_ok L o = true.
Proof.
  intros HF HC HS Hq HBd HB Ho. destruct (obs_eqb_spec nt nk s o Ho) as (Er & _). unfold progress_ok. destruct L as [|c L']; [reflexivity|].
  cbn [is_nil orb]. destruct (bk_lookup (c :: L') s c HB (or_introl eq_refl)) as (q & Q1 & _).
  destruct (quiet_progress_inv sh s nt HF HC HS Hq HBd) as (t & Ht); [exists (cid c); congruence|].
  destruct (returned_spec s t Ht) as (qt & _ & Hqt & _). pose proof (live_below nt s t qt HBd Hqt) as Hlt.
  assert (Hin : In t (o_ret o)) by (rewrite Er; apply filter_In; split; [apply in_seq; lia|exact Ht]).
  destruct (o_ret o); [destruct Hin|reflexivity].
Qed.
End ProgressClause.

(* ---------------- G. the invariants of the replay, round by round ---------------- *)
Definition Good (nt : nat) (L : list caller) (s : fstate) : Prop :=
  FInv s /\ Conv (base s) /\ RunLive (base s) /\ ObjB s /\ (forall x, nt <= x -> thr s x = None) /\ Bk L s.

Lemma good_init nt : Good nt [] finit.
Proof.
  split; [apply finit_inv|split; [apply conv_init|split; [apply runlive_init|split; [intros o _; reflexivity|split; [reflexivity|apply bk_init]]]]].
Qed.

Lemma increasing_sorted l : increasing l = true -> StronglySorted lt l.
Proof.
  intros H. apply Sorted_StronglySorted; [intros a b c; lia|].
  induction l as [|x l IH]; [constructor|]. destruct l as [|y l']; [constructor; constructor|].
  cbn [increasing] in H. apply andb_prop in H. destruct H as [H1 H2]. apply Nat.ltb_lt in H1.
  constructor; [apply IH, H2|constructor; exact H1].
Qed.

Section Replay.
Variable sh : nat -> nat.

Lemma frun_runlive ls : forall s s', RunLive (base s) -> frun sh s ls = Some s' -> RunLive (base s').
Proof.
  induction ls as [|l ls IH]; intros s s' HR H.
  - unfold frun in H. cbn in H. inversion H; subst. exact HR.
  - rewrite frun_cons in H. destruct (fstep sh s l) as [s1|] eqn:E; [|discriminate]. apply (IH s1 s'); [|exact H].
    destruct (fstep_base sh s l s1 E) as [Eb|[bl Eb]]; [rewrite Eb; exact HR|apply (runlive_step _ _ _ HR Eb)].
Qed.
Lemma frun_objb ls : forall s s', FInv s -> ObjB s -> frun sh s ls = Some s' -> ObjB s'.
Proof.
  induction ls as [|l ls IH]; intros s s' HF HO H.
  - unfold frun in H. cbn in H. inversion H; subst. exact HO.
  - rewrite frun_cons in H. destruct (fstep sh s l) as [s1|] eqn:E; [|discriminate].
    apply (IH s1 s' (finv_step sh s l s1 HF E) (objb_step sh s l s1 HF HO E) H).
Qed.

(* the labels of an accepted round: the action's own label, then only internal labels and the actor's table sections *)
Lemma round_shape a ls : labels_ok a ls = true ->
  (exists t ks w rest, a = ACall t ks w /\ ls = FCall t ks w :: rest /\
      forallb (fun l => internal l || match l with FReg x => Nat.eqb x t | _ => false end) rest = true) \/
  (exists t rest, a = ARel t /\ ls = FRelease t :: rest /\
      forallb (fun l => internal l || match l with FUnlock x => Nat.eqb x t | _ => false end) rest = true) \/
  (exists cs, a = ABurst cs /\ burst_labels (map fst cs) cs ls = true).
Proof.
  unfold labels_ok. destruct a as [t ks w|t|cs]; [| |intros H; right; right; exists cs; auto];
    (destruct ls as [|l rest]; try discriminate; destruct l; try discriminate; intros H).
  - apply andb_prop in H. destruct H as [H Hrest]. apply andb_prop in H. destruct H as [H Hw]. apply andb_prop in H. destruct H as [Ht Hks].
    apply Nat.eqb_eq in Ht. apply nlist_eqb_eq in Hks. apply Bool.eqb_prop in Hw. subst. left. eexists _, _, _, rest. auto.
  - apply andb_prop in H. destruct H as [Ht Hrest]. apply Nat.eqb_eq in Ht. subst. right. left. eexists _, rest. auto.
Qed.

(* no label of an accepted round creates a caller at or beyond the bound *)
Definition lbl_below (nt : nat) (l : flabel) : Prop := match l with FCall t _ _ => t < nt | _ => True end.

Lemma thr_stays_none s l s' x : fstep sh s l = Some s' -> thr s x = None -> (forall ks w, l <> FCall x ks w) -> thr s' x = None.
Proof.
  intros H Hn Hne. destruct l as [t ks w|t|t|o i|o|o i|t|t];
    try (rewrite (thr_frame sh s _ s' x H) by (cbn [actor]; discriminate); exact Hn);
    (destruct (Nat.eq_dec t x) as [->|N]; [|rewrite (thr_frame sh s _ s' x H) by (cbn [actor]; congruence); exact Hn]).
  - exfalso. apply (Hne ks w). reflexivity.
  - cbn [fstep] in H. rewrite Hn in H. discriminate.
  - cbn [fstep] in H. rewrite Hn in H. discriminate.
  - cbn [fstep] in H. rewrite Hn in H. discriminate.
Qed.

Lemma frun_bnd nt ls : forall s s', Forall (lbl_below nt) ls -> (forall x, nt <= x -> thr s x = None) -> frun sh s ls = Some s' ->
  forall x, nt <= x -> thr s' x = None.
Proof.
  induction ls as [|l ls IH]; intros s s' Hall HB H.
  - unfold frun in H. cbn in H. inversion H; subst. exact HB.
  - rewrite frun_cons in H. destruct (fstep sh s l) as [s1|] eqn:E; [|discriminate]. inversion Hall as [|? ? Hl Hls]; subst.
    apply (IH s1 s' Hls); [|exact H]. intros x Hx. apply (thr_stays_none s l s1 x E (HB x Hx)).
    intros ks w ->. cbn [lbl_below] in Hl. lia.
Qed.

Lemma tail_below nt (P : flabel -> bool) rest : (forall l, P l = true -> forall t ks w, l <> FCall t ks w) -> forallb P rest = true -> Forall (lbl_below nt) rest.
Proof.
  intros HP H. apply Forall_forall. intros l Hl. rewrite forallb_forall in H. specialize (H l Hl). destruct l; cbn [lbl_below]; try exact I.
  exfalso. exact (HP _ H _ _ _ eq_refl).
Qed.

Lemma round_labels_below nt nk a ls : labels_ok a ls = true -> act_in_range nt nk a = true -> Forall (lbl_below nt) ls.
Proof.
  intros H Hr. destruct (round_shape a ls H) as [(t & ks & w & rest & -> & -> & Hrest)|[(t & rest & -> & -> & Hrest)|(cs & -> & Hb)]].
  - cbn [act_in_range] in Hr. apply andb_prop in Hr. destruct Hr as [Hr _]. apply Nat.ltb_lt in Hr. constructor; [exact Hr|].
    refine (tail_below nt _ rest _ Hrest). intros l Hl t' ks' w' ->. cbn in Hl. discriminate.
  - constructor; [exact I|]. refine (tail_below nt _ rest _ Hrest). intros l Hl t' ks' w' ->. cbn in Hl. discriminate.
  - destruct (burst_split _ cs ls Hb) as (rest & -> & Hrest). apply Forall_app. split.
    + cbn [act_in_range] in Hr. rewrite forallb_forall in Hr. apply Forall_forall. intros l Hl. apply in_map_iff in Hl. destruct Hl as (c & <- & Hc).
      cbn [lbl_below]. specialize (Hr c Hc). apply andb_prop in Hr. destruct Hr as [Hr _]. apply Nat.ltb_lt, Hr.
    + refine (tail_below nt _ rest _ Hrest). intros l Hl t' ks' w' ->. cbn in Hl. discriminate.
Qed.

Lemma good_round nt nk L s a ls s' : Good nt L s -> act_in_range nt nk a = true -> labels_ok a ls = true ->
  frun sh s ls = Some s' -> quiescent nt s' = true -> Good nt (live_after L a) s'.
Proof.
  intros (HF & HC & HR & HO & HBd & HB) Hrange Hlab Hrun Hq.
  split; [apply (frun_inv sh ls s s' HF Hrun)|split; [apply (frun_conv sh ls s s' HC Hrun)|split; [apply (frun_runlive ls s s' HR Hrun)|
    split; [apply (frun_objb ls s s' HF HO Hrun)|split]]]].
  - apply (frun_bnd nt ls s s' (round_labels_below nt nk a ls Hlab Hrange) HBd Hrun).
  - destruct (round_shape a ls Hlab) as [(t & ks & w & rest & -> & -> & Hr)|[(t & rest & -> & -> & Hr)|(cs & -> & Hb)]]; cbn [live_after].
    + cbn [act_in_range] in Hrange. apply andb_prop in Hrange. destruct Hrange as [Hlt _]. apply Nat.ltb_lt in Hlt.
      apply (bk_call_round sh L s t ks w rest s' nt HB Hrun Hr Hq Hlt).
    + cbn [act_in_range] in Hrange. apply Nat.ltb_lt in Hrange. apply (bk_release_round sh L s t rest s' nt HB Hrun Hr Hq Hrange).
    + apply (bk_burst_round sh L s cs ls s' nt HB Hrun Hb Hq). intros c Hc. cbn [act_in_range] in Hrange. rewrite forallb_forall in Hrange.
      specialize (Hrange c Hc). apply andb_prop in Hrange. destruct Hrange as [Hr _]. apply Nat.ltb_lt, Hr.
Qed.
End Replay.

(* ---------------- H. the monitor holds of every case the model accepts and the harness drained ---------------- *)
Section Main.
Variable sh : nat -> nat.

Lemma round_labels_ordered a ls : labels_ok a ls = true -> act_ordered a = true -> Forall (ordered_label) ls.
Proof.
  intros H Ho. assert (Htail : forall (P : flabel -> bool) rest, (forall l, P l = true -> forall t ks w, l <> FCall t ks w) -> forallb P rest = true -> Forall ordered_label rest).
  { intros P rest HP Hr. apply Forall_forall. intros l Hl. rewrite forallb_forall in Hr. specialize (Hr l Hl). destruct l; cbn [ordered_label]; try exact I.
    exfalso. exact (HP _ Hr _ _ _ eq_refl). }
  destruct (round_shape a ls H) as [(t & ks & w & rest & -> & -> & Hr)|[(t & rest & -> & -> & Hr)|(cs & -> & Hb)]].
  - constructor; [cbn [ordered_label]; apply increasing_sorted, Ho|]. refine (Htail _ rest _ Hr). intros l Hl t' ks' w' ->. cbn in Hl. discriminate.
  - constructor; [exact I|]. refine (Htail _ rest _ Hr). intros l Hl t' ks' w' ->. cbn in Hl. discriminate.
  - destruct (burst_split _ cs ls Hb) as (rest & -> & Hrest). apply Forall_app. split.
    + cbn [act_ordered] in Ho. rewrite forallb_forall in Ho. apply Forall_forall. intros l Hl. apply in_map_iff in Hl. destruct Hl as (c & <- & Hc).
      cbn [ordered_label]. apply increasing_sorted, Ho, Hc.
    + refine (Htail _ rest _ Hrest). intros l Hl t' ks' w' ->. cbn in Hl. discriminate.
Qed.

Lemma holds_of_accept nt nk ordered : forall rs s L, Good nt L s ->
  (ordered = true -> SortedInv sh s /\ forallb (fun r => act_ordered (r_act r)) rs = true) ->
  accept_rounds sh nt nk s rs = true -> negb ordered || is_nil (final_live L rs) = true -> holds_rounds ordered nk L rs = true.
Proof.
  induction rs as [|r rs IH]; intros s L HG Hord H Hdr; [exact Hdr|]. cbn [accept_rounds] in H.
  apply andb_prop in H. destruct H as [H Hrun]. apply andb_prop in H. destruct H as [Hrange Hlab].
  destruct (frun sh s (r_labels r)) as [s'|] eqn:Er; [|discriminate].
  apply andb_prop in Hrun. destruct Hrun as [Hrun Hrest]. apply andb_prop in Hrun. destruct Hrun as [Hq Ho].
  pose proof (good_round sh nt nk L s (r_act r) (r_labels r) s' HG Hrange Hlab Er Hq) as HG'.
  pose proof HG as (HF & _). pose proof HG' as (HF' & HC' & HR' & HO' & HBd' & HB').
  pose proof (fquiet_of_bool nt s' HF' HR' HO' HBd' Hq) as Hquiet.
  assert (Hord' : ordered = true -> SortedInv sh s' /\ forallb (fun r => act_ordered (r_act r)) rs = true).
  { intros E. destruct (Hord E) as [HS Hall]. cbn [forallb] in Hall. apply andb_prop in Hall. destruct Hall as [Ha Hall]. split; [|exact Hall].
    apply (frun_sorted sh (r_labels r) s s' (round_labels_ordered _ _ Hlab Ha) HS Er). }
  destruct (obs_eqb_spec nt nk s' (r_obs r) Ho) as (_ & _ & _ & Eb).
  pose proof (safety_of_state _ s' nt nk _ HF' HB' Ho) as Hsafe. unfold safety_round in Hsafe. apply andb_prop in Hsafe. destruct Hsafe as [S1 S2].
  pose proof (indep_of_state nt nk _ s' _ HF' HC' Hquiet HBd' HB' Ho) as S3.
  pose proof (counts_ok_of_state nt nk _ s' _ HF' HB' Ho) as S4.
  assert (S5 : negb ordered || progress_ok (live_after L (r_act r)) (r_obs r) = true).
  { destruct ordered eqn:Eo; [|reflexivity]. cbn [negb orb]. destruct (Hord' eq_refl) as [HS' _].
    apply (progress_of_state sh nt nk _ s' _ HF' HC' HS' Hquiet HBd' HB' Ho). }
  cbn [holds_rounds]. rewrite Eb, S1, S2, S3, S4, S5. cbn [negb andb].
  apply (IH s' _ HG' Hord' Hrest). cbn [final_live fold_left] in Hdr. exact Hdr.
Qed.
End Main.

Theorem model_matches_holds c : model_matches c = true -> drained c = true -> case_holds c = true.
Proof.
  intros H Hd. unfold case_holds. unfold model_matches in H.
  apply (holds_of_accept (shard_of (c_shard c)) (c_nthreads c) (c_nkeys c) (all_ordered (c_rounds c)) (c_rounds c) finit [] (good_init _)); [|exact H|exact Hd].
  intros E. split; [intros t q Hq; discriminate|exact E].
Qed.
Print Assumptions model_matches_holds.
