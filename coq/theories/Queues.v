(* C12 core: the pipe queue (bounded add, prior add, Pop vs PopAnyway, close) and the priority order *)
From Coq Require Import ZArith List Bool Lia Arith.
Import ListNotations.

Record q := { items : list nat; closed : bool; cap : nat }.      (* cap = 0: unbounded *)
Inductive res := Done | Item (x : nat) | ErrClosed | ErrFull | WouldBlock.

Definition add (s : q) (x : nat) : q * res :=
  if closed s then (s, ErrClosed)
  else if Nat.ltb 0 (cap s) && Nat.leb (cap s) (length (items s)) then (s, ErrFull)
  else ({| items := items s ++ [x]; closed := false; cap := cap s |}, Done).
Definition add_prior (s : q) (x : nat) : q * res :=
  if closed s then (s, ErrClosed) else ({| items := x :: items s; closed := false; cap := cap s |}, Done).
Definition pop (check_close : bool) (s : q) : q * res :=
  match items s with
  | [] => if closed s then (s, ErrClosed) else (s, WouldBlock)
  | x :: r => if check_close && closed s then (s, ErrClosed)
              else ({| items := r; closed := closed s; cap := cap s |}, Item x)
  end.
Definition close (s : q) : q := {| items := items s; closed := true; cap := cap s |}.

Theorem add_refused_iff_full s x : closed s = false ->
  (snd (add s x) = ErrFull <-> (0 < cap s /\ cap s <= length (items s))) /\
  (snd (add s x) = Done -> items (fst (add s x)) = items s ++ [x]).
Proof.
  intros Hc. unfold add. rewrite Hc.
  destruct (Nat.ltb 0 (cap s)) eqn:E1; destruct (Nat.leb (cap s) (length (items s))) eqn:E2; cbn [andb fst snd items].
  - apply Nat.ltb_lt in E1. apply Nat.leb_le in E2. split; [split; auto | discriminate].
  - apply Nat.ltb_lt in E1. apply Nat.leb_gt in E2. split; [split; [discriminate | lia] | reflexivity].
  - apply Nat.ltb_ge in E1. split; [split; [discriminate | lia] | reflexivity].
  - apply Nat.ltb_ge in E1. split; [split; [discriminate | lia] | reflexivity].
Qed.

Theorem prior_ignores_bound s x : closed s = false -> add_prior s x = ({| items := x :: items s; closed := false; cap := cap s |}, Done).
Proof. intros Hc. unfold add_prior. now rewrite Hc. Qed.

Theorem closed_refuses s x : closed s = true -> snd (add s x) = ErrClosed /\ snd (add_prior s x) = ErrClosed.
Proof. intros Hc. unfold add, add_prior. now rewrite Hc. Qed.

(* after close: Pop fails even with items, PopAnyway hands out the rest in order and only then reports closed *)
Theorem pop_after_close s : closed s = true ->
  snd (pop true s) = ErrClosed /\
  match items s with
  | [] => snd (pop false s) = ErrClosed
  | x :: r => pop false s = ({| items := r; closed := true; cap := cap s |}, Item x)
  end.
Proof. intros Hc. unfold pop. rewrite Hc. destruct (items s); cbn; auto. Qed.

(* ---------- PriQueue: Less is a strict total order on (priority, sequence) with distinct sequences ---------- *)
Definition less (a b : Z * Z) : bool :=          (* (priority, seq): higher priority first, then earlier seq *)
  if (fst a =? fst b)%Z then (snd a <? snd b)%Z else (fst b <? fst a)%Z.

Lemma less_irrefl a : less a a = false.
Proof. unfold less. rewrite Z.eqb_refl. apply Z.ltb_irrefl. Qed.
Lemma less_trans a b c : less a b = true -> less b c = true -> less a c = true.
Proof.
  unfold less. destruct (Z.eqb_spec (fst a) (fst b)), (Z.eqb_spec (fst b) (fst c)), (Z.eqb_spec (fst a) (fst c));
    rewrite ?Z.ltb_lt; try lia.
Qed.
Lemma less_total a b : snd a <> snd b -> less a b = true \/ less b a = true.
Proof.
  unfold less. intros H. destruct (Z.eqb_spec (fst a) (fst b)), (Z.eqb_spec (fst b) (fst a)); rewrite ?Z.ltb_lt; try lia.
Qed.

(* heap.Pop returns a Less-minimum (container/heap's contract); such a minimum has the highest priority,
   and among the entries of that priority the smallest sequence number, i.e. it was pushed first *)
Theorem min_is_highest_then_oldest (m : Z * Z) (l : list (Z * Z)) :
  In m l -> (forall x, In x l -> less x m = false) ->
  forall x, In x l -> (fst x <= fst m)%Z /\ (fst x = fst m -> (snd m <= snd x)%Z).
Proof.
  intros Hin Hmin x Hx. specialize (Hmin x Hx). unfold less in Hmin.
  destruct (Z.eqb_spec (fst x) (fst m)); [apply Z.ltb_ge in Hmin | apply Z.ltb_ge in Hmin]; split; lia.
Qed.
Print Assumptions add_refused_iff_full.
Print Assumptions min_is_highest_then_oldest.
