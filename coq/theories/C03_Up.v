(* C03: node.remove keeps the upper bound (item-level version of BTUp.v) *)
From Coq Require Import ZArith List Lia Bool Sorting.Sorted.
Require Import C03_Model C03_Spec C03_D C03_Ins C03_Sel C03_Inv C03_InsInv.
Import ListNotations.
Local Coercion key : item >-> Z.

Section Up.
Variable minI : nat.
Hypothesis minI_pos : (1 <= minI)%nat.
Notation maxI := (maxI_of minI).
Notation upper := (upper minI).
Notation occ := (occ minI).
Notation ok_rm := (ok_rm minI).
Definition Q (h : nat) (c : inode) : Prop := (length (iitems c) <= maxI)%nat /\ upper h c.

(* grow_cases once more, keeping the sizes the three branches of igrow have tested *)
Lemma grow_cases2 its ch i :
  length ch = S (length its) -> (i <= length its)%nat -> (1 <= length its)%nat ->
  (length (iitems (nth i ch dinode)) <= minI)%nat ->
  let g := igrow minI (INode its ch) i in
  (exists a x b ca L C cb, its = a ++ x :: b /\ ch = ca ++ L :: C :: cb /\ (length (iitems C) <= minI)%nat /\
     g = INode (a ++ last (iitems L) ditem%Z :: b) (ca ++ left_of L :: child_after_left x L C :: cb)) \/
  (exists a x b ca C R cb, its = a ++ x :: b /\ ch = ca ++ C :: R :: cb /\ (length (iitems C) <= minI)%nat /\
     g = INode (a ++ hd ditem (iitems R) :: b) (ca ++ child_after_right x C R :: right_of R :: cb)) \/
  (exists a x b ca C M cb, its = a ++ x :: b /\ ch = ca ++ C :: M :: cb /\
     (length (iitems C) <= minI)%nat /\ (length (iitems M) <= minI)%nat /\
     g = INode (a ++ b) (ca ++ merged x C M :: cb)).
Proof.
  intros Hl Hi H1 Hsmall. unfold igrow. cbn [iitems ichildren]. unfold nth_inode. cbv zeta.
  destruct (Nat.ltb 0 i && Nat.ltb minI (length (iitems (nth (i - 1) ch dinode)))) eqn:E1.
  - left. apply andb_prop in E1 as [Ei Em]. apply Nat.ltb_lt in Ei. apply Nat.ltb_lt in Em.
    destruct (split2 its ch (i - 1) Hl ltac:(lia)) as (a & x & b & ca & L & C & cb & -> & -> & Ha & Hca & Hcb).
    set (j := (i - 1)%nat) in *. replace i with (S j) in * by lia.
    rewrite (nth_app_len' ca L (C :: cb) dinode j Hca) in *.
    rewrite (nth_app_len_S' ca L C cb dinode j Hca) in *.
    rewrite (nth_app_len' a x b ditem j Ha), (set_at_app' a x b _ j Ha).
    rewrite (set_at_app' ca L (C :: cb) _ j Hca), (set_at_app_S' ca _ C cb _ j Hca).
    exists a, x, b, ca, L, C, cb. repeat split; auto.
  - right.
    destruct (Nat.ltb i (length its) && Nat.ltb minI (length (iitems (nth (S i) ch dinode)))) eqn:E2.
    + left. apply andb_prop in E2 as [Ei Em]. apply Nat.ltb_lt in Ei. apply Nat.ltb_lt in Em.
      destruct (split2 its ch i Hl Ei) as (a & x & b & ca & C & R & cb & -> & -> & Ha & Hca & Hcb).
      rewrite (nth_app_len_S' ca C R cb dinode i Hca) in *.
      rewrite (nth_app_len' ca C (R :: cb) dinode i Hca) in *.
      rewrite (nth_app_len' a x b ditem i Ha), (set_at_app' a x b _ i Ha).
      rewrite (set_at_app' ca C (R :: cb) _ i Hca), (set_at_app_S' ca _ R cb _ i Hca).
      exists a, x, b, ca, C, R, cb. repeat split; auto.
    + right.
      assert (F1 : (0 < i)%nat -> (length (iitems (nth (i - 1) ch dinode)) <= minI)%nat).
      { intros Hp. apply andb_false_iff in E1. destruct E1 as [E|E]; [apply Nat.ltb_ge in E; lia | apply Nat.ltb_ge in E; exact E]. }
      assert (F2 : (i < length its)%nat -> (length (iitems (nth (S i) ch dinode)) <= minI)%nat).
      { intros Hp. apply andb_false_iff in E2. destruct E2 as [E|E]; [apply Nat.ltb_ge in E; lia | apply Nat.ltb_ge in E; exact E]. }
      set (i' := if Nat.leb (length its) i then (i - 1)%nat else i).
      assert (Hi' : (i' < length its)%nat /\ ((i = i' /\ (i < length its)%nat) \/ (i = S i'))).
      { subst i'. destruct (Nat.leb (length its) i) eqn:E; [apply Nat.leb_le in E | apply Nat.leb_gt in E]; lia. }
      destruct Hi' as [Hi' Hii]. clearbody i'.
      destruct (split2 its ch i' Hl Hi') as (a & x & b & ca & C & M & cb & -> & -> & Ha & Hca & Hcb).
      rewrite (nth_app_len' ca C (M :: cb) dinode i' Hca), (nth_app_len_S' ca C M cb dinode i' Hca).
      rewrite (nth_app_len' a x b ditem i' Ha), (remove_at_app' a x b i' Ha).
      rewrite (set_at_app' ca C (M :: cb) _ i' Hca), (remove_at_app_S' ca _ M cb i' Hca).
      exists a, x, b, ca, C, M, cb.
      assert (HC : (length (iitems C) <= minI)%nat /\ (length (iitems M) <= minI)%nat).
      { destruct Hii as [[-> Hlt]| ->].
        - rewrite (nth_app_len' ca C (M :: cb) dinode i' Hca) in Hsmall.
          specialize (F2 Hlt). rewrite (nth_app_len_S' ca C M cb dinode i' Hca) in F2. auto.
        - rewrite (nth_app_len_S' ca C M cb dinode i' Hca) in Hsmall.
          specialize (F1 ltac:(lia)). replace (S i' - 1)%nat with i' in F1 by lia.
          rewrite (nth_app_len' ca C (M :: cb) dinode i' Hca) in F1. auto. }
      destruct HC. repeat split; auto.
Qed.

Lemma upper_children h n : upper (S h) n = Forall (Q h) (ichildren n).
Proof. reflexivity. Qed.

Lemma in_removelast {A} (l : list A) x : In x (removelast l) -> In x l.
Proof. induction l as [|a l IH]; [auto|]. cbn [removelast]. destruct l as [|b l]; [intros []|]. intros [->|H]; [left; auto|right; auto]. Qed.
Lemma in_tl {A} (l : list A) x : In x (tl l) -> In x l.
Proof. destruct l; cbn; auto. Qed.
Lemma last_in' {A} (l : list A) d : l <> [] -> In (last l d) l.
Proof. induction l as [|a l IH]; [congruence|]. intros _. destruct l as [|b l]; [left; reflexivity|]. right. apply IH. discriminate. Qed.
Lemma hd_in {A} (l : list A) d : l <> [] -> In (hd d l) l.
Proof. destruct l; [congruence|]. left. reflexivity. Qed.
Lemma is_nil_false {A} (l : list A) : is_nil l = false -> l <> [].
Proof. destruct l; [discriminate|discriminate]. Qed.

(* a inode built from children of well-bounded nodes is well-bounded below itself *)
Lemma upper_from h its cs (src : list inode) :
  (forall x, In x cs -> exists s, In s src /\ In x (ichildren s)) ->
  Forall (fun s => upper h s) src -> upper h (INode its cs).
Proof.
  destruct h as [|h]; [intros; exact I|]. cbn [C03_InsInv.upper ichildren]. intros Hin Hf.
  apply Forall_forall. intros x Hx. destruct (Hin x Hx) as (s & Hs & Hxs).
  rewrite Forall_forall in Hf. specialize (Hf s Hs). rewrite Forall_forall in Hf. apply Hf, Hxs.
Qed.

Lemma grow_upper h its ch i :
  length ch = S (length its) -> (i <= length its)%nat -> (1 <= length its)%nat ->
  (length (iitems (nth i ch dinode)) <= minI)%nat ->
  upper (S h) (INode its ch) ->
  upper (S h) (igrow minI (INode its ch) i) /\ (length (iitems (igrow minI (INode its ch) i)) <= length its)%nat.
Proof.
  intros Hl Hi H1 Hsmall Hu. cbn [C03_InsInv.upper ichildren] in Hu.
  destruct (grow_cases2 its ch i Hl Hi H1 Hsmall) as
    [(a & x & b & ca & L & C & cb & -> & -> & HC & ->) | [(a & x & b & ca & C & R & cb & -> & -> & HC & ->) | (a & x & b & ca & C & M & cb & -> & -> & HC & HM & ->)]];
    cbn [C03_InsInv.upper ichildren iitems].
  - apply Forall_app in Hu as [Hua Hu]. inversion Hu as [|? ? [HL UL] Hu']; subst. inversion Hu' as [|? ? [HCm UC] Hub]; subst.
    split; [|rewrite !app_length; cbn [length]; lia].
    apply Forall_app. split; [exact Hua|]. constructor; [|constructor; [|exact Hub]].
    + split.
      * unfold left_of. cbn [iitems]. destruct (iitems L) as [|y l]; [cbn; lia|]. rewrite length_removelast by discriminate. cbn [length] in *. lia.
      * unfold left_of. apply (upper_from h _ _ [L]); [|constructor; [exact UL|constructor]].
        intros z Hz. exists L. split; [left; reflexivity|]. cbn [ichildren] in Hz. apply in_removelast, Hz.
    + split.
      * unfold child_after_left. cbn [iitems length]. unfold maxI_of. lia.
      * unfold child_after_left. apply (upper_from h _ _ [L; C]); [|constructor; [exact UL|constructor; [exact UC|constructor]]].
        intros z Hz. destruct (is_nil (ichildren L)) eqn:En.
        -- exists C. split; [right; left; reflexivity|exact Hz].
        -- destruct Hz as [<-|Hz]; [exists L; split; [left; reflexivity|apply last_in', is_nil_false, En] | exists C; split; [right; left; reflexivity|exact Hz]].
  - apply Forall_app in Hu as [Hua Hu]. inversion Hu as [|? ? [HCm UC] Hu']; subst. inversion Hu' as [|? ? [HR UR] Hub]; subst.
    split; [|rewrite !app_length; cbn [length]; lia].
    apply Forall_app. split; [exact Hua|]. constructor; [|constructor; [|exact Hub]].
    + split.
      * unfold child_after_right. cbn [iitems]. rewrite app_length. cbn [length]. unfold maxI_of. lia.
      * unfold child_after_right. apply (upper_from h _ _ [C; R]); [|constructor; [exact UC|constructor; [exact UR|constructor]]].
        intros z Hz. destruct (is_nil (ichildren R)) eqn:En.
        -- exists C. split; [left; reflexivity|exact Hz].
        -- apply in_app_or in Hz. destruct Hz as [Hz|[<-|[]]]; [exists C; split; [left; reflexivity|exact Hz] | exists R; split; [right; left; reflexivity|apply hd_in, is_nil_false, En]].
    + split.
      * unfold right_of. cbn [iitems]. destruct (iitems R); cbn [tl length] in *; lia.
      * unfold right_of. apply (upper_from h _ _ [R]); [|constructor; [exact UR|constructor]].
        intros z Hz. exists R. split; [left; reflexivity|]. cbn [ichildren] in Hz. apply in_tl, Hz.
  - apply Forall_app in Hu as [Hua Hu]. inversion Hu as [|? ? [HCm UC] Hu']; subst. inversion Hu' as [|? ? [HMm UM] Hub]; subst.
    split; [|rewrite !app_length; cbn [length]; lia].
    apply Forall_app. split; [exact Hua|]. constructor; [|exact Hub].
    split.
    + unfold merged. cbn [iitems]. rewrite app_length. cbn [length]. unfold maxI_of. lia.
    + unfold merged. apply (upper_from h _ _ [C; M]); [|constructor; [exact UC|constructor; [exact UM|constructor]]].
      intros z Hz. apply in_app_or in Hz. destruct Hz as [Hz|Hz]; [exists C; split; [left; reflexivity|exact Hz] | exists M; split; [right; left; reflexivity|exact Hz]].
Qed.

Theorem remove_upper : forall fuel h n t n' out,
  shaped h n -> occ h n -> ok_rm n -> upper h n ->
  iremove fuel minI n t = Some (n', out) ->
  upper h n' /\ (length (iitems n') <= length (iitems n))%nat.
Proof.
  induction fuel as [|f IH]; intros h n t n' out Hsh Hoc Hok Hup H; [discriminate|].
  destruct n as [its ch]. cbn [iremove iitems ichildren] in H.
  destruct h as [|h].
  - (* leaf *)
    cbn in Hsh. subst ch. cbn [is_nil] in H. split; [exact I|].
    destruct t as [k| |]; cbn in H.
    + destruct (ifind its k) as [i found]. destruct found; inversion H; subst; clear H; cbn [iitems]; [|lia].
      unfold remove_at. rewrite app_length, skipn_length, firstn_length. lia.
    + inversion H; subst; clear H. cbn [iitems]. destruct its; cbn; lia.
    + inversion H; subst; clear H. cbn [iitems]. destruct its as [|x r]; [cbn; lia|]. rewrite length_removelast by discriminate. cbn. lia.
  - (* internal *)
    pose proof Hsh as Hsh0. pose proof Hoc as Hoc0. pose proof Hup as Hup0.
    destruct Hsh as [Hl Hf]. cbn [iitems ichildren] in Hl, Hf. cbn [C03_D.occ ichildren] in Hoc. cbn [C03_InsInv.upper ichildren] in Hup.
    assert (Hnil : is_nil ch = false) by (destruct ch; [cbn in Hl; lia | reflexivity]). rewrite Hnil in H.
    assert (Hstep : forall i found, (i <= length its)%nat -> (found = true -> (i < length its)%nat) ->
      (let c := nth_inode ch i in
       if Nat.leb (length (iitems c)) minI then iremove f minI (igrow minI (INode its ch) i) t else
       if found then match iremove f minI c IRmMax with
                     | Some (c', Some m) => Some (INode (set_at its i m) (set_at ch i c'), Some (nth i its ditem))
                     | _ => None end
       else match iremove f minI c t with Some (c', o) => Some (INode its (set_at ch i c'), o) | None => None end)
      = Some (n', out) ->
      upper (S h) n' /\ (length (iitems n') <= length its)%nat).
    { clear H. intros i found Hi Hfound H. cbv zeta in H. unfold nth_inode in H.
      assert (Hilt : (i < length ch)%nat) by lia.
      assert (Hcin : In (nth i ch dinode) ch) by (apply nth_In; exact Hilt).
      destruct (Nat.leb (length (iitems (nth i ch dinode))) minI) eqn:Esmall.
      - apply Nat.leb_le in Esmall.
        assert (H1 : (1 <= length its)%nat).
        { destruct Hok as [Hok|Hok]; [exact Hok|]. cbn [ichildren] in Hok. rewrite Forall_forall in Hok. specialize (Hok _ Hcin). lia. }
        pose proof (grow_cases minI its ch i Hl Hi H1 Esmall) as Hc.
        destruct (grow_good minI minI_pos h its ch i _ Hsh0 Hoc0 Hc) as (Gs & Go & Gk).
        destruct (grow_upper h its ch i Hl Hi H1 Esmall Hup0) as [Gu Gl].
        destruct (IH (S h) _ t n' out Gs Go Gk Gu H) as [A B]. split; [exact A|lia].
      - apply Nat.leb_gt in Esmall.
        assert (Hcsh : shaped h (nth i ch dinode)) by (rewrite Forall_forall in Hf; auto).
        assert (Hcoc : occ h (nth i ch dinode)) by (rewrite Forall_forall in Hoc; apply Hoc; auto).
        assert (Hcup : Q h (nth i ch dinode)) by (rewrite Forall_forall in Hup; apply Hup; auto).
        assert (Hcok : ok_rm (nth i ch dinode)) by (left; lia).
        destruct Hcup as [Hcm Hcu].
        destruct found.
        + destruct (iremove f minI (nth i ch dinode) IRmMax) as [[c' [m|]]|] eqn:Er; try discriminate.
          inversion H; subst n' out; clear H.
          destruct (IH h _ IRmMax c' (Some m) Hcsh Hcoc Hcok Hcu Er) as [A B].
          cbn [C03_InsInv.upper ichildren iitems]. split; [|rewrite length_set_at by (apply Hfound; reflexivity); lia].
          apply Forall_set_at; [exact Hup|]. split; [lia|exact A].
        + destruct (iremove f minI (nth i ch dinode) t) as [[c' o]|] eqn:Er; try discriminate.
          inversion H; subst n' out; clear H.
          destruct (IH h _ t c' o Hcsh Hcoc Hcok Hcu Er) as [A B].
          cbn [C03_InsInv.upper ichildren iitems]. split; [|lia].
          apply Forall_set_at; [exact Hup|]. split; [lia|exact A]. }
    destruct t as [k| |].
    + destruct (ifind its k) as [i found] eqn:Ef. destruct (find_bound its k i found Ef) as [Hi Hfi].
      apply (Hstep i found Hi Hfi). exact H.
    + apply (Hstep 0%nat false ltac:(lia) ltac:(discriminate)). exact H.
    + apply (Hstep (length its) false ltac:(lia) ltac:(discriminate)). exact H.
Qed.
End Up.
